(* C04 - proofs about Core.v (any decoder) and their corollaries for Model.v's server. *)
From Coq Require Import List ZArith NArith Bool Arith Lia DecimalNat.
From Arc Require Import NoCrash.Core NoCrash.Model.
Import ListNotations.

(* ------------------------------------------------------------------------------------ *)
(* bytes, keys, association lists                                                         *)

Lemma beqb_spec : forall a b : bytes, reflect (a = b) (beqb a b).
Proof.
  induction a as [|x a IH]; destruct b as [|y b]; cbn; try (constructor; congruence).
  destruct (N.eqb_spec x y) as [->|Hne]; cbn.
  - destruct (IH b) as [->|Hne]; constructor; congruence.
  - constructor; congruence.
Qed.

Lemma beqb_refl a : beqb a a = true.
Proof. destruct (beqb_spec a a); congruence. Qed.

Lemma beqb_eq a b : beqb a b = true -> a = b.
Proof. destruct (beqb_spec a b); congruence. Qed.

Lemma key_eqb_spec : forall a b : key, reflect (a = b) (key_eqb a b).
Proof.
  intros [a1 a2] [b1 b2]. unfold key_eqb; cbn.
  destruct (beqb_spec a1 b1) as [->|H1]; cbn.
  - destruct (beqb_spec a2 b2) as [->|H2]; constructor; congruence.
  - constructor; congruence.
Qed.

Lemma key_eqb_refl k : key_eqb k k = true.
Proof. destruct (key_eqb_spec k k); congruence. Qed.

Lemma alookup_in {V} k (l : list (bytes * V)) v : alookup k l = Some v -> In (k, v) l.
Proof.
  induction l as [|[k' v'] r IH]; cbn; [discriminate|].
  destruct (beqb_spec k k') as [->|Hne]; intros H.
  - inversion H; subst. now left.
  - right. now apply IH.
Qed.

Lemma nodup_fst_unique {V} (l : list (bytes * V)) k v1 v2 :
  NoDup (map fst l) -> In (k, v1) l -> In (k, v2) l -> v1 = v2.
Proof.
  induction l as [|[k' v'] r IH]; cbn; [tauto|].
  intros Hnd H1 H2. inversion Hnd as [|? ? Hn Hd]; subst.
  destruct H1 as [E1|H1], H2 as [E2|H2].
  - congruence.
  - inversion E1; subst. exfalso. apply Hn. apply in_map_iff. now exists (k, v2).
  - inversion E2; subst. exfalso. apply Hn. apply in_map_iff. now exists (k, v1).
  - now apply IH.
Qed.

Lemma alookup_map_snd {V W} (h : bytes * V -> W) k (l : list (bytes * V)) v :
  alookup k l = Some v -> alookup k (map (fun e => (fst e, h e)) l) = Some (h (k, v)).
Proof.
  induction l as [|[k' v'] r IH]; cbn; [discriminate|].
  destruct (beqb_spec k k') as [->|Hne]; intros H.
  - now inversion H.
  - now apply IH.
Qed.

Lemma alookup_app_some {V} k (l1 l2 : list (bytes * V)) v :
  alookup k l1 = Some v -> alookup k (l1 ++ l2) = Some v.
Proof.
  induction l1 as [|[k' v'] r IH]; cbn; [discriminate|].
  destruct (beqb k k'); [trivial|apply IH].
Qed.

Lemma alookup_app_none {V} k (l1 l2 : list (bytes * V)) :
  alookup k l1 = None -> alookup k (l1 ++ l2) = alookup k l2.
Proof.
  induction l1 as [|[k' v'] r IH]; cbn; [trivial|].
  destruct (beqb k k'); [discriminate|apply IH].
Qed.

Lemma existsb_false {A} (f : A -> bool) l : (forall x, In x l -> f x = false) -> existsb f l = false.
Proof.
  induction l as [|x r IH]; cbn; intros H; [reflexivity|].
  rewrite (H x (or_introl eq_refl)). apply IH. intros y Hy. apply H. now right.
Qed.

Lemma nodupb_sound l : nodupb l = true -> NoDup l.
Proof.
  induction l as [|x r IH]; cbn; intros H; [constructor|].
  apply andb_true_iff in H as [H1 H2]. constructor; [|now apply IH].
  intros Hin. apply negb_true_iff in H1.
  assert (existsb (beqb x) r = true); [|congruence].
  apply existsb_exists. exists x. split; [exact Hin|apply beqb_refl].
Qed.

(* ------------------------------------------------------------------------------------ *)
(* the guard as a proposition                                                             *)

Record batch_ok (b : tbatch) : Prop := {
  bo_nodup : NoDup (map fst (tb_cols b));
  bo_len : forall c, In c (tb_cols b) -> len_of (snd c) = tb_n b;
  bo_time : exists l, alookup k_time (tb_cols b) = Some (DI l)
}.

Lemma batch_okb_sound b : batch_okb b = true -> batch_ok b.
Proof.
  unfold batch_okb. intros H.
  apply andb_true_iff in H as [H Ht]. apply andb_true_iff in H as [Hd Hl].
  constructor.
  - now apply nodupb_sound.
  - intros c Hc. rewrite forallb_forall in Hl. apply Nat.eqb_eq. now apply Hl.
  - destruct (alookup k_time (tb_cols b)) as [[l| | |]|]; try discriminate. now exists l.
Qed.

Definition rec_ok (r : rec) : Prop := match r with RBatch _ b => batch_ok b | RFail => True end.

Lemma rec_okb_sound r : rec_okb r = true -> rec_ok r.
Proof. destruct r; cbn; [apply batch_okb_sound|trivial]. Qed.

Lemma name_ok_counted n : name_ok n = true -> counted n = true.
Proof. unfold name_ok. intros H. now apply andb_true_iff in H as [H _]. Qed.

Lemma name_ok_no_comma n : name_ok n = true -> ~ In c_comma n.
Proof.
  unfold name_ok. intros H. apply andb_true_iff in H as [_ H]. unfold no_comma in H.
  rewrite forallb_forall in H. intros Hin. specialize (H _ Hin).
  rewrite N.eqb_refl in H. discriminate.
Qed.

Lemma counted_nonempty n : counted n = true -> n <> [].
Proof. destruct n; cbn; congruence. Qed.

(* ------------------------------------------------------------------------------------ *)
(* the signature string determines the (name, type) entries when names carry no ','       *)

Lemma app_sep_inj (c : N) : forall a b r1 r2,
  ~ In c a -> ~ In c b -> a ++ c :: r1 = b ++ c :: r2 -> a = b /\ r1 = r2.
Proof.
  induction a as [|x a IH]; intros [|y b] r1 r2 Ha Hb H; cbn in *.
  - inversion H. auto.
  - inversion H; subst. exfalso. apply Hb. now left.
  - inversion H; subst. exfalso. apply Ha. now left.
  - inversion H; subst.
    destruct (IH b r1 r2) as [-> ->]; auto.
Qed.

Lemma app_sep_absurd (c : N) a b r : ~ In c a -> a = b ++ c :: r -> False.
Proof. intros Ha ->. apply Ha. apply in_or_app. right. now left. Qed.

Lemma tystr_no_comma t : ~ In c_comma (tystr t).
Proof. destruct t; cbn; unfold c_comma; intros H; repeat (destruct H as [H|H]; [discriminate|]); exact H. Qed.

Lemma tystr_no_colon t : ~ In c_colon (tystr t).
Proof. destruct t; cbn; unfold c_colon; intros H; repeat (destruct H as [H|H]; [discriminate|]); exact H. Qed.

Lemma tystr_inj t1 t2 : tystr t1 = tystr t2 -> t1 = t2.
Proof. destruct t1, t2; cbn; intros H; try reflexivity; discriminate. Qed.

Lemma entry_no_comma e : ~ In c_comma (fst e) -> ~ In c_comma (entry e).
Proof.
  intros Hn H. unfold entry in H. apply in_app_or in H as [H|[H|H]].
  - now apply Hn.
  - discriminate.
  - now apply (tystr_no_comma (snd e)).
Qed.

Lemma entry_nonempty e : entry e <> [].
Proof. unfold entry. destruct (fst e); discriminate. Qed.

Lemma entry_inj e1 e2 : entry e1 = entry e2 -> e1 = e2.
Proof.
  destruct e1 as [n1 t1], e2 as [n2 t2]. unfold entry; cbn. intros H.
  apply (f_equal (@rev N)) in H.
  rewrite !rev_app_distr in H. cbn in H. rewrite <- !app_assoc in H. cbn in H.
  apply app_sep_inj in H as [Ht Hn].
  - apply (f_equal (@rev N)) in Ht, Hn. rewrite !rev_involutive in Ht, Hn.
    apply tystr_inj in Ht. congruence.
  - rewrite <- in_rev. apply tystr_no_colon.
  - rewrite <- in_rev. apply tystr_no_colon.
Qed.

Lemma join_cons2 x y r : join (x :: y :: r) = x ++ c_comma :: join (y :: r).
Proof. reflexivity. Qed.

Lemma join_inj : forall l1 l2,
  (forall x, In x l1 -> ~ In c_comma x /\ x <> []) ->
  (forall x, In x l2 -> ~ In c_comma x /\ x <> []) ->
  join l1 = join l2 -> l1 = l2.
Proof.
  induction l1 as [|x l1 IH]; intros l2 H1 H2 H.
  - destruct l2 as [|y [|z l2]]; [reflexivity| |].
    + cbn in H. destruct (H2 y (or_introl eq_refl)) as [_ Hy]. congruence.
    + rewrite join_cons2 in H. cbn in H. destruct y; discriminate.
  - destruct l1 as [|x' l1].
    + destruct l2 as [|y [|z l2]].
      * cbn in H. destruct (H1 x (or_introl eq_refl)) as [_ Hx]. congruence.
      * cbn in H. now subst.
      * rewrite join_cons2 in H. cbn [join] in H. exfalso.
        destruct (H1 x (or_introl eq_refl)) as [Hx _].
        eapply app_sep_absurd; [exact Hx|exact H].
    + destruct l2 as [|y [|z l2]].
      * rewrite join_cons2 in H. cbn [join] in H. destruct x; discriminate.
      * rewrite join_cons2 in H. cbn [join] in H. exfalso.
        destruct (H2 y (or_introl eq_refl)) as [Hy _].
        eapply app_sep_absurd; [exact Hy|symmetry; exact H].
      * rewrite !join_cons2 in H.
        destruct (H1 x (or_introl eq_refl)) as [Hx _].
        destruct (H2 y (or_introl eq_refl)) as [Hy _].
        apply app_sep_inj in H as [-> Hr]; auto.
        f_equal. apply IH; auto.
        -- intros w Hw. apply H1. now right.
        -- intros w Hw. apply H2. now right.
Qed.

Lemma map_entry_inj l1 l2 : map entry l1 = map entry l2 -> l1 = l2.
Proof.
  revert l2. induction l1 as [|a l1 IH]; intros [|b l2] H; cbn in H; try discriminate; [reflexivity|].
  inversion H as [[Ha Hr]]. apply entry_inj in Ha. subst. f_equal. now apply IH.
Qed.

Lemma ins_sorted_in e l x : In x (ins_sorted e l) <-> x = e \/ In x l.
Proof.
  induction l as [|y r IH]; cbn; [intuition|].
  destruct (bltb (fst e) (fst y)); cbn; [intuition|].
  rewrite IH. intuition.
Qed.

Lemma isort_in l x : In x (isort l) <-> In x l.
Proof.
  induction l as [|y r IH]; cbn; [tauto|].
  rewrite ins_sorted_in, IH. intuition.
Qed.

Lemma filter_all {A} (f : A -> bool) l : (forall x, In x l -> f x = true) -> filter f l = l.
Proof.
  induction l as [|x r IH]; cbn; intros H; [reflexivity|].
  rewrite (H x (or_introl eq_refl)). f_equal. apply IH. intros y Hy. apply H. now right.
Qed.

Lemma col_types_in cols n t : In (n, t) (col_types cols) <-> exists d, In (n, d) cols /\ ty_of d = t.
Proof.
  unfold col_types. rewrite in_map_iff. split.
  - intros [[n' d] [E Hin]]. cbn in E. inversion E; subst. now exists d.
  - intros [d [Hin E]]. exists (n, d). cbn. split; [now subst|exact Hin].
Qed.

Lemma all_plain_names cols c : all_plain cols = true -> In c cols -> name_ok (fst c) = true.
Proof. unfold all_plain. rewrite forallb_forall. auto. Qed.

Lemma sig_entries_plain cols : all_plain cols = true -> sig_entries cols = isort (col_types cols).
Proof.
  intros Hp. unfold sig_entries. f_equal. apply filter_all.
  intros [n t] Hin. cbn. apply (proj1 (col_types_in _ _ _)) in Hin as [d [Hin _]].
  apply name_ok_counted. exact (all_plain_names cols (n, d) Hp Hin).
Qed.

(* plain names: the signature string determines the sorted (name, type) list *)
Lemma plain_key_entries c1 c2 :
  all_plain c1 = true -> all_plain c2 = true ->
  join (map entry (sig_entries c1)) = join (map entry (sig_entries c2)) ->
  isort (col_types c1) = isort (col_types c2).
Proof.
  intros H1 H2 H. rewrite (sig_entries_plain c1 H1), (sig_entries_plain c2 H2) in H.
  apply map_entry_inj. apply join_inj; [| |exact H].
  - intros x Hx. apply in_map_iff in Hx as [[n t] [<- Hin]].
    split; [|apply entry_nonempty]. apply entry_no_comma. cbn.
    apply (proj1 (isort_in _ _)) in Hin. apply (proj1 (col_types_in _ _ _)) in Hin as [d [Hin _]].
    apply name_ok_no_comma. exact (all_plain_names c1 (n, d) H1 Hin).
  - intros x Hx. apply in_map_iff in Hx as [[n t] [<- Hin]].
    split; [|apply entry_nonempty]. apply entry_no_comma. cbn.
    apply (proj1 (isort_in _ _)) in Hin. apply (proj1 (col_types_in _ _ _)) in Hin as [d [Hin _]].
    apply name_ok_no_comma. exact (all_plain_names c2 (n, d) H2 Hin).
Qed.

(* the length-prefixed encoding: decimal lengths *)
Lemma uint_bytes_inj : forall u v, uint_bytes u = uint_bytes v -> u = v.
Proof.
  induction u; destruct v; cbn; intros H; try reflexivity; try discriminate;
    inversion H; f_equal; auto.
Qed.

Lemma uint_bytes_no_colon u : ~ In c_colon (uint_bytes u).
Proof.
  induction u; cbn; unfold c_colon in *; intros H; try tauto;
    (destruct H as [H|H]; [discriminate|auto]).
Qed.

Lemma dec_nat_inj a b : dec_nat a = dec_nat b -> a = b.
Proof.
  unfold dec_nat. intros H. apply uint_bytes_inj in H.
  rewrite <- (Unsigned.of_to a), <- (Unsigned.of_to b). now rewrite H.
Qed.

Lemma app_len_inj {A} : forall (a b x y : list A), length a = length b -> a ++ x = b ++ y -> a = b /\ x = y.
Proof.
  induction a as [|h a IH]; intros [|k b] x y Hl H; cbn in *; try discriminate; [auto|].
  inversion H; subst. destruct (IH b x y) as [-> ->]; auto.
Qed.

Lemma tystr_no_semi t : ~ In c_semi (tystr t).
Proof. destruct t; cbn; unfold c_semi; intros H; repeat (destruct H as [H|H]; [discriminate|]); exact H. Qed.

Lemma full_entry_prefix_inj e1 e2 r1 r2 :
  full_entry e1 ++ r1 = full_entry e2 ++ r2 -> e1 = e2 /\ r1 = r2.
Proof.
  destruct e1 as [n1 t1], e2 as [n2 t2]. unfold full_entry; cbn [fst snd]. intros H.
  rewrite <- !app_assoc in H. cbn [app] in H.
  apply app_sep_inj in H as [Hd H]; [| apply uint_bytes_no_colon | apply uint_bytes_no_colon].
  apply dec_nat_inj in Hd.
  rewrite <- !app_assoc in H. cbn [app] in H.
  apply app_len_inj in H as [-> H]; [|exact Hd].
  inversion H as [H']. rewrite <- !app_assoc in H'. cbn [app] in H'.
  apply app_sep_inj in H' as [Ht Hr]; [| apply tystr_no_semi | apply tystr_no_semi].
  apply tystr_inj in Ht. subst. auto.
Qed.

Lemma full_entry_nonempty e r : full_entry e ++ r <> [].
Proof.
  unfold full_entry. intros H. apply (f_equal (@length N)) in H.
  rewrite !app_length in H. cbn in H. rewrite app_length in H. cbn in H. lia.
Qed.

Lemma full_concat_inj : forall l1 l2,
  concat (map full_entry l1) = concat (map full_entry l2) -> l1 = l2.
Proof.
  induction l1 as [|a l1 IH]; intros [|b l2] H; cbn in H.
  - reflexivity.
  - symmetry in H. now apply full_entry_nonempty in H.
  - now apply full_entry_nonempty in H.
  - apply full_entry_prefix_inj in H as [-> H]. f_equal. now apply IH.
Qed.

(* a plain signature ends in a type name, the full encoding in ';' *)
Lemma join_entry_last : forall l, l <> [] -> exists p t, join (map entry l) = p ++ tystr t.
Proof.
  induction l as [|e l IH]; intros Hne; [congruence|].
  destruct l as [|e' l].
  - cbn. exists (fst e ++ [c_colon]), (snd e). unfold entry. now rewrite <- app_assoc.
  - destruct IH as [p [t Hp]]; [discriminate|].
    change (map entry (e :: e' :: l)) with (entry e :: map entry (e' :: l)).
    cbn [map] in *. rewrite join_cons2. rewrite Hp.
    exists (entry e ++ c_comma :: p), t. now rewrite <- app_assoc.
Qed.

Lemma tystr_last t : exists q c, tystr t = q ++ [c] /\ c <> c_semi.
Proof.
  destruct t; cbn.
  - exists [105; 54]%N, 52%N. split; [reflexivity|discriminate].
  - exists [102; 54]%N, 52%N. split; [reflexivity|discriminate].
  - exists [115; 116]%N, 114%N. split; [reflexivity|discriminate].
  - exists [98; 111; 111]%N, 108%N. split; [reflexivity|discriminate].
Qed.

Lemma full_concat_last : forall l, l <> [] -> exists p, concat (map full_entry l) = p ++ [c_semi].
Proof.
  induction l as [|e l IH]; intros Hne; [congruence|].
  destruct l as [|e' l].
  - cbn. rewrite app_nil_r. unfold full_entry.
    exists (dec_nat (length (fst e)) ++ c_colon :: fst e ++ c_colon :: tystr (snd e)).
    rewrite <- !app_assoc. cbn. now rewrite <- app_assoc.
  - destruct IH as [p Hp]; [discriminate|].
    change (concat (map full_entry (e :: e' :: l))) with (full_entry e ++ concat (map full_entry (e' :: l))).
    rewrite Hp. exists (full_entry e ++ p). now rewrite app_assoc.
Qed.

Lemma plain_ne_full c1 c2 :
  all_plain c2 = false -> join (map entry (sig_entries c1)) <> full_key c2.
Proof.
  intros Hp H. unfold full_key in H.
  assert (Hne : isort (col_types c2) <> []).
  { destruct c2 as [|x c2]; [discriminate|]. intros E.
    assert (Hin : In (fst x, ty_of (snd x)) (isort (col_types (x :: c2)))).
    { apply (proj2 (isort_in _ _)). cbn. now left. }
    rewrite E in Hin. destruct Hin. }
  destruct (full_concat_last _ Hne) as [p Hp'].
  destruct (sig_entries c1) as [|e l] eqn:E.
  - cbn in H. discriminate.
  - destruct (join_entry_last (e :: l)) as [p1 [t Hj]]; [discriminate|].
    destruct (tystr_last t) as [q [c [Hq Hc]]].
    rewrite Hj, Hq, Hp' in H. rewrite app_assoc in H.
    change (0%N :: p ++ [c_semi]) with ((0%N :: p) ++ [c_semi]) in H.
    apply app_inj_tail in H as [_ H]. congruence.
Qed.

(* the routing key determines the sorted (name, type) list of ALL columns *)
Lemma same_key_entries b1 b2 :
  buffer_key b1 = buffer_key b2 -> isort (col_types (tb_cols b1)) = isort (col_types (tb_cols b2)).
Proof.
  unfold buffer_key, sig_string. intros H.
  destruct (all_plain (tb_cols b1)) eqn:P1, (all_plain (tb_cols b2)) eqn:P2.
  - now apply plain_key_entries.
  - exfalso. now apply (plain_ne_full (tb_cols b1) (tb_cols b2) P2).
  - exfalso. symmetry in H. now apply (plain_ne_full (tb_cols b2) (tb_cols b1) P1).
  - unfold full_key in H. inversion H as [H']. now apply full_concat_inj.
Qed.

(* two batches (Go maps) with the same routing key give every shared column name one Go type *)
Lemma same_sig_types b1 b2 n d1 d2 :
  batch_ok b1 -> batch_ok b2 -> buffer_key b1 = buffer_key b2 ->
  In (n, d1) (tb_cols b1) -> In (n, d2) (tb_cols b2) -> ty_of d1 = ty_of d2.
Proof.
  intros H1 H2 Hs I1 I2.
  pose proof (same_key_entries b1 b2 Hs) as E.
  assert (Hin : In (n, ty_of d1) (isort (col_types (tb_cols b2)))).
  { rewrite <- E. apply (proj2 (isort_in _ _)). apply (proj2 (col_types_in _ _ _)). now exists d1. }
  apply (proj1 (isort_in _ _)) in Hin. apply (proj1 (col_types_in _ _ _)) in Hin as [d2' [I2' Et]].
  rewrite (nodup_fst_unique _ _ _ _ (bo_nodup b2 H2) I2 I2'). now symmetry.
Qed.

(* ------------------------------------------------------------------------------------ *)
(* mergeBatches on guarded batches of one signature                                       *)

Lemma add_types_sound cols : forall acc n t,
  In (n, t) (add_types cols acc) -> In (n, t) acc \/ exists d, In (n, d) cols /\ ty_of d = t.
Proof.
  induction cols as [|[n0 d0] r IH]; intros acc n t H; cbn in H; [now left|].
  destruct (alookup n0 acc).
  - apply IH in H as [H|[d [Hd Ht]]]; [now left|]. right. exists d. split; [now right|exact Ht].
  - apply IH in H as [H|[d [Hd Ht]]].
    + apply in_app_or in H as [H|[H|[]]]; [now left|]. inversion H; subst.
      right. exists d0. split; [now left|reflexivity].
    + right. exists d. split; [now right|exact Ht].
Qed.

Lemma first_types_sound bs : forall acc n t,
  In (n, t) (first_types bs acc) ->
  In (n, t) acc \/ exists b d, In b bs /\ In (n, d) (tb_cols b) /\ ty_of d = t.
Proof.
  induction bs as [|b r IH]; intros acc n t H; cbn in H; [now left|].
  apply IH in H as [H|[b' [d [Hb [Hd Ht]]]]].
  - apply add_types_sound in H as [H|[d [Hd Ht]]]; [now left|].
    right. exists b, d. split; [now left|auto].
  - right. exists b', d. split; [now right|auto].
Qed.

Lemma add_types_keeps cols : forall acc n t, alookup n acc = Some t -> alookup n (add_types cols acc) = Some t.
Proof.
  induction cols as [|[n0 d0] r IH]; intros acc n t H; cbn; [exact H|].
  destruct (alookup n0 acc); apply IH; [exact H|]. now apply alookup_app_some.
Qed.

Lemma add_types_complete cols : forall acc n d,
  In (n, d) cols -> exists t, alookup n (add_types cols acc) = Some t.
Proof.
  induction cols as [|[n0 d0] r IH]; intros acc n d H; cbn; [destruct H|].
  destruct H as [E|H].
  - inversion E; subst. destruct (alookup n acc) as [t|] eqn:L.
    + exists t. now apply add_types_keeps.
    + exists (ty_of d). apply add_types_keeps. rewrite alookup_app_none by exact L.
      cbn. now rewrite beqb_refl.
  - destruct (alookup n0 acc); eapply IH; exact H.
Qed.

Lemma first_types_keeps bs : forall acc n t, alookup n acc = Some t -> alookup n (first_types bs acc) = Some t.
Proof.
  induction bs as [|b r IH]; intros acc n t H; cbn; [exact H|].
  apply IH. now apply add_types_keeps.
Qed.

Definition same_sig (sg : bytes) (bs : list tbatch) : Prop :=
  Forall batch_ok bs /\ forall b, In b bs -> buffer_key b = sg.

Lemma types_agree_ok sg bs :
  same_sig sg bs -> forallb (types_agree (first_types bs [])) bs = true.
Proof.
  intros [Hok Hsig]. rewrite Forall_forall in Hok.
  apply forallb_forall. intros b Hb. unfold types_agree. apply forallb_forall. intros [n d] Hc. cbn.
  destruct (alookup n (first_types bs [])) as [t|] eqn:L; [|reflexivity].
  apply alookup_in in L. apply first_types_sound in L as [[]|[b' [d' [Hb' [Hd' Ht]]]]].
  assert (E : ty_of d' = ty_of d).
  { eapply (same_sig_types b' b); eauto. rewrite (Hsig b Hb), (Hsig b' Hb'). reflexivity. }
  rewrite <- Ht, E. destruct (ty_of d); reflexivity.
Qed.

Lemma time_vals_len b : batch_ok b -> length (time_vals b) = tb_n b.
Proof.
  intros Hb. unfold time_vals. destruct (bo_time b Hb) as [l Hl]. rewrite Hl.
  apply alookup_in in Hl. exact (bo_len b Hb _ Hl).
Qed.

Lemma flat_time_len bs : Forall batch_ok bs -> length (flat_map time_vals bs) = batch_rows bs.
Proof.
  induction 1 as [|b r Hb _ IH]; cbn; [reflexivity|].
  rewrite app_length, IH, (time_vals_len b Hb). reflexivity.
Qed.

Lemma blank_len t n : len_of (blank t n) = n.
Proof. destruct t; cbn; [apply repeat_length|reflexivity..]. Qed.

(* a rectangular batch with an int64 time column is written whole *)
Lemma flush_part_rect b times :
  alookup k_time (tb_cols b) = Some (DI times) ->
  (forall c, In c (tb_cols b) -> len_of (snd c) = length times) ->
  flush_partitioned b = match times with [] => FErr | _ => FOk (length times) end.
Proof.
  intros Ht Hlen. unfold flush_partitioned. rewrite Ht.
  destruct times as [|t0 ts]; [reflexivity|].
  set (times := t0 :: ts) in *.
  assert (Hw : write_parquet (tb_cols b) (length times) = FOk (length times)).
  { unfold write_parquet.
    replace (forallb _ (schema_cols (tb_cols b))) with true; [reflexivity|].
    symmetry. apply forallb_forall. intros c Hc. apply Nat.eqb_eq. apply Hlen.
    unfold schema_cols in Hc. apply filter_In in Hc. tauto. }
  assert (Hx : existsb (fun c => Nat.ltb (len_of (snd c)) (length times)) (tb_cols b) = false).
  { apply existsb_false. intros c Hc. rewrite (Hlen c Hc). apply Nat.ltb_irrefl. }
  destruct (hour_of (zmin t0 times) =? hour_of (zmax t0 times))%Z; [|reflexivity].
  destruct (sortedb times); [exact Hw|]. rewrite Hx. reflexivity.
Qed.

Lemma flush_single b :
  batch_ok b -> flush_batches [b] = FOk (tb_n b) \/ (flush_batches [b] = FErr /\ tb_n b = 0).
Proof.
  intros Hb. unfold flush_batches. cbn [merge].
  destruct (bo_time b Hb) as [l Hl].
  assert (Hn : length l = tb_n b) by (apply alookup_in in Hl; exact (bo_len b Hb _ Hl)).
  rewrite (flush_part_rect b l Hl).
  - destruct l; cbn in *; [right; split; [reflexivity|now symmetry]|left; now rewrite <- Hn].
  - intros c Hc. rewrite Hn. exact (bo_len b Hb c Hc).
Qed.

Lemma flush_many sg b1 b2 r :
  same_sig sg (b1 :: b2 :: r) ->
  let bs := b1 :: b2 :: r in
  flush_batches bs = FOk (batch_rows bs) \/ (flush_batches bs = FErr /\ batch_rows bs = 0).
Proof.
  intros Hs bs. pose proof Hs as [Hok Hsig].
  unfold flush_batches. change (merge bs) with (merge_many bs). unfold merge_many.
  rewrite (types_agree_ok sg bs Hs).
  set (ct := first_types bs []).
  set (times := flat_map time_vals bs).
  assert (Hlen : length times = batch_rows bs) by (apply flat_time_len; exact Hok).
  (* the merged time column *)
  assert (Htime : alookup k_time ct = Some TyI64).
  { assert (Hb1 : batch_ok b1) by (inversion Hok; assumption).
    destruct (bo_time b1 Hb1) as [l Hl]. apply alookup_in in Hl.
    destruct (add_types_complete (tb_cols b1) [] k_time (DI l) Hl) as [t Ht].
    assert (L : alookup k_time ct = Some t).
    { unfold ct, bs. cbn [first_types]. apply first_types_keeps. apply add_types_keeps. exact Ht. }
    rewrite L. f_equal.
    apply alookup_in in L. apply first_types_sound in L as [[]|[b' [d' [Hb' [Hd' Ht']]]]].
    rewrite Forall_forall in Hok. pose proof (Hok b' Hb') as Hbo.
    destruct (bo_time b' Hbo) as [l' Hl']. apply alookup_in in Hl'.
    rewrite (nodup_fst_unique _ _ _ _ (bo_nodup b' Hbo) Hd' Hl') in Ht'. now rewrite <- Ht'. }
  set (f := fun e : bytes * colty =>
              (fst e, if beqb (fst e) k_time && colty_eqb (snd e) TyI64 then DI times else blank (snd e) (length times))).
  set (mb := {| tb_n := length times; tb_cols := map f ct |}).
  assert (Hmt : alookup k_time (tb_cols mb) = Some (DI times)).
  { cbn [tb_cols mb]. unfold f.
    etransitivity;
      [exact (alookup_map_snd (fun e => if beqb (fst e) k_time && colty_eqb (snd e) TyI64 then DI times
                                        else blank (snd e) (length times)) k_time ct TyI64 Htime)|].
    cbn [fst snd]. rewrite beqb_refl. reflexivity. }
  rewrite (flush_part_rect mb times Hmt).
  - rewrite <- Hlen. destruct times; cbn; [right; split; reflexivity|left; reflexivity].
  - intros c Hc. cbn [tb_cols mb] in Hc. apply in_map_iff in Hc as [[n t] [<- _]]. unfold f. cbn [fst snd].
    destruct (beqb n k_time && colty_eqb t TyI64); [reflexivity|apply blank_len].
Qed.

Lemma flush_ok sg bs :
  bs <> [] -> same_sig sg bs ->
  flush_batches bs = FOk (batch_rows bs) \/ (flush_batches bs = FErr /\ batch_rows bs = 0).
Proof.
  intros Hne Hs. destruct bs as [|b1 [|b2 r]]; [congruence| |].
  - destruct Hs as [Hok _]. inversion Hok; subst. cbn [batch_rows fold_right]. rewrite Nat.add_0_r.
    now apply flush_single.
  - now apply (flush_many sg).
Qed.

(* ------------------------------------------------------------------------------------ *)
(* the buffer map                                                                         *)

Definition buf_ok (bf : buf) : Prop := bf_batches bf <> [] /\ same_sig (bf_sig bf) (bf_batches bf).
Definition task_ok (t : task) : Prop := snd t <> [] /\ exists sg, same_sig sg (snd t).

(* the state invariant: one buffer per key (a Go map), every buffer holds guarded batches of
   the signature recorded for it *)
Definition Inv (st : state) : Prop :=
  NoDup (map fst (st_bufs st)) /\ Forall (fun kb => buf_ok (snd kb)) (st_bufs st).

Definition brows (l : list (key * buf)) : nat :=
  fold_right (fun kb a => batch_rows (bf_batches (snd kb)) + a) 0 l.
Definition tasks_rows (ts : list task) : nat := fold_right (fun t a => batch_rows (snd t) + a) 0 ts.

Lemma brows_cons kb r : brows (kb :: r) = batch_rows (bf_batches (snd kb)) + brows r.
Proof. reflexivity. Qed.
Lemma tasks_rows_cons t r : tasks_rows (t :: r) = batch_rows (snd t) + tasks_rows r.
Proof. reflexivity. Qed.
Lemma tasks_rows_one (k : key) x : tasks_rows [(k, x)] = batch_rows x.
Proof. unfold tasks_rows, batch_rows. cbn. lia. Qed.
Lemma brows_one (k : key) bf : brows [(k, bf)] = batch_rows (bf_batches bf).
Proof. unfold brows, batch_rows. cbn. lia. Qed.
Lemma brows_nil : brows [] = 0. Proof. reflexivity. Qed.
Lemma tasks_rows_nil : tasks_rows [] = 0. Proof. reflexivity. Qed.

Lemma Inv_init : Inv init.
Proof. split; cbn; constructor. Qed.

Lemma batch_rows_app a b : batch_rows (a ++ b) = batch_rows a + batch_rows b.
Proof. unfold batch_rows. induction a as [|x a IH]; cbn; [reflexivity|]. rewrite IH. lia. Qed.

Lemma brows_app a b : brows (a ++ b) = brows a + brows b.
Proof. unfold brows. induction a as [|x a IH]; cbn; [reflexivity|]. rewrite IH. lia. Qed.
Global Arguments brows : simpl never.

Lemma tasks_rows_app a b : tasks_rows (a ++ b) = tasks_rows a + tasks_rows b.
Proof. unfold tasks_rows. induction a as [|x a IH]; cbn; [reflexivity|]. rewrite IH. lia. Qed.
Global Arguments tasks_rows : simpl never.

Lemma get_buf_in k l bf : get_buf k l = Some bf -> In (k, bf) l.
Proof.
  induction l as [|[k' v] r IH]; cbn; [discriminate|].
  destruct (key_eqb_spec k k') as [->|Hne]; intros H.
  - inversion H; subst. now left.
  - right. now apply IH.
Qed.

Lemma del_buf_in k l kv : In kv (del_buf k l) -> In kv l /\ fst kv <> k.
Proof.
  induction l as [|[k' v] r IH]; cbn; [tauto|].
  destruct (key_eqb_spec k k') as [->|Hne].
  - intros H. apply IH in H as [H1 H2]. auto.
  - intros [<-|H]; cbn; [split; [now left|congruence]|].
    apply IH in H as [H1 H2]. auto.
Qed.

Lemma del_buf_nodup k l : NoDup (map fst l) -> NoDup (map fst (del_buf k l)).
Proof.
  induction l as [|[k' v] r IH]; cbn; intros H; [constructor|].
  inversion H as [|? ? Hn Hd]; subst.
  destruct (key_eqb k k'); [now apply IH|]. cbn. constructor; [|now apply IH].
  intros Hin. apply Hn. apply in_map_iff in Hin as [kv [E Hin]]. apply del_buf_in in Hin as [Hin _].
  apply in_map_iff. now exists kv.
Qed.

Lemma del_buf_notin k l : ~ In k (map fst (del_buf k l)).
Proof.
  intros Hin. apply in_map_iff in Hin as [kv [E Hin]]. apply del_buf_in in Hin as [_ Hne]. congruence.
Qed.

Lemma get_del_none k l : get_buf k (del_buf k l) = None.
Proof.
  induction l as [|[k' v] r IH]; cbn; [reflexivity|].
  destruct (key_eqb k k') eqn:E; [exact IH|]. cbn. rewrite E. exact IH.
Qed.

Lemma get_none_del k l : get_buf k l = None -> del_buf k l = l.
Proof.
  induction l as [|[k' v] r IH]; cbn; [reflexivity|].
  destruct (key_eqb k k'); [discriminate|]. intros H. f_equal. now apply IH.
Qed.

Lemma get_buf_notin k l : ~ In k (map fst l) -> get_buf k l = None.
Proof.
  induction l as [|[k' v] r IH]; cbn; intros H; [reflexivity|].
  destruct (key_eqb_spec k k') as [->|Hne]; [exfalso; apply H; now left|].
  apply IH. intros Hin. apply H. now right.
Qed.

Lemma brows_del k l bf :
  NoDup (map fst l) -> get_buf k l = Some bf -> brows l = batch_rows (bf_batches bf) + brows (del_buf k l).
Proof.
  induction l as [|[k' v] r IH]; cbn; [discriminate|].
  intros Hnd. inversion Hnd as [|? ? Hn Hd]; subst.
  destruct (key_eqb_spec k k') as [->|Hne]; intros H.
  - inversion H; subst. rewrite (get_none_del k' r); [reflexivity|]. now apply get_buf_notin.
  - rewrite !brows_cons. cbn [snd]. rewrite (IH Hd H). lia.
Qed.

Lemma nodup_snoc {A} (l : list A) x : NoDup l -> ~ In x l -> NoDup (l ++ [x]).
Proof.
  induction l as [|y r IH]; cbn; intros Hnd Hx; [constructor; [tauto|constructor]|].
  inversion Hnd as [|? ? Hn Hd]; subst. constructor.
  - intros Hin. apply in_app_or in Hin as [Hin|[->|[]]]; [now apply Hn|]. apply Hx. now left.
  - apply IH; [exact Hd|]. intros Hin. apply Hx. now right.
Qed.

Lemma stored_rows_add k rows st : stored_rows (add_stored k rows st) = stored_rows st + rows.
Proof.
  unfold stored_rows, add_stored; cbn. induction (st_stored st) as [|x r IH]; cbn; lia.
Qed.

Lemma held_eq st : held_rows st = stored_rows st + brows (st_bufs st).
Proof. reflexivity. Qed.

Lemma held_mk l st : held_rows {| st_bufs := l; st_stored := st_stored st |} = stored_rows st + brows l.
Proof. reflexivity. Qed.

Lemma forall_del k l (P : key * buf -> Prop) : Forall P l -> Forall P (del_buf k l).
Proof.
  intros H. apply Forall_forall. intros kv Hin. apply del_buf_in in Hin as [Hin _].
  rewrite Forall_forall in H. now apply H.
Qed.

(* ------------------------------------------------------------------------------------ *)
(* writing one guarded batch                                                              *)

Definition write_post (st : state) (bg : list task) (n : nat) (st' : state) (bg' : list task) : Prop :=
  Inv st' /\ Forall task_ok bg' /\
  held_rows st' + tasks_rows bg' = held_rows st + tasks_rows bg + n.

Lemma append_ok c st k b bg :
  Inv st -> batch_ok b -> Forall task_ok bg ->
  (forall bf, get_buf k (st_bufs st) = Some bf -> bf_sig bf = buffer_key b) ->
  exists st' bg', append_batch c st k b bg = WOk st' bg' /\ write_post st bg (tb_n b) st' bg'.
Proof.
  intros [Hnd Hbufs] Hb Hbg Hsig. unfold append_batch.
  set (bf' := match get_buf k (st_bufs st) with
              | Some bf => {| bf_sig := bf_sig bf; bf_batches := bf_batches bf ++ [b] |}
              | None => {| bf_sig := buffer_key b; bf_batches := [b] |}
              end).
  assert (Hok' : buf_ok bf').
  { unfold bf'. destruct (get_buf k (st_bufs st)) as [bf|] eqn:G.
    - pose proof (get_buf_in _ _ _ G) as Hin. rewrite Forall_forall in Hbufs.
      destruct (Hbufs _ Hin) as [Hne [Hall Hs]]. cbn in *.
      split; [destruct (bf_batches bf); discriminate|]. split.
      + apply Forall_app. split; [exact Hall|constructor; [exact Hb|constructor]].
      + intros x Hx. apply in_app_or in Hx as [Hx|[<-|[]]]; [now apply Hs|]. cbn. symmetry. apply Hsig. reflexivity.
    - cbn. split; [discriminate|]. split; [constructor; [exact Hb|constructor]|].
      intros x [<-|[]]. reflexivity. }
  assert (Hrows : brows (st_bufs st) + tb_n b = batch_rows (bf_batches bf') + brows (del_buf k (st_bufs st))).
  { unfold bf'. destruct (get_buf k (st_bufs st)) as [bf|] eqn:G; cbn [bf_batches].
    - rewrite (brows_del k _ bf Hnd G), batch_rows_app. cbn. lia.
    - rewrite (get_none_del k _ G). cbn. lia. }
  destruct (N.leb (max_rows c) (N.of_nat (batch_rows (bf_batches bf')))).
  - eexists _, _. split; [reflexivity|]. split; [|split].
    + split; cbn; [now apply del_buf_nodup|now apply forall_del].
    + apply Forall_app. split; [exact Hbg|]. constructor; [|constructor].
      destruct Hok' as [Hne Hs]. split; [exact Hne|]. now exists (bf_sig bf').
    + rewrite held_mk, (held_eq st), tasks_rows_app.
      rewrite tasks_rows_one. lia.
  - eexists _, _. split; [reflexivity|]. split; [|split; [exact Hbg|]].
    + split; cbn; unfold set_buf.
      * rewrite map_app. cbn. apply nodup_snoc; [now apply del_buf_nodup|apply del_buf_notin].
      * apply Forall_app. split; [now apply forall_del|]. constructor; [exact Hok'|constructor].
    + rewrite held_mk, (held_eq st). unfold set_buf. rewrite brows_app.
      rewrite brows_one. lia.
Qed.

Lemma write_rec_ok c st k b bg :
  Inv st -> batch_ok b -> Forall task_ok bg ->
  exists st' bg', write_rec c st k b bg = WOk st' bg' /\ write_post st bg (tb_n b) st' bg'.
Proof.
  intros HI Hb Hbg. unfold write_rec.
  destruct (get_buf k (st_bufs st)) as [bf|] eqn:G.
  - destruct (beqb_spec (bf_sig bf) (buffer_key b)) as [E|Hne].
    + apply append_ok; auto. intros bf0 G0. rewrite G in G0. now inversion G0; subst.
    + destruct HI as [Hnd Hbufs].
      pose proof (get_buf_in _ _ _ G) as Hin. pose proof Hbufs as Hbufs'. rewrite Forall_forall in Hbufs'.
      destruct (Hbufs' _ Hin) as [Hnonempty Hs]. cbn in Hnonempty, Hs.
      set (st1 := {| st_bufs := del_buf k (st_bufs st); st_stored := st_stored st |}).
      assert (HI1 : Inv st1) by (split; cbn; [now apply del_buf_nodup|now apply forall_del]).
      assert (Hg1 : forall x, get_buf k (st_bufs st1) = Some x -> bf_sig x = buffer_key b).
      { intros x Hx. cbn in Hx. rewrite get_del_none in Hx. discriminate. }
      assert (Hheld : held_rows st = held_rows st1 + batch_rows (bf_batches bf)).
      { unfold st1. rewrite held_mk, (held_eq st), (brows_del k _ bf Hnd G). lia. }
      destruct (flush_ok (bf_sig bf) (bf_batches bf) Hnonempty Hs) as [F|[F Z]]; rewrite F.
      * assert (HI2 : Inv (add_stored k (batch_rows (bf_batches bf)) st1)) by exact HI1.
        destruct (append_ok c (add_stored k (batch_rows (bf_batches bf)) st1) k b bg HI2 Hb Hbg Hg1)
          as [st' [bg' [E [P1 [P2 P3]]]]].
        exists st', bg'. split; [exact E|]. split; [exact P1|split; [exact P2|]].
        rewrite P3. rewrite Hheld. rewrite (held_eq (add_stored _ _ _)), stored_rows_add.
        rewrite (held_eq st1). cbn [st_bufs add_stored]. lia.
      * destruct (append_ok c st1 k b bg HI1 Hb Hbg Hg1) as [st' [bg' [E [P1 [P2 P3]]]]].
        exists st', bg'. split; [exact E|]. split; [exact P1|split; [exact P2|]]. lia.
  - apply append_ok; auto. intros bf0 G0. rewrite G in G0. discriminate.
Qed.

Lemma write_loop_ok c db : forall rs st bg,
  Inv st -> Forall rec_ok rs -> Forall task_ok bg ->
  exists st' s bg', write_loop c st db rs bg = HDone st' s bg' /\ write_post st bg (reached_rows rs) st' bg'.
Proof.
  induction rs as [|r rs IH]; intros st bg HI Hrs Hbg; cbn.
  - exists st, S2xx, bg. split; [reflexivity|]. split; [exact HI|split; [exact Hbg|lia]].
  - inversion Hrs as [|? ? Hr Hrest]; subst. destruct r as [m b|].
    + destruct (write_rec_ok c st (db, m) b bg HI Hr Hbg) as [st1 [bg1 [E [P1 [P2 P3]]]]].
      rewrite E. destruct (IH st1 bg1 P1 Hrest P2) as [st' [s [bg' [E' [Q1 [Q2 Q3]]]]]].
      exists st', s, bg'. split; [exact E'|]. split; [exact Q1|split; [exact Q2|lia]].
    + exists st, S5xx, bg. split; [reflexivity|]. split; [exact HI|split; [exact Hbg|lia]].
Qed.

Lemma run_tasks_ok c : forall ts st rs may failed,
  Forall task_ok ts ->
  exists st' failed', run_tasks c ts st rs may failed = (st', rs, may, failed') /\
                      st_bufs st' = st_bufs st /\ stored_rows st' = stored_rows st + tasks_rows ts.
Proof.
  induction ts as [|[k bs] r IH]; intros st rs may failed H; cbn.
  - exists st, failed. split; [reflexivity|]. split; [reflexivity|]. unfold tasks_rows. cbn. lia.
  - inversion H as [|? ? [Hne [sg Hs]] Hr]; subst. cbn in Hne, Hs. rewrite tasks_rows_cons. cbn [snd].
    destruct (flush_ok sg bs Hne Hs) as [F|[F Z]]; rewrite F.
    + destruct (IH (add_stored k (batch_rows bs) st) rs may failed Hr) as [st' [f' [E [B S]]]].
      exists st', f'. split; [exact E|]. split; [exact B|]. rewrite S, stored_rows_add. lia.
    + destruct (IH st rs may true Hr) as [st' [f' [E [B S]]]].
      exists st', f'. split; [exact E|]. split; [exact B|]. lia.
Qed.

Lemma tasks_rows_of_bufs (l : list (key * buf)) :
  tasks_rows (map (fun kb : key * buf => (fst kb, bf_batches (snd kb))) l) = brows l.
Proof.
  induction l as [|x r IH]; [reflexivity|].
  cbn [map]. rewrite tasks_rows_cons, brows_cons, IH. reflexivity.
Qed.

Definition event_ok (e : event) : Prop :=
  match e with
  | EReq (DWrite _ rs) => Forall rec_ok rs
  | EReq DUnordered => False
  | _ => True
  end.

Lemma event_okb_sound e : event_okb e = true -> event_ok e.
Proof.
  destruct e as [[s|db rs|]|]; cbn; auto; [|discriminate].
  intros H. apply Forall_forall. intros r Hr. apply rec_okb_sound.
  rewrite forallb_forall in H. now apply H.
Qed.

(* one guarded event: the step completes, the invariant holds, rows are conserved *)
Lemma step_ok c st e :
  Inv st -> event_ok e ->
  exists st' o, step c st e = (st', Some o, Completed) /\ Inv st' /\
                held_rows st' = held_rows st + event_rows e.
Proof.
  intros HI He. destruct e as [d|].
  - assert (Hh : exists st1 s bg, handle c st d = HDone st1 s bg /\ write_post st [] (dreq_rows d) st1 bg).
    { destruct d as [s|db rs|]; cbn in *.
      - exists st, s, []. split; [reflexivity|]. split; [exact HI|split; [constructor|lia]].
      - apply write_loop_ok; auto.
      - destruct He. }
    destruct Hh as [st1 [s [bg [E [[Hnd Hb] [Hbg Hrows]]]]]].
    destruct (run_tasks_ok c bg st1 [] false false Hbg) as [st2 [f' [E2 [B2 S2]]]].
    exists st2, (OStatus s). cbn [step]. rewrite E, E2. cbn [ending_of]. split; [reflexivity|]. split.
    + unfold Inv. rewrite B2. split; assumption.
    + cbn [event_rows]. rewrite !held_eq in *. rewrite B2, S2. change (tasks_rows []) with 0 in Hrows. lia.
  - destruct HI as [Hnd Hb].
    set (ts := map (fun kb : key * buf => (fst kb, bf_batches (snd kb))) (st_bufs st)).
    assert (Hts : Forall task_ok ts).
    { apply Forall_forall. intros t Ht. apply in_map_iff in Ht as [kb [<- Hin]].
      rewrite Forall_forall in Hb. destruct (Hb kb Hin) as [Hne Hs]. split; [exact Hne|].
      now exists (bf_sig (snd kb)). }
    assert (Hrows : tasks_rows ts = brows (st_bufs st)).
    { apply tasks_rows_of_bufs. }
    destruct (run_tasks_ok c ts {| st_bufs := []; st_stored := st_stored st |} [] false false Hts)
      as [st2 [f' [E2 [B2 S2]]]].
    exists st2, (OFlush f'). cbn [step]. fold ts. rewrite E2. cbn [ending_of]. split; [reflexivity|]. split.
    + unfold Inv. rewrite B2. cbn. split; constructor.
    + cbn [event_rows]. rewrite !held_eq. rewrite B2, S2, Hrows. cbn [st_bufs].
      change (stored_rows {| st_bufs := []; st_stored := st_stored st |}) with (stored_rows st).
      change (brows []) with 0. lia.
Qed.

Lemma run_ok c : forall evs st,
  Inv st -> Forall event_ok evs ->
  r_end (run c evs st) = Completed /\ Inv (r_state (run c evs st)) /\
  held_rows (r_state (run c evs st)) = held_rows st + events_rows evs /\
  length (r_obs (run c evs st)) = length evs.
Proof.
  induction evs as [|e r IH]; intros st HI Hev; cbn.
  - split; [reflexivity|]. split; [exact HI|]. split; [lia|reflexivity].
  - inversion Hev as [|? ? He Hr]; subst.
    destruct (step_ok c st e HI He) as [st' [o [E [HI' Hrows]]]]. rewrite E.
    destruct (IH st' HI' Hr) as [A [B [C D]]]. cbn.
    split; [exact A|]. split; [exact B|]. split; [fold (events_rows r); lia|]. now rewrite D.
Qed.

(* a request answered by the front, or whose first record fails, leaves the state untouched *)
Lemma step_front c st s : step c st (EReq (DStatus s)) = (st, Some (OStatus s), Completed).
Proof. reflexivity. Qed.

Lemma step_first_fails c st db rs : step c st (EReq (DWrite db (RFail :: rs))) = (st, Some (OStatus S5xx), Completed).
Proof. reflexivity. Qed.

Lemma step_flush_ok c st :
  Inv st ->
  exists st' f, step c st EFlush = (st', Some (OFlush f), Completed) /\
                st_bufs st' = [] /\ stored_rows st' = held_rows st.
Proof.
  intros [Hnd Hb].
  set (ts := map (fun kb : key * buf => (fst kb, bf_batches (snd kb))) (st_bufs st)).
  assert (Hts : Forall task_ok ts).
  { apply Forall_forall. intros t Ht. apply in_map_iff in Ht as [kb [<- Hin]].
    rewrite Forall_forall in Hb. destruct (Hb kb Hin) as [Hne Hs]. split; [exact Hne|].
    now exists (bf_sig (snd kb)). }
  destruct (run_tasks_ok c ts {| st_bufs := []; st_stored := st_stored st |} [] false false Hts)
    as [st2 [f' [E2 [B2 S2]]]].
  exists st2, f'. cbn [step]. fold ts. rewrite E2. cbn [ending_of]. split; [reflexivity|]. split; [exact B2|].
  rewrite S2, held_eq. unfold ts. rewrite tasks_rows_of_bufs. reflexivity.
Qed.

(* after a background flush nothing is left in memory: every row written so far is stored *)
Lemma run_then_flush c : forall evs st,
  Inv st -> Forall event_ok evs ->
  r_end (run c (evs ++ [EFlush]) st) = Completed /\
  st_bufs (r_state (run c (evs ++ [EFlush]) st)) = [] /\
  stored_rows (r_state (run c (evs ++ [EFlush]) st)) = held_rows st + events_rows evs.
Proof.
  induction evs as [|e r IH]; intros st HI Hev.
  - destruct (step_flush_ok c st HI) as [st' [f [E [B S]]]]. cbn [app run]. rewrite E. cbn.
    split; [reflexivity|]. split; [exact B|lia].
  - inversion Hev as [|? ? He Hr]; subst.
    destruct (step_ok c st e HI He) as [st' [o [E [HI' Hrows]]]].
    destruct (IH st' HI' Hr) as [A [B C]].
    cbn [app run]. rewrite E. cbn [r_end r_state]. split; [exact A|]. split; [exact B|].
    rewrite C, Hrows. cbn [events_rows fold_right]. fold (events_rows r). lia.
Qed.

(* ------------------------------------------------------------------------------------ *)
(* with the recover in place no run can end in [Died]: no guard, any decoder                 *)

Lemma run_tasks_recover c : recover_flush c = true -> forall ts st rs may failed,
  exists st' failed', run_tasks c ts st rs may failed = (st', rs, may, failed').
Proof.
  intros Hr. induction ts as [|[k bs] r IH]; intros st rs may failed; cbn.
  - now exists st, failed.
  - rewrite Hr. destruct (flush_batches bs); apply IH.
Qed.

Lemma step_no_died c st e : recover_flush c = true ->
  forall rs, snd (step c st e) <> Died rs.
Proof.
  intros Hr rs. destruct e as [d|]; cbn [step].
  - destruct (handle c st d) as [st' s bg|st']; [|cbn; discriminate].
    destruct (run_tasks_recover c Hr bg st' [] false false) as [st2 [f E]]. rewrite E. cbn. discriminate.
  - destruct (run_tasks_recover c Hr (map (fun kb : key * buf => (fst kb, bf_batches (snd kb))) (st_bufs st))
                {| st_bufs := []; st_stored := st_stored st |} [] false false) as [st2 [f E]].
    rewrite E. cbn. discriminate.
Qed.

Lemma run_no_died c : recover_flush c = true -> forall evs st rs, r_end (run c evs st) <> Died rs.
Proof.
  intros Hr. induction evs as [|e r IH]; intros st rs; cbn; [discriminate|].
  pose proof (step_no_died c st e Hr) as Hs.
  destruct (step c st e) as [[st' o] en]. cbn in Hs.
  destruct o as [o|]; [destruct en|]; cbn; try apply IH; try apply Hs; try discriminate.
Qed.

(* ------------------------------------------------------------------------------------ *)
(* main statements about Core.v: ANY decoder, ANY sequence of decoded requests            *)

Theorem core_no_panic c evs st rs :
  recover_flush c = true -> r_end (run c evs st) <> Died rs.
Proof. intros Hr. now apply run_no_died. Qed.

Theorem core_no_flush_failure_guarded c evs st :
  Inv st -> forallb event_okb evs = true ->
  r_end (run c evs st) = Completed /\ length (r_obs (run c evs st)) = length evs.
Proof.
  intros HI H.
  assert (Hev : Forall event_ok evs).
  { apply Forall_forall. intros e He. apply event_okb_sound. rewrite forallb_forall in H. now apply H. }
  destruct (run_ok c evs st HI Hev) as [A [_ [_ D]]]. split; assumption.
Qed.

Theorem core_rows_conserved_guarded c evs st :
  Inv st -> forallb event_okb evs = true ->
  held_rows (r_state (run c evs st)) = held_rows st + events_rows evs /\
  (st_bufs (r_state (run c (evs ++ [EFlush]) st)) = [] /\
   stored_rows (r_state (run c (evs ++ [EFlush]) st)) = held_rows st + events_rows evs).
Proof.
  intros HI H.
  assert (Hev : Forall event_ok evs).
  { apply Forall_forall. intros e He. apply event_okb_sound. rewrite forallb_forall in H. now apply H. }
  destruct (run_ok c evs st HI Hev) as [_ [_ [C _]]].
  destruct (run_then_flush c evs st HI Hev) as [_ [B S]]. auto.
Qed.

Theorem core_front_rejected_stores_nothing c st :
  (forall s, step c st (EReq (DStatus s)) = (st, Some (OStatus s), Completed)) /\
  (forall db rs, step c st (EReq (DWrite db (RFail :: rs))) = (st, Some (OStatus S5xx), Completed)).
Proof. split; reflexivity. Qed.

(* ------------------------------------------------------------------------------------ *)
(* the server of Model.v                                                                  *)

Lemma guard_events s evs :
  forallb (sevent_ok s) evs = true -> forallb event_okb (map (front_ev s) evs) = true.
Proof.
  induction evs as [|e r IH]; cbn; [reflexivity|]. intros H. apply andb_true_iff in H as [H1 H2].
  unfold sevent_ok in H1. rewrite H1. now apply IH.
Qed.

Theorem server_no_panic s evs rs : r_end (run_server s evs) <> Died rs.
Proof. unfold run_server. apply core_no_panic. reflexivity. Qed.

Theorem server_no_flush_failure_guarded s evs :
  forallb (sevent_ok s) evs = true ->
  r_end (run_server s evs) = Completed /\ length (r_obs (run_server s evs)) = length evs.
Proof.
  intros H. unfold run_server.
  destruct (core_no_flush_failure_guarded (server_cfg s) (map (front_ev s) evs) init Inv_init (guard_events s evs H))
    as [A B]. split; [exact A|]. now rewrite B, map_length.
Qed.

Theorem server_rows_conserved_guarded s evs :
  forallb (sevent_ok s) evs = true ->
  held_rows (r_state (run_server s evs)) = events_rows (map (front_ev s) evs) /\
  (st_bufs (r_state (run_server s (evs ++ [SFlush]))) = [] /\
   stored_rows (r_state (run_server s (evs ++ [SFlush]))) = events_rows (map (front_ev s) evs)).
Proof.
  intros H. unfold run_server. rewrite map_app. cbn [map front_ev].
  destruct (core_rows_conserved_guarded (server_cfg s) (map (front_ev s) evs) init Inv_init (guard_events s evs H))
    as [A [B C]].
  change (held_rows init) with 0 in *. cbn in A, C. auto.
Qed.

Theorem server_front_rejected_stores_nothing s r c st x :
  front s r = DStatus x -> step c st (EReq (front s r)) = (st, Some (OStatus x), Completed).
Proof. intros ->. reflexivity. Qed.

(* ------------------------------------------------------------------------------------ *)
(* witnesses                                                                              *)

Definition T0 : Z := 1700000000000000.
Definition str_m : bytes := [109]%N.
Definition str_cpu : bytes := [99; 112; 117]%N.
Definition str_columns : bytes := [99; 111; 108; 117; 109; 110; 115]%N.
Definition str_fields : bytes := [102; 105; 101; 108; 100; 115]%N.
Definition str_tags : bytes := [116; 97; 103; 115]%N.

Definition w_time : MP.ast * MP.ast :=
  (MP.MStr k_time, MP.MArr [MP.MInt MP.KI64 T0; MP.MInt MP.KI64 (T0 + 1)]).

(* {m: <meas>, columns: {time: [T0, T0+1], <cols>}} *)
Definition w_columnar (meas : bytes) (cols : list (bytes * MP.ast)) : MP.ast :=
  MP.MMap [(MP.MStr str_m, MP.MStr meas);
           (MP.MStr str_columns, MP.MMap (w_time :: map (fun c => (MP.MStr (fst c), snd c)) cols))].

Definition w_ints : MP.ast := MP.MArr [MP.MInt MP.KFix 1; MP.MInt MP.KFix 2].
Definition w_strs : MP.ast := MP.MArr [MP.MStr [97]%N; MP.MStr [98]%N].
Definition w_floats : MP.ast := MP.MArr [MP.MF64 4607182418800017408%N; MP.MF64 4611686018427387904%N].

Definition prod_cfg : scfg := {| sc_max := 1000000; sc_typed := true; sc_now := 0 |}.

(* the four request sequences that killed the process before commits 6c35f6a / 5cfca39 / 763beab
   (regression witnesses; replayed on the real server by every run of the check) *)
Definition w_empty_name : list sevent :=
  [SReq (RqMsgpack None (w_columnar str_cpu [([], w_ints)])); SFlush].

Definition w_underscore : list sevent :=
  [SReq (RqMsgpack None (w_columnar str_cpu [([95; 120]%N, w_ints)]));
   SReq (RqMsgpack None (w_columnar str_cpu [([95; 120]%N, w_strs)])); SFlush].

Definition w_collision : list sevent :=
  [SReq (RqMsgpack None (w_columnar str_cpu
      [([90]%N, w_floats); ([97]%N, w_ints); ([113; 58; 115; 116; 114; 44; 97]%N, w_strs)]));
   SReq (RqMsgpack None (w_columnar str_cpu
      [([90; 58; 102; 54; 52; 44; 97; 58; 105; 54; 52; 44; 113]%N, w_strs); ([97]%N, w_strs)])); SFlush].

Definition w_row_time : list sevent :=
  [SReq (RqMsgpack None (MP.MMap [(MP.MStr str_m, MP.MStr str_cpu); (MP.MStr [116]%N, MP.MInt MP.KI64 T0);
      (MP.MStr str_fields,
       MP.MMap [(MP.MStr k_time, MP.MInt MP.KI64 (T0 - 1)); (MP.MStr [118]%N, MP.MInt MP.KFix 1)])])); SFlush].

(* a batch whose second record fails in the write loop: 500, yet the first record is stored *)
Definition w_partial : list sevent :=
  [SReq (RqMsgpack None (MP.MMap [(MP.MStr [98; 97; 116; 99; 104]%N,
      MP.MArr [w_columnar [97; 97]%N [([118]%N, w_ints)];
               w_columnar [98; 98]%N [([118]%N, MP.MArr [MP.MInt MP.KFix 1; MP.MStr [115]%N])]])])); SFlush].

(* lost its row before ac0d5a8: row format {m: cpu, t: T0, h: "", fields: {a: "x"},
   tags: {a: "t", a_value: "u"}}.  rowsToColumnar renamed the field a (it collides with the tag a) to
   a_value, the name of another tag: that column got 2 entries for 1 row and the flush failed.
   Now the field moves on to a_value_value. *)
Definition w_suffix_collision : list sevent :=
  [SReq (RqMsgpack None (MP.MMap [(MP.MStr str_m, MP.MStr str_cpu); (MP.MStr [116]%N, MP.MInt MP.KI64 T0);
      (MP.MStr [104]%N, MP.MStr []);
      (MP.MStr str_fields, MP.MMap [(MP.MStr [97]%N, MP.MStr [120]%N)]);
      (MP.MStr str_tags, MP.MMap [(MP.MStr [97]%N, MP.MStr [116]%N);
                                  (MP.MStr [97; 95; 118; 97; 108; 117; 101]%N, MP.MStr [117]%N)])])); SFlush].

(* a chain: fields {a, a_value} and tags {a, a_value}: a -> a_value_value, a_value -> a_value_value_value *)
Definition w_suffix_chain : list sevent :=
  [SReq (RqMsgpack None (MP.MMap [(MP.MStr str_m, MP.MStr str_cpu); (MP.MStr [116]%N, MP.MInt MP.KI64 T0);
      (MP.MStr [104]%N, MP.MStr []);
      (MP.MStr str_fields, MP.MMap [(MP.MStr [97]%N, MP.MStr [120]%N);
                                    (MP.MStr [97; 95; 118; 97; 108; 117; 101]%N, MP.MInt MP.KFix 7)]);
      (MP.MStr str_tags, MP.MMap [(MP.MStr [97]%N, MP.MStr [116]%N);
                                  (MP.MStr [97; 95; 118; 97; 108; 117; 101]%N, MP.MStr [117]%N)])])); SFlush].

(* {nil: 1}: the msgpack fork panics inside Decode; the recover middleware answers 500 *)
Definition w_nil_key : list sevent :=
  [SReq (RqMsgpack None (MP.MMap [(MP.MNil, MP.MInt MP.KFix 1)]));
   SReq (RqMsgpack None (w_columnar str_cpu [([118]%N, w_ints)])); SFlush].

(* inside the guard: a type change of an ordinary column, an '_'-prefixed column that changes type,
   then line protocol on the same measurement *)
Definition w_guarded : list sevent :=
  [SReq (RqMsgpack None (w_columnar str_cpu [([118]%N, w_ints)]));
   SReq (RqMsgpack None (w_columnar str_cpu [([118]%N, w_strs)]));
   SReq (RqMsgpack None (w_columnar str_cpu [([95; 120]%N, w_ints)]));
   SReq (RqMsgpack None (w_columnar str_cpu [([95; 120]%N, w_strs)]));
   SReq (RqLP None [117; 115]%N
           [99;112;117;32;118;61;49;105;32;49;55;48;48;48;48;48;48;48;48;48;48;48;48;48;50;10]%N)].

Definition str_default_cpu : bytes := [100;101;102;97;117;108;116;47;99;112;117]%N.

(* the old crash witnesses on the code as it is: refused (400) or stored completely *)
Lemma old_witnesses_fixed :
  (r_obs (run_server prod_cfg w_empty_name) = [OStatus S4xx; OFlush false] /\
   stored_rows (r_state (run_server prod_cfg w_empty_name)) = 0) /\
  (r_obs (run_server prod_cfg w_underscore) = [OStatus S2xx; OStatus S2xx; OFlush false] /\
   stored_table (r_state (run_server prod_cfg w_underscore)) = [(str_default_cpu, 4%N)]) /\
  (r_obs (run_server prod_cfg w_collision) = [OStatus S2xx; OStatus S2xx; OFlush false] /\
   stored_table (r_state (run_server prod_cfg w_collision)) = [(str_default_cpu, 4%N)]) /\
  (r_obs (run_server prod_cfg w_row_time) = [OStatus S4xx; OFlush false] /\
   stored_rows (r_state (run_server prod_cfg w_row_time)) = 0).
Proof. vm_compute. repeat split; reflexivity. Qed.

Lemma refuted_partial :
  r_obs (run_server prod_cfg w_partial) = [OStatus S5xx; OFlush false] /\
  r_end (run_server prod_cfg w_partial) = Completed /\
  stored_table (r_state (run_server prod_cfg w_partial)) = [([100;101;102;97;117;108;116;47;97;97]%N, 2%N)].
Proof. vm_compute. repeat split; reflexivity. Qed.

Lemma suffix_witnesses_fixed :
  (forallb (sevent_ok prod_cfg) w_suffix_collision = true /\
   r_obs (run_server prod_cfg w_suffix_collision) = [OStatus S2xx; OFlush false] /\
   stored_table (r_state (run_server prod_cfg w_suffix_collision)) = [(str_default_cpu, 1%N)]) /\
  (forallb (sevent_ok prod_cfg) w_suffix_chain = true /\
   r_obs (run_server prod_cfg w_suffix_chain) = [OStatus S2xx; OFlush false] /\
   stored_table (r_state (run_server prod_cfg w_suffix_chain)) = [(str_default_cpu, 1%N)]).
Proof. vm_compute. repeat split; reflexivity. Qed.

Lemma nil_key_recovered :
  front prod_cfg (RqMsgpack None (MP.MMap [(MP.MNil, MP.MInt MP.KFix 1)])) = DStatus S5xx /\
  r_obs (run_server prod_cfg w_nil_key) = [OStatus S5xx; OStatus S2xx; OFlush false] /\
  r_end (run_server prod_cfg w_nil_key) = Completed /\
  stored_rows (r_state (run_server prod_cfg w_nil_key)) = 2.
Proof. vm_compute. repeat split; reflexivity. Qed.

Lemma guarded_example :
  forallb (sevent_ok prod_cfg) w_guarded = true /\
  r_obs (run_server prod_cfg (w_guarded ++ [SFlush])) =
    [OStatus S2xx; OStatus S2xx; OStatus S2xx; OStatus S2xx; OStatus S2xx; OFlush false] /\
  stored_table (r_state (run_server prod_cfg (w_guarded ++ [SFlush]))) = [(str_default_cpu, 9%N)].
Proof. vm_compute. repeat split; reflexivity. Qed.

(* what the recover does, on the core model with a decoder output the fronts no longer produce:
   one row whose time column has two (unsorted) entries.  Recovered: the flush fails and the row
   is gone, the run completes; not recovered (the code before 763beab): the process dies. *)
Definition w_ragged : list event :=
  [EReq (DWrite str_cpu [RBatch str_cpu {| tb_n := 1; tb_cols := [(k_time, DI [5; 3]%Z); ([118]%N, DI [1]%Z)] |}]); EFlush].

Lemma recover_loses_rows :
  let res := run {| max_rows := 1000000; recover_flush := true |} w_ragged init in
  r_obs res = [OStatus S2xx; OFlush true] /\ r_end res = Completed /\ held_rows (r_state res) = 0.
Proof. vm_compute. repeat split; reflexivity. Qed.

Lemma without_recover_dies :
  r_end (run {| max_rows := 1000000; recover_flush := false |} w_ragged init) = Died [PIndexRange].
Proof. vm_compute. reflexivity. Qed.

(* input classes (Model.batch_class) of the sequences above: all inside the guard of the
   row-conservation theorem (which excludes only 8, columns of different lengths, and 16) *)
Lemma witness_classes :
  map (fun evs => fold_left (fun a e => N.lor a (event_class (front_ev prod_cfg e))) evs 0%N)
      [w_underscore; w_collision; w_suffix_collision; w_suffix_chain; w_guarded] = [2; 4; 0; 0; 2]%N.
Proof. vm_compute. reflexivity. Qed.
