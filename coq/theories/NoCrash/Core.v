(* C04 - No request payload can crash the server.  Core model: the ingest buffer and its
   flush path with Go's panicking operations as EXPLICIT outcomes.

   Transcribed from /repo/internal/ingest/arrow_writer.go (current tree):
     getColumnSignature            -> sig_string          (the signature is the STRING the code builds)
     bufferSchemaKey               -> buffer_key          (the routing key stored in bufferSchemas: the signature
                                                           for plain names, else a length-prefixed encoding of
                                                           EVERY column; commit 5cfca39)
     writeColumnarInternal /
     writeTypedColumnarRaw         -> write_rec           (schema-change flush in the handler goroutine,
                                                           append, size-triggered extraction)
     flushOnSchemaChangeLocked /
     flushBufferLocked             -> the [Some bf] branch of write_rec, the EFlush case of step
     mergeBatches                  -> merge               (type assertion panic)
     flushPartitionedData          -> flush_partitioned   (single/multi hour, sort, applyPermutation)
     getSchema / inferSchema /
     WriteParquetColumnar          -> write_parquet       (empty and '_' names are skipped since 6c35f6a;
                                                           array.NewRecord)
     flushWorker / periodicFlush /
     FlushAll                      -> background flushes in [step]
     flushRecordsAsync's recover,
     flushRecovered                -> [recover_flush]: since 763beab a panic while merging or writing FAILS that
                                      flush (the extracted batches are dropped, not retried; with a WAL they
                                      would be replayed - the WAL is not modelled) instead of killing the process.
                                      The flag is [true] for the code as it is; [false] keeps the previous
                                      behaviour so that the no-panic theorem is not true by construction.
   and from /repo/internal/api/server.go: handler panics are recovered by the fiber recover
   middleware (HTTP 500), panics on any other goroutine kill the process.

   A request is represented here by what its decoder produced ([dreq]); the decoders
   themselves are in Model.v (MessagePack and line protocol) or are unmodelled library code
   (gzip/zstd, CSV, Parquet, TLE - see DESIGN.md C04).  Every theorem of Proofs.v about this
   file is quantified over ALL sequences of [dreq], i.e. holds for ANY decoder.

   Abstractions (documented, validated by the correspondence): cell values other than the
   int64 columns' are dropped (only lengths are kept); validity bitmaps have the length of their
   column in every decoder and are not represented; storage never fails; one request at a
   time. *)
From Coq Require Import List ZArith NArith Bool Arith Decimal.
Import ListNotations.

Definition bytes := list N.

Fixpoint beqb (a b : bytes) : bool :=
  match a, b with
  | [], [] => true
  | x :: a', y :: b' => N.eqb x y && beqb a' b'
  | _, _ => false
  end.

Fixpoint bltb (a b : bytes) : bool :=          (* Go string order *)
  match a, b with
  | [], [] => false
  | [], _ :: _ => true
  | _ :: _, [] => false
  | x :: a', y :: b' => if N.ltb x y then true else if N.eqb x y then bltb a' b' else false
  end.

Fixpoint alookup {V} (k : bytes) (l : list (bytes * V)) : option V :=
  match l with
  | [] => None
  | (k', v) :: r => if beqb k k' then Some v else alookup k r
  end.

Definition c_comma : N := 44.
Definition c_colon : N := 58.
Definition c_under : N := 95.
Definition c_semi : N := 59.
Definition k_time : bytes := [116; 105; 109; 101]%N.

(* ------------------------------------------------------------------------------------ *)
(* typed column batches                                                                   *)

Inductive colty := TyI64 | TyF64 | TyStr | TyBool.

Definition colty_eqb (a b : colty) : bool :=
  match a, b with
  | TyI64, TyI64 | TyF64, TyF64 | TyStr, TyStr | TyBool, TyBool => true
  | _, _ => false
  end.

(* a Go typed slice: []int64 keeps its values (the time column decides sorting and hour
   partitioning), the others only their length *)
Inductive cdata := DI (l : list Z) | DF (n : nat) | DS (n : nat) | DB (n : nat).

Definition ty_of (d : cdata) : colty :=
  match d with DI _ => TyI64 | DF _ => TyF64 | DS _ => TyStr | DB _ => TyBool end.
Definition len_of (d : cdata) : nat :=
  match d with DI l => length l | DF n | DS n | DB n => n end.
Definition blank (t : colty) (n : nat) : cdata :=
  match t with TyI64 => DI (repeat 0%Z n) | TyF64 => DF n | TyStr => DS n | TyBool => DB n end.

(* TypedColumnBatch.Data (a Go map: names are unique) and the record count credited to the
   buffer (numRecords) *)
Record tbatch := { tb_n : nat; tb_cols : list (bytes * cdata) }.

(* ------------------------------------------------------------------------------------ *)
(* getColumnSignature                                                                     *)

Definition tystr (t : colty) : bytes :=
  match t with
  | TyI64 => [105; 54; 52]%N          (* i64 *)
  | TyF64 => [102; 54; 52]%N          (* f64 *)
  | TyStr => [115; 116; 114]%N        (* str *)
  | TyBool => [98; 111; 111; 108]%N   (* bool *)
  end.

(* len(name) == 0 || name[0] == '_' : skipped *)
Definition counted (n : bytes) : bool :=
  match n with [] => false | c :: _ => negb (N.eqb c c_under) end.

Fixpoint ins_sorted (e : bytes * colty) (l : list (bytes * colty)) : list (bytes * colty) :=
  match l with
  | [] => [e]
  | x :: r => if bltb (fst e) (fst x) then e :: l else x :: ins_sorted e r
  end.
Definition isort (l : list (bytes * colty)) : list (bytes * colty) := fold_right ins_sorted [] l.

Definition entry (e : bytes * colty) : bytes := fst e ++ c_colon :: tystr (snd e).

Fixpoint join (l : list bytes) : bytes :=
  match l with
  | [] => []
  | [x] => x
  | x :: r => x ++ c_comma :: join r
  end.

Definition col_types (cols : list (bytes * cdata)) : list (bytes * colty) :=
  map (fun c => (fst c, ty_of (snd c))) cols.

Definition sig_entries (cols : list (bytes * cdata)) : list (bytes * colty) :=
  isort (filter (fun e => counted (fst e)) (col_types cols)).

Definition sig_string (b : tbatch) : bytes := join (map entry (sig_entries (tb_cols b))).

(* ------------------------------------------------------------------------------------ *)
(* bufferSchemaKey                                                                        *)

Definition no_comma (n : bytes) : bool := forallb (fun c => negb (N.eqb c c_comma)) n.

(* plain: len(name) != 0 && name[0] != '_' && no ',' in name *)
Definition name_ok (n : bytes) : bool := counted n && no_comma n.
Definition all_plain (cols : list (bytes * cdata)) : bool := forallb (fun c => name_ok (fst c)) cols.

(* strconv.Itoa of a length *)
Fixpoint uint_bytes (u : Decimal.uint) : bytes :=
  match u with
  | Decimal.Nil => []
  | Decimal.D0 r => 48%N :: uint_bytes r | Decimal.D1 r => 49%N :: uint_bytes r
  | Decimal.D2 r => 50%N :: uint_bytes r | Decimal.D3 r => 51%N :: uint_bytes r
  | Decimal.D4 r => 52%N :: uint_bytes r | Decimal.D5 r => 53%N :: uint_bytes r
  | Decimal.D6 r => 54%N :: uint_bytes r | Decimal.D7 r => 55%N :: uint_bytes r
  | Decimal.D8 r => 56%N :: uint_bytes r | Decimal.D9 r => 57%N :: uint_bytes r
  end.
Definition dec_nat (n : nat) : bytes := uint_bytes (Nat.to_uint n).

(* len(name) ':' name ':' typ ';' *)
Definition full_entry (e : bytes * colty) : bytes :=
  dec_nat (length (fst e)) ++ c_colon :: fst e ++ c_colon :: tystr (snd e) ++ [c_semi].

(* every column (also "" and '_'-prefixed ones), sorted by name, after a 0 byte *)
Definition full_key (cols : list (bytes * cdata)) : bytes :=
  0%N :: concat (map full_entry (isort (col_types cols))).

Definition buffer_key (b : tbatch) : bytes :=
  if all_plain (tb_cols b) then sig_string b else full_key (tb_cols b).

(* ------------------------------------------------------------------------------------ *)
(* outcomes                                                                               *)

Inductive reason :=
| PIndexEmptyName     (* name[0] with len(name) == 0: getSchema / inferSchema - unreachable since 6c35f6a, kept for replay classification *)
| PTypeAssert         (* merged[name].([]T) on a column allocated with another type: mergeBatches *)
| PIndexRange         (* col[idx] beyond the column: applyPermutation *)
| PRecordRows.        (* array.NewRecord: a column shorter than the first schema field *)

Definition reason_eqb (a b : reason) : bool :=
  match a, b with
  | PIndexEmptyName, PIndexEmptyName | PTypeAssert, PTypeAssert
  | PIndexRange, PIndexRange | PRecordRows, PRecordRows => true
  | _, _ => false
  end.

Inductive fres :=
| FOk (rows : nat)         (* written; rows stored *)
| FErr                     (* flush returns an error; the batches are dropped *)
| FPanic (r : reason)
| FMay (r : reason).       (* panics or returns an error depending on Go's map iteration order *)

(* ------------------------------------------------------------------------------------ *)
(* mergeBatches                                                                           *)

(* colTypes: the type of the FIRST occurrence of every column name, batches in order *)
Fixpoint add_types (cols : list (bytes * cdata)) (acc : list (bytes * colty)) : list (bytes * colty) :=
  match cols with
  | [] => acc
  | (n, d) :: r =>
      match alookup n acc with
      | Some _ => add_types r acc
      | None => add_types r (acc ++ [(n, ty_of d)])
      end
  end.

Fixpoint first_types (bs : list tbatch) (acc : list (bytes * colty)) : list (bytes * colty) :=
  match bs with
  | [] => acc
  | b :: r => first_types r (add_types (tb_cols b) acc)
  end.

(* phase 3: copy(merged[name].([]T)[rowOffset:], v) with T the type of v *)
Definition types_agree (ct : list (bytes * colty)) (b : tbatch) : bool :=
  forallb (fun c => match alookup (fst c) ct with
                    | Some t => colty_eqb t (ty_of (snd c))
                    | None => true
                    end) (tb_cols b).

(* rows counted from the time column when it is []int64 *)
Definition time_vals (b : tbatch) : list Z :=
  match alookup k_time (tb_cols b) with Some (DI l) => l | _ => [] end.

Inductive mres := MOk (b : tbatch) | MErr | MPanic (r : reason).

(* two or more batches: phase 1-3 of mergeBatches *)
Definition merge_many (bs : list tbatch) : mres :=
  let ct := first_types bs [] in
  if forallb (types_agree ct) bs then
    let times := flat_map time_vals bs in
    let total := length times in
    MOk {| tb_n := total;
           tb_cols := map (fun e => (fst e, if beqb (fst e) k_time && colty_eqb (snd e) TyI64
                                            then DI times else blank (snd e) total)) ct |}
  else MPanic PTypeAssert.

Definition merge (bs : list tbatch) : mres :=
  match bs with
  | [] => MErr
  | [b] => MOk b
  | _ => merge_many bs
  end.

(* ------------------------------------------------------------------------------------ *)
(* flushPartitionedData                                                                   *)

Definition micro_per_hour : Z := 3600000000.
Definition hour_of (t : Z) : Z := (t / micro_per_hour)%Z.      (* floor, as Truncate(time.Hour) *)

Fixpoint zmin (m : Z) (l : list Z) : Z := match l with [] => m | x :: r => zmin (Z.min m x) r end.
Fixpoint zmax (m : Z) (l : list Z) : Z := match l with [] => m | x :: r => zmax (Z.max m x) r end.

Fixpoint sortedb (l : list Z) : bool :=
  match l with
  | [] => true
  | x :: r => match r with [] => true | y :: _ => (x <=? y)%Z && sortedb r end
  end.

(* schema fields: getSchema / inferSchema skip empty names and names starting with '_' *)
Definition schema_cols (cols : list (bytes * cdata)) : list (bytes * cdata) :=
  filter (fun c => counted (fst c)) cols.

(* WriteParquetColumnar on columns whose time column has [rows] rows: array.NewRecord takes the
   row count of the FIRST schema field (Go map order) and panics when another one is shorter;
   otherwise the Parquet writer refuses columns of different lengths *)
Definition write_parquet (cols : list (bytes * cdata)) (rows : nat) : fres :=
  if forallb (fun c => Nat.eqb (len_of (snd c)) rows) (schema_cols cols) then FOk rows
  else FMay PRecordRows.

Definition flush_partitioned (b : tbatch) : fres :=
  match alookup k_time (tb_cols b) with
  | Some (DI ((t0 :: _) as times)) =>
      let n := length times in
      if (hour_of (zmin t0 times) =? hour_of (zmax t0 times))%Z then
        if sortedb times then write_parquet (tb_cols b) n
        else if existsb (fun c => Nat.ltb (len_of (snd c)) n) (tb_cols b) then FPanic PIndexRange
        else FOk n      (* every column permuted to n rows *)
      else FOk n        (* one slice per hour: sliceColumnsByIndices is bounds-safe, every slice is rectangular *)
  | _ => FErr                                   (* "no time data in batch" *)
  end.

Definition flush_batches (bs : list tbatch) : fres :=
  match merge bs with
  | MOk b => flush_partitioned b
  | MErr => FErr
  | MPanic r => FPanic r
  end.

(* ------------------------------------------------------------------------------------ *)
(* the buffer                                                                             *)

Definition key := (bytes * bytes)%type.           (* database, measurement *)
Definition key_eqb (a b : key) : bool := beqb (fst a) (fst b) && beqb (snd a) (snd b).

Record buf := { bf_sig : bytes; bf_batches : list tbatch }.

Record state := { st_bufs : list (key * buf); st_stored : list (key * nat) }.

Definition init : state := {| st_bufs := []; st_stored := [] |}.

Fixpoint get_buf (k : key) (l : list (key * buf)) : option buf :=
  match l with
  | [] => None
  | (k', v) :: r => if key_eqb k k' then Some v else get_buf k r
  end.

Fixpoint del_buf (k : key) (l : list (key * buf)) : list (key * buf) :=
  match l with
  | [] => []
  | (k', v) :: r => if key_eqb k k' then del_buf k r else (k', v) :: del_buf k r
  end.

Definition set_buf (k : key) (v : buf) (l : list (key * buf)) : list (key * buf) := del_buf k l ++ [(k, v)].

Definition add_stored (k : key) (rows : nat) (st : state) : state :=
  {| st_bufs := st_bufs st; st_stored := st_stored st ++ [(k, rows)] |}.

Definition batch_rows (bs : list tbatch) : nat := fold_right (fun b a => tb_n b + a) 0 bs.

(* ingest.max_buffer_size; whether a panic inside a flush is recovered (the code as it is: true) *)
Record cfg := { max_rows : N; recover_flush : bool }.

Definition task := (key * list tbatch)%type.      (* a flushTask on the worker queue *)

Inductive wres :=
| WOk (st : state) (bg : list task)
| WPanic (st : state) (r : reason)                (* panic in the handler goroutine *)
| WMay (st : state).

(* append to the buffer of [k], extract it when the row count reaches the limit *)
Definition append_batch (c : cfg) (st : state) (k : key) (b : tbatch) (bg : list task) : wres :=
  let bf := match get_buf k (st_bufs st) with
            | Some bf => {| bf_sig := bf_sig bf; bf_batches := bf_batches bf ++ [b] |}
            | None => {| bf_sig := buffer_key b; bf_batches := [b] |}
            end in
  if N.leb (max_rows c) (N.of_nat (batch_rows (bf_batches bf))) then
    WOk {| st_bufs := del_buf k (st_bufs st); st_stored := st_stored st |} (bg ++ [(k, bf_batches bf)])
  else
    WOk {| st_bufs := set_buf k bf (st_bufs st); st_stored := st_stored st |} bg.

Definition write_rec (c : cfg) (st : state) (k : key) (b : tbatch) (bg : list task) : wres :=
  match get_buf k (st_bufs st) with
  | Some bf =>
      if beqb (bf_sig bf) (buffer_key b) then append_batch c st k b bg
      else
        (* schema evolution: flushBufferLocked in the HANDLER goroutine; the entry is deleted first.
           A failed flush (error, or recovered panic) is logged, its batches are gone, the write goes on *)
        let st1 := {| st_bufs := del_buf k (st_bufs st); st_stored := st_stored st |} in
        match flush_batches (bf_batches bf) with
        | FOk rows => append_batch c (add_stored k rows st1) k b bg
        | FErr => append_batch c st1 k b bg
        | FPanic r => if recover_flush c then append_batch c st1 k b bg else WPanic st1 r
        | FMay _ => if recover_flush c then append_batch c st1 k b bg else WMay st1
        end
  | None => append_batch c st k b bg
  end.

(* ------------------------------------------------------------------------------------ *)
(* requests as their decoder leaves them                                                  *)

Inductive rec :=
| RBatch (m : bytes) (b : tbatch)    (* a record that reaches the buffer *)
| RFail.                             (* a record on which the write loop returns an error
                                        (conversion failure, unknown record type) *)

Inductive status := S2xx | S4xx | S5xx.

Definition status_eqb (a b : status) : bool :=
  match a, b with S2xx, S2xx | S4xx, S4xx | S5xx, S5xx => true | _, _ => false end.

Inductive dreq :=
| DStatus (s : status)                       (* answered by the request front; the buffer is not touched *)
| DWrite (db : bytes) (rs : list rec)        (* the write loop over the decoded records *)
| DUnordered.                                (* several records written in Go-map order of which one fails:
                                                which of them are stored is not determined *)

Inductive event := EReq (d : dreq) | EFlush.  (* EFlush: age-based flush / FlushAll on a background goroutine *)

Inductive obs := OStatus (s : status) | OFlush (failed : bool).

Inductive hres :=
| HDone (st : state) (s : status) (bg : list task)
| HMay (st : state).

Fixpoint write_loop (c : cfg) (st : state) (db : bytes) (rs : list rec) (bg : list task) : hres :=
  match rs with
  | [] => HDone st S2xx bg
  | RFail :: _ => HDone st S5xx bg
  | RBatch m b :: r =>
      match write_rec c st (db, m) b bg with
      | WOk st' bg' => write_loop c st' db r bg'
      | WPanic st' _ => HDone st' S5xx bg          (* recovered by the middleware *)
      | WMay st' => HMay st'
      end
  end.

Definition handle (c : cfg) (st : state) (d : dreq) : hres :=
  match d with
  | DStatus s => HDone st s []
  | DWrite db rs => write_loop c st db rs []
  | DUnordered => HMay st
  end.

Inductive ending := Completed | Died (rs : list reason) | Unpredicted.

(* flushes on goroutines nobody recovers: [rs] collects the panics, [may] the order-dependent ones *)
Fixpoint run_tasks (c : cfg) (ts : list task) (st : state) (rs : list reason) (may failed : bool)
  : state * list reason * bool * bool :=
  match ts with
  | [] => (st, rs, may, failed)
  | (k, bs) :: r =>
      match flush_batches bs with
      | FOk rows => run_tasks c r (add_stored k rows st) rs may failed
      | FErr => run_tasks c r st rs may true
      | FPanic x => if recover_flush c then run_tasks c r st rs may true     (* recovered: this flush fails *)
                    else run_tasks c r st (rs ++ [x]) may failed
      | FMay _ => if recover_flush c then run_tasks c r st rs may true       (* panic or error: it fails either way *)
                  else run_tasks c r st rs true failed
      end
  end.

Definition ending_of (rs : list reason) (may : bool) : ending :=
  match rs with
  | _ :: _ => Died rs
  | [] => if may then Unpredicted else Completed
  end.

Definition step (c : cfg) (st : state) (e : event) : state * option obs * ending :=
  match e with
  | EReq d =>
      match handle c st d with
      | HDone st' s bg =>
          let '(st2, rs, may, _) := run_tasks c bg st' [] false false in
          (st2, Some (OStatus s), ending_of rs may)
      | HMay st' => (st', None, Unpredicted)
      end
  | EFlush =>
      let ts := map (fun kb => (fst kb, bf_batches (snd kb))) (st_bufs st) in
      let '(st2, rs, may, failed) :=
        run_tasks c ts {| st_bufs := []; st_stored := st_stored st |} [] false false in
      (st2, Some (OFlush failed), ending_of rs may)
  end.

Record result := { r_obs : list obs; r_state : state; r_end : ending }.

(* the run stops at the first event that does not complete; the observation of that event is
   not part of the result (a dying process may or may not have answered) *)
Fixpoint run (c : cfg) (evs : list event) (st : state) : result :=
  match evs with
  | [] => {| r_obs := []; r_state := st; r_end := Completed |}
  | e :: r =>
      match step c st e with
      | (st', Some o, Completed) =>
          let res := run c r st' in
          {| r_obs := o :: r_obs res; r_state := r_state res; r_end := r_end res |}
      | (st', _, en) => {| r_obs := []; r_state := st'; r_end := en |}
      end
  end.

Definition alive (r : result) : bool := match r_end r with Died _ => false | _ => true end.

(* ------------------------------------------------------------------------------------ *)
(* row accounting                                                                         *)

Definition stored_rows (st : state) : nat := fold_right (fun kv a => snd kv + a) 0 (st_stored st).
Definition buffered_rows (st : state) : nat :=
  fold_right (fun kb a => batch_rows (bf_batches (snd kb)) + a) 0 (st_bufs st).
Definition held_rows (st : state) : nat := stored_rows st + buffered_rows st.

(* rows of the records the write loop reaches: those before the first failing record *)
Fixpoint reached_rows (rs : list rec) : nat :=
  match rs with
  | RBatch _ b :: r => tb_n b + reached_rows r
  | _ => 0
  end.

Definition dreq_rows (d : dreq) : nat := match d with DWrite _ rs => reached_rows rs | _ => 0 end.
Definition event_rows (e : event) : nat := match e with EReq d => dreq_rows d | EFlush => 0 end.
Definition events_rows (evs : list event) : nat := fold_right (fun e a => event_rows e + a) 0 evs.

(* ------------------------------------------------------------------------------------ *)
(* the guard of the row-conservation theorems: what the code relies on but does not check     *)

Fixpoint nodupb (l : list bytes) : bool :=
  match l with
  | [] => true
  | x :: r => negb (existsb (beqb x) r) && nodupb r
  end.

(* a Go map (unique names), an int64 time column, every column as long as the record count *)
Definition batch_okb (b : tbatch) : bool :=
  nodupb (map fst (tb_cols b))
  && forallb (fun c => Nat.eqb (len_of (snd c)) (tb_n b)) (tb_cols b)
  && match alookup k_time (tb_cols b) with Some (DI _) => true | _ => false end.

Definition rec_okb (r : rec) : bool := match r with RBatch _ b => batch_okb b | RFail => true end.
Definition dreq_okb (d : dreq) : bool :=
  match d with DStatus _ => true | DWrite _ rs => forallb rec_okb rs | DUnordered => false end.
Definition event_okb (e : event) : bool := match e with EReq d => dreq_okb d | EFlush => true end.
