(* C04 - No request payload can crash the server.
   Only property statements live here; proofs are in Proofs.v.

   Reading guide.  [run c evs st] (Core.v) runs a sequence of events - decoded requests and
   background flushes - against the ingest buffer; a panic on a goroutine nobody recovers ends
   the run with [Died].  [run_server s evs] (Model.v) puts the MessagePack and line-protocol
   request fronts before it.  The guard [event_okb] / [sevent_ok] says: every batch a request
   decodes to has unique column names that are non-empty, do not start with '_' and contain no
   ',', an int64 time column, and columns of one length.  The unguarded property is refuted on
   the faithful model by four witnesses, one per clause of the guard. *)
From Coq Require Import List ZArith NArith Bool.
From Arc Require Import NoCrash.Core NoCrash.Model NoCrash.Proofs.
Import ListNotations.

(* ---- for ANY decoder: every sequence of decoded requests and background flushes ---------- *)

(* Starting from any state that satisfies the buffer invariant (in particular the empty one),
   a sequence whose decoded batches satisfy the guard never kills the process, is never at the
   mercy of Go's map order, and every event gets its answer. *)
Theorem C04_core_no_panic_guarded : forall c evs st,
  Inv st -> forallb event_okb evs = true ->
  r_end (run c evs st) = Completed /\ length (r_obs (run c evs st)) = length evs.
Proof. exact core_no_panic_guarded. Qed.
Print Assumptions C04_core_no_panic_guarded.

(* Rows are conserved: what is stored or buffered grows by exactly the rows of the records the
   write loops reached (all records of an accepted request; the records before the first
   failing one otherwise), and after one more background flush all of it is stored. *)
Theorem C04_core_rows_conserved_guarded : forall c evs st,
  Inv st -> forallb event_okb evs = true ->
  held_rows (r_state (run c evs st)) = held_rows st + events_rows evs /\
  (st_bufs (r_state (run c (evs ++ [EFlush]) st)) = [] /\
   stored_rows (r_state (run c (evs ++ [EFlush]) st)) = held_rows st + events_rows evs).
Proof. exact core_rows_conserved_guarded. Qed.
Print Assumptions C04_core_rows_conserved_guarded.

(* A request the front answers itself, or whose first record already fails, changes nothing
   (no guard needed). *)
Theorem C04_core_front_rejected_stores_nothing : forall c st,
  (forall s, step c st (EReq (DStatus s)) = (st, Some (OStatus s), Completed)) /\
  (forall db rs, step c st (EReq (DWrite db (RFail :: rs))) = (st, Some (OStatus S5xx), Completed)).
Proof. exact core_front_rejected_stores_nothing. Qed.
Print Assumptions C04_core_front_rejected_stores_nothing.

(* ---- the server with the MessagePack and line-protocol fronts ----------------------------- *)

Theorem C04_no_panic_guarded : forall s evs,
  forallb (sevent_ok s) evs = true ->
  r_end (run_server s evs) = Completed /\ length (r_obs (run_server s evs)) = length evs.
Proof. exact server_no_panic_guarded. Qed.
Print Assumptions C04_no_panic_guarded.

Theorem C04_rows_conserved_guarded : forall s evs,
  forallb (sevent_ok s) evs = true ->
  held_rows (r_state (run_server s evs)) = events_rows (map (front_ev s) evs) /\
  (st_bufs (r_state (run_server s (evs ++ [SFlush]))) = [] /\
   stored_rows (r_state (run_server s (evs ++ [SFlush]))) = events_rows (map (front_ev s) evs)).
Proof. exact server_rows_conserved_guarded. Qed.
Print Assumptions C04_rows_conserved_guarded.

(* Whatever the request front refuses (invalid database or measurement name, undecodable
   body, decoder panic recovered as 500) leaves buffer and storage as they were. *)
Theorem C04_front_rejected_stores_nothing : forall s r c st x,
  front s r = DStatus x -> step c st (EReq (front s r)) = (st, Some (OStatus x), Completed).
Proof. exact server_front_rejected_stores_nothing. Qed.
Print Assumptions C04_front_rejected_stores_nothing.

(* ---- the unguarded property is FALSE of the code: one witness per clause of the guard ---- *)

(* {m:"cpu", columns:{time:[..], "":[1,2]}}: answered 204, then the flush goroutine indexes
   name[0] of the empty column name. *)
Theorem C04_no_panic_refuted_empty_name :
  r_obs (run_server prod_cfg w_empty_name) = [OStatus S2xx] /\
  r_end (run_server prod_cfg w_empty_name) = Died [PIndexEmptyName].
Proof. exact refuted_empty_name. Qed.
Print Assumptions C04_no_panic_refuted_empty_name.

(* column "_x" as int64 then as string: getColumnSignature skips it, both requests (204, 204)
   share a buffer, mergeBatches' type assertion panics in the flush goroutine. *)
Theorem C04_no_panic_refuted_underscore_type_change :
  r_obs (run_server prod_cfg w_underscore) = [OStatus S2xx; OStatus S2xx] /\
  r_end (run_server prod_cfg w_underscore) = Died [PTypeAssert].
Proof. exact refuted_underscore. Qed.
Print Assumptions C04_no_panic_refuted_underscore_type_change.

(* no '_' and no empty name needed: {Z:f64, a:i64, "q:str,a":str} and {"Z:f64,a:i64,q":str, a:str}
   have the same signature STRING, column a changes type inside one buffer. *)
Theorem C04_no_panic_refuted_signature_collision :
  r_obs (run_server prod_cfg w_collision) = [OStatus S2xx; OStatus S2xx] /\
  r_end (run_server prod_cfg w_collision) = Died [PTypeAssert].
Proof. exact refuted_collision. Qed.
Print Assumptions C04_no_panic_refuted_signature_collision.

(* row format with a FIELD named "time" earlier than the row's timestamp: a 2-entry time column
   over 1-row columns, applyPermutation indexes out of range in the flush goroutine. *)
Theorem C04_no_panic_refuted_row_time_field :
  r_obs (run_server prod_cfg w_row_time) = [OStatus S2xx] /\
  r_end (run_server prod_cfg w_row_time) = Died [PIndexRange].
Proof. exact refuted_row_time. Qed.
Print Assumptions C04_no_panic_refuted_row_time_field.

(* "a rejected request stores no rows" is false: a batch whose SECOND record fails is answered
   500 and the first record's 2 rows are stored. *)
Theorem C04_rejected_stores_nothing_refuted :
  r_obs (run_server prod_cfg w_partial) = [OStatus S5xx; OFlush false] /\
  r_end (run_server prod_cfg w_partial) = Completed /\
  stored_table (r_state (run_server prod_cfg w_partial)) = [([100;101;102;97;117;108;116;47;97;97]%N, 2%N)].
Proof. exact refuted_partial. Qed.
Print Assumptions C04_rejected_stores_nothing_refuted.

(* "stored correctly or rejected" is false: the empty-named column's request is accepted (204),
   the next request's schema-change flush panics in the handler (recovered: 500) and the 2
   accepted rows are gone. *)
Theorem C04_accepted_rows_lost_refuted :
  r_obs (run_server prod_cfg w_lost) = [OStatus S2xx; OStatus S5xx; OFlush false] /\
  r_end (run_server prod_cfg w_lost) = Completed /\
  stored_rows (r_state (run_server prod_cfg w_lost)) = 0.
Proof. exact refuted_lost. Qed.
Print Assumptions C04_accepted_rows_lost_refuted.

(* The msgpack library panic on a nil map key happens inside the handler: answered 500, the
   process lives and the next request is stored. *)
Theorem C04_decoder_panic_recovered :
  front prod_cfg (RqMsgpack None (MP.MMap [(MP.MNil, MP.MInt MP.KFix 1)])) = DStatus S5xx /\
  r_obs (run_server prod_cfg w_nil_key) = [OStatus S5xx; OStatus S2xx; OFlush false] /\
  r_end (run_server prod_cfg w_nil_key) = Completed /\
  stored_rows (r_state (run_server prod_cfg w_nil_key)) = 2.
Proof. exact nil_key_recovered. Qed.
Print Assumptions C04_decoder_panic_recovered.

(* ---- non-vacuity ------------------------------------------------------------------------- *)

(* The guard is satisfiable by a non-trivial sequence (a type change of an ordinary column and
   a line-protocol write to the same measurement): three 204s, 5 rows stored. *)
Example C04_guard_nonvacuous :
  forallb (sevent_ok prod_cfg) w_guarded = true /\
  r_obs (run_server prod_cfg (w_guarded ++ [SFlush])) = [OStatus S2xx; OStatus S2xx; OStatus S2xx; OFlush false] /\
  stored_table (r_state (run_server prod_cfg (w_guarded ++ [SFlush]))) = [([100;101;102;97;117;108;116;47;99;112;117]%N, 5%N)].
Proof. exact guarded_example. Qed.

(* The empty state satisfies the invariant of the core theorems. *)
Example C04_invariant_nonvacuous : Inv init.
Proof. exact Inv_init. Qed.

(* Each refutation witness leaves the guard through exactly one clause (1 empty name, 2 '_'
   prefix, 4 ',' in a name, 8 columns of different lengths); the guarded example through none. *)
Example C04_excluded_classes :
  map (fun evs => fold_left (fun a e => N.lor a (event_class (front_ev prod_cfg e))) evs 0%N)
      [w_empty_name; w_underscore; w_collision; w_row_time; w_guarded] = [1; 2; 4; 8; 0]%N.
Proof. exact witness_classes. Qed.
