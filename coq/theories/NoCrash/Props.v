(* C04 - No request payload can crash the server.
   Only property statements live here; proofs are in Proofs.v.

   Reading guide.  [run c evs st] (Core.v) runs a sequence of events - decoded requests and
   background flushes - against the ingest buffer; Go's panicking operations are explicit
   outcomes of the flush ([FPanic]); a panic on a goroutine nobody recovers ends the run with
   [Died].  [run_server s evs] (Model.v) puts the MessagePack and line-protocol request fronts
   before it, with the configuration of the code as it is (flush panics recovered, commit
   763beab).  The model follows /repo after commits 6c35f6a (the request front refuses empty
   names and a row-format field named "time"; getSchema skips empty names), 5cfca39 (collision-free
   routing key), 763beab (recover in the flush paths). *)
From Coq Require Import List ZArith NArith Bool.
From Arc Require Import NoCrash.Core NoCrash.Model NoCrash.Proofs.
Import ListNotations.

(* ---- no request sequence can kill the process --------------------------------------------- *)

(* Full strength, no guard: for EVERY sequence of requests and background flushes the server
   process does not die - whatever the requests decode to. *)
Theorem C04_no_panic : forall s evs rs, r_end (run_server s evs) <> Died rs.
Proof. exact server_no_panic. Qed.
Print Assumptions C04_no_panic.

(* The same for ANY decoder (CSV, Parquet, TLE, compressed bodies: whatever batches reach the
   buffer), from ANY state, given only that a panic inside a flush is recovered. *)
Theorem C04_core_no_panic : forall c evs st rs,
  recover_flush c = true -> r_end (run c evs st) <> Died rs.
Proof. exact core_no_panic. Qed.
Print Assumptions C04_core_no_panic.

(* ... and that hypothesis carries weight: the same events kill a server that does not recover
   (the code before 763beab), while the recovering one completes - the flush fails, the row it
   carried is dropped (not retried; only a WAL replay, not modelled, would bring it back). *)
Theorem C04_recover_is_what_saves_the_process :
  r_end (run {| max_rows := 1000000; recover_flush := false |} w_ragged init) = Died [PIndexRange] /\
  (let res := run {| max_rows := 1000000; recover_flush := true |} w_ragged init in
   r_obs res = [OStatus S2xx; OFlush true] /\ r_end res = Completed /\ held_rows (r_state res) = 0).
Proof. split; [exact without_recover_dies|exact recover_loses_rows]. Qed.
Print Assumptions C04_recover_is_what_saves_the_process.

(* ---- no flush even fails, rows are conserved: weakest guard -------------------------------- *)

(* The guard [event_okb] no longer mentions column NAMES: a batch must be a Go map (unique
   names) with an int64 time column whose columns all have the length of the record count.
   Then, with or without the recover, from any state satisfying the buffer invariant: no panic
   arises in any flush, no outcome depends on Go's map order, every event is answered, ... *)
Theorem C04_core_no_flush_failure_guarded : forall c evs st,
  Inv st -> forallb event_okb evs = true ->
  r_end (run c evs st) = Completed /\ length (r_obs (run c evs st)) = length evs.
Proof. exact core_no_flush_failure_guarded. Qed.
Print Assumptions C04_core_no_flush_failure_guarded.

(* ... and rows are conserved: what is stored or buffered grows by exactly the rows of the
   records the write loops reached (all records of an accepted request; the records before the
   first failing one otherwise), and after one more background flush all of it is stored. *)
Theorem C04_core_rows_conserved_guarded : forall c evs st,
  Inv st -> forallb event_okb evs = true ->
  held_rows (r_state (run c evs st)) = held_rows st + events_rows evs /\
  (st_bufs (r_state (run c (evs ++ [EFlush]) st)) = [] /\
   stored_rows (r_state (run c (evs ++ [EFlush]) st)) = held_rows st + events_rows evs).
Proof. exact core_rows_conserved_guarded. Qed.
Print Assumptions C04_core_rows_conserved_guarded.

Theorem C04_rows_conserved_guarded : forall s evs,
  forallb (sevent_ok s) evs = true ->
  (r_end (run_server s evs) = Completed /\ length (r_obs (run_server s evs)) = length evs) /\
  held_rows (r_state (run_server s evs)) = events_rows (map (front_ev s) evs) /\
  (st_bufs (r_state (run_server s (evs ++ [SFlush]))) = [] /\
   stored_rows (r_state (run_server s (evs ++ [SFlush]))) = events_rows (map (front_ev s) evs)).
Proof.
  intros s evs H. split; [exact (server_no_flush_failure_guarded s evs H)|exact (server_rows_conserved_guarded s evs H)].
Qed.
Print Assumptions C04_rows_conserved_guarded.

(* ---- a refused request stores nothing ------------------------------------------------------ *)

(* A request the front answers itself, or whose first record already fails, changes nothing
   (any decoder, no guard). *)
Theorem C04_core_front_rejected_stores_nothing : forall c st,
  (forall s, step c st (EReq (DStatus s)) = (st, Some (OStatus s), Completed)) /\
  (forall db rs, step c st (EReq (DWrite db (RFail :: rs))) = (st, Some (OStatus S5xx), Completed)).
Proof. exact core_front_rejected_stores_nothing. Qed.
Print Assumptions C04_core_front_rejected_stores_nothing.

(* Whatever the request front refuses (invalid database or measurement name, undecodable body,
   decoder panic recovered as 500, an empty column name, a row-format field named "time")
   leaves buffer and storage as they were. *)
Theorem C04_front_rejected_stores_nothing : forall s r c st x,
  front s r = DStatus x -> step c st (EReq (front s r)) = (st, Some (OStatus x), Completed).
Proof. exact server_front_rejected_stores_nothing. Qed.
Print Assumptions C04_front_rejected_stores_nothing.

(* ---- the sequences that crashed the server before the fixes -------------------------------- *)

(* Column "" : refused 400, nothing stored.  Column _x as int then string, and the
   signature-string collision ({Z:f64, a:i64, "q:str,a":str} / {"Z:f64,a:i64,q":str, a:str}):
   both requests accepted, all 4 rows stored.  Row-format field "time": refused 400. *)
Theorem C04_old_crash_witnesses_fixed :
  (r_obs (run_server prod_cfg w_empty_name) = [OStatus S4xx; OFlush false] /\
   stored_rows (r_state (run_server prod_cfg w_empty_name)) = 0) /\
  (r_obs (run_server prod_cfg w_underscore) = [OStatus S2xx; OStatus S2xx; OFlush false] /\
   stored_table (r_state (run_server prod_cfg w_underscore)) = [(str_default_cpu, 4%N)]) /\
  (r_obs (run_server prod_cfg w_collision) = [OStatus S2xx; OStatus S2xx; OFlush false] /\
   stored_table (r_state (run_server prod_cfg w_collision)) = [(str_default_cpu, 4%N)]) /\
  (r_obs (run_server prod_cfg w_row_time) = [OStatus S4xx; OFlush false] /\
   stored_rows (r_state (run_server prod_cfg w_row_time)) = 0).
Proof. exact old_witnesses_fixed. Qed.
Print Assumptions C04_old_crash_witnesses_fixed.

(* ---- what is still FALSE of the code ------------------------------------------------------- *)

(* "a rejected request stores no rows": a batch whose SECOND record fails is answered 500 and
   the first record's 2 rows are stored. *)
Theorem C04_rejected_stores_nothing_refuted :
  r_obs (run_server prod_cfg w_partial) = [OStatus S5xx; OFlush false] /\
  r_end (run_server prod_cfg w_partial) = Completed /\
  stored_table (r_state (run_server prod_cfg w_partial)) = [([100;101;102;97;117;108;116;47;97;97]%N, 2%N)].
Proof. exact refuted_partial. Qed.
Print Assumptions C04_rejected_stores_nothing_refuted.

(* "stored correctly or rejected", re-decided after ac0d5a8: the sequences that lost an accepted row
   are now inside the guard and store it - {fields:{a}, tags:{a, a_value}} and the chain
   {fields:{a, a_value}, tags:{a, a_value}}.  No sequence through the modelled fronts that loses an
   accepted row is known any more; the general statement is C04_rows_conserved_guarded (rows are
   conserved whenever the decoded batches are rectangular Go maps with an int64 time column).
   RESIDUAL: it is not proved here that the MessagePack and line-protocol fronts can only produce
   such batches (that needs lemmas about Arc.MsgPack.Model / Arc.LP.Model owned by other areas);
   the guard is evaluated on every case of the correspondence instead. *)
Theorem C04_lost_row_witnesses_fixed :
  (forallb (sevent_ok prod_cfg) w_suffix_collision = true /\
   r_obs (run_server prod_cfg w_suffix_collision) = [OStatus S2xx; OFlush false] /\
   stored_table (r_state (run_server prod_cfg w_suffix_collision)) = [(str_default_cpu, 1%N)]) /\
  (forallb (sevent_ok prod_cfg) w_suffix_chain = true /\
   r_obs (run_server prod_cfg w_suffix_chain) = [OStatus S2xx; OFlush false] /\
   stored_table (r_state (run_server prod_cfg w_suffix_chain)) = [(str_default_cpu, 1%N)]).
Proof. exact suffix_witnesses_fixed. Qed.
Print Assumptions C04_lost_row_witnesses_fixed.

(* The msgpack library panic on a nil map key happens inside the handler: answered 500, the
   process lives and the next request is stored. *)
Theorem C04_decoder_panic_recovered :
  front prod_cfg (RqMsgpack None (MP.MMap [(MP.MNil, MP.MInt MP.KFix 1)])) = DStatus S5xx /\
  r_obs (run_server prod_cfg w_nil_key) = [OStatus S5xx; OStatus S2xx; OFlush false] /\
  r_end (run_server prod_cfg w_nil_key) = Completed /\
  stored_rows (r_state (run_server prod_cfg w_nil_key)) = 2.
Proof. exact nil_key_recovered. Qed.
Print Assumptions C04_decoder_panic_recovered.

(* ---- non-vacuity ------------------------------------------------------------------------- *)

(* The guard is satisfiable by a non-trivial sequence (type changes of an ordinary and of an
   '_'-prefixed column, then line protocol on the same measurement): five 204s, 9 rows stored. *)
Example C04_guard_nonvacuous :
  forallb (sevent_ok prod_cfg) w_guarded = true /\
  r_obs (run_server prod_cfg (w_guarded ++ [SFlush])) =
    [OStatus S2xx; OStatus S2xx; OStatus S2xx; OStatus S2xx; OStatus S2xx; OFlush false] /\
  stored_table (r_state (run_server prod_cfg (w_guarded ++ [SFlush]))) = [(str_default_cpu, 9%N)].
Proof. exact guarded_example. Qed.

(* The empty state satisfies the invariant of the core theorems. *)
Example C04_invariant_nonvacuous : Inv init.
Proof. exact Inv_init. Qed.

(* Every sequence above is inside the guard (classes 2 = '_' names and 4 = ',' names are allowed). *)
Example C04_excluded_classes :
  map (fun evs => fold_left (fun a e => N.lor a (event_class (front_ev prod_cfg e))) evs 0%N)
      [w_underscore; w_collision; w_suffix_collision; w_suffix_chain; w_guarded] = [2; 4; 0; 0; 2]%N /\
  forallb (sevent_ok prod_cfg) w_underscore = true /\ forallb (sevent_ok prod_cfg) w_collision = true.
Proof. split; [exact witness_classes|vm_compute; repeat split; reflexivity]. Qed.

(* ... and the guard is not trivially true: a batch whose time column is longer than the others
   (what rowsToColumnar produced before 6c35f6a / ac0d5a8) is outside it. *)
Example C04_guard_excludes_ragged : forallb event_okb w_ragged = false.
Proof. vm_compute. reflexivity. Qed.
