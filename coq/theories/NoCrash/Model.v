(* C04 - the request fronts on top of Core.v, the whole-server run, and the executable
   predicates used by the correspondence.  Definitions only (proofs are in Proofs.v).

   Fronts transcribed from /repo/internal/api (current tree):
     msgpack.go:writeMsgPack     decode (a decoder panic is recovered: 500) -> database name ->
                                 measurement names of every decoded record -> ArrowBuffer.Write, which
                                 first refuses the whole request (ErrInvalidColumnName: 400) when a record has
                                 an empty column/field/tag name or a row-format field named "time" (6c35f6a)
     lineprotocol.go:handleWrite database name -> precision -> parse -> BatchToColumnar ->
                                 measurement names -> one WriteColumnarRecord per measurement
     arrow_writer.go:Write       columnar records in order, then the row records grouped by
                                 measurement through rowsToColumnar
   The MessagePack decode is Arc.MsgPack.Model (area MsgPack, imported read-only), the line
   protocol parse is Arc.LP.Model (area LP, imported read-only).  gzip/zstd decompression,
   CSV, Parquet and TLE bodies have no Gallina model (DESIGN.md C04: partial). *)
From Coq Require Import List ZArith NArith Bool Arith.
From Arc Require Import NoCrash.Core.
From Arc Require MsgPack.Model LP.Model.
Import ListNotations.

Module MP := Arc.MsgPack.Model.
Module LPM := Arc.LP.Model.

(* ------------------------------------------------------------------------------------ *)
(* isValidDatabaseName / isValidMeasurementName                                           *)

Definition is_alpha (c : N) : bool := ((65 <=? c) && (c <=? 90) || (97 <=? c) && (c <=? 122))%N.
Definition is_name_char (c : N) : bool :=
  (is_alpha c || (48 <=? c) && (c <=? 57) || (c =? 95) || (c =? 45))%N.

Definition valid_name (maxlen : nat) (s : bytes) : bool :=
  match s with
  | [] => false
  | c :: r => is_alpha c && forallb is_name_char r && Nat.leb (length s) maxlen
  end.

Definition valid_db := valid_name 64.
Definition valid_meas := valid_name 128.

Definition s_default : bytes := [100; 101; 102; 97; 117; 108; 116]%N.   (* default *)
Definition s_value : bytes := [95; 118; 97; 108; 117; 101]%N.           (* _value *)

Definition db_of (h : option bytes) : bytes :=
  match h with None | Some [] => s_default | Some d => d end.

(* ------------------------------------------------------------------------------------ *)
(* MessagePack front                                                                      *)

Definition cdata_of (c : MP.coldata) : cdata :=
  match c with
  | MP.CI64 l => DI l
  | MP.CF64 l => DF (length l)
  | MP.CStr l => DS (length l)
  | MP.CBool l => DB (length l)
  end.

Definition tbatch_of (b : MP.batch) : tbatch :=
  {| tb_n := Z.to_nat (MP.b_n b);
     tb_cols := map (fun c => (fst c, cdata_of (fst (snd c)))) (MP.b_cols b) |}.

(* a row record as rowsToColumnar reads it.  Should the columns of a group end up with different
   lengths, the record count credited to the buffer is the length of whichever column Go's map
   iteration visits first; the model takes the time column's. *)
Record rowrec := { rr_ts : Z; rr_fields : list (bytes * MP.gval); rr_tags : list (bytes * MP.tagv) }.

Definition bmem (k : bytes) (l : list bytes) : bool := existsb (beqb k) l.
Definition bdedup (l : list bytes) : list bytes :=
  fold_left (fun acc x => if bmem x acc then acc else acc ++ [x]) l [].

(* columns[name] = make(...) : the entry is (re)set to empty *)
Fixpoint col_reset (n : bytes) (cols : MP.gcols) : MP.gcols :=
  match cols with
  | [] => [(n, [])]
  | (n', v) :: r => if beqb n n' then (n', []) :: r else (n', v) :: col_reset n r
  end.

(* columns[name] = append(columns[name], v) *)
Fixpoint col_app (n : bytes) (v : MP.gval) (cols : MP.gcols) : MP.gcols :=
  match cols with
  | [] => [(n, [v])]
  | (n', l) :: r => if beqb n n' then (n', l ++ [v]) :: r else (n', l) :: col_app n v r
  end.

Definition tag_gval (t : option MP.tagv) : MP.gval :=
  match t with
  | Some (MP.TagS s) => MP.GStr s
  | Some MP.TagUnmodelled => MP.GStr []
  | None => MP.GNil
  end.

(* sort.Strings on the field names *)
Fixpoint bins (x : bytes) (l : list bytes) : list bytes :=
  match l with
  | [] => [x]
  | y :: r => if bltb x y then x :: l else y :: bins x r
  end.
Definition bsort (l : list bytes) : list bytes := fold_right bins [] l.

(* the column of one field (ac0d5a8): the "_value" suffix is repeated until the name is taken neither
   by a tag, nor by another field, nor by an earlier rename (which include the reserved "time").
   The Go loop has no bound; a name is refused at most once per tag, field and earlier rename. *)
Fixpoint pick_column (fuel : nat) (tags fields taken : list bytes) (field name : bytes) : bytes :=
  match fuel with
  | O => name
  | S f =>
      if negb (bmem name tags) && negb (bmem name taken) && (beqb name field || negb (bmem name fields))
      then name else pick_column f tags fields taken field (name ++ s_value)
  end.

(* fieldColumn: fields in sorted order, each name added to [taken] *)
Fixpoint assign_columns (tags fields : list bytes) (todo : list bytes) (taken : list bytes)
  : list (bytes * bytes) :=
  match todo with
  | [] => []
  | f :: r =>
      let name := pick_column (S (length tags + length fields + length taken)) tags fields taken f f in
      (f, name) :: assign_columns tags fields r (name :: taken)
  end.

Definition rows_to_columnar (rows : list rowrec) : MP.gcols :=
  let all_tags := bdedup (flat_map (fun r => map fst (rr_tags r)) rows) in
  let all_fields := bdedup (flat_map (fun r => map fst (rr_fields r)) rows) in
  let fcol := assign_columns all_tags all_fields (bsort all_fields) [k_time] in
  let fname := fun f => match alookup f fcol with Some n => n | None => f end in
  let init := fold_left (fun cs f => col_reset (fname f) cs) (bsort all_fields)
                (fold_left (fun cs t => col_reset t cs) all_tags [(k_time, [])]) in
  fold_left (fun cs r =>
               let cs1 := col_app k_time (MP.GInt MP.KI64 (rr_ts r)) cs in
               let cs2 := fold_left (fun cs t => col_app t (tag_gval (alookup t (rr_tags r))) cs) all_tags cs1 in
               fold_left (fun cs f => col_app (fname f)
                                              (match alookup f (rr_fields r) with Some v => v | None => MP.GNil end) cs)
                         all_fields cs2)
            rows init.

Fixpoint group_row (m : bytes) (r : rowrec) (acc : list (bytes * list rowrec)) :=
  match acc with
  | [] => [(m, [r])]
  | (m', g) :: t => if beqb m m' then (m', g ++ [r]) :: t else (m', g) :: group_row m r t
  end.

Definition row_groups (items : list MP.item) : list (bytes * list rowrec) :=
  fold_left (fun acc i => match i with
                          | MP.IRow m sec nsec fields tags =>
                              group_row m {| rr_ts := sec * 1000000 + nsec / 1000; rr_fields := fields; rr_tags := tags |} acc
                          | _ => acc
                          end) items [].

Definition col_recs (items : list MP.item) : list rec :=
  flat_map (fun i => match i with
                     | MP.ICol m (Some b) => [RBatch m (tbatch_of b)]
                     | MP.ICol _ None => [RFail]
                     | MP.IBad => [RFail]
                     | MP.IRow _ _ _ _ _ => []
                     end) items.

Definition row_recs (o : MP.ops) (items : list MP.item) : list rec :=
  map (fun mg => match MP.convert o (rows_to_columnar (snd mg)) with
                 | Some b => RBatch (fst mg) (tbatch_of b)
                 | None => RFail
                 end) (row_groups items).

(* extractMeasurements: the measurement names of the decoded records *)
Definition item_meas (items : list MP.item) : list bytes :=
  flat_map (fun i => match i with
                     | MP.ICol m _ => [m]
                     | MP.IRow m _ _ _ _ => [m]
                     | MP.IBad => []
                     end) items.

(* ingest.ValidateRecordColumnNames on one decoded record.  For a columnar record the names are
   read off the converted batch: a record whose conversion fails (ICol _ None) or a nested list
   (IBad) is taken as acceptable here - the MessagePack model does not expose their column names;
   the correspondence keeps "" out of such records. *)
Definition is_empty (n : bytes) : bool := match n with [] => true | _ => false end.
Definition item_names_ok (i : MP.item) : bool :=
  match i with
  | MP.ICol _ (Some b) => negb (existsb (fun c => is_empty (fst c)) (MP.b_cols b))
  | MP.ICol _ None => true
  | MP.IRow _ _ _ fields tags =>
      negb (existsb (fun f => is_empty (fst f) || beqb (fst f) k_time) fields)
      && negb (existsb (fun t => is_empty (fst t)) tags)
  | MP.IBad => true
  end.

Definition has_fail (rs : list rec) : bool := existsb (fun r => match r with RFail => true | _ => false end) rs.

(* since b4081e3 an empty measurement name is validated like any other (and rejected) *)
Definition meas_ok (m : bytes) : bool := valid_meas m.

Definition front_msgpack (typed : bool) (now : Z) (db : option bytes) (a : MP.ast) : dreq :=
  let o := MP.go_ops [] in
  match (if typed then MP.decode_with_typed o now a else MP.generic o now a) with
  | MP.OErr => DStatus S4xx
  | MP.OPanic => DStatus S5xx                    (* library panic inside Decode: recovered *)
  | MP.OOk items =>
      let d := db_of db in
      if valid_db d then
        if forallb meas_ok (item_meas items) then
          if negb (forallb item_names_ok items) then DStatus S4xx    (* ValidateRecordColumnNames, before any write *)
          else
          let rr := row_recs o items in
          (* the row groups are written in Go-map order *)
          if has_fail rr && Nat.leb 2 (List.length rr) && negb (has_fail (col_recs items)) then DUnordered
          else DWrite d (col_recs items ++ rr)
        else DStatus S4xx
      else DStatus S4xx
  end.

(* ------------------------------------------------------------------------------------ *)
(* line-protocol front                                                                    *)

(* the floats of the correspondence generator: -?digits(.digits)? ; strconv.ParseFloat accepts
   more (exponents, inf, nan, hex) - those are outside the modelled stream *)
Definition is_digit (c : N) : bool := ((48 <=? c) && (c <=? 57))%N.
Fixpoint digits1 (l : bytes) : option bytes :=      (* strip a non-empty run of digits *)
  match l with
  | c :: r => if is_digit c then match digits1 r with Some t => Some t | None => Some r end else None
  | [] => None
  end.
Definition simple_float (s : bytes) : bool :=
  let s1 := match s with 45%N :: r => r | _ => s end in
  match digits1 s1 with
  | Some [] => true
  | Some (46%N :: r) => match digits1 r with Some [] => true | _ => false end
  | _ => false
  end.

Definition lp_first (cells : list (option LPM.value)) : option LPM.value :=
  match filter (fun c => match c with Some _ => true | None => false end) cells with
  | Some v :: _ => Some v
  | _ => None
  end.

Definition lp_int_ok (v : LPM.value) : bool :=
  match v with
  | LPM.VInt _ | LPM.VFloat _ | LPM.VFloatBits _ | LPM.VNow => true
  | LPM.VUint z => (z <=? LPM.max_i64)%Z
  | _ => false
  end.
Definition lp_float_ok (v : LPM.value) : bool :=
  match v with LPM.VInt _ | LPM.VUint _ | LPM.VFloat _ | LPM.VFloatBits _ => true | _ => false end.

Definition lp_all (p : LPM.value -> bool) (cells : list (option LPM.value)) : bool :=
  forallb (fun c => match c with Some v => p v | None => true end) cells.

(* convertColumnsToTyped on one column of BatchToColumnar *)
Definition lp_conv_col (now : Z) (name : bytes) (cells : list (option LPM.value)) : option cdata :=
  let n := length cells in
  if beqb name k_time then
    match lp_first cells with
    | None => None
    | Some (LPM.VStr _) => None
    | Some _ =>
        if forallb (fun c => match c with Some v => lp_int_ok v | None => false end) cells
        then Some (DI (map (fun c => match c with
                                     | Some (LPM.VInt z) | Some (LPM.VUint z) => z
                                     | Some LPM.VNow => now
                                     | _ => 0%Z
                                     end) cells))
        else None
    end
  else
    match lp_first cells with
    | None => Some (DS n)
    | Some (LPM.VInt _ | LPM.VUint _ | LPM.VNow) =>
        if lp_all lp_int_ok cells then Some (DI (repeat 0%Z n)) else None
    | Some (LPM.VFloat _ | LPM.VFloatBits _) => if lp_all lp_float_ok cells then Some (DF n) else None
    | Some (LPM.VStr _) =>
        if lp_all (fun v => match v with LPM.VStr _ => true | _ => false end) cells then Some (DS n) else None
    | Some (LPM.VBool _) =>
        if lp_all (fun v => match v with LPM.VBool _ => true | _ => false end) cells then Some (DB n) else None
    end.

Fixpoint lp_conv_cols (now : Z) (cols : list (bytes * list (option LPM.value))) : option (list (bytes * cdata)) :=
  match cols with
  | [] => Some []
  | (name, cells) :: r =>
      match lp_conv_col now name cells, lp_conv_cols now r with
      | Some d, Some ds => Some ((name, d) :: ds)
      | _, _ => None
      end
  end.

Definition lp_rec (now : Z) (c : LPM.columnar) : rec :=
  match lp_conv_cols now (LPM.c_cols c) with
  | Some cols =>
      RBatch (LPM.c_meas c)
             {| tb_n := match LPM.c_cols c with (_, cells) :: _ => length cells | [] => 0 end; tb_cols := cols |}
  | None => RFail
  end.

Definition valid_prec (p : bytes) : bool :=
  beqb p [110; 115]%N || beqb p [117; 115]%N || beqb p [109; 115]%N || beqb p [115]%N.   (* ns us ms s *)

Definition front_lp (now : Z) (db : option bytes) (prec : bytes) (body : bytes) : dreq :=
  let d := db_of db in
  if valid_db d then
    if valid_prec prec then
      match LPM.parse_batch simple_float true prec body with
      | [] => DStatus S4xx
      | rs =>
          let cs := LPM.batch_to_columnar rs in
          if forallb (fun c => valid_meas (LPM.c_meas c)) cs then
            let recs := map (lp_rec now) cs in
            (* one WriteColumnarRecord per measurement in Go-map order *)
            if has_fail recs && Nat.leb 2 (List.length recs) then DUnordered else DWrite d recs
          else DStatus S4xx
      end
    else DStatus S4xx
  else DStatus S4xx.

(* ------------------------------------------------------------------------------------ *)
(* the server                                                                             *)

(* The compression front (decompressGzipPooled / decompressZstdPooled, library code) is modelled at
   the level: a validly compressed body is its plain body (the correspondence compresses a share of
   the requests below, the model does not see it); a body that starts with the gzip or zstd magic
   but does not decompress is refused (400) by either write endpoint and has NO effect on later
   requests - [RqUndecompressable]. *)
Inductive request :=
| RqMsgpack (db : option bytes) (a : MP.ast)
| RqLP (db : option bytes) (prec : bytes) (body : bytes)
| RqUndecompressable.

Inductive sevent := SReq (r : request) | SFlush.

Record scfg := { sc_max : N; sc_typed : bool; sc_now : Z }.

Definition front (s : scfg) (r : request) : dreq :=
  match r with
  | RqMsgpack db a => front_msgpack (sc_typed s) (sc_now s) db a
  | RqLP db prec body => front_lp (sc_now s) db prec body
  | RqUndecompressable => DStatus S4xx
  end.

Definition front_ev (s : scfg) (e : sevent) : event :=
  match e with SReq r => EReq (front s r) | SFlush => EFlush end.

(* the configuration of the code as it is: flush panics are recovered *)
Definition server_cfg (s : scfg) : cfg := {| max_rows := sc_max s; recover_flush := true |}.

Definition run_server (s : scfg) (evs : list sevent) : result :=
  run (server_cfg s) (map (front_ev s) evs) init.

(* the guard of the row-conservation theorem, on the requests: every batch a request decodes to
   has unique column names, an int64 time column, and columns of one length *)
Definition request_ok (s : scfg) (r : request) : bool := dreq_okb (front s r).
Definition sevent_ok (s : scfg) (e : sevent) : bool := event_okb (front_ev s e).

(* ------------------------------------------------------------------------------------ *)
(* correspondence                                                                         *)

Definition status_code (s : status) : N := match s with S2xx => 2 | S4xx => 4 | S5xx => 5 end%N.
Definition obs_code (o : obs) : N :=
  match o with OStatus s => status_code s | OFlush false => 0%N | OFlush true => 1%N end.
Definition reason_code (r : reason) : N :=
  match r with PIndexEmptyName => 1 | PTypeAssert => 2 | PIndexRange => 3 | PRecordRows => 4 end%N.

Fixpoint nlist_eqb (a b : list N) : bool :=
  match a, b with
  | [], [] => true
  | x :: a', y :: b' => N.eqb x y && nlist_eqb a' b'
  | _, _ => false
  end.

(* stored rows per "database/measurement", sorted by key *)
Fixpoint agg_ins (k : bytes) (n : N) (l : list (bytes * N)) : list (bytes * N) :=
  match l with
  | [] => [(k, n)]
  | (k', n') :: r => if beqb k k' then (k', (n' + n)%N) :: r
                     else if bltb k k' then (k, n) :: l else (k', n') :: agg_ins k n r
  end.

Definition key_string (k : key) : bytes := fst k ++ 47%N :: snd k.

Definition stored_table (st : state) : list (bytes * N) :=
  fold_left (fun acc kv => agg_ins (key_string (fst kv)) (N.of_nat (snd kv)) acc) (st_stored st) [].

Fixpoint table_eqb (a b : list (bytes * N)) : bool :=
  match a, b with
  | [], [] => true
  | (k, n) :: a', (k', n') :: b' => beqb k k' && N.eqb n n' && table_eqb a' b'
  | _, _ => false
  end.

Record ccase := {
  cc_max : N; cc_typed : bool; cc_evs : list sevent;
  cc_codes : list N;          (* observed: one code per answered step (2/4/5; flush 0 ok, 1 error) *)
  cc_died : bool;
  cc_died_at : nat;           (* the step during which the process died *)
  cc_reason : N;              (* classified fatal panic: 1..4 as reason_code, 9 anything else *)
  cc_rows : list (bytes * N); (* rows in the stored Parquet files per "db/measurement", sorted *)
  cc_buffered : N;            (* ArrowBuffer.GetStats total_records_buffered at the end of the case *)
  cc_written : N              (* ... total_records_written *)
}.

Definition case_result (c : ccase) : result :=
  run_server {| sc_max := cc_max c; sc_typed := cc_typed c; sc_now := 0 |} (cc_evs c).

(* model and implementation agree: the process survived, same status classes, same stored rows.
   An outcome the model marks as depending on Go's map iteration order is compared up to there.
   A dead process never agrees: the model of the current code cannot die (C04_no_panic). *)
Definition case_agrees (c : ccase) : bool :=
  let res := case_result c in
  let codes := map obs_code (r_obs res) in
  match r_end res with
  | Completed =>
      negb (cc_died c) && nlist_eqb (cc_codes c) codes && table_eqb (cc_rows c) (stored_table (r_state res))
  | Died _ => false
  | Unpredicted =>
      negb (cc_died c) && nlist_eqb (firstn (length codes) (cc_codes c)) codes
  end.

(* the property on the implementation's own output, independent of the model: the process
   survived, every row the buffer accepted was written by the end of the case (every case ends
   with a flush), and a sequence in which no request was accepted stored nothing *)
Definition case_oracle (c : ccase) : bool :=
  negb (cc_died c)
  && N.eqb (cc_written c) (cc_buffered c)
  && (existsb (N.eqb 2) (cc_codes c) || match cc_rows c with [] => true | _ => false end).

(* input classes of the decoded batches of a case (bit mask): 1 empty column name, 2 '_'-prefixed
   name, 4 ',' in a name (the three classes that crashed the server before the fixes - kept for
   the histogram), 8 columns of different lengths, 16 duplicate names / no int64 time column
   (8 and 16 are the clauses of the row-conservation guard) *)
Definition batch_class (b : tbatch) : N :=
  ((if existsb (fun c => match fst c with [] => true | _ => false end) (tb_cols b) then 1 else 0)
   + (if existsb (fun c => match fst c with x :: _ => N.eqb x c_under | [] => false end) (tb_cols b) then 2 else 0)
   + (if forallb (fun c => no_comma (fst c)) (tb_cols b) then 0 else 4)
   + (if forallb (fun c => Nat.eqb (len_of (snd c)) (tb_n b)) (tb_cols b) then 0 else 8)
   + (if nodupb (map fst (tb_cols b))
         && match alookup k_time (tb_cols b) with Some (DI _) => true | _ => false end then 0 else 16))%N.

Definition event_class (e : event) : N :=
  match e with
  | EReq (DWrite _ rs) =>
      fold_left (fun a r => match r with RBatch _ b => N.lor a (batch_class b) | RFail => a end) rs 0%N
  | _ => 0%N
  end.

(* the same classes read off the decoded row-format records of a MessagePack request, whether or
   not their conversion succeeds: a field/tag named "" (1), a field named "time" (8) *)
Definition items_class (items : list MP.item) : N :=
  fold_left (fun a i => match i with
                        | MP.IRow _ _ _ fields tags =>
                            N.lor a ((if existsb (fun f => is_empty (fst f)) fields || existsb (fun t => is_empty (fst t)) tags
                                      then 1 else 0)
                                     + (if existsb (fun f => beqb (fst f) k_time) fields then 8 else 0))%N
                        | _ => a
                        end) items 0%N.

Definition request_class (s : scfg) (r : request) : N :=
  match r with
  | RqMsgpack _ a =>
      let o := MP.go_ops [] in
      match (if sc_typed s then MP.decode_with_typed o (sc_now s) a else MP.generic o (sc_now s) a) with
      | MP.OOk items => items_class items
      | _ => 0%N
      end
  | _ => 0%N
  end.

Definition sevent_class (s : scfg) (e : sevent) : N :=
  N.lor (event_class (front_ev s e)) (match e with SReq r => request_class s r | SFlush => 0%N end).

Definition case_class (c : ccase) : N :=
  let s := {| sc_max := cc_max c; sc_typed := cc_typed c; sc_now := 0 |} in
  fold_left (fun a e => N.lor a (sevent_class s e)) (cc_evs c) 0%N.

(* steps at which the model accepts (2xx) and the implementation answered 5xx: a valid request
   refused by a server error *)
Fixpoint denied_valid (model observed : list N) : N :=
  match model, observed with
  | m :: mr, o :: orest => ((if N.eqb m 2 && N.eqb o 5 then 1 else 0) + denied_valid mr orest)%N
  | _, _ => 0%N
  end.

(* what the model predicts for a case, as numbers: (ending: 0 completed, 1 died, 2 unpredicted;
   number of valid requests answered 5xx by the implementation; input class) *)
Definition case_verdict (c : ccase) : N * N * N :=
  let res := case_result c in
  (match r_end res with Completed => 0 | Died _ => 1 | Unpredicted => 2 end,
   denied_valid (map obs_code (r_obs res)) (cc_codes c),
   case_class c)%N.
