(* Decoding of hex-encoded byte strings in generated correspondence cases (a compact,
   fast-to-parse way of writing byte lists in case files).  Used by case files only; no
   theorem depends on this file. *)
From Coq Require Import List NArith String Ascii.
Import ListNotations.

Definition hexval (c : ascii) : N :=
  let n := N_of_ascii c in
  if N.leb 97 n then (n - 87)%N else (n - 48)%N.      (* 'a'..'f' | '0'..'9' *)

Fixpoint unhex (s : string) : list N :=
  match s with
  | String a (String b r) => (16 * hexval a + hexval b)%N :: unhex r
  | _ => []
  end.

Definition unhex_opt (s : string) : option (list N) :=
  match s with
  | String "-"%char _ => None
  | _ => Some (unhex s)
  end.
