(* Model of internal/storage/local.go (sanitizePath, validatePath, Write, WriteReader,
   AppendReader, StatFile, ReadToAt, Delete), of Go's path/filepath Clean/Join/Abs/Rel on
   Unix, of internal/cluster/raft/path_validation.go (ValidateManifestPath) and of
   internal/edgesync/receive.go (validateSyncPath, validateSpokeID, NamespacedPath).
   Strings are byte lists (N < 256).  Executable definitions only; proofs are in Proofs.v. *)
From Coq Require Import List NArith ZArith Bool.
From Arc Require Import Lib.AList.
Import ListNotations.
Open Scope N_scope.

Definition bytes := list N.

Definition slash : N := 47.
Definition dot : N := 46.
Definition underscore : N := 95.
Definition backslash : N := 92.
Definition colon : N := 58.
Definition nul : N := 0.

Fixpoint bytes_eqb (a b : bytes) : bool :=
  match a, b with
  | [], [] => true
  | x :: a', y :: b' => (x =? y) && bytes_eqb a' b'
  | _, _ => false
  end.

Definition is_empty (s : bytes) : bool := match s with [] => true | _ => false end.
Definition is_dot (s : bytes) : bool := bytes_eqb s [dot].
Definition is_dotdot (s : bytes) : bool := bytes_eqb s [dot; dot].

Fixpoint has_prefix (pre s : bytes) : bool :=
  match pre, s with
  | [], _ => true
  | x :: pre', y :: s' => (x =? y) && has_prefix pre' s'
  | _ :: _, [] => false
  end.

Definition has_suffix (suf s : bytes) : bool := has_prefix (rev suf) (rev s).

Fixpoint contains (sub s : bytes) : bool :=
  has_prefix sub s || match s with [] => false | _ :: r => contains sub r end.

Definition mem (c : N) (s : bytes) : bool := existsb (N.eqb c) s.

(* ---- sanitizePath : the three steps, in the order of the source ---------------------- *)

(* strings.TrimPrefix(path, "/") *)
Definition trim_slash (p : bytes) : bytes :=
  match p with c :: r => if c =? slash then r else p | [] => [] end.

(* strings.ReplaceAll(path, "..", "_")  (leftmost, non-overlapping) *)
Fixpoint replace_dotdot (p : bytes) : bytes :=
  match p with
  | a :: t =>
      match t with
      | b :: r => if (a =? dot) && (b =? dot) then underscore :: replace_dotdot r
                  else a :: replace_dotdot t
      | [] => [a]
      end
  | [] => []
  end.

(* strings.ReplaceAll(path, "\x00", "") *)
Definition remove_nul (p : bytes) : bytes := filter (fun c => negb (c =? nul)) p.

Inductive sstep := STrim | SDotDot | SNul.
Definition sstep_eqb (a b : sstep) : bool :=
  match a, b with STrim, STrim | SDotDot, SDotDot | SNul, SNul => true | _, _ => false end.
Definition apply_sstep (s : sstep) (p : bytes) : bytes :=
  match s with STrim => trim_slash p | SDotDot => replace_dotdot p | SNul => remove_nul p end.
(* order in which sanitizePath applies them *)
Definition sanitize_order : list sstep := [STrim; SDotDot; SNul].
Definition sanitize (p : bytes) : bytes := fold_left (fun acc s => apply_sstep s acc) sanitize_order p.

(* ---- path/filepath on Unix ----------------------------------------------------------- *)

Fixpoint split_on (sep : N) (p : bytes) : list bytes :=
  match p with
  | [] => [[]]
  | c :: r =>
      if c =? sep then [] :: split_on sep r
      else match split_on sep r with
           | s :: ss => (c :: s) :: ss
           | [] => [[c]]
           end
  end.

Fixpoint join_slash (segs : list bytes) : bytes :=
  match segs with
  | [] => []
  | s :: r => match r with [] => s | _ => s ++ slash :: join_slash r end
  end.

(* the lexical processing of Clean as a segment stack (top of stack first) *)
Fixpoint clean_stack (rooted : bool) (st : list bytes) (segs : list bytes) : list bytes :=
  match segs with
  | [] => st
  | s :: r =>
      if is_empty s || is_dot s then clean_stack rooted st r
      else if is_dotdot s then
        match st with
        | top :: st' => if is_dotdot top then clean_stack rooted (s :: st) r
                        else clean_stack rooted st' r
        | [] => if rooted then clean_stack rooted [] r else clean_stack rooted [s] r
        end
      else clean_stack rooted (s :: st) r
  end.

Definition is_abs (p : bytes) : bool := match p with c :: _ => c =? slash | [] => false end.

(* filepath.Clean / path.Clean *)
Definition clean (p : bytes) : bytes :=
  match p with
  | [] => [dot]
  | _ =>
      let rooted := is_abs p in
      let segs := rev (clean_stack rooted [] (split_on slash p)) in
      if rooted then slash :: join_slash segs
      else match segs with [] => [dot] | _ => join_slash segs end
  end.

(* filepath.Join(a, b) / path.Join(a, b): Clean of the elements from the first non-empty one *)
Definition join2 (a b : bytes) : bytes :=
  match a with
  | [] => match b with [] => [] | _ => clean b end
  | _ => clean (a ++ slash :: b)
  end.

(* filepath.Abs: only the absolute case is lexical (the other one prepends the cwd) *)
Definition abs_path (p : bytes) : option bytes := if is_abs p then Some (clean p) else None.

Definition segs_of (p : bytes) : list bytes := filter (fun s => negb (is_empty s)) (split_on slash p).

Fixpoint strip_common (bs ts : list bytes) : list bytes * list bytes :=
  match bs, ts with
  | b :: bs', t :: ts' => if bytes_eqb b t then strip_common bs' ts' else (bs, ts)
  | _, _ => (bs, ts)
  end.

(* filepath.Rel(base, targ) for two absolute operands (all validatePath ever passes) *)
Definition rel (base targ : bytes) : option bytes :=
  let b := clean base in
  let t := clean targ in
  if bytes_eqb b t then Some [dot]
  else if negb (is_abs b && is_abs t) then None
  else
    let '(br, tr) := strip_common (segs_of b) (segs_of t) in
    match br with
    | [] => Some (join_slash tr)
    | b0 :: _ => if is_dotdot b0 then None
                 else Some (join_slash (map (fun _ => [dot; dot]) br ++ tr))
    end.

(* LocalBackend.validatePath *)
Definition validate_path (root key : bytes) : option bytes :=
  let full := join2 root (sanitize key) in
  match abs_path full with
  | None => None
  | Some a =>
      match rel root a with
      | None => None
      | Some r => if has_prefix [dot; dot] r then None else Some a
      end
  end.

(* ---- "inside the root" ---------------------------------------------------------------- *)

(* a path segment the OS resolves by plain descent: non-empty, not "." or "..", no '/' and no NUL *)
Definition plain_segb (s : bytes) : bool :=
  negb (is_empty s) && negb (is_dot s) && negb (is_dotdot s) && negb (mem slash s) && negb (mem nul s).

Definition render (segs : list bytes) : bytes := slash :: join_slash segs.

Fixpoint is_prefix_segs (a b : list bytes) : bool :=
  match a, b with
  | [], _ => true
  | x :: a', y :: b' => bytes_eqb x y && is_prefix_segs a' b'
  | _ :: _, [] => false
  end.

(* confinement: p is the root followed by plain segments only *)
Definition inside (rs : list bytes) (p : bytes) : Prop :=
  exists extra, p = render (rs ++ extra) /\ Forall (fun s => plain_segb s = true) extra.

(* executable confinement oracle: p is the rendering of plain segments that extend rs *)
Definition inside_b (rs : list bytes) (p : bytes) : bool :=
  match p with
  | c :: rest =>
      (c =? slash) &&
      (let ts := match rest with [] => [] | _ => split_on slash rest end in
       forallb plain_segb ts && is_prefix_segs rs ts)
  | [] => false
  end.

(* ---- ValidateManifestPath ------------------------------------------------------------- *)

Definition is_alpha (c : N) : bool := ((65 <=? c) && (c <=? 90)) || ((97 <=? c) && (c <=? 122)).

Definition is_absolute_path (p : bytes) : bool :=
  match p with
  | [] => false
  | c0 :: r =>
      if (c0 =? slash) || (c0 =? backslash) then true
      else match r with
           | c1 :: c2 :: _ => (c1 =? colon) && is_alpha c0 && ((c2 =? backslash) || (c2 =? slash))
           | _ => false
           end
  end.

Fixpoint index_of (c : N) (p : bytes) : option nat :=
  match p with
  | [] => None
  | x :: r => if x =? c then Some O else option_map S (index_of c r)
  end.

(* strings.FieldsFunc(path, r == '/' || r == '\\') : split on both separators, drop empties *)
Fixpoint split_on2 (p : bytes) : list bytes :=
  match p with
  | [] => [[]]
  | c :: r =>
      if (c =? slash) || (c =? backslash) then [] :: split_on2 r
      else match split_on2 r with
           | s :: ss => (c :: s) :: ss
           | [] => [[c]]
           end
  end.

Definition has_parent_traversal_segment (p : bytes) : bool :=
  contains [dot; dot] p && existsb is_dotdot (split_on2 p).

Definition max_manifest_path_len : nat := 4096.

Definition manifest_ok (p : bytes) : bool :=
  if is_empty p then false
  else if Nat.ltb max_manifest_path_len (length p) then false
  else if mem nul p then false
  else if (match index_of colon p with
           | Some i => negb (Nat.eqb i 1) || negb (is_absolute_path p)
           | None => false
           end) then false
  else if is_absolute_path p then false
  else if has_parent_traversal_segment p then false
  else true.

(* ---- edge sync ------------------------------------------------------------------------- *)

Definition dot_parquet : bytes := [46; 112; 97; 114; 113; 117; 101; 116].   (* ".parquet" *)

Definition sync_path_ok (p : bytes) : bool :=
  if is_empty p then false
  else if mem nul p then false
  else if has_prefix [slash] p then false
  else if mem backslash p then false
  else if contains [dot; dot] p then false
  else if existsb is_empty (split_on slash p) then false
  else if has_prefix [dot] p then false
  else if negb (has_suffix dot_parquet p) then false
  else true.

Definition spoke_id_ok (s : bytes) : bool :=
  if is_empty s then false
  else if mem slash s || mem backslash s then false
  else if is_dot s || is_dotdot s || has_prefix [dot] s then false
  else if mem nul s then false
  else true.

(* NamespacedPath(spokeID, sourcePath) = path.Join(spokeID, sourcePath) *)
Definition namespaced_path (spoke src : bytes) : bytes := join2 spoke src.

(* ---- file-system micro-step model (process-crash model: every completed step is durable,
        rename is atomic, a crash stops the step list at any point) ------------------------ *)

Definition fs := list (bytes * bytes).              (* absolute path -> content *)

Definition fs_get (f : fs) (p : bytes) : option bytes := lookup bytes_eqb p f.

Inductive step :=
| SMkdir (dir : bytes)                     (* MkdirAll: no effect on file contents *)
| SCreateTrunc (p : bytes)                 (* open O_CREATE|O_TRUNC, or CreateTemp *)
| SAppend (p : bytes) (data : bytes)       (* one write(2) on a file that exists *)
| SRename (a b : bytes)
| SRemove (p : bytes).

Definition exec_step (f : fs) (s : step) : fs :=
  match s with
  | SMkdir _ => f
  | SCreateTrunc p => insert bytes_eqb p [] f
  | SAppend p d => match fs_get f p with
                   | Some c => insert bytes_eqb p (c ++ d) f
                   | None => f
                   end
  | SRename a b => match fs_get f a with
                   | Some c => insert bytes_eqb b c (remove bytes_eqb a f)
                   | None => f
                   end
  | SRemove p => remove bytes_eqb p f
  end.

Definition run (f : fs) (steps : list step) : fs := fold_left exec_step steps f.

Definition part_suffix : bytes := [46; 112; 97; 114; 116].                 (* ".part" *)
Definition part_path (full : bytes) : bytes := full ++ part_suffix.

(* what a reader hands to io.Copy: the chunks it delivers, then a clean EOF or an error *)
Record reader := { r_chunks : list bytes; r_clean : bool }.

Fixpoint total_len (cs : list bytes) : Z :=
  match cs with [] => 0%Z | c :: r => (Z.of_nat (length c) + total_len r)%Z end.

(* Write(path, data): ensureDir; CreateTemp; Write (any chunking); Close; Rename *)
Definition write_steps (dir tmp final : bytes) (chunks : list bytes) : list step :=
  SMkdir dir :: SCreateTrunc tmp :: map (SAppend tmp) chunks ++ [SRename tmp final].

(* WriteReader(path, reader, size): ensureDir; open <path>.part O_TRUNC; io.Copy; Close;
   Rename iff the copy ended without error.  `size` is not consulted. *)
Definition write_reader_steps (dir final : bytes) (rd : reader) : list step :=
  SMkdir dir :: SCreateTrunc (part_path final) :: map (SAppend (part_path final)) (r_chunks rd)
  ++ (if r_clean rd then [SRename (part_path final) final] else []).

(* AppendReader(path, reader, appendSize): open <path>.part O_APPEND (fails when it does not
   exist); io.Copy; Rename iff the copy ended without error AND written = appendSize.
   Returns the steps and whether the call returned nil. *)
Definition append_reader_steps (f : fs) (final : bytes) (rd : reader) (append_size : Z) : list step * bool :=
  match fs_get f (part_path final) with
  | None => ([], false)
  | Some _ =>
      (map (SAppend (part_path final)) (r_chunks rd)
       ++ (if r_clean rd && (total_len (r_chunks rd) =? append_size)%Z
           then [SRename (part_path final) final] else []),
       r_clean rd)
  end.

Definition blen (b : bytes) : Z := Z.of_nat (length b).

(* StatFile: size of the final file, else of the .part file, else -1 *)
Definition stat_file (f : fs) (final : bytes) : Z :=
  match fs_get f final with
  | Some c => blen c
  | None => match fs_get f (part_path final) with Some c => blen c | None => (-1)%Z end
  end.

(* ReadToAt(path, w, 0): the final file, else the .part file *)
Definition read_to_at (f : fs) (final : bytes) : option bytes :=
  match fs_get f final with
  | Some c => Some c
  | None => fs_get f (part_path final)
  end.

(* Delete: removes the final path only *)
Definition delete_steps (final : bytes) : list step := [SRemove final].

(* ---- correspondence cases -------------------------------------------------------------- *)

Definition opt_bytes_eqb (a b : option bytes) : bool :=
  match a, b with
  | None, None => true
  | Some x, Some y => bytes_eqb x y
  | _, _ => false
  end.

(* (1) key resolution: root given as plain segments; observation = validatePath result.
   The finer observations (sanitizePath, the three front validators, NamespacedPath) are
   recorded for a part of the cases only (None = not observed). *)
Record kvals := { k_san : bytes;              (* observed sanitizePath(key) *)
                  k_manifest : bool;          (* observed ValidateManifestPath(key) == nil *)
                  k_sync : bool;              (* observed validateSyncPath(key) == nil *)
                  k_spoke : bool;             (* observed validateSpokeID(key) == nil *)
                  k_ns : bytes }.             (* observed NamespacedPath("sp0ke", key) *)

Record kcase := { k_root : list bytes; k_key : bytes; k_obs : option bytes; k_vals : option kvals }.

Definition spoke_const : bytes := [115; 112; 48; 107; 101].     (* "sp0ke" *)

Definition kcase_agrees (c : kcase) : bool :=
  opt_bytes_eqb (validate_path (render (k_root c)) (k_key c)) (k_obs c)
  && match k_vals c with
     | None => true
     | Some v =>
         bytes_eqb (sanitize (k_key c)) (k_san v)
         && Bool.eqb (manifest_ok (k_key c)) (k_manifest v)
         && Bool.eqb (sync_path_ok (k_key c)) (k_sync v)
         && Bool.eqb (spoke_id_ok (k_key c)) (k_spoke v)
         && bytes_eqb (namespaced_path spoke_const (k_key c)) (k_ns v)
     end.

(* property oracle on the IMPLEMENTATION's answer: a returned path is inside the root *)
Definition kcase_oracle (c : kcase) : bool :=
  match k_obs c with
  | None => true
  | Some p => inside_b (k_root c) p
  end.

(* (2) stdlib models: Clean and Rel observed directly *)
Record lcase := { l_a : bytes; l_b : bytes; l_clean : bytes; l_rel : option bytes }.
Definition lcase_agrees (c : lcase) : bool :=
  bytes_eqb (clean (l_a c)) (l_clean c)
  && (if is_abs (l_a c) && is_abs (l_b c) then opt_bytes_eqb (rel (l_a c) (l_b c)) (l_rel c) else true).

(* (3) crash cases: one writer operation on a directory holding an old final file and/or an
   old .part file, stopped after the first [w_k] model steps; observation = contents found
   at the final path, the .part path and in the (single) temp file afterwards. *)
Inductive wop := OpWrite | OpWriteReader | OpAppendReader.

Record wcase := { w_op : wop; w_old_final : option bytes; w_old_part : option bytes;
                  w_dir_removed : bool;     (* the directory was cached by an earlier write and then removed
                                               (with the old files) behind the backend's back *)
                  w_chunks : list bytes; w_clean : bool; w_size : Z;      (* size / appendSize argument *)
                  w_k : nat;
                  w_obs_final : option bytes; w_obs_part : option bytes; w_obs_tmp : option bytes }.

Definition p_dir : bytes := [slash; 100].                        (* "/d"       *)
Definition p_final : bytes := [slash; 100; slash; 102].          (* "/d/f"     *)
Definition p_tmp : bytes := [slash; 100; slash; 116].            (* "/d/t"  (stands for .arc-*.tmp) *)

Definition eff_old_final (c : wcase) : option bytes := if w_dir_removed c then None else w_old_final c.
Definition eff_old_part (c : wcase) : option bytes := if w_dir_removed c then None else w_old_part c.

Definition init_fs (c : wcase) : fs :=
  (match eff_old_final c with Some b => [(p_final, b)] | None => [] end)
  ++ (match eff_old_part c with Some b => [(part_path p_final, b)] | None => [] end).

Definition wcase_steps (c : wcase) : list step :=
  let rd := {| r_chunks := w_chunks c; r_clean := w_clean c |} in
  match w_op c with
  | OpWrite => write_steps p_dir p_tmp p_final (w_chunks c)
  | OpWriteReader => write_reader_steps p_dir p_final rd
  | OpAppendReader => fst (append_reader_steps (init_fs c) p_final rd (w_size c))
  end.

Definition wcase_agrees (c : wcase) : bool :=
  let f := run (init_fs c) (firstn (w_k c) (wcase_steps c)) in
  opt_bytes_eqb (fs_get f p_final) (w_obs_final c)
  && opt_bytes_eqb (fs_get f (part_path p_final)) (w_obs_part c)
  && opt_bytes_eqb (fs_get f p_tmp) (w_obs_tmp c).

(* atomicity oracle on the IMPLEMENTATION's directory: the final path holds the old content
   (or is absent as before) or the complete intended content.  Intended content: the bytes
   handed to Write / delivered by the reader (after the old .part prefix for AppendReader). *)
Definition intended (c : wcase) : bytes :=
  match w_op c with
  | OpAppendReader => (match eff_old_part c with Some b => b | None => [] end) ++ concat (w_chunks c)
  | _ => concat (w_chunks c)
  end.

(* a new content may appear at the final path only when the operation is entitled to promote:
   Write always; WriteReader iff the reader ended cleanly; AppendReader iff it ended cleanly
   after exactly appendSize bytes *)
Definition may_promote (c : wcase) : bool :=
  match w_op c with
  | OpWrite => true
  | OpWriteReader => w_clean c
  | OpAppendReader => w_clean c && (total_len (w_chunks c) =? w_size c)%Z
  end.

Definition wcase_oracle (c : wcase) : bool :=
  opt_bytes_eqb (w_obs_final c) (eff_old_final c)
  || (may_promote c && opt_bytes_eqb (w_obs_final c) (Some (intended c))).

(* (4) method cases: EVERY key-taking method of LocalBackend first applies validatePath and then
   touches only the returned path (and "<that>.part" where the source says so).  The harness
   plants [mc_final0] / [mc_part0] at the resolved path inside the root and canaries outside, then
   calls Read, ReadTo, ReadToAt, StatFile, Exists, List, Delete, Write "W", WriteReader "RR",
   (plants .part = "P"), AppendReader "A" with appendSize 1, in this order. *)
Record mcase := { mc_root : list bytes; mc_key : bytes; mc_final0 : option bytes; mc_part0 : option bytes;
                  mc_read : option bytes; mc_readto : option bytes; mc_readat : option bytes;
                  mc_stat : option Z; mc_exists : option bool;
                  mc_del_ok : bool; mc_del_final : option bytes; mc_del_part : option bytes;
                  mc_write_ok : bool; mc_after_write : option bytes;
                  mc_wr_ok : bool; mc_after_wr : option bytes;
                  mc_app_ok : bool; mc_after_app : option bytes; mc_after_app_part : option bytes;
                  mc_list_ok : bool; mc_leaked : bool; mc_outside_changed : bool }.

Definition opt_z_eqb (a b : option Z) : bool :=
  match a, b with Some x, Some y => (x =? y)%Z | None, None => true | _, _ => false end.
Definition opt_bool_eqb (a b : option bool) : bool :=
  match a, b with Some x, Some y => Bool.eqb x y | None, None => true | _, _ => false end.

Definition mcase_agrees (c : mcase) : bool :=
  match validate_path (render (mc_root c)) (mc_key c) with
  | None =>
      (* rejected key: every method fails and nothing is touched *)
      opt_bytes_eqb (mc_read c) None && opt_bytes_eqb (mc_readto c) None && opt_bytes_eqb (mc_readat c) None
      && opt_z_eqb (mc_stat c) None && opt_bool_eqb (mc_exists c) None
      && negb (mc_del_ok c) && negb (mc_write_ok c) && negb (mc_wr_ok c) && negb (mc_app_ok c)
  | Some _ =>
      let f0 := (match mc_final0 c with Some b => [(p_final, b)] | None => [] end)
                ++ (match mc_part0 c with Some b => [(part_path p_final, b)] | None => [] end) in
      let f1 := run f0 (delete_steps p_final) in
      let f2 := run f1 (write_steps p_dir p_tmp p_final [[87]]) in                                   (* "W" *)
      let f3 := run f2 (write_reader_steps p_dir p_final {| r_chunks := [[82; 82]]; r_clean := true |}) in   (* "RR" *)
      let f3' := run f3 [SCreateTrunc (part_path p_final); SAppend (part_path p_final) [80]] in      (* plant "P" *)
      let ap := append_reader_steps f3' p_final {| r_chunks := [[65]]; r_clean := true |} 1 in       (* "A" *)
      let f4 := run f3' (fst ap) in
      opt_bytes_eqb (mc_read c) (fs_get f0 p_final) && opt_bytes_eqb (mc_readto c) (fs_get f0 p_final)
      && opt_bytes_eqb (mc_readat c) (read_to_at f0 p_final)
      && opt_z_eqb (mc_stat c) (Some (stat_file f0 p_final))
      && opt_bool_eqb (mc_exists c) (Some (match fs_get f0 p_final with Some _ => true | None => false end))
      && mc_del_ok c && opt_bytes_eqb (mc_del_final c) (fs_get f1 p_final)
      && opt_bytes_eqb (mc_del_part c) (fs_get f1 (part_path p_final))
      && mc_write_ok c && opt_bytes_eqb (mc_after_write c) (fs_get f2 p_final)
      && mc_wr_ok c && opt_bytes_eqb (mc_after_wr c) (fs_get f3 p_final)
      && Bool.eqb (mc_app_ok c) (snd ap) && opt_bytes_eqb (mc_after_app c) (fs_get f4 p_final)
      && opt_bytes_eqb (mc_after_app_part c) (fs_get f4 (part_path p_final))
  end.

(* confinement oracle on the implementation: nothing outside the root was read (no canary bytes
   or canary size returned), created, changed or removed, and listings stay under the root *)
Definition mcase_oracle (c : mcase) : bool :=
  negb (mc_leaked c) && negb (mc_outside_changed c) && mc_list_ok c.
