(* Proofs about the Storage model: confinement of validate_path for every key, and
   crash-atomicity of the three writers for every crash point. *)
From Coq Require Import List NArith ZArith Bool Lia.
From Arc Require Import Lib.AList Storage.Model.
Import ListNotations.
Open Scope N_scope.

(* ---- byte strings --------------------------------------------------------------------- *)

Lemma bytes_eqb_spec : forall a b, reflect (a = b) (bytes_eqb a b).
Proof.
  induction a as [|x a IH]; destruct b as [|y b]; cbn; try (constructor; congruence).
  destruct (N.eqb_spec x y); cbn.
  - destruct (IH b); constructor; congruence.
  - constructor; congruence.
Qed.

Lemma bytes_eqb_refl a : bytes_eqb a a = true.
Proof. destruct (bytes_eqb_spec a a); congruence. Qed.

Lemma bytes_eqb_eq a b : bytes_eqb a b = true -> a = b.
Proof. destruct (bytes_eqb_spec a b); congruence. Qed.

Lemma mem_false c s : mem c s = false -> ~ In c s.
Proof.
  unfold mem. intros H Hin. assert (existsb (N.eqb c) s = true); [|congruence].
  apply existsb_exists. exists c. split; [assumption|apply N.eqb_refl].
Qed.

Lemma mem_false_iff c s : mem c s = false <-> ~ In c s.
Proof.
  split; [apply mem_false|]. intros H. unfold mem. destruct (existsb (N.eqb c) s) eqn:E; [|reflexivity].
  apply existsb_exists in E. destruct E as [x [Hin Hx]]. apply N.eqb_eq in Hx. subst. contradiction.
Qed.

(* ---- split / join --------------------------------------------------------------------- *)

Lemma split_on_nonnil sep p : split_on sep p <> [].
Proof.
  induction p as [|c r IH]; cbn; [discriminate|].
  destruct (c =? sep); [discriminate|]. destruct (split_on sep r); [contradiction|discriminate].
Qed.

Lemma split_on_in sep p : forall s, In s (split_on sep p) -> forall c, In c s -> In c p /\ c <> sep.
Proof.
  induction p as [|c r IH]; cbn; intros s Hs x Hx.
  - destruct Hs as [<-|[]]. destruct Hx.
  - destruct (N.eqb_spec c sep) as [->|Hne].
    + destruct Hs as [<-|Hs]; [destruct Hx|]. destruct (IH s Hs x Hx). auto.
    + pose proof (split_on_nonnil sep r) as Hnn. destruct (split_on sep r) as [|s0 ss] eqn:E; [contradiction|].
      destruct Hs as [<-|Hs].
      * destruct Hx as [<-|Hx]; [auto|]. destruct (IH s0 (or_introl eq_refl) x Hx). auto.
      * destruct (IH s (or_intror Hs) x Hx). auto.
Qed.

Lemma split_on_no_sep sep s : ~ In sep s -> split_on sep s = [s].
Proof.
  induction s as [|c r IH]; cbn; intros H; [reflexivity|].
  destruct (N.eqb_spec c sep) as [->|Hne]; [exfalso; apply H; left; reflexivity|].
  rewrite IH; [reflexivity|]. intros Hin; apply H; right; exact Hin.
Qed.

Lemma split_on_app sep s rest : ~ In sep s -> split_on sep (s ++ sep :: rest) = s :: split_on sep rest.
Proof.
  induction s as [|c r IH]; cbn; intros H.
  - rewrite N.eqb_refl. reflexivity.
  - destruct (N.eqb_spec c sep) as [->|Hne]; [exfalso; apply H; left; reflexivity|].
    rewrite IH; [reflexivity|]. intros Hin; apply H; right; exact Hin.
Qed.

Lemma split_join ts : ts <> [] -> Forall (fun s => ~ In slash s) ts -> split_on slash (join_slash ts) = ts.
Proof.
  induction ts as [|s r IH]; intros Hnn Hall; [contradiction|].
  inversion Hall as [|? ? Hs Hr]; subst. cbn [join_slash]. destruct r as [|s2 r2].
  - apply split_on_no_sep; exact Hs.
  - rewrite split_on_app by exact Hs. rewrite IH; [reflexivity|discriminate|exact Hr].
Qed.

Lemma join_split p : join_slash (split_on slash p) = p.
Proof.
  induction p as [|c r IH]; [reflexivity|]. cbn [split_on].
  pose proof (split_on_nonnil slash r) as Hnn.
  destruct (N.eqb_spec c slash) as [->|Hne].
  - cbn [join_slash]. destruct (split_on slash r) eqn:E; [contradiction|]. cbn [app]. rewrite IH. reflexivity.
  - destruct (split_on slash r) as [|s0 ss] eqn:E; [contradiction|].
    cbn [join_slash] in *. destruct ss; cbn [app]; rewrite <- IH; reflexivity.
Qed.

(* ---- plain segments ------------------------------------------------------------------- *)

Definition plain (s : bytes) : Prop := plain_segb s = true.

Lemma plain_inv s : plain s ->
  is_empty s = false /\ is_dot s = false /\ is_dotdot s = false /\ ~ In slash s /\ ~ In nul s.
Proof.
  unfold plain, plain_segb. intros H.
  repeat (apply andb_prop in H; destruct H as [H ?]).
  repeat match goal with X : negb _ = true |- _ => apply negb_true_iff in X end.
  repeat split; auto using mem_false.
Qed.

Lemma plain_intro s : is_empty s = false -> is_dot s = false -> is_dotdot s = false ->
  ~ In slash s -> ~ In nul s -> plain s.
Proof.
  intros H1 H2 H3 H4 H5. unfold plain, plain_segb.
  rewrite H1, H2, H3. apply mem_false_iff in H4. apply mem_false_iff in H5. rewrite H4, H5. reflexivity.
Qed.

(* ---- Clean on absolute paths ---------------------------------------------------------- *)

Definition seg_ok (s : bytes) : Prop := ~ In slash s /\ ~ In nul s.

Lemma clean_stack_plain_inv : forall segs st,
  Forall plain st -> Forall seg_ok segs -> Forall plain (clean_stack true st segs).
Proof.
  induction segs as [|s r IH]; intros st Hst Hsegs; cbn [clean_stack]; [exact Hst|].
  inversion Hsegs as [|? ? [Hs1 Hs2] Hr]; subst.
  destruct (is_empty s || is_dot s) eqn:E1; [apply IH; assumption|].
  apply orb_false_iff in E1. destruct E1 as [E1 E1'].
  destruct (is_dotdot s) eqn:E2.
  - destruct st as [|top st'].
    + apply IH; [constructor|assumption].
    + inversion Hst as [|? ? Htop Hst']; subst.
      destruct (plain_inv _ Htop) as [_ [_ [Hdd _]]]. rewrite Hdd.
      apply IH; assumption.
  - apply IH; [|assumption]. constructor; [|assumption].
    apply plain_intro; assumption.
Qed.

Lemma clean_stack_all_plain : forall segs st r,
  Forall plain segs -> clean_stack r st segs = rev segs ++ st.
Proof.
  induction segs as [|s t IH]; intros st r H; cbn [clean_stack]; [reflexivity|].
  inversion H as [|? ? Hs Ht]; subst. destruct (plain_inv _ Hs) as [E1 [E2 [E3 _]]].
  rewrite E1, E2, E3. cbn [orb]. rewrite IH by assumption. cbn [rev]. rewrite <- app_assoc. reflexivity.
Qed.

Lemma forall_seg_ok_split p : ~ In nul p -> Forall seg_ok (split_on slash p).
Proof.
  intros Hn. apply Forall_forall. intros s Hs. split.
  - intros Hin. destruct (split_on_in _ _ _ Hs _ Hin) as [_ Hne]. congruence.
  - intros Hin. destruct (split_on_in _ _ _ Hs _ Hin) as [Hp _]. contradiction.
Qed.

Lemma clean_abs : forall p, is_abs p = true ->
  clean p = render (rev (clean_stack true [] (split_on slash p))).
Proof.
  intros p H. destruct p as [|c r]; [discriminate|]. unfold clean. rewrite H. reflexivity.
Qed.

Lemma clean_abs_plain : forall p, is_abs p = true -> ~ In nul p ->
  exists ts, clean p = render ts /\ Forall plain ts.
Proof.
  intros p Ha Hn. exists (rev (clean_stack true [] (split_on slash p))). split; [apply clean_abs; exact Ha|].
  apply Forall_rev. apply clean_stack_plain_inv; [constructor|apply forall_seg_ok_split; exact Hn].
Qed.

Lemma plain_noslash ts : Forall plain ts -> Forall (fun s => ~ In slash s) ts.
Proof. intros H. eapply Forall_impl; [|exact H]. intros s Hs. apply (plain_inv _ Hs). Qed.

Lemma split_render ts : Forall plain ts ->
  split_on slash (render ts) = [] :: (match ts with [] => [[]] | _ => ts end).
Proof.
  intros H. unfold render. cbn [split_on]. rewrite N.eqb_refl. f_equal.
  destruct ts as [|s r]; [reflexivity|]. apply split_join; [discriminate|apply plain_noslash; exact H].
Qed.

Lemma clean_render ts : Forall plain ts -> clean (render ts) = render ts.
Proof.
  intros H. rewrite clean_abs by reflexivity. rewrite split_render by exact H. f_equal.
  cbn [clean_stack is_empty orb]. destruct ts as [|s r].
  - reflexivity.
  - rewrite clean_stack_all_plain by exact H. rewrite app_nil_r. apply rev_involutive.
Qed.

Lemma segs_of_render ts : Forall plain ts -> segs_of (render ts) = ts.
Proof.
  intros H. unfold segs_of. rewrite split_render by exact H. cbn [filter is_empty negb].
  destruct ts as [|s r]; [reflexivity|].
  assert (Hf : forall l, Forall plain l -> filter (fun s => negb (is_empty s)) l = l).
  { induction l as [|x l IH]; intros Hl; [reflexivity|]. inversion Hl as [|? ? Hx Hl']; subst. cbn [filter].
    destruct (plain_inv _ Hx) as [E _]. rewrite E. cbn [negb]. rewrite IH by assumption. reflexivity. }
  apply Hf. exact H.
Qed.

Lemma render_no_nul ts : Forall plain ts -> ~ In nul (render ts).
Proof.
  intros H. unfold render. intros [Hc|Hin]; [discriminate|].
  induction ts as [|s r IH]; [destruct Hin|]. inversion H as [|? ? Hs Hr]; subst.
  cbn [join_slash] in Hin. destruct (plain_inv _ Hs) as [_ [_ [_ [_ Hn]]]].
  destruct r as [|s2 r2]; [contradiction|].
  apply in_app_or in Hin. destruct Hin as [Hin|[Hc|Hin]]; [contradiction|discriminate|]. apply IH; assumption.
Qed.

(* ---- strip_common ---------------------------------------------------------------------- *)

Lemma strip_common_spec : forall bs ts br tr, strip_common bs ts = (br, tr) ->
  exists common, bs = common ++ br /\ ts = common ++ tr.
Proof.
  induction bs as [|b bs IH]; intros ts br tr H.
  - cbn in H. inversion H; subst. exists []. split; reflexivity.
  - destruct ts as [|t ts]; cbn in H.
    + inversion H; subst. exists []. split; reflexivity.
    + destruct (bytes_eqb_spec b t) as [->|Hne].
      * destruct (IH _ _ _ H) as [c [-> ->]]. exists (t :: c). split; reflexivity.
      * inversion H; subst. exists []. split; reflexivity.
Qed.

Lemma strip_common_prefix : forall rs extra, strip_common rs (rs ++ extra) = ([], extra).
Proof.
  induction rs as [|r rs IH]; intros extra; cbn; [destruct extra; reflexivity|].
  rewrite bytes_eqb_refl. apply IH.
Qed.

Lemma has_prefix_join_dotdot l : has_prefix [dot; dot] (join_slash ([dot; dot] :: l)) = true.
Proof. cbn [join_slash]. destruct l; reflexivity. Qed.

(* ---- sanitize -------------------------------------------------------------------------- *)

Lemma sanitize_unfold k : sanitize k = remove_nul (replace_dotdot (trim_slash k)).
Proof. reflexivity. Qed.

Lemma sanitize_no_nul k : ~ In nul (sanitize k).
Proof.
  rewrite sanitize_unfold. unfold remove_nul. intros H. apply filter_In in H. destruct H as [_ H].
  rewrite N.eqb_refl in H. discriminate.
Qed.

(* ---- confinement ----------------------------------------------------------------------- *)

Lemma validate_path_shape : forall rs key p, Forall plain rs ->
  validate_path (render rs) key = Some p ->
  exists ts extra, clean (render rs ++ slash :: sanitize key) = render ts /\ Forall plain ts /\
                   p = render ts /\ ts = rs ++ extra.
Proof.
  intros rs key p Hrs H. unfold validate_path in H.
  assert (Hj : join2 (render rs) (sanitize key) = clean (render rs ++ slash :: sanitize key)) by reflexivity.
  rewrite Hj in H. clear Hj.
  assert (Habs : is_abs (render rs ++ slash :: sanitize key) = true) by reflexivity.
  assert (Hnn : ~ In nul (render rs ++ slash :: sanitize key)).
  { intros Hin. apply in_app_or in Hin. destruct Hin as [Hin|[Hc|Hin]].
    - exact (render_no_nul _ Hrs Hin). - discriminate. - exact (sanitize_no_nul _ Hin). }
  destruct (clean_abs_plain _ Habs Hnn) as [ts [Hc Hts]].
  rewrite Hc in H. unfold abs_path in H. cbn [render is_abs] in H. rewrite N.eqb_refl in H.
  change (slash :: join_slash ts) with (render ts) in H. rewrite (clean_render _ Hts) in H.
  unfold rel in H. rewrite (clean_render _ Hrs), (clean_render _ Hts) in H.
  destruct (bytes_eqb_spec (render rs) (render ts)) as [Heq|Hne].
  - cbn in H. inversion H; subst p. exists ts, []. rewrite app_nil_r.
    assert (rs = ts).
    { rewrite <- (segs_of_render _ Hrs), <- (segs_of_render _ Hts). rewrite Heq. reflexivity. }
    subst. auto.
  - cbn [render is_abs andb negb] in H. rewrite N.eqb_refl in H. cbn [andb negb] in H.
    change (slash :: join_slash rs) with (render rs) in H. change (slash :: join_slash ts) with (render ts) in H.
    rewrite (segs_of_render _ Hrs), (segs_of_render _ Hts) in H.
    destruct (strip_common rs ts) as [br tr] eqn:Esc.
    destruct (strip_common_spec _ _ _ _ Esc) as [common [Hb Ht]].
    destruct br as [|b0 br'].
    + rewrite app_nil_r in Hb. subst common.
      destruct (has_prefix [dot; dot] (join_slash tr)); [discriminate|]. inversion H; subst p.
      exists ts, tr. auto.
    + assert (Hb0 : plain b0). { rewrite Hb in Hrs. apply Forall_app in Hrs. destruct Hrs as [_ Hrs]. inversion Hrs; assumption. }
      destruct (plain_inv _ Hb0) as [_ [_ [Hdd _]]]. rewrite Hdd in H.
      cbn [map app] in H. rewrite has_prefix_join_dotdot in H. discriminate.
Qed.

Theorem confined : forall rs key p, Forall plain rs ->
  validate_path (render rs) key = Some p -> inside rs p.
Proof.
  intros rs key p Hrs H. destruct (validate_path_shape _ _ _ Hrs H) as [ts [extra [_ [Hts [-> ->]]]]].
  exists extra. split; [reflexivity|]. apply Forall_app in Hts. apply Hts.
Qed.

(* the executable oracle used on the implementation's answers is sound for [inside] *)
Lemma is_prefix_segs_spec : forall a b, is_prefix_segs a b = true -> exists e, b = a ++ e.
Proof.
  induction a as [|x a IH]; intros b H; [exists b; reflexivity|].
  destruct b as [|y b]; [discriminate|]. cbn in H. apply andb_prop in H. destruct H as [H1 H2].
  apply bytes_eqb_eq in H1. subst. destruct (IH _ H2) as [e ->]. exists e. reflexivity.
Qed.

Theorem inside_b_sound : forall rs p, inside_b rs p = true -> inside rs p.
Proof.
  intros rs p H. destruct p as [|c rest]; [discriminate|]. cbn [inside_b] in H.
  apply andb_prop in H. destruct H as [Hc H]. apply N.eqb_eq in Hc. subst c.
  apply andb_prop in H. destruct H as [Hall Hpre].
  destruct (is_prefix_segs_spec _ _ Hpre) as [e He]. exists e. split.
  - unfold render. rewrite <- He. f_equal. destruct rest; [reflexivity|]. symmetry. apply join_split.
  - rewrite He in Hall. rewrite forallb_app in Hall. apply andb_prop in Hall. destruct Hall as [_ Hall].
    apply Forall_forall. intros s Hs. rewrite forallb_forall in Hall. apply Hall. exact Hs.
Qed.

(* ---- keys without NUL always resolve, to an explicit location --------------------------- *)

Fixpoint no_dotdot (p : bytes) : Prop :=
  match p with
  | a :: t => match t with b :: _ => ~ (a = dot /\ b = dot) | [] => True end /\ no_dotdot t
  | [] => True
  end.

Lemma replace_dotdot_head_nodot : forall n p, (length p <= n)%nat ->
  no_dotdot (replace_dotdot p) /\
  (forall a t, p = a :: t -> a <> dot -> exists t', replace_dotdot p = a :: t') /\
  (forall x t', replace_dotdot p = x :: t' -> x = dot -> exists t, p = dot :: t /\ (forall y t'', t' = y :: t'' -> y <> dot)).
Proof.
  induction n as [|n IH]; intros p Hlen.
  - destruct p; [|cbn in Hlen; lia]. cbn. repeat split; intros; discriminate.
  - destruct p as [|a t]; [cbn; repeat split; intros; discriminate|].
    destruct t as [|b r].
    + cbn [replace_dotdot]. split; [|split].
      * cbn. tauto.
      * intros a0 t0 Heq _. inversion Heq; subst. eexists; reflexivity.
      * intros x t' Heq Hx. inversion Heq; subst. exists []. split; [reflexivity|]. intros; discriminate.
    + assert (Hstep : replace_dotdot (a :: b :: r) =
                      if (a =? dot) && (b =? dot) then underscore :: replace_dotdot r else a :: replace_dotdot (b :: r)) by reflexivity.
      rewrite Hstep. clear Hstep. destruct ((a =? dot) && (b =? dot)) eqn:E.
      * apply andb_prop in E. destruct E as [Ea Eb]. apply N.eqb_eq in Ea, Eb. subst.
        destruct (IH r) as [H1 [H2 H3]]; [cbn in Hlen; lia|]. split; [|split].
        -- cbn [no_dotdot]. split; [|exact H1]. destruct (replace_dotdot r); [exact I|]. intros [Hc _]. discriminate.
        -- intros a0 t0 Heq Hne. inversion Heq; subst. contradiction.
        -- intros x t' Heq Hx. inversion Heq; subst. discriminate.
      * destruct (IH (b :: r)) as [H1 [H2 H3]]; [cbn in Hlen |- *; lia|]. split; [|split].
        -- cbn [no_dotdot]. split; [|exact H1].
           destruct (replace_dotdot (b :: r)) as [|x t'] eqn:Er; [exact I|].
           intros [Ha Hx]. subst a. rewrite N.eqb_refl in E. cbn [andb] in E.
           destruct (H3 x t' eq_refl Hx) as [t [Heq _]]. inversion Heq; subst. rewrite N.eqb_refl in E. discriminate.
        -- intros a0 t0 Heq Hne. inversion Heq; subst. eexists; reflexivity.
        -- intros x t' Heq Hx. inversion Heq; subst. exists (b :: r). split; [reflexivity|].
           intros y t'' Hy Hyd. subst y.
           destruct (H3 dot t'' Hy eq_refl) as [t [Heq2 _]]. inversion Heq2; subst.
           rewrite !N.eqb_refl in E. discriminate.
Qed.

Lemma replace_dotdot_no_dotdot p : no_dotdot (replace_dotdot p).
Proof. apply (replace_dotdot_head_nodot (length p) p). lia. Qed.

Lemma replace_dotdot_step a b r :
  replace_dotdot (a :: b :: r) = if (a =? dot) && (b =? dot) then underscore :: replace_dotdot r else a :: replace_dotdot (b :: r).
Proof. reflexivity. Qed.

Lemma replace_dotdot_in : forall n p, (length p <= n)%nat -> forall c, In c (replace_dotdot p) -> c = underscore \/ In c p.
Proof.
  induction n as [|n IHn]; intros p Hlen c Hin.
  - destruct p; [destruct Hin|cbn in Hlen; lia].
  - destruct p as [|a [|b r]]; [destruct Hin|right; exact Hin|].
    rewrite replace_dotdot_step in Hin. destruct ((a =? dot) && (b =? dot)).
    + destruct Hin as [<-|Hin]; [left; reflexivity|].
      destruct (IHn r ltac:(cbn in Hlen; lia) c Hin) as [?|?]; [left; assumption|right; right; right; assumption].
    + destruct Hin as [<-|Hin]; [right; left; reflexivity|].
      destruct (IHn (b :: r) ltac:(cbn in Hlen |- *; lia) c Hin) as [?|?]; [left; assumption|right; right; assumption].
Qed.

Lemma remove_nul_id p : ~ In nul p -> remove_nul p = p.
Proof.
  unfold remove_nul. induction p as [|c r IH]; intros H; [reflexivity|]. cbn [filter].
  destruct (N.eqb_spec c nul) as [->|Hne]; [exfalso; apply H; left; reflexivity|].
  cbn [negb]. rewrite IH; [reflexivity|]. intros Hin. apply H. right. exact Hin.
Qed.

Lemma no_dotdot_split : forall p, no_dotdot p -> Forall no_dotdot (split_on slash p).
Proof.
  induction p as [|c r IH]; intros H; cbn [split_on].
  - constructor; [exact I|constructor].
  - destruct H as [Hh Ht]. specialize (IH Ht).
    destruct (N.eqb_spec c slash) as [->|Hne].
    + constructor; [exact I|exact IH].
    + pose proof (split_on_nonnil slash r) as Hnn.
      destruct (split_on slash r) as [|s0 ss] eqn:E; [contradiction|].
      inversion IH as [|? ? Hs0 Hss]; subst. constructor; [|exact Hss].
      cbn [no_dotdot]. split; [|exact Hs0].
      destruct s0 as [|b s0']; [exact I|].
      (* b is the first byte of r *)
      destruct r as [|b' r']; [cbn in E; inversion E|].
      cbn [split_on] in E. destruct (b' =? slash) eqn:Eb; [inversion E|].
      destruct (split_on slash r'); inversion E; subst; exact Hh.
Qed.

Lemma no_dotdot_not_prefix s : no_dotdot s -> has_prefix [dot; dot] s = false.
Proof.
  destruct s as [|a [|b r]]; intros H; cbn [has_prefix]; [reflexivity|apply andb_false_r|].
  destruct H as [H _]. destruct (N.eqb_spec dot a) as [<-|]; [|reflexivity].
  destruct (N.eqb_spec dot b) as [<-|]; [|reflexivity]. exfalso. apply H. auto.
Qed.

Lemma no_dotdot_not_dotdot s : no_dotdot s -> is_dotdot s = false.
Proof.
  intros H. destruct (is_dotdot s) eqn:E; [|reflexivity]. apply bytes_eqb_eq in E. subst.
  exfalso. destruct H as [H _]. apply H. auto.
Qed.

Definition keep_seg (s : bytes) : bool := negb (is_empty s || is_dot s).

Lemma clean_stack_no_dotdot : forall segs st r,
  Forall no_dotdot segs -> clean_stack r st segs = rev (filter keep_seg segs) ++ st.
Proof.
  induction segs as [|s t IH]; intros st r H; cbn [clean_stack filter]; [reflexivity|].
  inversion H as [|? ? Hs Ht]; subst. unfold keep_seg at 1.
  destruct (is_empty s || is_dot s) eqn:E; cbn [negb].
  - apply IH; exact Ht.
  - rewrite (no_dotdot_not_dotdot _ Hs). rewrite IH by exact Ht. cbn [rev]. rewrite <- app_assoc. reflexivity.
Qed.

Lemma first_no_prefix_join : forall l, Forall no_dotdot l -> l <> [] -> has_prefix [dot; dot] (join_slash l) = false.
Proof.
  intros l H Hnn. destruct l as [|s r]; [contradiction|]. inversion H as [|? ? Hs Hr]; subst.
  cbn [join_slash]. destruct r as [|s2 r2]; [apply no_dotdot_not_prefix; exact Hs|].
  pose proof (no_dotdot_not_prefix _ Hs) as Hp.
  destruct s as [|a [|b t]]; cbn [app has_prefix] in *.
  - reflexivity.
  - destruct (dot =? a); reflexivity.
  - exact Hp.
Qed.

Theorem nul_free_key_resolves : forall rs key, Forall plain rs -> ~ In nul key ->
  let extra := filter keep_seg (split_on slash (replace_dotdot (trim_slash key))) in
  validate_path (render rs) key = Some (render (rs ++ extra)) /\ Forall plain extra.
Proof.
  intros rs key Hrs Hnul extra.
  assert (Hnt : ~ In nul (trim_slash key)).
  { unfold trim_slash. destruct key as [|c r]; [exact Hnul|]. destruct (c =? slash); [|exact Hnul].
    intros Hin. apply Hnul. right. exact Hin. }
  assert (Hnr : forall p, ~ In nul p -> ~ In nul (replace_dotdot p)).
  { intros p Hp Hin. destruct (replace_dotdot_in (length p) p (le_n _) _ Hin) as [Hc|Hc]; [discriminate|contradiction]. }
  set (s := replace_dotdot (trim_slash key)) in *.
  assert (Hs_nul : ~ In nul s) by (apply Hnr; exact Hnt).
  assert (Hsan : sanitize key = s) by (rewrite sanitize_unfold; apply remove_nul_id; exact Hs_nul).
  assert (Hnd : Forall no_dotdot (split_on slash s)) by (apply no_dotdot_split; apply replace_dotdot_no_dotdot).
  assert (Hextra : Forall plain extra).
  { apply Forall_forall. intros x Hx. unfold extra in Hx. apply filter_In in Hx. destruct Hx as [Hx Hk].
    unfold keep_seg in Hk. apply negb_true_iff in Hk. apply orb_false_iff in Hk. destruct Hk as [K1 K2].
    rewrite Forall_forall in Hnd.
    apply plain_intro; auto using no_dotdot_not_dotdot.
    - intros Hin. destruct (split_on_in _ _ _ Hx _ Hin) as [_ Hne]. congruence.
    - intros Hin. destruct (split_on_in _ _ _ Hx _ Hin) as [Hp _]. contradiction. }
  split; [|exact Hextra].
  assert (Hall : Forall plain (rs ++ extra)) by (apply Forall_app; split; assumption).
  (* the joined, cleaned path *)
  assert (Hclean : clean (render rs ++ slash :: sanitize key) = render (rs ++ extra)).
  { rewrite Hsan. rewrite clean_abs by reflexivity. f_equal.
    assert (Hst : forall l st, Forall plain l -> clean_stack true st (l ++ split_on slash s) = rev (l ++ extra) ++ st).
    { induction l as [|r0 l IHl]; intros st Hl.
      - cbn [app]. apply clean_stack_no_dotdot. exact Hnd.
      - inversion Hl as [|? ? Hr0 Hl']; subst. cbn [app clean_stack].
        destruct (plain_inv _ Hr0) as [E1 [E2 [E3 _]]]. rewrite E1, E2, E3. cbn [orb].
        rewrite IHl by exact Hl'. cbn [rev]. rewrite <- app_assoc. reflexivity. }
    unfold render. cbn [app split_on]. rewrite N.eqb_refl. cbn [clean_stack is_empty orb].
    destruct rs as [|r0 rs'].
    - cbn [join_slash app split_on]. rewrite N.eqb_refl. cbn [clean_stack is_empty orb].
      change (split_on slash s) with ([] ++ split_on slash s). rewrite (Hst [] [] Hrs).
      rewrite app_nil_r. apply rev_involutive.
    - assert (Hgen : forall l, l <> [] -> Forall plain l -> split_on slash (join_slash l ++ slash :: s) = l ++ split_on slash s).
      { induction l as [|x l IHl]; intros Hnn Hl; [contradiction|]. inversion Hl as [|? ? Hx Hl']; subst.
        destruct (plain_inv _ Hx) as [_ [_ [_ [Hsl _]]]]. cbn [join_slash]. destruct l as [|y l'].
        - rewrite split_on_app by exact Hsl. reflexivity.
        - rewrite <- app_assoc. cbn [app]. rewrite split_on_app by exact Hsl. rewrite IHl; [reflexivity|discriminate|exact Hl']. }
      rewrite Hgen; [|discriminate|exact Hrs]. rewrite (Hst _ [] Hrs). rewrite app_nil_r. apply rev_involutive. }
  unfold validate_path.
  change (join2 (render rs) (sanitize key)) with (clean (render rs ++ slash :: sanitize key)).
  rewrite Hclean. unfold abs_path. cbn [render is_abs]. rewrite N.eqb_refl.
  change (slash :: join_slash (rs ++ extra)) with (render (rs ++ extra)).
  rewrite (clean_render _ Hall). unfold rel. rewrite (clean_render _ Hrs), (clean_render _ Hall).
  destruct (bytes_eqb (render rs) (render (rs ++ extra))) eqn:Eeq; [reflexivity|].
  cbn [render is_abs andb negb]. rewrite N.eqb_refl. cbn [andb negb].
  change (slash :: join_slash rs) with (render rs). change (slash :: join_slash (rs ++ extra)) with (render (rs ++ extra)).
  rewrite (segs_of_render _ Hrs), (segs_of_render _ Hall). rewrite strip_common_prefix.
  destruct extra as [|e0 extra'] eqn:Ee.
  - rewrite app_nil_r in Eeq. rewrite bytes_eqb_refl in Eeq. discriminate.
  - rewrite first_no_prefix_join; [reflexivity| |discriminate].
    apply Forall_forall. intros x Hx. rewrite Forall_forall in Hnd. apply Hnd.
    assert (Hin : In x (filter keep_seg (split_on slash s))) by (unfold extra in Ee; rewrite Ee; exact Hx).
    apply filter_In in Hin. apply Hin.
Qed.

(* ---- file-system steps ------------------------------------------------------------------ *)

Lemma get_insert_same f p c : fs_get (insert bytes_eqb p c f) p = Some c.
Proof. unfold fs_get. apply lookup_insert_same. apply bytes_eqb_spec. Qed.

Lemma get_insert_other f p q c : q <> p -> fs_get (insert bytes_eqb p c f) q = fs_get f q.
Proof. intros H. unfold fs_get. apply lookup_insert_other; [apply bytes_eqb_spec|exact H]. Qed.

Lemma get_remove_same f p : fs_get (remove bytes_eqb p f) p = None.
Proof. unfold fs_get. apply lookup_remove_same. Qed.

Lemma get_remove_other f p q : q <> p -> fs_get (remove bytes_eqb p f) q = fs_get f q.
Proof. intros H. unfold fs_get. apply lookup_remove_other; [apply bytes_eqb_spec|exact H]. Qed.

Lemma run_app f a b : run f (a ++ b) = run (run f a) b.
Proof. unfold run. apply fold_left_app. Qed.

(* steps that write only to the staging file [p] *)
Definition staging_step (p : bytes) (s : step) : Prop :=
  match s with
  | SMkdir _ => True
  | SCreateTrunc q => q = p
  | SAppend q _ => q = p
  | _ => False
  end.

Lemma staging_frame p q : q <> p -> forall l f, Forall (staging_step p) l -> fs_get (run f l) q = fs_get f q.
Proof.
  intros Hne. induction l as [|s l IH]; intros f H; [reflexivity|].
  inversion H as [|? ? Hs Hl]; subst. cbn [run fold_left]. change (fold_left exec_step l (exec_step f s)) with (run (exec_step f s) l).
  rewrite IH by exact Hl. destruct s; cbn in Hs |- *; try contradiction; subst.
  - reflexivity.
  - apply get_insert_other; exact Hne.
  - destruct (fs_get f p); [apply get_insert_other; exact Hne|reflexivity].
Qed.

Lemma appends_staging p cs : Forall (staging_step p) (map (SAppend p) cs).
Proof. apply Forall_forall. intros s Hs. apply in_map_iff in Hs. destruct Hs as [c [<- _]]. reflexivity. Qed.

Lemma appends_content p : forall cs f c, fs_get f p = Some c ->
  fs_get (run f (map (SAppend p) cs)) p = Some (c ++ concat cs).
Proof.
  induction cs as [|x cs IH]; intros f c H; cbn [map run fold_left concat].
  - rewrite app_nil_r. exact H.
  - change (fold_left exec_step (map (SAppend p) cs) (exec_step f (SAppend p x))) with (run (exec_step f (SAppend p x)) (map (SAppend p) cs)).
    rewrite (IH _ (c ++ x)).
    + rewrite <- app_assoc. reflexivity.
    + cbn [exec_step]. rewrite H. apply get_insert_same.
Qed.

Lemma firstn_app_last {A} (l : list A) x k : firstn k (l ++ [x]) = firstn k l \/ firstn k (l ++ [x]) = l ++ [x].
Proof.
  destruct (Nat.le_gt_cases k (length l)) as [Hle|Hgt].
  - left. rewrite firstn_app. replace (k - length l)%nat with O by lia. cbn. apply app_nil_r.
  - right. apply firstn_all2. rewrite app_length. cbn. lia.
Qed.

Lemma forall_firstn {A} (P : A -> Prop) l k : Forall P l -> Forall P (firstn k l).
Proof.
  intros H. apply Forall_forall. intros x Hx. rewrite Forall_forall in H. apply H.
  rewrite <- (firstn_skipn k l). apply in_or_app. left. exact Hx.
Qed.

Lemma part_path_neq final : part_path final <> final.
Proof.
  unfold part_path. intros H. apply (f_equal (@length N)) in H. rewrite app_length in H. cbn in H. lia.
Qed.

Lemma rename_result f a b c : fs_get f a = Some c -> fs_get (exec_step f (SRename a b)) b = Some c.
Proof. intros H. cbn. rewrite H. apply get_insert_same. Qed.

(* staged write: create-truncate the staging file, append chunks, optionally rename *)
Definition staged (dir p : bytes) (cs : list bytes) : list step :=
  SMkdir dir :: SCreateTrunc p :: map (SAppend p) cs.

Lemma staged_staging dir p cs : Forall (staging_step p) (staged dir p cs).
Proof. unfold staged. constructor; [exact I|]. constructor; [reflexivity|]. apply appends_staging. Qed.

Lemma staged_content dir p cs f : fs_get (run f (staged dir p cs)) p = Some (concat cs).
Proof.
  unfold staged. cbn [run fold_left].
  change (fold_left exec_step (map (SAppend p) cs) ?g) with (run g (map (SAppend p) cs)).
  cbn [exec_step]. rewrite (appends_content p cs _ []); [reflexivity|apply get_insert_same].
Qed.

Lemma staged_then_rename_atomic : forall f dir p final cs k, p <> final ->
  let steps := staged dir p cs ++ [SRename p final] in
  (fs_get (run f (firstn k steps)) final = fs_get f final \/
   fs_get (run f (firstn k steps)) final = Some (concat cs)) /\
  fs_get (run f steps) final = Some (concat cs).
Proof.
  intros f dir p final cs k Hne steps.
  assert (Hfull : fs_get (run f steps) final = Some (concat cs)).
  { unfold steps. rewrite run_app. cbn [run fold_left]. apply rename_result. apply staged_content. }
  split; [|exact Hfull].
  destruct (firstn_app_last (staged dir p cs) (SRename p final) k) as [E|E]; fold steps in E; rewrite E.
  - left. apply (staging_frame p final); [intro; subst; contradiction|]. apply forall_firstn. apply staged_staging.
  - right. exact Hfull.
Qed.

Theorem write_atomic : forall f dir tmp final chunks k, tmp <> final ->
  (fs_get (run f (firstn k (write_steps dir tmp final chunks))) final = fs_get f final \/
   fs_get (run f (firstn k (write_steps dir tmp final chunks))) final = Some (concat chunks)) /\
  fs_get (run f (write_steps dir tmp final chunks)) final = Some (concat chunks).
Proof.
  intros. change (write_steps dir tmp final chunks) with (staged dir tmp chunks ++ [SRename tmp final]).
  apply staged_then_rename_atomic. assumption.
Qed.

Theorem write_reader_atomic : forall f dir final rd data k,
  (r_clean rd = true -> concat (r_chunks rd) = data) ->
  let steps := write_reader_steps dir final rd in
  (fs_get (run f (firstn k steps)) final = fs_get f final \/
   (r_clean rd = true /\ fs_get (run f (firstn k steps)) final = Some data)) /\
  (r_clean rd = true -> fs_get (run f steps) final = Some data) /\
  (r_clean rd = false -> fs_get (run f steps) final = fs_get f final).
Proof.
  intros f dir final rd data k Hrd steps.
  pose proof (part_path_neq final) as Hne.
  unfold steps, write_reader_steps. destruct (r_clean rd) eqn:Ec.
  - specialize (Hrd eq_refl). subst data.
    change (SMkdir dir :: SCreateTrunc (part_path final) :: map (SAppend (part_path final)) (r_chunks rd) ++ [SRename (part_path final) final])
      with (staged dir (part_path final) (r_chunks rd) ++ [SRename (part_path final) final]).
    destruct (staged_then_rename_atomic f dir (part_path final) final (r_chunks rd) k Hne) as [H1 H2].
    repeat split; [destruct H1 as [H1|H1]; [left; exact H1|right; split; [reflexivity|exact H1]]|intros _; exact H2|discriminate].
  - rewrite app_nil_r.
    change (SMkdir dir :: SCreateTrunc (part_path final) :: map (SAppend (part_path final)) (r_chunks rd))
      with (staged dir (part_path final) (r_chunks rd)).
    repeat split; [left|discriminate|intros _].
    + apply (staging_frame (part_path final) final); [intro E; symmetry in E; contradiction|]. apply forall_firstn. apply staged_staging.
    + apply (staging_frame (part_path final) final); [intro E; symmetry in E; contradiction|]. apply staged_staging.
Qed.

Theorem append_reader_atomic : forall f final rd prefix tail n k,
  fs_get f (part_path final) = Some prefix ->
  (r_clean rd = true -> total_len (r_chunks rd) = n -> concat (r_chunks rd) = tail) ->
  let steps := fst (append_reader_steps f final rd n) in
  (fs_get (run f (firstn k steps)) final = fs_get f final \/
   (r_clean rd = true /\ total_len (r_chunks rd) = n /\ fs_get (run f (firstn k steps)) final = Some (prefix ++ tail))) /\
  (r_clean rd = true -> total_len (r_chunks rd) = n -> fs_get (run f steps) final = Some (prefix ++ tail)) /\
  (r_clean rd && (total_len (r_chunks rd) =? n)%Z = false -> fs_get (run f steps) final = fs_get f final).
Proof.
  intros f final rd prefix tail n k Hpart Hrd steps.
  pose proof (part_path_neq final) as Hne.
  unfold steps, append_reader_steps. rewrite Hpart. cbn [fst].
  destruct (r_clean rd && (total_len (r_chunks rd) =? n)%Z) eqn:Ec.
  - apply andb_prop in Ec. destruct Ec as [Ec En]. apply Z.eqb_eq in En. specialize (Hrd Ec En). subst tail.
    assert (Hfull : fs_get (run f (map (SAppend (part_path final)) (r_chunks rd) ++ [SRename (part_path final) final])) final
                    = Some (prefix ++ concat (r_chunks rd))).
    { rewrite run_app. cbn [run fold_left]. apply rename_result. apply appends_content. exact Hpart. }
    repeat split; [|intros _ _; exact Hfull|discriminate].
    destruct (firstn_app_last (map (SAppend (part_path final)) (r_chunks rd)) (SRename (part_path final) final) k) as [E|E]; rewrite E.
    + left. apply (staging_frame (part_path final) final); [intro E'; symmetry in E'; contradiction|]. apply forall_firstn. apply appends_staging.
    + right. split; [exact Ec|split; [exact En|exact Hfull]].
  - rewrite app_nil_r. repeat split; [left| |intros _].
    + apply (staging_frame (part_path final) final); [intro E'; symmetry in E'; contradiction|]. apply forall_firstn. apply appends_staging.
    + intros Hc Hn. rewrite Hc in Ec. apply Z.eqb_eq in Hn. rewrite Hn in Ec. discriminate.
    + apply (staging_frame (part_path final) final); [intro E'; symmetry in E'; contradiction|]. apply appends_staging.
Qed.

Theorem write_reader_promotes_any_clean_reader : forall f dir final chunks,
  fs_get (run f (write_reader_steps dir final {| r_chunks := chunks; r_clean := true |})) final = Some (concat chunks).
Proof.
  intros. destruct (write_reader_atomic f dir final {| r_chunks := chunks; r_clean := true |} (concat chunks) 0) as [_ [H _]].
  - reflexivity.
  - apply H. reflexivity.
Qed.

(* ---- keys accepted by the front validators --------------------------------------------- *)

Lemma clean_stack_subset : forall segs r st x, In x (clean_stack r st segs) -> In x st \/ In x segs.
Proof.
  induction segs as [|s t IH]; intros r st x H; cbn [clean_stack] in H; [left; exact H|].
  destruct (is_empty s || is_dot s).
  - destruct (IH _ _ _ H); [left|right; right]; assumption.
  - destruct (is_dotdot s).
    + destruct st as [|top st'].
      * destruct r.
        -- destruct (IH _ _ _ H) as [[]|?]. right; right; assumption.
        -- destruct (IH _ _ _ H) as [[<-|[]]|?]; [right; left; reflexivity|right; right; assumption].
      * destruct (is_dotdot top).
        -- destruct (IH _ _ _ H) as [[<-|?]|?]; [right; left; reflexivity|left; assumption|right; right; assumption].
        -- destruct (IH _ _ _ H) as [?|?]; [left; right; assumption|right; right; assumption].
    + destruct (IH _ _ _ H) as [[<-|?]|?]; [right; left; reflexivity|left; assumption|right; right; assumption].
Qed.

Lemma join_slash_in : forall l c, In c (join_slash l) -> c = slash \/ exists s, In s l /\ In c s.
Proof.
  induction l as [|s r IH]; intros c H; [destruct H|]. cbn [join_slash] in H. destruct r as [|s2 r2].
  - right. exists s. split; [left; reflexivity|exact H].
  - apply in_app_or in H. destruct H as [H|[<-|H]].
    + right. exists s. split; [left; reflexivity|exact H].
    + left. reflexivity.
    + destruct (IH _ H) as [?|[s' [Hs' Hc]]]; [left; assumption|]. right. exists s'. split; [right; exact Hs'|exact Hc].
Qed.

Lemma clean_bytes : forall p c, In c (clean p) -> c = slash \/ c = dot \/ In c p.
Proof.
  intros p c H. destruct p as [|c0 p']; [cbn in H; destruct H as [<-|[]]; auto|].
  unfold clean in H. set (segs := rev (clean_stack (is_abs (c0 :: p')) [] (split_on slash (c0 :: p')))) in H.
  assert (Hsegs : forall s, In s segs -> forall x, In x s -> In x (c0 :: p')).
  { intros s Hs x Hx. unfold segs in Hs. apply in_rev in Hs. destruct (clean_stack_subset _ _ _ _ Hs) as [[]|Hin].
    destruct (split_on_in _ _ _ Hin _ Hx) as [Hp _]. exact Hp. }
  assert (Hj : In c (join_slash segs) -> c = slash \/ c = dot \/ In c (c0 :: p')).
  { intros Hin. destruct (join_slash_in _ _ Hin) as [?|[s [Hs Hc]]]; [left; assumption|]. right. right. eapply Hsegs; eassumption. }
  destruct (is_abs (c0 :: p')).
  - destruct H as [<-|H]; [left; reflexivity|]. apply Hj. exact H.
  - destruct segs as [|s0 segs'] eqn:E; [destruct H as [<-|[]]; auto|]. apply Hj. exact H.
Qed.

Lemma manifest_ok_no_nul k : manifest_ok k = true -> ~ In nul k.
Proof.
  unfold manifest_ok. intros H. destruct (is_empty k); [discriminate|].
  destruct (Nat.ltb max_manifest_path_len (length k)); [discriminate|].
  destruct (mem nul k) eqn:E; [discriminate|]. apply mem_false. exact E.
Qed.

Lemma sync_ok_no_nul p : sync_path_ok p = true -> ~ In nul p.
Proof.
  unfold sync_path_ok. intros H. destruct (is_empty p); [discriminate|].
  destruct (mem nul p) eqn:E; [discriminate|]. apply mem_false. exact E.
Qed.

Lemma spoke_ok_no_nul s : spoke_id_ok s = true -> ~ In nul s.
Proof.
  unfold spoke_id_ok. intros H. destruct (is_empty s); [discriminate|].
  destruct (mem slash s || mem backslash s); [discriminate|].
  destruct (is_dot s || is_dotdot s || has_prefix [dot] s); [discriminate|].
  destruct (mem nul s) eqn:E; [discriminate|]. apply mem_false. exact E.
Qed.

Lemma namespaced_no_nul sp p : ~ In nul sp -> ~ In nul p -> ~ In nul (namespaced_path sp p).
Proof.
  intros Hs Hp Hin. unfold namespaced_path, join2 in Hin.
  assert (Hc : forall x, ~ In nul x -> In nul (clean x) -> False).
  { intros x Hx Hc. destruct (clean_bytes _ _ Hc) as [?|[?|?]]; [discriminate|discriminate|contradiction]. }
  destruct sp as [|s0 sp'].
  - destruct p; [destruct Hin|]. eapply Hc; [|exact Hin]. exact Hp.
  - eapply Hc; [|exact Hin]. intros H. apply in_app_or in H. destruct H as [H|[H|H]]; [contradiction|discriminate|contradiction].
Qed.

Theorem resolves_inside : forall rs key, Forall plain rs -> ~ In nul key ->
  exists p, validate_path (render rs) key = Some p /\ inside rs p.
Proof.
  intros rs key Hrs Hn. destruct (nul_free_key_resolves rs key Hrs Hn) as [H1 H2].
  eexists. split; [exact H1|]. eexists. split; [reflexivity|exact H2].
Qed.
