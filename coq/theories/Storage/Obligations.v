(* C08 obligations on the facts regenerated from internal/storage/local.go on every run
   (coq/gen/Params_Storage.v, written by tools/props/C08.py): the model applies the three
   sanitising steps in the order of the source and uses the source's staging suffix. *)
From Coq Require Import List NArith Bool.
From Arc Require Import Storage.Model.
From ArcGen Require Import Params_Storage.
Import ListNotations.
Open Scope N_scope.

Theorem C08_params_match :
  src_sanitize_order = sanitize_order /\ src_part_suffix = part_suffix /\ src_temp_patterns <> [].
Proof. vm_compute. repeat split; try reflexivity. discriminate. Qed.
Print Assumptions C08_params_match.
