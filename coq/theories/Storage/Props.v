(* C08 - Storage keys stay inside the root and files appear atomically.
   Only property statements live here; proofs are in Proofs.v. *)
From Coq Require Import List NArith ZArith Bool.
From Arc Require Import Lib.AList Storage.Model Storage.Proofs.
Import ListNotations.
Open Scope N_scope.

(* The root is what NewLocalBackend stores: filepath.Abs of the configured directory, i.e. a
   cleaned absolute path = "/" followed by plain segments (possibly none: the root "/"). *)
Definition plain_root (rs : list bytes) : Prop := Forall (fun s => plain_segb s = true) rs.

(* Confinement, for EVERY byte string key (any '..', NUL, backslash, unicode, leading or
   trailing slashes ...): whenever validatePath returns a path, that path is the root followed
   by zero or more plain segments (non-empty, not "." or "..", without '/' and without NUL).
   This includes keys such as ".\0./x" for which sanitizePath itself RE-CREATES a ".."
   segment (it deletes NUL bytes after replacing ".."): the filepath.Rel test catches them. *)
Theorem C08_confined : forall rs key p, plain_root rs ->
  validate_path (render rs) key = Some p -> inside rs p.
Proof. exact confined. Qed.
Print Assumptions C08_confined.

(* Keys without a NUL byte are never rejected and resolve to an explicit location: the root
   followed by the non-empty, non-"." segments of the key after '..' -> '_' replacement. *)
Theorem C08_nul_free_key_resolves : forall rs key, plain_root rs -> ~ In nul key ->
  let extra := filter keep_seg (split_on slash (replace_dotdot (trim_slash key))) in
  validate_path (render rs) key = Some (render (rs ++ extra)) /\
  Forall (fun s => plain_segb s = true) extra.
Proof. exact nul_free_key_resolves. Qed.
Print Assumptions C08_nul_free_key_resolves.

(* Cluster-manifest keys: everything ValidateManifestPath accepts is resolved by the backend
   (never rejected) to a location inside the root. *)
Theorem C08_manifest_confined : forall rs key, plain_root rs -> manifest_ok key = true ->
  exists p, validate_path (render rs) key = Some p /\ inside rs p.
Proof. intros rs key Hrs Hm. apply resolves_inside; [exact Hrs|apply manifest_ok_no_nul; exact Hm]. Qed.
Print Assumptions C08_manifest_confined.

(* Edge-sync uploads: for every spoke id accepted by validateSpokeID and every path accepted by
   validateSyncPath, the namespaced key NamespacedPath(spoke, path) resolves inside the root. *)
Theorem C08_sync_confined : forall rs spoke path, plain_root rs ->
  spoke_id_ok spoke = true -> sync_path_ok path = true ->
  exists p, validate_path (render rs) (namespaced_path spoke path) = Some p /\ inside rs p.
Proof.
  intros rs spoke path Hrs Hs Hp. apply resolves_inside; [exact Hrs|].
  apply namespaced_no_nul; [apply spoke_ok_no_nul; exact Hs|apply sync_ok_no_nul; exact Hp].
Qed.
Print Assumptions C08_sync_confined.

(* Atomicity of Write, for EVERY crash point k, every chunking of the data into write calls
   and every prior directory content: the final path holds what it held before, or the
   complete data; after the last step it holds the complete data.  (tmp is the name returned
   by os.CreateTemp.) *)
Theorem C08_write_atomic : forall f dir tmp final chunks k, tmp <> final ->
  (fs_get (run f (firstn k (write_steps dir tmp final chunks))) final = fs_get f final \/
   fs_get (run f (firstn k (write_steps dir tmp final chunks))) final = Some (concat chunks)) /\
  fs_get (run f (write_steps dir tmp final chunks)) final = Some (concat chunks).
Proof. exact write_atomic. Qed.
Print Assumptions C08_write_atomic.

(* Atomicity of WriteReader for every crash point and every reader behaviour (any chunks,
   clean EOF or error), GIVEN that a reader which ends cleanly has delivered exactly the
   intended bytes [data]. *)
Theorem C08_write_reader_atomic : forall f dir final rd data k,
  (r_clean rd = true -> concat (r_chunks rd) = data) ->
  let steps := write_reader_steps dir final rd in
  (fs_get (run f (firstn k steps)) final = fs_get f final \/
   (r_clean rd = true /\ fs_get (run f (firstn k steps)) final = Some data)) /\
  (r_clean rd = true -> fs_get (run f steps) final = Some data) /\
  (r_clean rd = false -> fs_get (run f steps) final = fs_get f final).
Proof. exact write_reader_atomic. Qed.
Print Assumptions C08_write_reader_atomic.

(* Atomicity of AppendReader (resume): the staging file holds [prefix]; for every crash point
   and reader behaviour the final path is unchanged or holds prefix ++ tail, GIVEN that a reader
   ending cleanly after exactly appendSize bytes delivered exactly [tail]. *)
Theorem C08_append_reader_atomic : forall f final rd prefix tail n k,
  fs_get f (part_path final) = Some prefix ->
  (r_clean rd = true -> total_len (r_chunks rd) = n -> concat (r_chunks rd) = tail) ->
  let steps := fst (append_reader_steps f final rd n) in
  (fs_get (run f (firstn k steps)) final = fs_get f final \/
   (r_clean rd = true /\ total_len (r_chunks rd) = n /\ fs_get (run f (firstn k steps)) final = Some (prefix ++ tail))) /\
  (r_clean rd = true -> total_len (r_chunks rd) = n -> fs_get (run f steps) final = Some (prefix ++ tail)) /\
  (r_clean rd && (total_len (r_chunks rd) =? n)%Z = false -> fs_get (run f steps) final = fs_get f final).
Proof. exact append_reader_atomic. Qed.
Print Assumptions C08_append_reader_atomic.

(* The precondition of C08_write_reader_atomic is necessary: WriteReader never looks at its
   [size] argument and promotes whatever a cleanly-ending reader delivered (the callers -
   puller, edge-sync shortBodyGuard - must and do guard this; see C25/C27). *)
Theorem C08_write_reader_ignores_size : forall f dir final chunks,
  fs_get (run f (write_reader_steps dir final {| r_chunks := chunks; r_clean := true |})) final
  = Some (concat chunks).
Proof. exact write_reader_promotes_any_clean_reader. Qed.
Print Assumptions C08_write_reader_ignores_size.

(* ---- non-vacuity ------------------------------------------------------------------------ *)

Definition ex_root : list bytes := [[116; 109; 112]; [114]].               (* /tmp/r *)

Example C08_root_is_plain : plain_root ex_root.
Proof. repeat constructor. Qed.

(* ".\0./r/x": sanitising re-creates "../r/x"; it resolves to /tmp/r/x, inside the root *)
Example C08_recreated_dotdot_inside :
  validate_path (render ex_root) [46; 0; 46; 47; 114; 47; 120] = Some (render (ex_root ++ [[120]])).
Proof. vm_compute. reflexivity. Qed.

(* ".\0./.\0./etc/passwd": sanitising re-creates "../../etc/passwd"; rejected by the Rel test *)
Example C08_recreated_dotdot_escape_rejected :
  sanitize [46; 0; 46; 47; 46; 0; 46; 47; 101] = [46; 46; 47; 46; 46; 47; 101] /\
  validate_path (render ex_root) [46; 0; 46; 47; 46; 0; 46; 47; 101] = None.
Proof. vm_compute. split; reflexivity. Qed.

(* a manifest-valid key and an edge-sync key meeting the hypotheses *)
Example C08_manifest_nonvacuous : manifest_ok [100; 98; 47; 97; 46; 46; 98] = true.     (* "db/a..b" *)
Proof. vm_compute. reflexivity. Qed.
Example C08_sync_nonvacuous :
  spoke_id_ok [115; 49] = true /\ sync_path_ok ([100; 47; 102] ++ dot_parquet) = true.
Proof. vm_compute. split; reflexivity. Qed.

(* a crash strictly inside a WriteReader that replaces an existing file: old content visible *)
Example C08_write_reader_crash_inside :
  let f := [(p_final, [1; 2])] in
  let rd := {| r_chunks := [[7]; [8]; [9]]; r_clean := true |} in
  fs_get (run f (firstn 3 (write_reader_steps p_dir p_final rd))) p_final = Some [1; 2] /\
  fs_get (run f (firstn 3 (write_reader_steps p_dir p_final rd))) (part_path p_final) = Some [7] /\
  fs_get (run f (write_reader_steps p_dir p_final rd)) p_final = Some [7; 8; 9].
Proof. vm_compute. repeat split; reflexivity. Qed.
