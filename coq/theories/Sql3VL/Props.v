(* C10 - Row-level delete removes exactly the rows the predicate selects.
   Only property statements live here; proofs are in Proofs.v.
   [KeepIsNotTrue] is internal/api/delete.go as it is now (WHERE (p) IS NOT TRUE, /repo 33a2304 =
   fixes/C10_delete_is_not_true.patch); [KeepNotPred] is the previous code (WHERE NOT (p)), kept as the
   record of the fixed finding.  The check determines on every run which of the two the source
   implements; a revert shows up as a VIOLATION. *)
(* The affected-file search is one DuckDB query over all files (union_by_name read).  What that read
   answers is external behaviour, so the run is [delete_run_s v sh ...] with [sh] = "the union read's
   WHERE returns this row of this file", and the theorems that need it carry the hypothesis
   [search_faithful sh p ds]: the union read judges every row as the single-file read of the rewrite
   does.  The check measures that hypothesis on DuckDB's own answers in every case; where DuckDB
   breaks it (open finding: a field BIGINT in one file and DOUBLE in another compared with a
   fractional constant) the statements C10_search_unfaithful_* say what goes wrong, and
   C10_any_search what still holds. *)
From Coq Require Import List ZArith NArith Bool Lia.
From Arc Require Import Sql3VL.Model Sql3VL.Proofs.
Import ListNotations.
Open Scope Z_scope.

(* The full statement, for the current rewrite: for EVERY dataset (any number of files, any rows,
   any NULLs), EVERY predicate of the grammar, every configuration: after a confirmed delete that
   reports success, the rows of the measurement are exactly the previous rows for which the
   predicate is not TRUE (FALSE and NULL rows stay, in order), the reported count is the number of
   rows that disappeared, and files without a TRUE row are untouched. *)
Theorem C10_exact : forall sh cf rq ds rsp ds',
  search_faithful sh (rq_pred rq) ds ->
  rq_class rq = WValid -> rq_dry rq = false ->
  delete_run_s KeepIsNotTrue sh cf rq ds = (rsp, ds') -> rs_status rsp = 200 ->
  rows_of ds' = filter (not_true (rq_pred rq)) (rows_of ds) /\
  rs_deleted rsp = nrows ds - nrows ds' /\
  (forall f, In f ds -> is_affected (rq_pred rq) f = false -> In f ds').
Proof. intros sh cf rq ds rsp ds' Hf. rewrite (delete_run_s_faithful _ _ _ _ _ Hf). apply delete_exact_repaired. Qed.
Print Assumptions C10_exact.

(* The previous code (before 33a2304) violated it: one file with x = NULL, 1, 2 and the predicate x = 1.
   NOT (x = 1) is NULL on the first row, so the rewrite drops it together with the matching row. *)
Definition w_rows : list row := [[VNum 4; VNull]; [VNum 8; VNum 4]; [VNum 12; VNum 8]].   (* (id, x) *)
Definition w_ds : dataset := [(1%N, w_rows)].
Definition w_pred : pred := PCmp CEq (OCol 1) (OLit (VNum 4)).                              (* x = 1 *)
Definition w_cfg : config := {| cf_threshold := 10000; cf_max_rows := 1000000 |}.
Definition w_req (dry : bool) : request :=
  {| rq_class := WValid; rq_full := false; rq_pred := w_pred; rq_dry := dry; rq_confirm := true |}.

Theorem C10_exact_refuted :
  exists cf rq ds rsp ds',
    rq_class rq = WValid /\ rq_dry rq = false /\
    delete_run_s KeepNotPred (ideal_search (rq_pred rq)) cf rq ds = (rsp, ds') /\ rs_status rsp = 200 /\
    rows_of ds' <> filter (not_true (rq_pred rq)) (rows_of ds) /\
    (exists r, In r (rows_of ds) /\ eval r (rq_pred rq) = U /\ ~ In r (rows_of ds')).
Proof.
  exists w_cfg, (w_req false), w_ds. eexists. eexists.
  split; [reflexivity|]. split; [reflexivity|]. split; [vm_compute; reflexivity|]. split; [reflexivity|].
  split; [vm_compute; congruence|].
  exists [VNum 4; VNull]. split; [vm_compute; tauto|]. split; [reflexivity|].
  vm_compute. intros [H|[]]. discriminate.
Qed.
Print Assumptions C10_exact_refuted.

(* Strongest true statement about the previous code: exact whenever no row of an affected file
   evaluates to NULL. *)
Theorem C10_exact_guarded : forall sh cf rq ds rsp ds',
  search_faithful sh (rq_pred rq) ds ->
  rq_class rq = WValid -> rq_dry rq = false ->
  delete_run_s KeepNotPred sh cf rq ds = (rsp, ds') -> rs_status rsp = 200 ->
  (forall f, In f ds -> is_affected (rq_pred rq) f = true -> forall r, In r (snd f) -> eval r (rq_pred rq) <> U) ->
  rows_of ds' = filter (not_true (rq_pred rq)) (rows_of ds).
Proof. intros sh cf rq ds rsp ds' Hf. rewrite (delete_run_s_faithful _ _ _ _ _ Hf). apply delete_exact_guarded. Qed.
Print Assumptions C10_exact_guarded.

(* What holds for BOTH variants on every dataset and predicate: no surviving row is TRUE, every
   FALSE row survives, files without a TRUE row are untouched - the only rows the code as it is
   removes wrongly are NULL-verdict rows of affected files. *)
Theorem C10_safe : forall v sh cf rq ds rsp ds',
  search_faithful sh (rq_pred rq) ds ->
  rq_class rq = WValid -> rq_dry rq = false -> delete_run_s v sh cf rq ds = (rsp, ds') -> rs_status rsp = 200 ->
  (forall r, In r (rows_of ds') -> holds r (rq_pred rq) = false) /\
  (forall r, In r (rows_of ds) -> eval r (rq_pred rq) = F -> In r (rows_of ds')) /\
  (forall f, In f ds -> is_affected (rq_pred rq) f = false -> In f ds').
Proof. intros v sh cf rq ds rsp ds' Hf. rewrite (delete_run_s_faithful _ _ _ _ _ Hf). apply delete_safe. Qed.
Print Assumptions C10_safe.

(* the root cause, as a statement about the logic: NOT (p) is TRUE exactly where p is FALSE *)
Theorem C10_not_keeps_only_false : forall r p, holds r (PNot p) = tri_eqb (eval r p) F.
Proof. exact holds_not. Qed.
Print Assumptions C10_not_keeps_only_false.

(* The reported count equals the number of rows that disappeared - both variants. *)
Theorem C10_count : forall v sh cf rq ds rsp ds',
  rq_dry rq = false -> delete_run_s v sh cf rq ds = (rsp, ds') -> rs_status rsp = 200 \/ rs_status rsp = 207 ->
  rs_deleted rsp = nrows ds - nrows ds'.
Proof. intros v sh cf rq ds rsp ds' Hd H Hs. destruct (delete_any_search _ _ _ _ _ _ _ H) as (_ & Hc & _). apply Hc; assumption. Qed.
Print Assumptions C10_count.

(* A dry run, and any request that does not report 200, changes nothing (both variants, any
   request class); a successful dry run reports the number of TRUE rows of the measurement. *)
Theorem C10_dry_run : forall v sh cf rq ds rsp ds',
  rq_dry rq = true -> delete_run_s v sh cf rq ds = (rsp, ds') ->
  ds' = ds /\ (search_faithful sh (rq_pred rq) ds -> rq_class rq = WValid -> rs_status rsp = 200 ->
               rs_deleted rsp = countb (fun r => holds r (rq_pred rq)) (rows_of ds)).
Proof.
  intros v sh cf rq ds rsp ds' Hd H. split.
  - destruct (delete_any_search _ _ _ _ _ _ _ H) as (_ & _ & Hu). apply Hu. right; exact Hd.
  - intros Hf. rewrite (delete_run_s_faithful _ _ _ _ _ Hf) in H. apply (delete_dry_run _ _ _ _ _ _ Hd H).
Qed.
Print Assumptions C10_dry_run.

Theorem C10_rejected_unchanged : forall v sh cf rq ds rsp ds',
  delete_run_s v sh cf rq ds = (rsp, ds') -> rs_status rsp <> 200 -> rs_status rsp <> 207 -> ds' = ds.
Proof.
  intros v sh cf rq ds rsp ds' H Hs H7. destruct (delete_any_search _ _ _ _ _ _ _ H) as (_ & _ & Hu).
  apply Hu. left; split; assumption.
Qed.
Print Assumptions C10_rejected_unchanged.

(* Files of a measurement may lack a column the predicate names (schema evolution): the search sees
   NULL there, the single-file rewrite does not bind and fails.  Such a run is REPORTED (207,
   success = false, failed_files > 0), the count is still the number of rows that disappeared, no
   FALSE row is lost and unaffected files are untouched - both variants, every dataset. *)
Theorem C10_partial_reported : forall v sh cf rq ds rsp ds',
  search_faithful sh (rq_pred rq) ds ->
  rq_class rq = WValid -> delete_run_s v sh cf rq ds = (rsp, ds') -> rs_status rsp = 207 ->
  rs_success rsp = false /\ 0 < rs_failed rsp /\ rs_deleted rsp = nrows ds - nrows ds' /\
  (forall r, In r (rows_of ds) -> eval r (rq_pred rq) = F -> In r (rows_of ds')) /\
  (forall f, In f ds -> is_affected (rq_pred rq) f = false -> In f ds').
Proof. intros v sh cf rq ds rsp ds' Hf. rewrite (delete_run_s_faithful _ _ _ _ _ Hf). apply delete_partial. Qed.
Print Assumptions C10_partial_reported.

(* Dry run and real run of the same confirmed request: when the real run succeeds, the dry run
   succeeded too and reported the same count (current rewrite). *)
Theorem C10_same_count : forall sh cf rq ds,
  search_faithful sh (rq_pred rq) ds ->
  rq_class rq = WValid -> rq_confirm rq = true ->
  let rd := fst (delete_run_s KeepIsNotTrue sh cf (with_dry rq true) ds) in
  let rr := fst (delete_run_s KeepIsNotTrue sh cf (with_dry rq false) ds) in
  rs_status rr = 200 -> rs_status rd = 200 /\ rs_deleted rd = rs_deleted rr.
Proof.
  intros sh cf rq ds Hf Hc Hcf.
  rewrite (delete_run_s_faithful KeepIsNotTrue sh cf (with_dry rq true) ds Hf), (delete_run_s_faithful KeepIsNotTrue sh cf (with_dry rq false) ds Hf).
  apply delete_same_count_when; try assumption. intros; apply keep_repaired.
Qed.
Print Assumptions C10_same_count.

(* ... refuted for the previous code (dry run says 1, the real run deletes 2) ... *)
Theorem C10_same_count_refuted :
  exists cf rq ds,
    rq_class rq = WValid /\ rq_confirm rq = true /\
    let rd := fst (delete_run_s KeepNotPred (ideal_search (rq_pred rq)) cf (with_dry rq true) ds) in
    let rr := fst (delete_run_s KeepNotPred (ideal_search (rq_pred rq)) cf (with_dry rq false) ds) in
    rs_status rd = 200 /\ rs_status rr = 200 /\ rs_deleted rd = 1 /\ rs_deleted rr = 2.
Proof. exists w_cfg, (w_req false), w_ds. vm_compute. repeat split; reflexivity. Qed.
Print Assumptions C10_same_count_refuted.

(* ... and true under the same guard. *)
Theorem C10_same_count_guarded : forall sh cf rq ds,
  search_faithful sh (rq_pred rq) ds ->
  rq_class rq = WValid -> rq_confirm rq = true ->
  (forall f, In f ds -> is_affected (rq_pred rq) f = true -> forall r, In r (snd f) -> eval r (rq_pred rq) <> U) ->
  let rd := fst (delete_run_s KeepNotPred sh cf (with_dry rq true) ds) in
  let rr := fst (delete_run_s KeepNotPred sh cf (with_dry rq false) ds) in
  rs_status rr = 200 -> rs_status rd = 200 /\ rs_deleted rd = rs_deleted rr.
Proof.
  intros sh cf rq ds Hf Hc Hcf Hn.
  rewrite (delete_run_s_faithful KeepNotPred sh cf (with_dry rq true) ds Hf), (delete_run_s_faithful KeepNotPred sh cf (with_dry rq false) ds Hf).
  apply delete_same_count_when; try assumption.
  intros f Hin Ha r Hr. apply keep_asis_no_null. eapply Hn; eassumption.
Qed.
Print Assumptions C10_same_count_guarded.

(* ---- the search hypothesis ---------------------------------------------------------------------- *)
(* the ideal search satisfies it, and with it the run is the run the code intends *)
Theorem C10_ideal_search : forall v cf rq ds,
  search_faithful (ideal_search (rq_pred rq)) (rq_pred rq) ds /\
  delete_run_s v (ideal_search (rq_pred rq)) cf rq ds = delete_run v cf rq ds.
Proof. intros. split; [apply ideal_search_faithful|apply delete_run_s_ideal]. Qed.
Print Assumptions C10_ideal_search.

(* Whatever the union read answers (ANY search, both variants, every dataset and request): no FALSE row
   is ever lost, a real run that reports 200 or 207 reports exactly the number of rows that disappeared,
   and a dry run or a run reporting anything else changes nothing. *)
Theorem C10_any_search : forall v sh cf rq ds rsp ds',
  delete_run_s v sh cf rq ds = (rsp, ds') ->
  (forall r, In r (rows_of ds) -> eval r (rq_pred rq) = F -> In r (rows_of ds')) /\
  (rq_dry rq = false -> rs_status rsp = 200 \/ rs_status rsp = 207 -> rs_deleted rsp = nrows ds - nrows ds') /\
  ((rs_status rsp <> 200 /\ rs_status rsp <> 207) \/ rq_dry rq = true -> ds' = ds).
Proof. exact delete_any_search. Qed.
Print Assumptions C10_any_search.

(* Without the hypothesis the property fails - and DuckDB does break it (open finding): one file where x
   is BIGINT holds x = 1, another file has x as DOUBLE; for  x < 1.25  the union read evaluates the
   pushed-down comparison on the BIGINT file with the constant rounded to 1 and returns nothing, so the
   file is not found: the delete reports success, 0 rows, and the selected row is still there ... *)
Definition u_ds : dataset := [(1%N, [[VNum 4; VNum 4]]); (2%N, [[VNum 8; VNum 10]])].      (* (id, x): x = 1 | x = 2.5 *)
Definition u_lt : pred := PCmp CLt (OCol 1) (OLit (VNum 5)).                                 (* x < 1.25 *)
Definition u_eq : pred := PCmp CEq (OCol 1) (OLit (VNum 5)).                                 (* x = 1.25 *)
Definition u_req (p : pred) (dry : bool) : request :=
  {| rq_class := WValid; rq_full := false; rq_pred := p; rq_dry := dry; rq_confirm := true |}.

Theorem C10_search_unfaithful_refuted :
  exists sh cf rq ds rsp ds' r,
    rq_class rq = WValid /\ rq_dry rq = false /\
    delete_run_s KeepIsNotTrue sh cf rq ds = (rsp, ds') /\ rs_status rsp = 200 /\ rs_success rsp = true /\
    In r (rows_of ds') /\ eval r (rq_pred rq) = T.
Proof.
  exists (fun _ _ => false), w_cfg, (u_req u_lt false), u_ds. eexists. eexists. exists [VNum 4; VNum 4].
  split; [reflexivity|]. split; [reflexivity|]. split; [vm_compute; reflexivity|].
  split; [reflexivity|]. split; [reflexivity|]. split; [vm_compute; tauto|reflexivity].
Qed.
Print Assumptions C10_search_unfaithful_refuted.

(* ... and for  x = 1.25  it returns the row x = 1: the dry run announces 1 row, the delete removes 0. *)
Theorem C10_search_unfaithful_count_refuted :
  exists sh cf rq ds,
    rq_class rq = WValid /\ rq_confirm rq = true /\
    let rd := fst (delete_run_s KeepIsNotTrue sh cf (with_dry rq true) ds) in
    let rr := fst (delete_run_s KeepIsNotTrue sh cf (with_dry rq false) ds) in
    rs_status rd = 200 /\ rs_status rr = 200 /\ rs_deleted rd = 1 /\ rs_deleted rr = 0.
Proof.
  exists (fun fid _ => N.eqb fid 1), w_cfg, (u_req u_eq false), u_ds. vm_compute. repeat split; reflexivity.
Qed.
Print Assumptions C10_search_unfaithful_count_refuted.

(* ---- non-vacuity ------------------------------------------------------------------------------- *)
(* the hypotheses of C10_exact hold on the witness dataset, where the repaired rewrite keeps the
   NULL row and the row x = 2 *)
Example C10_exact_nonvacuous :
  let '(rsp, ds') := delete_run KeepIsNotTrue w_cfg (w_req false) w_ds in
  rs_status rsp = 200 /\ rs_deleted rsp = 1 /\ rows_of ds' = [[VNum 4; VNull]; [VNum 12; VNum 8]].
Proof. vm_compute. repeat split; reflexivity. Qed.

(* the guard of C10_exact_guarded is satisfiable with NULLs present: a second file holds the NULL
   row but no TRUE row, so it is not affected *)
Example C10_guard_satisfiable :
  let ds := [(1%N, [[VNum 8; VNum 4]; [VNum 12; VNum 8]]); (2%N, [[VNum 4; VNull]])] in
  (forall f, In f ds -> is_affected w_pred f = true -> forall r, In r (snd f) -> eval r w_pred <> U) /\
  let '(rsp, ds') := delete_run KeepNotPred w_cfg (w_req false) ds in
  rs_status rsp = 200 /\ rows_of ds' = [[VNum 12; VNum 8]; [VNum 4; VNull]].
Proof.
  split.
  - intros f [<-|[<-|[]]] Ha r Hr; [|vm_compute in Ha; discriminate].
    destruct Hr as [<-|[<-|[]]]; vm_compute; discriminate.
  - vm_compute. split; reflexivity.
Qed.

(* Kleene connectives, IN with NULL, LIKE and BETWEEN on concrete rows (sanity of the evaluator) *)
Example C10_eval_examples :
  let r := [VNum 8; VNull; VStr [97;98;99]%N; VBool true] in           (* a = 2, x = NULL, s = 'abc', b = true *)
  eval r (POr (PCmp CEq (OCol 1) (OLit (VNum 4))) (PCmp CEq (OCol 0) (OLit (VNum 8)))) = T /\   (* NULL OR TRUE *)
  eval r (PAnd (PCmp CEq (OCol 1) (OLit (VNum 4))) (PCmp CEq (OCol 0) (OLit (VNum 8)))) = U /\  (* NULL AND TRUE *)
  eval r (PAnd (PCmp CEq (OCol 1) (OLit (VNum 4))) (PCmp CEq (OCol 0) (OLit (VNum 4)))) = F /\  (* NULL AND FALSE *)
  eval r (PIn (OCol 0) [VNum 4; VNull]) = U /\ eval r (PIn (OCol 0) [VNull; VNum 8]) = T /\
  eval r (PNotIn (OCol 0) [VNum 4; VNull]) = U /\
  eval r (PLike (OCol 2) [97;37]%N) = T /\ eval r (PLike (OCol 2) [95;98;95]%N) = T /\ eval r (PLike (OCol 2) [95;98]%N) = F /\
  eval r (PBetween (OCol 0) (OLit (VNum 4)) (OLit VNull)) = U /\ eval r (PBetween (OCol 0) (OLit (VNum 12)) (OLit VNull)) = F /\
  eval r (PIsNull (OCol 1)) = T /\ eval r (PIsNotTrue (PCmp CEq (OCol 1) (OLit (VNum 4)))) = T /\ eval r (PBool (OCol 3)) = T.
Proof. vm_compute. repeat split; reflexivity. Qed.

(* the 207 case exists: the second file has no column 1; x IS NULL is TRUE there through the union
   read, the rewrite of that file does not bind; the first file is rewritten *)
Example C10_partial_nonvacuous :
  let ds := [(1%N, [[VNum 4; VNull]; [VNum 8; VNum 4]]); (2%N, [[VNum 12; VMissing]])] in
  let rq := {| rq_class := WValid; rq_full := false; rq_pred := PIsNull (OCol 1); rq_dry := false; rq_confirm := true |} in
  let '(rsp, ds') := delete_run KeepIsNotTrue w_cfg rq ds in
  rs_status rsp = 207 /\ rs_failed rsp = 1 /\ rs_deleted rsp = 1 /\
  ds' = [(1%N, [[VNum 8; VNum 4]]); (2%N, [[VNum 12; VMissing]])].
Proof. vm_compute. repeat split; reflexivity. Qed.
