(* Model of internal/api/delete.go: the row-level delete (handleDelete gates,
   findAffectedFiles / countMatchingRowsInFiles, rewriteFileWithoutDeletedRows /
   rewriteLocalFile) over an explicit model of what DuckDB does with the WHERE clause:
   SQL three-valued (Kleene) evaluation of a predicate AST over nullable typed rows.

   The code interpolates the request's WHERE text into
     SELECT filename, COUNT( * ) ... WHERE <p> GROUP BY filename HAVING COUNT( * ) > 0   (affected files)
     SELECT COUNT( * ), COUNT( * ) FILTER (WHERE NOT (<p>)) ...                          (per-file counts)
     COPY (SELECT * ... WHERE NOT (<p>)) TO ...                                          (the rewrite)
   so the rows that survived a rewrite were those where NOT (<p>) is TRUE: [KeepNotPred], the code up
   to /repo 33a2304.  Since then all three sites read  (<p>) IS NOT TRUE : [KeepIsNotTrue].

   Values: numbers are exact quarter units (an integer n is 4n, a double literal such as 1.25
   is 5) so BIGINT/DOUBLE comparisons are exact; strings are byte lists (ASCII in the tie);
   timestamps are microseconds.

   Files of one measurement may have different schemas (schemaless ingest): the same column can be
   BIGINT in one file and DOUBLE in another - irrelevant here because numbers are exact - and a
   column can be absent from a file: every row of that file then holds [VMissing] there.  The
   affected-file search reads all files with union_by_name=true, where an absent column is NULL; the
   per-file rewrite reads the file alone, where a predicate that names an absent column does not
   bind: that file's rewrite fails, the file stays as it is and the response reports it (207). *)
From Coq Require Import List ZArith NArith Bool.
Import ListNotations.
Open Scope Z_scope.

(* ---- three-valued logic -------------------------------------------------------------------- *)
Inductive tri := T | F | U.                       (* TRUE, FALSE, NULL *)

Definition tri_eqb (a b : tri) : bool :=
  match a, b with T, T | F, F | U, U => true | _, _ => false end.
Definition tnot (a : tri) : tri := match a with T => F | F => T | U => U end.
Definition tand (a b : tri) : tri :=
  match a, b with
  | F, _ | _, F => F
  | T, T => T
  | _, _ => U
  end.
Definition tor (a b : tri) : tri :=
  match a, b with
  | T, _ | _, T => T
  | F, F => F
  | _, _ => U
  end.
Definition of_bool (b : bool) : tri := if b then T else F.

(* ---- values, rows, predicates --------------------------------------------------------------- *)
Inductive value :=
| VMissing                  (* the file has no such column *)
| VNull
| VNum (q : Z)              (* BIGINT n = VNum (4n); DOUBLE / decimal literal in quarter units *)
| VStr (s : list N)
| VBool (b : bool)
| VTs (us : Z).

Definition row := list value.

Inductive operand := OCol (i : nat) | OLit (v : value).
Inductive cmpop := CEq | CNe | CLt | CLe | CGt | CGe.

Inductive pred :=
| PConst (t : tri)                                  (* TRUE / FALSE / NULL *)
| PCmp (op : cmpop) (a b : operand)
| PBetween (a lo hi : operand)                      (* a BETWEEN lo AND hi *)
| PIn (a : operand) (vs : list value)               (* a IN (v1, ..., vn), n >= 1, NULLs allowed *)
| PNotIn (a : operand) (vs : list value)
| PLike (a : operand) (pat : list N)
| PNotLike (a : operand) (pat : list N)
| PIsNull (a : operand)
| PIsNotNull (a : operand)
| PBool (a : operand)                               (* a boolean column / literal used as a predicate *)
| PNot (p : pred)
| PAnd (p q : pred)
| POr (p q : pred)
| PIsNotTrue (p : pred)                             (* (p) IS NOT TRUE *)
| PIsTrue (p : pred).

Fixpoint bytes_cmp (a b : list N) : comparison :=
  match a, b with
  | [], [] => Eq
  | [], _ :: _ => Lt
  | _ :: _, [] => Gt
  | x :: a', y :: b' => match N.compare x y with Eq => bytes_cmp a' b' | c => c end
  end.

(* None: one side is NULL, or the two values are not comparable (never happens for the
   well-typed predicates DuckDB accepts) *)
Definition vcmp (a b : value) : option comparison :=
  match a, b with
  | VNum x, VNum y => Some (Z.compare x y)
  | VStr x, VStr y => Some (bytes_cmp x y)
  | VBool x, VBool y => Some (match x, y with false, true => Lt | true, false => Gt | _, _ => Eq end)
  | VTs x, VTs y => Some (Z.compare x y)
  | _, _ => None
  end.

Definition cmp_holds (op : cmpop) (c : comparison) : bool :=
  match op, c with
  | CEq, Eq => true
  | CNe, Eq => false | CNe, _ => true
  | CLt, Lt => true
  | CLe, Gt => false | CLe, _ => true
  | CGt, Gt => true
  | CGe, Lt => false | CGe, _ => true
  | _, _ => false
  end.

Definition tcmp (op : cmpop) (a b : value) : tri :=
  match vcmp a b with Some c => of_bool (cmp_holds op c) | None => U end.

(* SQL LIKE: '%' any sequence, '_' any one character, no escape character, case sensitive *)
Definition c_percent : N := 37.
Definition c_underscore : N := 95.
Fixpoint like (pat s : list N) : bool :=
  match pat with
  | [] => match s with [] => true | _ => false end
  | c :: pat' =>
      if N.eqb c c_percent then
        (fix star (s : list N) : bool :=
           like pat' s || match s with [] => false | _ :: s' => star s' end) s
      else match s with
           | [] => false
           | d :: s' => (N.eqb c c_underscore || N.eqb c d) && like pat' s'
           end
  end.

Definition tlike (v : value) (pat : list N) : tri :=
  match v with VStr s => of_bool (like pat s) | _ => U end.

(* a IN (v1..vn): TRUE if some vi equals a; otherwise NULL if a or some vi is NULL; else FALSE *)
Fixpoint tin (a : value) (vs : list value) : tri :=
  match vs with
  | [] => F
  | v :: r => tor (tcmp CEq a v) (tin a r)
  end.

Definition is_null (v : value) : bool := match v with VNull | VMissing => true | _ => false end.
Definition is_missing (v : value) : bool := match v with VMissing => true | _ => false end.

Definition opval (r : row) (o : operand) : value :=
  match o with OCol i => nth i r VNull | OLit v => v end.

Fixpoint eval (r : row) (p : pred) : tri :=
  match p with
  | PConst t => t
  | PCmp op a b => tcmp op (opval r a) (opval r b)
  | PBetween a lo hi => tand (tcmp CGe (opval r a) (opval r lo)) (tcmp CLe (opval r a) (opval r hi))
  | PIn a vs => tin (opval r a) vs
  | PNotIn a vs => tnot (tin (opval r a) vs)
  | PLike a pat => tlike (opval r a) pat
  | PNotLike a pat => tnot (tlike (opval r a) pat)
  | PIsNull a => of_bool (is_null (opval r a))
  | PIsNotNull a => of_bool (negb (is_null (opval r a)))
  | PBool a => match opval r a with VBool b => of_bool b | _ => U end
  | PNot q => tnot (eval r q)
  | PAnd q1 q2 => tand (eval r q1) (eval r q2)
  | POr q1 q2 => tor (eval r q1) (eval r q2)
  | PIsNotTrue q => of_bool (negb (tri_eqb (eval r q) T))
  | PIsTrue q => of_bool (tri_eqb (eval r q) T)
  end.

(* the columns a predicate names *)
Definition oprefs (o : operand) : list nat := match o with OCol i => [i] | OLit _ => [] end.
Fixpoint refs (p : pred) : list nat :=
  match p with
  | PConst _ => []
  | PCmp _ a b => oprefs a ++ oprefs b
  | PBetween a lo hi => oprefs a ++ oprefs lo ++ oprefs hi
  | PIn a _ | PNotIn a _ | PLike a _ | PNotLike a _ | PIsNull a | PIsNotNull a | PBool a => oprefs a
  | PNot q | PIsNotTrue q | PIsTrue q => refs q
  | PAnd q1 q2 | POr q1 q2 => refs q1 ++ refs q2
  end.
(* read alone, the file does not have every column the predicate names: DuckDB refuses the query *)
Definition unbound_row (p : pred) (r : row) : bool := existsb (fun i => is_missing (nth i r VNull)) (refs p).
Definition unbound (p : pred) (rows : list row) : bool := existsb (unbound_row p) rows.

(* a WHERE clause (and COUNT( * ) FILTER) keeps a row iff the condition is TRUE *)
Definition holds (r : row) (p : pred) : bool := tri_eqb (eval r p) T.

(* ---- the delete --------------------------------------------------------------------------------- *)
Inductive variant := KeepNotPred | KeepIsNotTrue.
Definition keep_pred (v : variant) (p : pred) : pred :=
  match v with KeepNotPred => PNot p | KeepIsNotTrue => PIsNotTrue p end.

Definition file := (N * list row)%type.            (* file id, rows in file order *)
Definition dataset := list file.                   (* the .parquet files of the measurement *)

(* how the WHERE text of the request is treated before / by DuckDB *)
Inductive wclass :=
| WValid            (* passes validateWhereClause, DuckDB evaluates it *)
| WRejected         (* validateWhereClause refuses it (empty, ';', '--', keyword, quotes, parens ...) *)
| WQueryError.      (* DuckDB rejects it (unknown column, type error): every count query fails *)

Record request := {
  rq_class : wclass;
  rq_full : bool;        (* the text is exactly 1=1 / TRUE / 1: "full table delete" *)
  rq_pred : pred;
  rq_dry : bool;
  rq_confirm : bool
}.
Record config := { cf_threshold : Z; cf_max_rows : Z }.

Record response := {
  rs_status : Z;         (* HTTP status *)
  rs_success : bool;
  rs_deleted : Z;
  rs_affected : Z;
  rs_rewritten : Z;
  rs_failed : Z          (* len(FailedFiles) *)
}.

Definition countb {A} (f : A -> bool) (l : list A) : Z := Z.of_nat (length (filter f l)).

Definition match_count (p : pred) (f : file) : Z := countb (fun r => holds r p) (snd f).
Definition is_affected (p : pred) (f : file) : bool := 0 <? match_count p f.
Definition affected_files (p : pred) (ds : dataset) : list file := filter (is_affected p) ds.

Definition sumz (l : list Z) : Z := fold_right Z.add 0 l.
Definition total_matches (p : pred) (ds : dataset) : Z := sumz (map (match_count p) (affected_files p ds)).

(* rewriteFileWithoutDeletedRows for one file: (rows deleted, what is left; None = file removed) *)
Definition rewrite_file (v : variant) (p : pred) (f : file) : Z * option file :=
  let kept := filter (fun r => holds r (keep_pred v p)) (snd f) in
  let deleted := Z.of_nat (length (snd f)) - Z.of_nat (length kept) in
  match kept with
  | [] => (deleted, None)
  | _ => (deleted, Some (fst f, kept))
  end.

(* the loop over the affected files; unaffected files are not touched; a file whose rewrite
   fails (the predicate does not bind against the file read alone) is logged and left as it is.
   Result: rows deleted, files that failed, the dataset afterwards *)
Fixpoint rewrite_all (v : variant) (p : pred) (ds : dataset) : Z * Z * dataset :=
  match ds with
  | [] => (0, 0, [])
  | f :: r =>
      let '(d, k, r') := rewrite_all v p r in
      if is_affected p f then
        if unbound p (snd f) then (d, k + 1, f :: r')
        else
        match rewrite_file v p f with
        | (df, None) => (df + d, k, r')
        | (df, Some f') => (df + d, k, f' :: r')
        end
      else (d, k, f :: r')
  end.

Definition resp (st : Z) (ok : bool) (d a w : Z) : response :=
  {| rs_status := st; rs_success := ok; rs_deleted := d; rs_affected := a; rs_rewritten := w; rs_failed := 0 |}.

(* handleDelete (delete.enabled = true, database/measurement names valid, standalone mode) *)
Definition delete_run (v : variant) (cf : config) (rq : request) (ds : dataset) : response * dataset :=
  match rq_class rq with
  | WRejected => (resp 400 false 0 0 0, ds)
  | _ =>
    if rq_full rq && negb (rq_confirm rq) then (resp 400 false 0 0 0, ds)
    else if negb (rq_dry rq) && negb (rq_confirm rq) then (resp 400 false 0 0 0, ds)
    else
      let p := rq_pred rq in
      let aff := match rq_class rq with WQueryError => [] | _ => affected_files p ds end in
      match aff with
      | [] => (resp 200 true 0 0 0, ds)
      | _ =>
        let total := sumz (map (match_count p) aff) in
        let n := Z.of_nat (length aff) in
        if cf_max_rows cf <? total then (resp 400 false 0 0 0, ds)
        else if (cf_threshold cf <? total) && negb (rq_confirm rq) then (resp 400 false 0 0 0, ds)
        else if rq_dry rq then (resp 200 true total n 0, ds)
        else let '(d, k, ds') := rewrite_all v p ds in
             if 0 <? k
             then ({| rs_status := 207; rs_success := false; rs_deleted := d; rs_affected := n;
                      rs_rewritten := n - k; rs_failed := k |}, ds')
             else (resp 200 true d n n, ds')
      end
  end.

(* ---- the affected-file search as DuckDB really answers it ---------------------------------------------
   The search is ONE query over all files, read_parquet([...], filename=true, union_by_name=true)
   WHERE <p>.  The code relies on that read judging every row as the single-file read of the rewrite
   does.  That is external behaviour (DuckDB's multi-file reader), so it is a parameter here:
   [sh fid r] = "the union read's WHERE is TRUE on row r of file fid".  [ideal_search p] is the
   behaviour the code assumes; [delete_run] above is [delete_run_s] with the ideal search
   (Proofs.delete_run_s_ideal).  The correspondence runs [delete_run_s] with the search verdicts
   observed from DuckDB on the very same files. *)
Definition search := N -> row -> bool.
Definition ideal_search (p : pred) : search := fun _ r => holds r p.
Definition match_count_s (sh : search) (f : file) : Z := countb (sh (fst f)) (snd f).
Definition is_affected_s (sh : search) (f : file) : bool := 0 <? match_count_s sh f.
Definition search_faithful (sh : search) (p : pred) (ds : dataset) : Prop :=
  forall f r, In f ds -> In r (snd f) -> sh (fst f) r = holds r p.

(* the rewrite loop over the files the search reported *)
Fixpoint rewrite_all_g (v : variant) (aff : file -> bool) (p : pred) (ds : dataset) : Z * Z * dataset :=
  match ds with
  | [] => (0, 0, [])
  | f :: r =>
      let '(d, k, r') := rewrite_all_g v aff p r in
      if aff f then
        if unbound p (snd f) then (d, k + 1, f :: r')
        else
        match rewrite_file v p f with
        | (df, None) => (df + d, k, r')
        | (df, Some f') => (df + d, k, f' :: r')
        end
      else (d, k, f :: r')
  end.

Definition delete_run_s (v : variant) (sh : search) (cf : config) (rq : request) (ds : dataset) : response * dataset :=
  match rq_class rq with
  | WRejected => (resp 400 false 0 0 0, ds)
  | _ =>
    if rq_full rq && negb (rq_confirm rq) then (resp 400 false 0 0 0, ds)
    else if negb (rq_dry rq) && negb (rq_confirm rq) then (resp 400 false 0 0 0, ds)
    else
      let p := rq_pred rq in
      let aff := match rq_class rq with WQueryError => [] | _ => filter (is_affected_s sh) ds end in
      match aff with
      | [] => (resp 200 true 0 0 0, ds)
      | _ =>
        let total := sumz (map (match_count_s sh) aff) in
        let n := Z.of_nat (length aff) in
        if cf_max_rows cf <? total then (resp 400 false 0 0 0, ds)
        else if (cf_threshold cf <? total) && negb (rq_confirm rq) then (resp 400 false 0 0 0, ds)
        else if rq_dry rq then (resp 200 true total n 0, ds)
        else let '(d, k, ds') := rewrite_all_g v (is_affected_s sh) p ds in
             if 0 <? k
             then ({| rs_status := 207; rs_success := false; rs_deleted := d; rs_affected := n;
                      rs_rewritten := n - k; rs_failed := k |}, ds')
             else (resp 200 true d n n, ds')
      end
  end.

(* ---- what the property demands ------------------------------------------------------------------ *)
Definition rows_of (ds : dataset) : list row := flat_map snd ds.
Definition not_true (p : pred) (r : row) : bool := negb (holds r p).

(* ---- executable correspondence / oracle --------------------------------------------------------- *)
Fixpoint list_eqb {A} (e : A -> A -> bool) (a b : list A) : bool :=
  match a, b with
  | [], [] => true
  | x :: a', y :: b' => e x y && list_eqb e a' b'
  | _, _ => false
  end.
Fixpoint bytes_eqb (a b : list N) : bool :=
  match a, b with
  | [], [] => true
  | x :: a', y :: b' => N.eqb x y && bytes_eqb a' b'
  | _, _ => false
  end.
Definition value_eqb (a b : value) : bool :=
  match a, b with
  | VNull, VNull => true
  | VMissing, VMissing => true
  | VNum x, VNum y => x =? y
  | VStr x, VStr y => bytes_eqb x y
  | VBool x, VBool y => Bool.eqb x y
  | VTs x, VTs y => x =? y
  | _, _ => false
  end.
Definition row_eqb := list_eqb value_eqb.
Definition file_eqb (a b : file) : bool := N.eqb (fst a) (fst b) && list_eqb row_eqb (snd a) (snd b).
Definition dataset_eqb := list_eqb file_eqb.
Definition response_eqb (a b : response) : bool :=
  (rs_status a =? rs_status b) && Bool.eqb (rs_success a) (rs_success b) && (rs_deleted a =? rs_deleted b) &&
  (rs_affected a =? rs_affected b) && (rs_rewritten a =? rs_rewritten b) && (rs_failed a =? rs_failed b).

(* one correspondence case: a dataset (files in listing order), a request sent twice - first as a
   dry run, then for real with the same confirm flag - and what the real handler + DuckDB did *)
Record ccase := {
  c_variant : variant;
  c_cfg : config;
  c_req : request;                      (* rq_dry is ignored: both runs are made *)
  c_ds : dataset;
  c_duck : list (list tri);             (* DuckDB's SELECT (<p>) per file read alone, per row (WValid only) *)
  c_search : list (list bool);          (* DuckDB's union read ... WHERE <p>: is the row returned? per file, per row *)
  c_dry_resp : response;
  c_dry_ds : dataset;                   (* files re-read after the dry run *)
  c_resp : response;
  c_after : dataset;                    (* files re-read after the real run *)
  c_sibling_ok : bool                   (* a sibling measurement sharing the name prefix is unchanged *)
}.

Definition with_dry (rq : request) (d : bool) : request :=
  {| rq_class := rq_class rq; rq_full := rq_full rq; rq_pred := rq_pred rq; rq_dry := d; rq_confirm := rq_confirm rq |}.

(* the evaluator against DuckDB, row by row *)
Definition eval_agrees (c : ccase) : bool :=
  match rq_class (c_req c) with
  | WValid => list_eqb (list_eqb tri_eqb) (map (fun f => map (fun r => eval r (rq_pred (c_req c))) (snd f)) (c_ds c)) (c_duck c)
  | _ => true
  end.

(* the observed search verdicts as a [search] *)
Fixpoint zip_lookup (rows : list row) (bs : list bool) (r : row) : bool :=
  match rows, bs with
  | x :: rs, b :: bs' => if row_eqb x r then b else zip_lookup rs bs' r
  | _, _ => false
  end.
Fixpoint sh_of (ds : dataset) (srch : list (list bool)) (fid : N) (r : row) : bool :=
  match ds, srch with
  | f :: ds', bs :: s' => if N.eqb (fst f) fid then zip_lookup (snd f) bs r else sh_of ds' s' fid r
  | _, _ => false
  end.
(* does the union read judge the rows as the single-file reads do?  (the hypothesis [search_faithful]
   of the theorems, evaluated on DuckDB's own answers) *)
Definition search_is_faithful (c : ccase) : bool :=
  match rq_class (c_req c) with
  | WValid => list_eqb (list_eqb Bool.eqb) (c_search c) (map (map (fun t => tri_eqb t T)) (c_duck c))
  | _ => true
  end.

Definition case_agrees (c : ccase) : bool :=
  let sh := sh_of (c_ds c) (c_search c) in
  let '(rd, dsd) := delete_run_s (c_variant c) sh (c_cfg c) (with_dry (c_req c) true) (c_ds c) in
  let '(rr, dsr) := delete_run_s (c_variant c) sh (c_cfg c) (with_dry (c_req c) false) dsd in
  eval_agrees c &&
  response_eqb rd (c_dry_resp c) && dataset_eqb dsd (c_dry_ds c) &&
  response_eqb rr (c_resp c) && dataset_eqb dsr (c_after c) && c_sibling_ok c.

(* The property on the IMPLEMENTATION's observations, judged with DuckDB's own per-row verdicts
   (c_duck), not with the model's evaluator:
   1 the dry run changed nothing;
   2 after a successful real run the rows of the measurement are exactly the previous rows whose
     verdict is not TRUE, in order; otherwise nothing changed;
   3 deleted_count = rows before - rows after;
   4 dry run and real run report the same count when both succeed;
   5 the sibling measurement is untouched. *)
Fixpoint zip_filter {A} (rows : list A) (ts : list tri) : list A :=
  match rows, ts with
  | r :: rows', t :: ts' => if tri_eqb t T then zip_filter rows' ts' else r :: zip_filter rows' ts'
  | _, _ => []
  end.
Definition spec_rows (c : ccase) : list row :=
  flat_map (fun ft => zip_filter (snd (fst ft)) (snd ft)) (combine (c_ds c) (c_duck c)).
Definition nrows (ds : dataset) : Z := Z.of_nat (length (rows_of ds)).

Definition oracle_dry_unchanged (c : ccase) : bool := dataset_eqb (c_ds c) (c_dry_ds c).
(* 207 (some rewrites failed and are reported): every file is either exactly rewritten or untouched *)
Fixpoint find_file (id : N) (ds : dataset) : option (list row) :=
  match ds with [] => None | f :: r => if N.eqb (fst f) id then Some (snd f) else find_file id r end.
Definition oracle_partial (c : ccase) : bool :=
  forallb (fun ft : file * list tri =>
             let spec := zip_filter (snd (fst ft)) (snd ft) in
             match find_file (fst (fst ft)) (c_after c) with
             | Some rows => list_eqb row_eqb rows spec || list_eqb row_eqb rows (snd (fst ft))
             | None => match spec with [] => true | _ => false end
             end) (combine (c_ds c) (c_duck c)).
Definition oracle_exact (c : ccase) : bool :=
  match rq_class (c_req c) with
  | WValid =>
      if (rs_status (c_resp c) =? 200) && rs_success (c_resp c)
      then list_eqb row_eqb (rows_of (c_after c)) (spec_rows c)
      else if (rs_status (c_resp c) =? 207) && negb (rs_success (c_resp c)) && (0 <? rs_failed (c_resp c))
      then oracle_partial c
      else dataset_eqb (c_ds c) (c_after c)
  | _ => dataset_eqb (c_ds c) (c_after c)
  end.
Definition oracle_count (c : ccase) : bool := rs_deleted (c_resp c) =? nrows (c_ds c) - nrows (c_after c).
Definition oracle_same_count (c : ccase) : bool :=
  if (rs_status (c_dry_resp c) =? 200) && (rs_status (c_resp c) =? 200)
  then rs_deleted (c_dry_resp c) =? rs_deleted (c_resp c) else true.

Definition case_oracle (c : ccase) : bool :=
  oracle_dry_unchanged c && oracle_exact c && oracle_count c && oracle_same_count c && c_sibling_ok c.
