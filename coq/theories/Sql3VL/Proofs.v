(* Proofs about the row-level delete model (C10). *)
From Coq Require Import List ZArith NArith Bool Lia.
From Arc Require Import Sql3VL.Model.
Import ListNotations.
Open Scope Z_scope.

(* ---- Kleene facts ------------------------------------------------------------------------------ *)
Lemma tri_eqb_eq a b : tri_eqb a b = true <-> a = b.
Proof. destruct a, b; cbn; split; congruence. Qed.

(* the root of the defect: NOT (p) is TRUE only where p is FALSE - not where p is NULL *)
Lemma holds_not r p : holds r (PNot p) = tri_eqb (eval r p) F.
Proof. unfold holds; cbn [eval]. destruct (eval r p); reflexivity. Qed.

Lemma holds_is_not_true r p : holds r (PIsNotTrue p) = negb (holds r p).
Proof. unfold holds; cbn [eval]. destruct (eval r p); reflexivity. Qed.

Lemma keep_repaired r p : holds r (keep_pred KeepIsNotTrue p) = not_true p r.
Proof. apply holds_is_not_true. Qed.

Lemma keep_asis r p : holds r (keep_pred KeepNotPred p) = tri_eqb (eval r p) F.
Proof. apply holds_not. Qed.

Lemma keep_asis_no_null r p : eval r p <> U -> holds r (keep_pred KeepNotPred p) = not_true p r.
Proof. intros H. rewrite keep_asis. unfold not_true, holds. destruct (eval r p); try reflexivity. congruence. Qed.

(* whatever the variant: a kept row is not TRUE, a FALSE row is kept *)
Lemma keep_not_true v r p : holds r (keep_pred v p) = true -> holds r p = false.
Proof. destruct v; [rewrite keep_asis|rewrite keep_repaired; unfold not_true]; unfold holds; destruct (eval r p); cbn; congruence. Qed.

Lemma keep_false v r p : eval r p = F -> holds r (keep_pred v p) = true.
Proof. intros H. destruct v; [rewrite keep_asis|rewrite keep_repaired; unfold not_true, holds]; rewrite H; reflexivity. Qed.

(* ---- lists ------------------------------------------------------------------------------------- *)
Lemma filter_all {A} (f : A -> bool) l : (forall x, In x l -> f x = true) -> filter f l = l.
Proof.
  induction l as [|x r IH]; cbn; intros H; [reflexivity|].
  rewrite (H x (or_introl eq_refl)). f_equal. apply IH. intros y Hy. apply H; right; exact Hy.
Qed.

Lemma filter_none {A} (f : A -> bool) l : filter f l = [] -> forall x, In x l -> f x = false.
Proof.
  induction l as [|y r IH]; cbn; intros H x Hin; [destruct Hin|].
  destruct (f y) eqn:E; [discriminate|]. destruct Hin as [<-|Hin]; [exact E|apply IH; assumption].
Qed.

Lemma filter_length_split {A} (f : A -> bool) l :
  (length (filter f l) + length (filter (fun x => negb (f x)) l) = length l)%nat.
Proof. induction l as [|x r IH]; cbn; [reflexivity|]. destruct (f x); cbn; lia. Qed.

Lemma filter_ext_in' {A} (f g : A -> bool) l : (forall x, In x l -> f x = g x) -> filter f l = filter g l.
Proof.
  induction l as [|x r IH]; cbn; intros H; [reflexivity|].
  rewrite (H x (or_introl eq_refl)). rewrite IH; [reflexivity|]. intros y Hy; apply H; right; exact Hy.
Qed.

Lemma unaffected_no_true p f : is_affected p f = false -> forall r, In r (snd f) -> holds r p = false.
Proof.
  unfold is_affected, match_count, countb. intros H. apply Z.ltb_ge in H.
  assert (Hl : length (filter (fun r => holds r p) (snd f)) = 0%nat) by lia.
  apply length_zero_iff_nil in Hl. apply (filter_none _ _ Hl).
Qed.

Lemma unaffected_filter_id p f : is_affected p f = false -> filter (not_true p) (snd f) = snd f.
Proof.
  intros H. apply filter_all. intros r Hr. unfold not_true. rewrite (unaffected_no_true p f H r Hr). reflexivity.
Qed.

(* ---- rewrite_all --------------------------------------------------------------------------------- *)
Definition after_file (v : variant) (p : pred) (f : file) : list row :=
  if is_affected p f then (if unbound p (snd f) then snd f else filter (fun r => holds r (keep_pred v p)) (snd f)) else snd f.

Definition ra_deleted (x : Z * Z * dataset) : Z := fst (fst x).
Definition ra_failed (x : Z * Z * dataset) : Z := snd (fst x).
Definition ra_ds (x : Z * Z * dataset) : dataset := snd x.

(* the rows of the measurement after the loop, for both variants and every dataset *)
Lemma rewrite_all_rows v p ds : rows_of (ra_ds (rewrite_all v p ds)) = flat_map (after_file v p) ds.
Proof.
  unfold ra_ds.
  induction ds as [|f r IH]; cbn [rewrite_all flat_map]; [reflexivity|].
  destruct (rewrite_all v p r) as [[d k] r'] eqn:E. cbn [snd] in IH.
  unfold after_file at 1. destruct (is_affected p f) eqn:Ea.
  - destruct (unbound p (snd f)).
    + cbn [snd rows_of flat_map]. unfold rows_of in IH. rewrite IH. reflexivity.
    + unfold rewrite_file.
      destruct (filter (fun r0 => holds r0 (keep_pred v p)) (snd f)) as [|k0 ks] eqn:Ek; cbn [snd rows_of flat_map app].
      * exact IH.
      * unfold rows_of in IH. rewrite IH. reflexivity.
  - cbn [snd rows_of flat_map]. unfold rows_of in IH. rewrite IH. reflexivity.
Qed.

Lemma rows_of_cons f ds : rows_of (f :: ds) = snd f ++ rows_of ds.
Proof. reflexivity. Qed.

Lemma nrows_cons f ds : nrows (f :: ds) = Z.of_nat (length (snd f)) + nrows ds.
Proof. unfold nrows. rewrite rows_of_cons, app_length. lia. Qed.

(* the reported count is the number of rows that disappeared - both variants, every dataset,
   whether or not some rewrites failed *)
Lemma rewrite_all_count v p ds : ra_deleted (rewrite_all v p ds) = nrows ds - nrows (ra_ds (rewrite_all v p ds)).
Proof.
  unfold ra_deleted, ra_ds.
  induction ds as [|f r IH]; cbn [rewrite_all]; [reflexivity|].
  destruct (rewrite_all v p r) as [[d k] r'] eqn:E. cbn [fst snd] in IH.
  destruct (is_affected p f).
  - destruct (unbound p (snd f)).
    + cbn [fst snd]. rewrite !nrows_cons. lia.
    + unfold rewrite_file.
      destruct (filter (fun r0 => holds r0 (keep_pred v p)) (snd f)) as [|k0 ks] eqn:Ek; cbn [fst snd].
      * rewrite nrows_cons. cbn [length]. lia.
      * rewrite !nrows_cons. cbn [snd]. lia.
  - cbn [fst snd]. rewrite !nrows_cons. lia.
Qed.

(* the failed files are exactly the affected files against which the predicate does not bind *)
Definition fails (p : pred) (f : file) : bool := is_affected p f && unbound p (snd f).
Lemma rewrite_all_failed v p ds : ra_failed (rewrite_all v p ds) = Z.of_nat (length (filter (fails p) ds)).
Proof.
  unfold ra_failed, fails.
  induction ds as [|f r IH]; cbn [rewrite_all filter]; [reflexivity|].
  destruct (rewrite_all v p r) as [[d k] r'] eqn:E. cbn [fst snd] in IH.
  destruct (is_affected p f); cbn [andb].
  - destruct (unbound p (snd f)).
    + cbn [fst snd length]. lia.
    + destruct (rewrite_file v p f) as [df [f'|]]; cbn [fst snd]; exact IH.
  - cbn [fst snd]. exact IH.
Qed.

Lemma no_failures v p ds : (0 <? ra_failed (rewrite_all v p ds)) = false ->
  forall f, In f ds -> is_affected p f = true -> unbound p (snd f) = false.
Proof.
  rewrite rewrite_all_failed. intros H f Hf Ha. apply Z.ltb_ge in H.
  assert (Hl : length (filter (fails p) ds) = 0%nat) by lia.
  apply length_zero_iff_nil in Hl.
  pose proof (filter_none _ _ Hl f Hf) as Hn. unfold fails in Hn. rewrite Ha in Hn. exact Hn.
Qed.

(* when no rewrite fails and the keep filter coincides with "not TRUE" on the affected files, the
   delete is exact *)
Lemma rewrite_all_exact v p ds :
  (forall f, In f ds -> is_affected p f = true -> unbound p (snd f) = false) ->
  (forall f, In f ds -> is_affected p f = true -> forall r, In r (snd f) -> holds r (keep_pred v p) = not_true p r) ->
  rows_of (ra_ds (rewrite_all v p ds)) = filter (not_true p) (rows_of ds).
Proof.
  intros Hb H. rewrite rewrite_all_rows.
  induction ds as [|f r IH]; [reflexivity|].
  cbn [flat_map]. rewrite rows_of_cons, filter_app. f_equal.
  - unfold after_file. destruct (is_affected p f) eqn:Ea.
    + rewrite (Hb f (or_introl eq_refl) Ea).
      apply filter_ext_in'. intros x Hx. apply (H f (or_introl eq_refl) Ea x Hx).
    + symmetry. apply unaffected_filter_id; exact Ea.
  - apply IH; intros g Hg; [apply Hb|apply H]; right; exact Hg.
Qed.

(* files without a TRUE row are not touched (same file, same rows, same position order) *)
Lemma rewrite_all_untouched v p ds f : In f ds -> is_affected p f = false -> In f (ra_ds (rewrite_all v p ds)).
Proof.
  unfold ra_ds.
  induction ds as [|g r IH]; cbn [rewrite_all]; intros Hin Ha; [destruct Hin|].
  destruct (rewrite_all v p r) as [[d k] r'] eqn:E. cbn [snd] in IH.
  destruct Hin as [->|Hin].
  - rewrite Ha. cbn. left; reflexivity.
  - specialize (IH Hin Ha). destruct (is_affected p g).
    + destruct (unbound p (snd g)); [cbn; right; exact IH|].
      destruct (rewrite_file v p g) as [df [g'|]]; cbn; [right|]; exact IH.
    + cbn. right; exact IH.
Qed.

(* both variants, no failed rewrite: no surviving row is TRUE *)
Lemma rewrite_all_drops_true v p ds r :
  (forall f, In f ds -> is_affected p f = true -> unbound p (snd f) = false) ->
  In r (rows_of (ra_ds (rewrite_all v p ds))) -> holds r p = false.
Proof.
  intros Hb. rewrite rewrite_all_rows. intros H. apply in_flat_map in H as (f & Hf & Hr).
  unfold after_file in Hr. destruct (is_affected p f) eqn:Ea.
  - rewrite (Hb f Hf Ea) in Hr. apply filter_In in Hr as [_ Hk]. eapply keep_not_true; exact Hk.
  - eapply unaffected_no_true; eassumption.
Qed.

(* both variants, always: every FALSE row survives *)
Lemma rewrite_all_keeps_false v p ds r : In r (rows_of ds) -> eval r p = F -> In r (rows_of (ra_ds (rewrite_all v p ds))).
Proof.
  rewrite rewrite_all_rows. unfold rows_of. intros H He. apply in_flat_map in H as (f & Hf & Hr).
  apply in_flat_map. exists f. split; [exact Hf|].
  unfold after_file. destruct (is_affected p f); [|exact Hr].
  destruct (unbound p (snd f)); [exact Hr|].
  apply filter_In. split; [exact Hr|]. apply keep_false; exact He.
Qed.

(* ---- counts -------------------------------------------------------------------------------------- *)
Lemma affected_none p ds : affected_files p ds = [] -> forall f, In f ds -> is_affected p f = false.
Proof. unfold affected_files. apply filter_none. Qed.

Lemma match_count_unaffected p f : is_affected p f = false -> match_count p f = 0.
Proof.
  unfold is_affected. intros H. apply Z.ltb_ge in H. unfold match_count, countb in *. lia.
Qed.

(* the dry-run total = number of TRUE rows in the whole measurement *)
Lemma total_matches_all p ds : total_matches p ds = countb (fun r => holds r p) (rows_of ds).
Proof.
  unfold total_matches, affected_files, countb.
  induction ds as [|f r IH]; [reflexivity|].
  rewrite rows_of_cons, filter_app, app_length. cbn [filter].
  destruct (is_affected p f) eqn:Ea; cbn [map sumz fold_right].
  - fold (sumz (map (match_count p) (filter (is_affected p) r))). rewrite IH. unfold match_count, countb. lia.
  - rewrite IH. pose proof (match_count_unaffected p f Ea) as H0. unfold match_count, countb in H0. lia.
Qed.

Lemma nrows_filter_split p ds :
  nrows ds - Z.of_nat (length (filter (not_true p) (rows_of ds))) = countb (fun r => holds r p) (rows_of ds).
Proof.
  unfold nrows, countb, not_true. pose proof (filter_length_split (fun r => holds r p) (rows_of ds)). lia.
Qed.

(* ---- handleDelete ---------------------------------------------------------------------------------- *)
(* a successful real run either found nothing or ran the rewrite loop *)
Lemma delete_run_real v cf rq ds rsp ds' :
  rq_class rq = WValid -> rq_dry rq = false -> delete_run v cf rq ds = (rsp, ds') -> rs_status rsp = 200 ->
  (affected_files (rq_pred rq) ds = [] /\ ds' = ds /\ rs_deleted rsp = 0) \/
  (affected_files (rq_pred rq) ds <> [] /\ ds' = ra_ds (rewrite_all v (rq_pred rq) ds) /\
   rs_deleted rsp = ra_deleted (rewrite_all v (rq_pred rq) ds) /\ rq_confirm rq = true /\
   total_matches (rq_pred rq) ds <= cf_max_rows cf /\
   (0 <? ra_failed (rewrite_all v (rq_pred rq) ds)) = false).
Proof.
  unfold delete_run. intros Hc Hd H Hs. rewrite Hc, Hd in H.
  destruct (rq_full rq && negb (rq_confirm rq)); [inversion H; subst; discriminate|].
  cbn [negb andb] in H.
  destruct (rq_confirm rq) eqn:Hcf; cbn [negb] in H; [|inversion H; subst; discriminate].
  destruct (affected_files (rq_pred rq) ds) as [|a l] eqn:Ea.
  - left. inversion H; subst. repeat split.
  - right.
    destruct (cf_max_rows cf <? sumz (map (match_count (rq_pred rq)) (a :: l))) eqn:Em; [inversion H; subst; discriminate|].
    rewrite andb_false_r in H.
    destruct (rewrite_all v (rq_pred rq) ds) as [[d k] dsr] eqn:Er.
    destruct (0 <? k) eqn:Ek; [inversion H; subst; discriminate|].
    inversion H; subst. cbn. repeat split; try congruence.
    apply Z.ltb_ge in Em. unfold total_matches. rewrite Ea. exact Em.
Qed.

Lemma delete_run_unchanged_unless_ok v cf rq ds rsp ds' :
  delete_run v cf rq ds = (rsp, ds') -> (rs_status rsp <> 200 /\ rs_status rsp <> 207) \/ rq_dry rq = true -> ds' = ds.
Proof.
  unfold delete_run. intros H Hor.
  destruct (rq_class rq); try (inversion H; subst; reflexivity).
  - destruct (rq_full rq && negb (rq_confirm rq)); [inversion H; reflexivity|].
    destruct (negb (rq_dry rq) && negb (rq_confirm rq)); [inversion H; reflexivity|].
    destruct (affected_files (rq_pred rq) ds); [inversion H; reflexivity|].
    destruct (cf_max_rows cf <? _); [inversion H; reflexivity|].
    destruct ((cf_threshold cf <? _) && negb (rq_confirm rq)); [inversion H; reflexivity|].
    destruct (rq_dry rq) eqn:Ed; [inversion H; reflexivity|].
    destruct (rewrite_all v (rq_pred rq) ds) as [[d k] dsr].
    destruct (0 <? k); inversion H; subst; cbn in Hor; destruct Hor as [[H2 H7]|]; congruence.
  - destruct (rq_full rq && negb (rq_confirm rq)); [inversion H; reflexivity|].
    destruct (negb (rq_dry rq) && negb (rq_confirm rq)); inversion H; reflexivity.
Qed.

Lemma all_unaffected_filter_id p ds : (forall f, In f ds -> is_affected p f = false) ->
  filter (not_true p) (rows_of ds) = rows_of ds.
Proof.
  induction ds as [|f r IH]; intros H; [reflexivity|].
  rewrite rows_of_cons, filter_app. rewrite (unaffected_filter_id p f (H f (or_introl eq_refl))).
  rewrite IH; [reflexivity|]. intros g Hg; apply H; right; exact Hg.
Qed.

(* exactness whenever the keep filter is "not TRUE" on the affected files *)
Lemma delete_exact_when v cf rq ds rsp ds' :
  rq_class rq = WValid -> rq_dry rq = false -> delete_run v cf rq ds = (rsp, ds') -> rs_status rsp = 200 ->
  (forall f, In f ds -> is_affected (rq_pred rq) f = true -> forall r, In r (snd f) ->
     holds r (keep_pred v (rq_pred rq)) = not_true (rq_pred rq) r) ->
  rows_of ds' = filter (not_true (rq_pred rq)) (rows_of ds).
Proof.
  intros Hc Hd H Hs Hk.
  destruct (delete_run_real _ _ _ _ _ _ Hc Hd H Hs) as [(Ha & -> & _)|(_ & -> & _ & _ & _ & Hnf)].
  - symmetry. apply all_unaffected_filter_id. apply affected_none; exact Ha.
  - apply rewrite_all_exact; [apply (no_failures _ _ _ Hnf)|exact Hk].
Qed.

Lemma delete_exact_repaired cf rq ds rsp ds' :
  rq_class rq = WValid -> rq_dry rq = false -> delete_run KeepIsNotTrue cf rq ds = (rsp, ds') -> rs_status rsp = 200 ->
  rows_of ds' = filter (not_true (rq_pred rq)) (rows_of ds) /\
  rs_deleted rsp = nrows ds - nrows ds' /\
  (forall f, In f ds -> is_affected (rq_pred rq) f = false -> In f ds').
Proof.
  intros Hc Hd H Hs. split; [|split].
  - eapply delete_exact_when; try eassumption. intros; apply keep_repaired.
  - destruct (delete_run_real _ _ _ _ _ _ Hc Hd H Hs) as [(_ & -> & ->)|(_ & -> & -> & _)]; [lia|apply rewrite_all_count].
  - intros f Hf Ha. destruct (delete_run_real _ _ _ _ _ _ Hc Hd H Hs) as [(_ & -> & _)|(_ & -> & _)]; [exact Hf|].
    apply rewrite_all_untouched; assumption.
Qed.

Lemma delete_exact_guarded cf rq ds rsp ds' :
  rq_class rq = WValid -> rq_dry rq = false -> delete_run KeepNotPred cf rq ds = (rsp, ds') -> rs_status rsp = 200 ->
  (forall f, In f ds -> is_affected (rq_pred rq) f = true -> forall r, In r (snd f) -> eval r (rq_pred rq) <> U) ->
  rows_of ds' = filter (not_true (rq_pred rq)) (rows_of ds).
Proof.
  intros Hc Hd H Hs Hn. eapply delete_exact_when; try eassumption.
  intros f Hf Ha r Hr. apply keep_asis_no_null. eapply Hn; eassumption.
Qed.

(* both variants *)
Lemma delete_count v cf rq ds rsp ds' :
  rq_class rq = WValid -> rq_dry rq = false -> delete_run v cf rq ds = (rsp, ds') -> rs_status rsp = 200 ->
  rs_deleted rsp = nrows ds - nrows ds'.
Proof.
  intros Hc Hd H Hs.
  destruct (delete_run_real _ _ _ _ _ _ Hc Hd H Hs) as [(_ & -> & ->)|(_ & -> & -> & _)]; [lia|apply rewrite_all_count].
Qed.

Lemma delete_safe v cf rq ds rsp ds' :
  rq_class rq = WValid -> rq_dry rq = false -> delete_run v cf rq ds = (rsp, ds') -> rs_status rsp = 200 ->
  (forall r, In r (rows_of ds') -> holds r (rq_pred rq) = false) /\
  (forall r, In r (rows_of ds) -> eval r (rq_pred rq) = F -> In r (rows_of ds')) /\
  (forall f, In f ds -> is_affected (rq_pred rq) f = false -> In f ds').
Proof.
  intros Hc Hd H Hs.
  destruct (delete_run_real _ _ _ _ _ _ Hc Hd H Hs) as [(Ha & -> & _)|(_ & -> & _ & _ & _ & Hnf)].
  - repeat split; try tauto.
    intros r Hr. unfold rows_of in Hr. apply in_flat_map in Hr as (f & Hf & Hr).
    eapply unaffected_no_true; [|exact Hr]. apply (affected_none _ _ Ha f Hf).
  - repeat split.
    + intros r. apply rewrite_all_drops_true.
      match goal with Hx : (0 <? _) = false |- _ => apply (no_failures _ _ _ Hx) end.
    + apply rewrite_all_keeps_false.
    + intros; apply rewrite_all_untouched; assumption.
Qed.

(* a real run that reports 207: the failure is reported, the count is still what disappeared, FALSE rows
   and unaffected files are still intact *)
Lemma delete_partial v cf rq ds rsp ds' :
  rq_class rq = WValid -> delete_run v cf rq ds = (rsp, ds') -> rs_status rsp = 207 ->
  rs_success rsp = false /\ 0 < rs_failed rsp /\ rs_deleted rsp = nrows ds - nrows ds' /\
  (forall r, In r (rows_of ds) -> eval r (rq_pred rq) = F -> In r (rows_of ds')) /\
  (forall f, In f ds -> is_affected (rq_pred rq) f = false -> In f ds').
Proof.
  unfold delete_run. intros Hc H Hs. rewrite Hc in H.
  destruct (rq_full rq && negb (rq_confirm rq)); [inversion H; subst; discriminate|].
  destruct (negb (rq_dry rq) && negb (rq_confirm rq)); [inversion H; subst; discriminate|].
  destruct (affected_files (rq_pred rq) ds); [inversion H; subst; discriminate|].
  destruct (cf_max_rows cf <? _); [inversion H; subst; discriminate|].
  destruct ((cf_threshold cf <? _) && negb (rq_confirm rq)); [inversion H; subst; discriminate|].
  destruct (rq_dry rq); [inversion H; subst; discriminate|].
  pose proof (rewrite_all_count v (rq_pred rq) ds) as Hcnt.
  pose proof (rewrite_all_keeps_false v (rq_pred rq) ds) as Hkf.
  pose proof (rewrite_all_untouched v (rq_pred rq) ds) as Hun.
  destruct (rewrite_all v (rq_pred rq) ds) as [[d k] dsr]. unfold ra_deleted, ra_ds in *. cbn [fst snd] in *.
  destruct (0 <? k) eqn:Ek; inversion H; subst; [|discriminate]. cbn.
  apply Z.ltb_lt in Ek. repeat split; try assumption.
Qed.

(* dry run: nothing changes; the reported count is the number of TRUE rows of the measurement *)
Lemma delete_dry_run v cf rq ds rsp ds' :
  rq_dry rq = true -> delete_run v cf rq ds = (rsp, ds') ->
  ds' = ds /\ (rq_class rq = WValid -> rs_status rsp = 200 ->
               rs_deleted rsp = countb (fun r => holds r (rq_pred rq)) (rows_of ds)).
Proof.
  intros Hd H. split; [eapply delete_run_unchanged_unless_ok; [exact H|right; exact Hd]|].
  intros Hc Hs. unfold delete_run in H. rewrite Hc, Hd in H.
  destruct (rq_full rq && negb (rq_confirm rq)); [inversion H; subst; discriminate|].
  cbn [negb andb] in H.
  pose proof (total_matches_all (rq_pred rq) ds) as Ht. unfold total_matches in Ht.
  destruct (affected_files (rq_pred rq) ds) as [|a l] eqn:Ea.
  - inversion H; subst. cbn. rewrite <- Ht. reflexivity.
  - destruct (cf_max_rows cf <? _); [inversion H; subst; discriminate|].
    destruct ((cf_threshold cf <? _) && negb (rq_confirm rq)); [inversion H; subst; discriminate|].
    inversion H; subst. cbn [rs_deleted resp]. exact Ht.
Qed.

(* dry run and real run of the same confirmed request: when the real run succeeds, the dry run
   succeeded too and - whenever the keep filter is "not TRUE" on the affected files - reported the
   same count *)
Lemma dry_status_of_real v cf rq ds :
  rq_class rq = WValid -> rq_confirm rq = true ->
  rs_status (fst (delete_run v cf (with_dry rq false) ds)) = 200 ->
  rs_status (fst (delete_run v cf (with_dry rq true) ds)) = 200.
Proof.
  intros Hc Hcf. unfold delete_run. cbn [with_dry rq_class rq_full rq_confirm rq_dry rq_pred].
  rewrite Hc, Hcf. cbn [negb andb]. rewrite !andb_false_r.
  destruct (affected_files (rq_pred rq) ds); [intros _; reflexivity|].
  destruct (cf_max_rows cf <? _); [cbn; discriminate|].
  rewrite ?andb_false_r. intros _. reflexivity.
Qed.

Lemma delete_same_count_when v cf rq ds :
  rq_class rq = WValid -> rq_confirm rq = true ->
  (forall f, In f ds -> is_affected (rq_pred rq) f = true -> forall r, In r (snd f) ->
     holds r (keep_pred v (rq_pred rq)) = not_true (rq_pred rq) r) ->
  let rd := fst (delete_run v cf (with_dry rq true) ds) in
  let rr := fst (delete_run v cf (with_dry rq false) ds) in
  rs_status rr = 200 -> rs_status rd = 200 /\ rs_deleted rd = rs_deleted rr.
Proof.
  intros Hc Hcf Hk. cbn zeta. intros Hs.
  pose proof (dry_status_of_real v cf rq ds Hc Hcf Hs) as Hsd.
  destruct (delete_run v cf (with_dry rq true) ds) as [rd dsd] eqn:Ed.
  destruct (delete_run v cf (with_dry rq false) ds) as [rr dsr] eqn:Er. cbn [fst] in *.
  split; [exact Hsd|].
  assert (Hcd : rq_class (with_dry rq true) = WValid) by exact Hc.
  assert (Hcr : rq_class (with_dry rq false) = WValid) by exact Hc.
  destruct (delete_dry_run v cf (with_dry rq true) ds rd dsd eq_refl Ed) as (_ & Hdc).
  rewrite (Hdc Hcd Hsd).
  rewrite (delete_count v cf (with_dry rq false) ds rr dsr Hcr eq_refl Er Hs).
  rewrite <- nrows_filter_split. f_equal. unfold nrows. f_equal. f_equal.
  symmetry. apply (delete_exact_when v cf (with_dry rq false) ds rr dsr Hcr eq_refl Er Hs). exact Hk.
Qed.

(* ---- the search as a parameter ([delete_run_s]) ----------------------------------------------------------- *)
Lemma faithful_match_count sh p ds f : search_faithful sh p ds -> In f ds -> match_count_s sh f = match_count p f.
Proof.
  intros H Hf. unfold match_count_s, match_count, countb. f_equal. f_equal.
  apply filter_ext_in'. intros r Hr. apply H; assumption.
Qed.

Lemma faithful_affected sh p ds f : search_faithful sh p ds -> In f ds -> is_affected_s sh f = is_affected p f.
Proof. intros H Hf. unfold is_affected_s, is_affected. rewrite (faithful_match_count sh p ds f H Hf). reflexivity. Qed.

Lemma rewrite_all_g_ext v aff p ds :
  (forall f, In f ds -> aff f = is_affected p f) -> rewrite_all_g v aff p ds = rewrite_all v p ds.
Proof.
  induction ds as [|f r IH]; intros H; cbn [rewrite_all_g rewrite_all]; [reflexivity|].
  rewrite IH by (intros g Hg; apply H; right; exact Hg).
  rewrite (H f (or_introl eq_refl)). reflexivity.
Qed.

(* with a faithful search the run is the run with the ideal search *)
Lemma delete_run_s_faithful v sh cf rq ds :
  search_faithful sh (rq_pred rq) ds -> delete_run_s v sh cf rq ds = delete_run v cf rq ds.
Proof.
  intros H. unfold delete_run_s, delete_run.
  assert (E1 : filter (is_affected_s sh) ds = affected_files (rq_pred rq) ds).
  { unfold affected_files. apply filter_ext_in'. intros f Hf. apply (faithful_affected sh _ ds f H Hf). }
  assert (E3 : rewrite_all_g v (is_affected_s sh) (rq_pred rq) ds = rewrite_all v (rq_pred rq) ds).
  { apply rewrite_all_g_ext. intros f Hf. apply (faithful_affected sh _ ds f H Hf). }
  destruct (rq_class rq); try reflexivity.
  rewrite E1, E3.
  destruct (affected_files (rq_pred rq) ds) as [|a l] eqn:Ea; [reflexivity|].
  assert (E2 : map (match_count_s sh) (a :: l) = map (match_count (rq_pred rq)) (a :: l)).
  { apply map_ext_in. intros f Hf. apply (faithful_match_count sh _ ds f H).
    rewrite <- Ea in Hf. unfold affected_files in Hf. apply filter_In in Hf. tauto. }
  rewrite E2. reflexivity.
Qed.

Lemma ideal_search_faithful p ds : search_faithful (ideal_search p) p ds.
Proof. intros f r _ _. reflexivity. Qed.

Lemma delete_run_s_ideal v cf rq ds : delete_run_s v (ideal_search (rq_pred rq)) cf rq ds = delete_run v cf rq ds.
Proof. apply delete_run_s_faithful, ideal_search_faithful. Qed.

(* ---- what holds whatever the search answers ---------------------------------------------------------------------- *)
Lemma rewrite_all_g_count v aff p ds :
  ra_deleted (rewrite_all_g v aff p ds) = nrows ds - nrows (ra_ds (rewrite_all_g v aff p ds)).
Proof.
  unfold ra_deleted, ra_ds.
  induction ds as [|f r IH]; cbn [rewrite_all_g]; [reflexivity|].
  destruct (rewrite_all_g v aff p r) as [[d k] r'] eqn:E. cbn [fst snd] in IH.
  destruct (aff f).
  - destruct (unbound p (snd f)).
    + cbn [fst snd]. rewrite !nrows_cons. lia.
    + unfold rewrite_file.
      destruct (filter (fun r0 => holds r0 (keep_pred v p)) (snd f)) as [|k0 ks] eqn:Ek; cbn [fst snd].
      * rewrite nrows_cons. cbn [length]. lia.
      * rewrite !nrows_cons. cbn [snd]. lia.
  - cbn [fst snd]. rewrite !nrows_cons. lia.
Qed.

Lemma rewrite_all_g_keeps_false v aff p ds r :
  In r (rows_of ds) -> eval r p = F -> In r (rows_of (ra_ds (rewrite_all_g v aff p ds))).
Proof.
  unfold ra_ds. induction ds as [|f rest IH]; cbn [rewrite_all_g]; intros Hin He; [destruct Hin|].
  rewrite rows_of_cons in Hin. apply in_app_or in Hin.
  destruct (rewrite_all_g v aff p rest) as [[d k] r'] eqn:E. cbn [snd] in IH.
  assert (Hkeep : In r (snd f) -> In r (filter (fun r0 => holds r0 (keep_pred v p)) (snd f))).
  { intros Hr. apply filter_In. split; [exact Hr|apply keep_false; exact He]. }
  destruct (aff f).
  - destruct (unbound p (snd f)).
    + cbn [snd]. rewrite rows_of_cons. apply in_or_app. destruct Hin as [Hin|Hin]; [left; exact Hin|right; apply IH; assumption].
    + unfold rewrite_file.
      destruct (filter (fun r0 => holds r0 (keep_pred v p)) (snd f)) as [|k0 ks] eqn:Ek; cbn [snd].
      * destruct Hin as [Hin|Hin]; [exfalso; apply Hkeep in Hin; destruct Hin|apply IH; assumption].
      * rewrite rows_of_cons. cbn [snd]. apply in_or_app.
        destruct Hin as [Hin|Hin]; [left; apply Hkeep; exact Hin|right; apply IH; assumption].
  - cbn [snd]. rewrite rows_of_cons. apply in_or_app. destruct Hin as [Hin|Hin]; [left; exact Hin|right; apply IH; assumption].
Qed.

(* any search: no FALSE row is ever lost; a real run that rewrote files reports exactly what disappeared;
   a dry run or a run that reports neither 200 nor 207 changes nothing *)
Lemma delete_any_search v sh cf rq ds rsp ds' :
  delete_run_s v sh cf rq ds = (rsp, ds') ->
  (forall r, In r (rows_of ds) -> eval r (rq_pred rq) = F -> In r (rows_of ds')) /\
  (rq_dry rq = false -> rs_status rsp = 200 \/ rs_status rsp = 207 -> rs_deleted rsp = nrows ds - nrows ds') /\
  ((rs_status rsp <> 200 /\ rs_status rsp <> 207) \/ rq_dry rq = true -> ds' = ds).
Proof.
  unfold delete_run_s. intros H.
  assert (Hsame : forall rsp0, (rsp0, ds) = (rsp, ds') -> rs_deleted rsp0 = 0 ->
            (forall r, In r (rows_of ds) -> eval r (rq_pred rq) = F -> In r (rows_of ds')) /\
            (rq_dry rq = false -> rs_status rsp = 200 \/ rs_status rsp = 207 -> rs_deleted rsp = nrows ds - nrows ds') /\
            ((rs_status rsp <> 200 /\ rs_status rsp <> 207) \/ rq_dry rq = true -> ds' = ds)).
  { intros rsp0 E Hd. inversion E; subst. repeat split; try tauto. intros _ _. lia. }
  destruct (rq_class rq).
  - destruct (rq_full rq && negb (rq_confirm rq)); [eapply Hsame; [exact H|reflexivity]|].
    destruct (negb (rq_dry rq) && negb (rq_confirm rq)); [eapply Hsame; [exact H|reflexivity]|].
    destruct (filter (is_affected_s sh) ds) as [|a l]; [eapply Hsame; [exact H|reflexivity]|].
    destruct (cf_max_rows cf <? _); [eapply Hsame; [exact H|reflexivity]|].
    destruct ((cf_threshold cf <? _) && negb (rq_confirm rq)); [eapply Hsame; [exact H|reflexivity]|].
    destruct (rq_dry rq) eqn:Ed.
    { inversion H; subst. repeat split; try tauto. intros; discriminate. }
    pose proof (rewrite_all_g_count v (is_affected_s sh) (rq_pred rq) ds) as Hcnt.
    pose proof (rewrite_all_g_keeps_false v (is_affected_s sh) (rq_pred rq) ds) as Hkf.
    destruct (rewrite_all_g v (is_affected_s sh) (rq_pred rq) ds) as [[d k] dsr]. unfold ra_deleted, ra_ds in *. cbn [fst snd] in *.
    destruct (0 <? k); injection H as Hr Hd; rewrite <- Hr, <- Hd; cbn [rs_deleted rs_status resp].
    + repeat split; [exact Hkf|intros; exact Hcnt|]. intros [[_ H7]|Hx]; [congruence|discriminate].
    + repeat split; [exact Hkf|intros; exact Hcnt|]. intros [[H2 _]|Hx]; [congruence|discriminate].
  - eapply Hsame; [exact H|reflexivity].
  - destruct (rq_full rq && negb (rq_confirm rq)); [eapply Hsame; [exact H|reflexivity]|].
    destruct (negb (rq_dry rq) && negb (rq_confirm rq)); eapply Hsame; try exact H; reflexivity.
Qed.
