(* C29 - Continuous query windows are contiguous and processed once.
   Only property statements live here; proofs are in Proofs.v.
   Conventions: clock readings and explicit request bounds are nanoseconds, windows / pointer
   are seconds (Model.v); [execs] is newest first, so [rev (execs s)] is the execution table in
   insertion order; [lbs]/[lbm] are the look-backs used when the pointer is NULL. *)
From Coq Require Import List ZArith Bool Lia.
From Arc Require Import CQ.Model CQ.Proofs.
Import ListNotations.
Open Scope Z_scope.

(* Successive successful SCHEDULED windows tile an interval: in EVERY history made of
   scheduled runs, injected aggregation failures, crashes at any of the crash points,
   restarts, updates (activation / deactivation), dry-run or malformed manual requests, under
   ANY clock (not even monotone), each completed scheduled window [s,e) has s <= e and the
   next completed one starts exactly at e: no gap, no overlap. *)
Theorem C29_scheduled_contiguous : forall lbs lbm ops,
  no_effective_manual ops = true ->
  chainb (completed_sched (rev (execs (run lbs lbm init ops)))) = true.
Proof. exact scheduled_contiguous. Qed.
Print Assumptions C29_scheduled_contiguous.

(* Any operation that does not complete (failed aggregation, rejected, dry run, malformed,
   crashed, update, restart) leaves the pointer and the completed records untouched ... *)
Theorem C29_failure_no_advance : forall lbs lbm s o s' out,
  step lbs lbm s o = (s', out) -> is_completed out = false ->
  lp s' = lp s /\ filter e_ok (execs s') = filter e_ok (execs s).
Proof. exact not_completed_no_advance. Qed.
Print Assumptions C29_failure_no_advance.

(* ... and the failed window is processed again by the next scheduled run: it starts at the
   same instant l and extends at least as far. *)
Theorem C29_failed_window_reprocessed : forall lbs lbm s l now1 now2 c,
  active s = true -> lp s = Some l -> l * ns < now1 -> now1 <= now2 ->
  let '(s1, o1) := step lbs lbm s (Sched now1 true c) in
  let '(s2, o2) := step lbs lbm s1 (Sched now2 false None) in
  o1 = OFailed l (now1 / ns) /\ lp s1 = Some l /\
  o2 = OCompleted l (now2 / ns) /\ lp s2 = Some (now2 / ns) /\ now1 / ns <= now2 / ns.
Proof. exact sched_failed_then_ok. Qed.
Print Assumptions C29_failed_window_reprocessed.

(* Record-and-advance is atomic for EVERY crash prefix k of the protocol
   [hand rows to the buffer; INSERT execution; UPDATE pointer; COMMIT]: before the commit
   neither the execution record nor the pointer update is visible, after it both are (the
   pointer update being the guarded one: it advances only when the window covers the pointer). *)
Theorem C29_atomic_advance : forall k sched s sns ens,
  let s' := run_prefix k sched s sns ens in
  ((k < 4)%nat -> lp s' = lp s /\ execs s' = execs s /\ active s' = active s) /\
  ((4 <= k)%nat -> lp s' = (if advances (lp s) (sns / ns) (ens / ns) then Some (ens / ns) else lp s) /\
                   execs s' = the_exec sched sns ens :: execs s /\ active s' = active s).
Proof. exact atomic_advance. Qed.
Print Assumptions C29_atomic_advance.

(* A crash between aggregation and commit leaves the window unadvanced: the next scheduled
   run processes it again (same start, end at least as late) - re-processed, not skipped. *)
Theorem C29_crashed_window_reprocessed : forall lbs lbm s l now1 now2 c,
  active s = true -> lp s = Some l -> l * ns < now1 -> now1 <= now2 ->
  let '(s1, o1) := step lbs lbm s (Sched now1 false (Some c)) in
  let '(s2, o2) := step lbs lbm s1 (Sched now2 false None) in
  o1 = OCrashed /\ lp s1 = Some l /\ execs s1 = execs s /\
  o2 = OCompleted l (now2 / ns) /\ lp s2 = Some (now2 / ns) /\ now1 / ns <= now2 / ns.
Proof. exact sched_crashed_then_ok. Qed.
Print Assumptions C29_crashed_window_reprocessed.

(* ALL histories, manual runs with explicit bounds included: the pointer is exactly what the log
   of completed executions implies under the guarded update; every completed scheduled execution
   starts at the pointer, i.e. where the previous pointer-advancing execution ended; every stored
   row is labelled with the start of the window it summarises. *)
Theorem C29_history : forall lbs lbm ops,
  let s := run lbs lbm init ops in
  lp s = ptr_of (execs s) /\ starts_at_ptr (execs s) = true /\ forallb label_ok (dest s) = true.
Proof. intros lbs lbm ops. apply inv_all_run. apply inv_all_init. Qed.
Print Assumptions C29_history.

(* the same as an inductive invariant, from any state that satisfies it *)
Theorem C29_history_invariant : forall lbs lbm ops s, inv_all s -> inv_all (run lbs lbm s ops).
Proof. intros. apply inv_all_run. assumption. Qed.
Print Assumptions C29_history_invariant.

(* ALL histories: an execution is recorded as completed only together with its output - every
   completed record has its window's row in the destination measurement; a run whose aggregation
   query OR whose destination write fails is a failed run (C29_failure_no_advance applies). *)
Theorem C29_completed_has_rows : forall lbs lbm ops,
  let s := run lbs lbm init ops in forallb (has_row (dest s)) (execs s) = true.
Proof. intros lbs lbm ops. apply rows_run. reflexivity. Qed.
Print Assumptions C29_completed_has_rows.

(* the label of a scheduled run that starts at the pointer is exactly the window start *)
Theorem C29_label : forall lbs lbm s l now,
  active s = true -> lp s = Some l -> l * ns < now ->
  dest (fst (step lbs lbm s (Sched now false None))) =
  {| r_t := l * 1000000; r_ws := l; r_we := now / ns |} :: dest s.
Proof. exact sched_label_exact. Qed.
Print Assumptions C29_label.

(* FULL STRENGTH, for ALL histories - scheduled and manual runs with any explicit bounds,
   failures, crashes, restarts, updates, under ANY clock, from any state:
   (1) the pointer never moves backwards; *)
Theorem C29_pointer_monotone : forall lbs lbm ops s p,
  lp s = Some p -> exists p', lp (run lbs lbm s ops) = Some p' /\ p <= p'.
Proof. exact run_monotone. Qed.
Print Assumptions C29_pointer_monotone.

(* (2) completed scheduled windows never overlap: each is well-formed and every later one starts
   at or after the end of every earlier one; *)
Theorem C29_sched_disjoint : forall lbs lbm ops,
  sortedb (completed_sched (rev (execs (run lbs lbm init ops)))) = true.
Proof. exact sched_disjoint_all. Qed.
Print Assumptions C29_sched_disjoint.

(* (3) and they leave no gap: every completed scheduled window starts inside the region that is
   contiguously covered by the completed windows recorded before it (manual runs may bridge). *)
Theorem C29_no_gap : forall lbs lbm ops, gap_free (execs (run lbs lbm init ops)) = true.
Proof. exact no_gap_all. Qed.
Print Assumptions C29_no_gap.

(* A manual back-fill that ends at or before the pointer, or a manual run that starts after it, is
   executed and recorded but does not move the pointer (the two defects repaired by 5249f50). *)
Theorem C29_manual_outside_keeps_pointer : forall sched s sns ens l,
  lp s = Some l -> (ens / ns <= l \/ l < sns / ns) -> lp (committed sched s sns ens) = Some l.
Proof. exact manual_outside_keeps_pointer. Qed.
Print Assumptions C29_manual_outside_keeps_pointer.

(* Stronger, for the histories whose effective manual runs name no explicit START: ALL completed
   windows, manual and scheduled, tile exactly. *)
Theorem C29_tiles_no_explicit_start : forall lbs lbm ops s,
  inv_chain s -> no_explicit_start ops = true ->
  chainb (completed (rev (execs (run lbs lbm s ops)))) = true.
Proof. exact tiles_guarded. Qed.
Print Assumptions C29_tiles_no_explicit_start.

(* ---- regression: the two histories that refuted the property before 5249f50 ----------- *)
Definition T0 : Z := 1700000000.
Definition hour : Z := 3600 * ns.
Definition overlap_witness : list op :=
  [ Sched (T0 * ns) false None;
    Sched ((T0 + 180) * ns) false None;
    Manual ((T0 + 200) * ns) (Some ((T0 - 4400) * ns)) (Some ((T0 - 2600) * ns)) false false false None;
    Sched ((T0 + 240) * ns) false None ].
Definition gap_witness : list op :=
  [ Sched (T0 * ns) false None;
    Manual ((T0 + 100) * ns) (Some ((T0 + 60) * ns)) None false false false None;
    Sched ((T0 + 200) * ns) false None ].

(* the back-fill is recorded, the pointer stays, the next scheduled window is [T0+180, T0+240) *)
Example C29_backfill_regression :
  let s := run hour hour init overlap_witness in
  completed (rev (execs s)) = [ (T0 - 3600, T0); (T0, T0 + 180); (T0 - 4400, T0 - 2600); (T0 + 180, T0 + 240) ] /\
  completed_sched (rev (execs s)) = [ (T0 - 3600, T0); (T0, T0 + 180); (T0 + 180, T0 + 240) ] /\
  lp s = Some (T0 + 240).
Proof. vm_compute. repeat split. Qed.

(* the manual run ahead of the pointer is recorded, the next scheduled window still starts at T0 *)
Example C29_ahead_regression :
  let s := run hour hour init gap_witness in
  completed (rev (execs s)) = [ (T0 - 3600, T0); (T0 + 60, T0 + 100); (T0, T0 + 200) ] /\ lp s = Some (T0 + 200).
Proof. vm_compute. repeat split. Qed.

(* ---- non-vacuity --------------------------------------------------------------------- *)

(* a scheduled-only history with a failure, a crash, a deactivation, a restart, a dry run and a
   clock reading inside a second: hypotheses hold and four windows are completed *)
Example C29_scheduled_nonvacuous :
  let ops := [ Sched (T0 * ns + 500) false None; Sched ((T0 + 60) * ns) true None;
               Sched ((T0 + 120) * ns + 7) false (Some TxBetween); Restart;
               Sched ((T0 + 180) * ns) false None;
               Manual ((T0 + 200) * ns) (Some (T0 * ns)) None false true false None;
               Update false; Sched ((T0 + 240) * ns) false None; Update true;
               Sched ((T0 + 300) * ns) false None; Sched ((T0 + 300) * ns + 5) false None ] in
  no_effective_manual ops = true /\
  completed_sched (rev (execs (run hour hour init ops))) =
    [ (T0 - 3600, T0); (T0, T0 + 180); (T0 + 180, T0 + 300); (T0 + 300, T0 + 300) ].
Proof. vm_compute. split; reflexivity. Qed.

(* a history with effective manual runs inside the guards: explicit END only *)
Example C29_guards_nonvacuous :
  let ops := [ Sched (T0 * ns) false None;
               Manual ((T0 + 50) * ns) None (Some ((T0 + 20) * ns)) false false false None;
               Sched ((T0 + 100) * ns) false None ] in
  no_explicit_start ops = true /\ inv_chain init /\
  completed (rev (execs (run hour hour init ops))) = [ (T0 - 3600, T0); (T0, T0 + 20); (T0 + 20, T0 + 100) ].
Proof. vm_compute. repeat split. Qed.

(* a manual window that covers the pointer advances it: [T0-100, T0+50) with pointer T0 *)
Example C29_manual_covering_advances :
  let ops := [ Sched (T0 * ns) false None;
               Manual ((T0 + 60) * ns) (Some ((T0 - 100) * ns)) (Some ((T0 + 50) * ns)) false false false None;
               Sched ((T0 + 100) * ns) false None ] in
  completed_sched (rev (execs (run hour hour init ops))) = [ (T0 - 3600, T0); (T0 + 50, T0 + 100) ].
Proof. vm_compute. reflexivity. Qed.

(* hypotheses of the re-processing theorems are satisfiable *)
Example C29_reprocess_nonvacuous :
  let s := run hour hour init [Sched (T0 * ns) false None] in
  active s = true /\ lp s = Some T0 /\ T0 * ns < (T0 + 60) * ns.
Proof. vm_compute. repeat split. Qed.
