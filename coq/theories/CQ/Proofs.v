From Coq Require Import List ZArith Bool Lia ZifyBool.
From Arc Require Import CQ.Model.
Import ListNotations.
Open Scope Z_scope.

Ltac Zify.zify_post_hook ::= Z.div_mod_to_equations.

(* ------------------------------------------------------------------------------------ *)
(* micro-steps                                                                            *)
(* ------------------------------------------------------------------------------------ *)

Definition add_dest (s : st) (r : row) : st :=
  {| lp := lp s; active := active s; execs := execs s; dest := r :: dest s |}.

Definition the_row (sns ens : Z) : row := {| r_t := sns / 1000; r_ws := sns / ns; r_we := ens / ns |}.
Definition the_exec (sched : bool) (sns ens : Z) : exec :=
  {| e_sched := sched; e_ok := true; e_s := sns / ns; e_e := ens / ns |}.

Definition committed (sched : bool) (s : st) (sns ens : Z) : st :=
  {| lp := Some (ens / ns); active := active s;
     execs := the_exec sched sns ens :: execs s; dest := the_row sns ens :: dest s |}.

Lemma run_prefix_0 sched s sns ens : run_prefix 0 sched s sns ens = s.
Proof. reflexivity. Qed.

Lemma run_prefix_mid k sched s sns ens :
  (1 <= k <= 3)%nat -> run_prefix k sched s sns ens = add_dest s (the_row sns ens).
Proof.
  intros H. destruct k as [|[|[|[|k]]]]; try lia; reflexivity.
Qed.

Lemma run_prefix_full k sched s sns ens :
  (4 <= k)%nat -> run_prefix k sched s sns ens = committed sched s sns ens.
Proof.
  intros H. destruct k as [|[|[|[|k]]]]; try lia.
  unfold run_prefix, success_steps. cbn [firstn]. rewrite firstn_nil. reflexivity.
Qed.

(* every crash prefix: either nothing of the transaction is visible, or all of it *)
Lemma atomic_advance k sched s sns ens :
  let s' := run_prefix k sched s sns ens in
  ((k < 4)%nat -> lp s' = lp s /\ execs s' = execs s /\ active s' = active s) /\
  ((4 <= k)%nat -> lp s' = Some (ens / ns) /\ execs s' = the_exec sched sns ens :: execs s /\ active s' = active s).
Proof.
  cbn zeta. split; intros H.
  - destruct (Nat.eq_dec k 0) as [->|].
    + rewrite run_prefix_0. auto.
    + rewrite run_prefix_mid by lia. cbn. auto.
  - rewrite run_prefix_full by lia. cbn. auto.
Qed.

Lemma crash_prefix_lt c : (crash_prefix (Some c) < 4)%nat /\ (1 <= crash_prefix (Some c))%nat.
Proof. destruct c; cbn; lia. Qed.

(* ------------------------------------------------------------------------------------ *)
(* what one operation can do to the pointer and to the log                                 *)
(* ------------------------------------------------------------------------------------ *)

Definition is_completed (o : outcome) : bool := match o with OCompleted _ _ => true | _ => false end.

Lemma run_window_cases sched s sns ens fail crash s' out :
  run_window sched s sns ens fail crash = (s', out) ->
  (fail = true /\ s' = add_failed s sched sns ens /\ out = OFailed (sns / ns) (ens / ns)) \/
  (fail = false /\ crash = None /\ s' = committed sched s sns ens /\ out = OCompleted (sns / ns) (ens / ns)) \/
  (fail = false /\ crash <> None /\ s' = add_dest s (the_row sns ens) /\ out = OCrashed).
Proof.
  unfold run_window. destruct fail.
  - intros H; injection H as <- <-. left. auto.
  - destruct crash as [c|].
    + intros H; injection H as <- <-. right; right.
      rewrite run_prefix_mid by (destruct c; cbn; lia). repeat split; congruence.
    + intros H; injection H as <- <-. right; left. rewrite run_prefix_full by lia. auto.
Qed.

(* the shape of every step: the state is unchanged, or gets a failed record, or a crashed
   run's rows, or a committed window [sns, ens) whose bounds are described *)
Inductive step_shape (lbs lbm : Z) (s : st) (o : op) (s' : st) (out : outcome) : Prop :=
| SSame : s' = s -> is_completed out = false -> step_shape lbs lbm s o s' out
| SUpdate act : o = Update act ->
    s' = {| lp := lp s; active := act; execs := execs s; dest := dest s |} -> out = ONone ->
    step_shape lbs lbm s o s' out
| SFailed sched sns ens : sns < ens -> s' = add_failed s sched sns ens -> out = OFailed (sns / ns) (ens / ns) ->
    step_shape lbs lbm s o s' out
| SCrashed sns ens : sns < ens -> s' = add_dest s (the_row sns ens) -> out = OCrashed ->
    step_shape lbs lbm s o s' out
| SSched now fail : o = Sched now fail None -> active s = true ->
    win_start lbs s now None < now ->
    s' = committed true s (win_start lbs s now None) now ->
    out = OCompleted (win_start lbs s now None / ns) (now / ns) ->
    step_shape lbs lbm s o s' out
| SManual now xs xe fail : o = Manual now xs xe false false fail None -> active s = true ->
    win_start lbm s now xs < win_end now xe ->
    s' = committed false s (win_start lbm s now xs) (win_end now xe) ->
    out = OCompleted (win_start lbm s now xs / ns) (win_end now xe / ns) ->
    step_shape lbs lbm s o s' out.

Lemma step_shape_of lbs lbm s o s' out :
  step lbs lbm s o = (s', out) -> step_shape lbs lbm s o s' out.
Proof.
  destruct o as [now fail crash|now xs xe bad dry fail crash| |act]; cbn [step].
  - destruct (active s) eqn:Ha; cbn [negb].
    2:{ intros H; injection H as <- <-. apply SSame; reflexivity. }
    destruct (win_start lbs s now None <? now) eqn:Hw; cbn [negb].
    2:{ intros H; injection H as <- <-. apply SSame; reflexivity. }
    apply Z.ltb_lt in Hw. intros H.
    destruct (run_window_cases _ _ _ _ _ _ _ _ H) as [(-> & -> & ->)|[(-> & -> & -> & ->)|(-> & Hc & -> & ->)]].
    + eapply SFailed; eauto.
    + eapply SSched; eauto.
    + eapply SCrashed; eauto.
  - destruct (active s) eqn:Ha; cbn [negb].
    2:{ intros H; injection H as <- <-. apply SSame; reflexivity. }
    destruct bad.
    { intros H; injection H as <- <-. apply SSame; reflexivity. }
    destruct (win_start lbm s now xs <? win_end now xe) eqn:Hw; cbn [negb].
    2:{ intros H; injection H as <- <-. apply SSame; reflexivity. }
    apply Z.ltb_lt in Hw.
    destruct dry.
    { intros H; injection H as <- <-. apply SSame; reflexivity. }
    intros H.
    destruct (run_window_cases _ _ _ _ _ _ _ _ H) as [(-> & -> & ->)|[(-> & -> & -> & ->)|(-> & Hc & -> & ->)]].
    + eapply SFailed; eauto.
    + eapply SManual; eauto.
    + eapply SCrashed; eauto.
  - intros H; injection H as <- <-. apply SSame; reflexivity.
  - intros H; injection H as <- <-. eapply SUpdate; eauto.
Qed.

(* only a completed execution moves the pointer or adds a completed record *)
Lemma not_completed_no_advance lbs lbm s o s' out :
  step lbs lbm s o = (s', out) -> is_completed out = false ->
  lp s' = lp s /\ filter e_ok (execs s') = filter e_ok (execs s).
Proof.
  intros H Hc. destruct (step_shape_of _ _ _ _ _ _ H) as
      [-> _|act _ -> _|sched sns ens _ -> _|sns ens _ -> _|now fail _ _ _ _ ->|now xs xe fail _ _ _ _ ->];
    try discriminate; cbn; auto.
Qed.

(* ------------------------------------------------------------------------------------ *)
(* list lemmas about the specification predicates                                          *)
(* ------------------------------------------------------------------------------------ *)

(* chain / sorted on NEWEST-FIRST lists, as Props *)
Fixpoint rchain (ws : list (Z * Z)) : Prop :=
  match ws with
  | [] => True
  | (a, b) :: r => a <= b /\ match r with [] => True | (_, d) :: _ => a = d end /\ rchain r
  end.

Fixpoint rsorted (ws : list (Z * Z)) : Prop :=
  match ws with
  | [] => True
  | (a, b) :: r => a <= b /\ (forall w, In w r -> snd w <= a) /\ rsorted r
  end.

Fixpoint lastw (l : list (Z * Z)) : option (Z * Z) :=
  match l with
  | [] => None
  | x :: r => match r with [] => Some x | _ :: _ => lastw r end
  end.

Lemma lastw_snoc l x : lastw (l ++ [x]) = Some x.
Proof.
  induction l as [|y r IH]; [reflexivity|].
  cbn [app lastw]. destruct (r ++ [x]) eqn:E; [destruct r; discriminate|exact IH].
Qed.

Lemma chainb_cons2 c d c2 d2 t :
  chainb ((c, d) :: (c2, d2) :: t) = (c <=? d) && (c2 =? d) && chainb ((c2, d2) :: t).
Proof. reflexivity. Qed.

Lemma chainb_snoc l a b :
  chainb (l ++ [(a, b)]) = chainb l && (a <=? b) &&
    match lastw l with None => true | Some (_, d) => a =? d end.
Proof.
  induction l as [|[c d] r IH].
  - cbn. destruct (a <=? b); reflexivity.
  - destruct r as [|[c2 d2] r'].
    + cbn. destruct (c <=? d), (a <=? b), (a =? d); reflexivity.
    + cbn [app]. rewrite !chainb_cons2.
      change ((c2, d2) :: r' ++ [(a, b)]) with (((c2, d2) :: r') ++ [(a, b)]). rewrite IH.
      change (lastw ((c, d) :: (c2, d2) :: r')) with (lastw ((c2, d2) :: r')).
      destruct (c <=? d), (c2 =? d), (chainb ((c2, d2) :: r')), (a <=? b),
        (match lastw ((c2, d2) :: r') with None => true | Some (_, d0) => a =? d0 end); reflexivity.
Qed.

Lemma chainb_rev ws : chainb (rev ws) = true <-> rchain ws.
Proof.
  induction ws as [|[a b] r IH]; cbn [rev rchain].
  - cbn. tauto.
  - rewrite chainb_snoc, !andb_true_iff, IH, Z.leb_le.
    destruct r as [|[c d] r'].
    + cbn. tauto.
    + cbn [rev]. rewrite lastw_snoc, Z.eqb_eq. tauto.
Qed.

Lemma sortedb_snoc l a b :
  sortedb (l ++ [(a, b)]) = sortedb l && (a <=? b) && forallb (fun w => snd w <=? a) l.
Proof.
  induction l as [|[c d] r IH]; cbn [app sortedb forallb].
  - cbn. rewrite !andb_true_r. reflexivity.
  - rewrite IH, forallb_app. cbn [forallb fst snd].
    destruct (c <=? d), (forallb (fun w => d <=? fst w) r), (sortedb r), (a <=? b), (d <=? a),
      (forallb (fun w => snd w <=? a) r); reflexivity.
Qed.

Lemma sortedb_rev ws : sortedb (rev ws) = true <-> rsorted ws.
Proof.
  induction ws as [|[a b] r IH]; cbn [rev rsorted].
  - cbn. tauto.
  - rewrite sortedb_snoc, !andb_true_iff, IH, Z.leb_le, forallb_forall.
    split.
    + intros [[H1 H2] H3]. repeat split; auto. intros w Hw. apply Z.leb_le, H3, in_rev.
      rewrite rev_involutive. exact Hw.
    + intros (H1 & H2 & H3). repeat split; auto. intros w Hw. apply Z.leb_le, H2.
      apply in_rev in Hw. exact Hw.
Qed.

Lemma completed_rev log : completed (rev log) = rev (completed log).
Proof.
  unfold completed. rewrite <- map_rev. f_equal.
  induction log as [|e r IH]; [reflexivity|]. cbn [rev filter].
  rewrite filter_app, IH. cbn [filter]. destruct (e_ok e); cbn; [reflexivity|apply app_nil_r].
Qed.

Lemma completed_sched_rev log : completed_sched (rev log) = rev (completed_sched log).
Proof.
  unfold completed_sched. rewrite <- map_rev. f_equal.
  induction log as [|e r IH]; [reflexivity|]. cbn [rev filter].
  rewrite filter_app, IH. cbn [filter]. destruct (e_ok e && e_sched e); cbn; [reflexivity|apply app_nil_r].
Qed.

(* the pointer-side view of a log: the newest completed window ends at last_end *)
Lemma last_end_head log :
  match completed log with
  | [] => last_end log = None
  | (_, d) :: _ => last_end log = Some d
  end.
Proof.
  induction log as [|e r IH]; [reflexivity|].
  unfold completed in *. cbn [filter last_end]. destruct (e_ok e); cbn [map]; [reflexivity|exact IH].
Qed.

Lemma last_end_none log : last_end log = None -> completed log = [].
Proof.
  intros H. pose proof (last_end_head log) as L. destruct (completed log) as [|[a d] r]; [reflexivity|congruence].
Qed.

Lemma completed_cons_ok e log : e_ok e = true -> completed (e :: log) = (e_s e, e_e e) :: completed log.
Proof. intros H. unfold completed. cbn [filter]. rewrite H. reflexivity. Qed.

Lemma completed_cons_failed e log : e_ok e = false -> completed (e :: log) = completed log.
Proof. intros H. unfold completed. cbn [filter]. rewrite H. reflexivity. Qed.

Lemma div_ns_le a b : a < b -> a / ns <= b / ns.
Proof. unfold ns. intros. lia. Qed.

Lemma mul_div_ns l : l * ns / ns = l.
Proof. unfold ns. lia. Qed.

(* ------------------------------------------------------------------------------------ *)
(* C29_history, C29_label: invariant of ALL histories                                      *)
(* ------------------------------------------------------------------------------------ *)

Definition inv_all (s : st) : Prop :=
  lp s = last_end (execs s) /\ starts_at_prev (execs s) = true /\ forallb label_ok (dest s) = true.

Lemma label_ok_the_row sns ens : sns < ens -> label_ok (the_row sns ens) = true.
Proof.
  intros H. unfold label_ok, the_row; cbn [r_t r_ws r_we]. unfold ns.
  apply andb_true_iff. split; [apply Z.eqb_eq|apply Z.leb_le]; lia.
Qed.

Lemma inv_all_init : inv_all init.
Proof. repeat split. Qed.

Lemma inv_all_step lbs lbm s o s' out :
  inv_all s -> step lbs lbm s o = (s', out) -> inv_all s'.
Proof.
  intros (Hp & Hs & Hl) H.
  destruct (step_shape_of _ _ _ _ _ _ H) as
      [-> _|act _ -> _|sched sns ens Hw -> _|sns ens Hw -> _|now fail _ Ha Hw -> _|now xs xe fail _ Ha Hw -> _].
  - repeat split; assumption.
  - repeat split; assumption.
  - repeat split; cbn; assumption.
  - repeat split; cbn [add_dest lp execs dest forallb]; try assumption.
    rewrite label_ok_the_row by assumption. exact Hl.
  - split; [|split]; cbn [committed lp execs dest forallb last_end starts_at_prev the_exec e_ok e_sched e_s e_e andb].
    + reflexivity.
    + rewrite Hs, andb_true_r. rewrite <- Hp. unfold win_start.
      destruct (lp s) as [l|]; [|reflexivity]. rewrite mul_div_ns. apply Z.eqb_refl.
    + rewrite label_ok_the_row by assumption. exact Hl.
  - split; [|split]; cbn [committed lp execs dest forallb last_end starts_at_prev the_exec e_ok e_sched e_s e_e andb].
    + reflexivity.
    + exact Hs.
    + rewrite label_ok_the_row by assumption. exact Hl.
Qed.

Lemma inv_all_run lbs lbm ops : forall s, inv_all s -> inv_all (run lbs lbm s ops).
Proof.
  induction ops as [|o r IH]; intros s Hs; [exact Hs|].
  cbn [run]. apply IH. destruct (step lbs lbm s o) as [s' out] eqn:E. cbn [fst].
  eapply inv_all_step; eauto.
Qed.

(* ------------------------------------------------------------------------------------ *)
(* tiling when no effective manual run names an explicit start                             *)
(* ------------------------------------------------------------------------------------ *)

Definition inv_chain (s : st) : Prop :=
  lp s = last_end (execs s) /\ rchain (completed (execs s)).

Lemma rchain_push a b ws :
  a <= b -> match ws with [] => True | (_, d) :: _ => a = d end -> rchain ws -> rchain ((a, b) :: ws).
Proof. intros. cbn [rchain]. auto. Qed.

Lemma inv_chain_commit sched s sns ens :
  inv_chain s -> sns < ens ->
  (match lp s with Some l => sns / ns = l | None => True end) ->
  inv_chain (committed sched s sns ens).
Proof.
  intros (Hp & Hc) Hw Hstart. split.
  - reflexivity.
  - cbn [committed execs]. rewrite completed_cons_ok by reflexivity.
    cbn [the_exec e_s e_e]. apply rchain_push; [apply div_ns_le; exact Hw| |exact Hc].
    pose proof (last_end_head (execs s)) as L.
    destruct (completed (execs s)) as [|[a d] r]; [exact I|].
    rewrite <- Hp in L. rewrite L in Hstart. exact Hstart.
Qed.

Lemma inv_chain_step lbs lbm s o s' out :
  inv_chain s -> explicit_start o = false -> step lbs lbm s o = (s', out) -> inv_chain s'.
Proof.
  intros Hi Hx H. pose proof Hi as (Hp & Hc).
  destruct (step_shape_of _ _ _ _ _ _ H) as
      [-> _|act _ -> _|sched sns ens Hw -> _|sns ens Hw -> _|now fail _ Ha Hw -> _|now xs xe fail -> Ha Hw -> _].
  - exact Hi.
  - exact Hi.
  - split; cbn [add_failed lp execs last_end e_ok]; [exact Hp|].
    rewrite completed_cons_failed by reflexivity. exact Hc.
  - exact Hi.
  - apply inv_chain_commit; [exact Hi|exact Hw|]. unfold win_start.
    destruct (lp s); [apply mul_div_ns|exact I].
  - destruct xs as [x|]; [cbn in Hx; discriminate|].
    apply inv_chain_commit; [exact Hi|exact Hw|]. unfold win_start.
    destruct (lp s); [apply mul_div_ns|exact I].
Qed.

Lemma inv_chain_run lbs lbm ops : forall s,
  inv_chain s -> no_explicit_start ops = true -> inv_chain (run lbs lbm s ops).
Proof.
  induction ops as [|o r IH]; intros s Hs Hg; [exact Hs|].
  cbn [run]. unfold no_explicit_start in Hg. cbn [forallb] in Hg. apply andb_true_iff in Hg as [Ho Hr].
  apply IH; [|exact Hr]. destruct (step lbs lbm s o) as [s' out] eqn:E. cbn [fst].
  eapply inv_chain_step; eauto. apply negb_true_iff. exact Ho.
Qed.

Lemma tiles_guarded lbs lbm ops s :
  inv_chain s -> no_explicit_start ops = true ->
  chainb (completed (rev (execs (run lbs lbm s ops)))) = true.
Proof.
  intros Hs Hg. rewrite completed_rev. apply chainb_rev. apply (inv_chain_run lbs lbm ops s Hs Hg).
Qed.

Lemma inv_chain_init : inv_chain init.
Proof. split; [reflexivity|exact I]. Qed.

(* scheduled-only histories: every completed record is a scheduled one *)
Definition all_sched (s : st) : Prop := forall e, In e (execs s) -> e_ok e = true -> e_sched e = true.

Lemma all_sched_step lbs lbm s o s' out :
  all_sched s -> effective_manual o = false -> step lbs lbm s o = (s', out) -> all_sched s'.
Proof.
  intros Hi Hx H.
  destruct (step_shape_of _ _ _ _ _ _ H) as
      [-> _|act _ -> _|sched sns ens Hw -> _|sns ens Hw -> _|now fail _ Ha Hw -> _|now xs xe fail -> Ha Hw -> _];
    try exact Hi.
  - intros e [<-|He] Hok; [discriminate|auto].
  - intros e [<-|He] Hok; [reflexivity|auto].
  - cbn in Hx. discriminate.
Qed.

Lemma all_sched_run lbs lbm ops : forall s,
  all_sched s -> no_effective_manual ops = true -> all_sched (run lbs lbm s ops).
Proof.
  induction ops as [|o r IH]; intros s Hs Hg; [exact Hs|].
  cbn [run]. unfold no_effective_manual in Hg. cbn [forallb] in Hg. apply andb_true_iff in Hg as [Ho Hr].
  apply IH; [|exact Hr]. destruct (step lbs lbm s o) as [s' out] eqn:E. cbn [fst].
  eapply all_sched_step; eauto. apply negb_true_iff. exact Ho.
Qed.

Lemma all_sched_completed log :
  (forall e, In e log -> e_ok e = true -> e_sched e = true) -> completed_sched log = completed log.
Proof.
  intros H. unfold completed_sched, completed. f_equal. apply filter_ext_in.
  intros e He. destruct (e_ok e) eqn:E; [|reflexivity]. rewrite (H e He E). reflexivity.
Qed.

Lemma no_effective_no_explicit ops : no_effective_manual ops = true -> no_explicit_start ops = true.
Proof.
  unfold no_effective_manual, no_explicit_start. rewrite !forallb_forall. intros H o Ho.
  specialize (H o Ho). destruct o as [| now [x|] xe bad dry fail crash | |]; try reflexivity. exact H.
Qed.

Lemma scheduled_contiguous lbs lbm ops :
  no_effective_manual ops = true ->
  chainb (completed_sched (rev (execs (run lbs lbm init ops)))) = true.
Proof.
  intros Hg. rewrite all_sched_completed.
  - apply tiles_guarded; [apply inv_chain_init|apply no_effective_no_explicit; exact Hg].
  - intros e He. apply in_rev in He. revert e He.
    apply (all_sched_run lbs lbm ops init); [intros e []|exact Hg].
Qed.

(* ------------------------------------------------------------------------------------ *)
(* scheduled windows never overlap unless a manual run names BOTH bounds                   *)
(* ------------------------------------------------------------------------------------ *)

Fixpoint clock_ok (T : Z) (ops : list op) : Prop :=
  match ops with
  | [] => True
  | o :: r => match op_now o with Some t => T <= t /\ clock_ok t r | None => clock_ok T r end
  end.

Lemma clock_ok_of_nondecr ops : forall T,
  nondecrb (clocks ops) = true -> (match clocks ops with [] => True | t :: _ => T <= t end) ->
  clock_ok T ops.
Proof.
  induction ops as [|o r IH]; intros T Hn Hh; [exact I|].
  cbn [clock_ok clocks] in *. destruct (op_now o) as [t|].
  - split; [exact Hh|]. cbn [nondecrb] in Hn. apply andb_true_iff in Hn as [H1 H2].
    apply IH; [exact H2|]. destruct (clocks r); [exact I|apply Z.leb_le; exact H1].
  - apply IH; assumption.
Qed.

(* T is a clock reading (ns) no later than every future reading *)
Definition inv_sorted (s : st) (T : Z) : Prop :=
  lp s = last_end (execs s) /\
  rsorted (completed_sched (execs s)) /\
  (forall w, In w (completed_sched (execs s)) -> snd w * ns <= T) /\
  (forall p, lp s = Some p -> forall w, In w (completed_sched (execs s)) -> snd w <= p).

Lemma completed_sched_cons e log :
  completed_sched (e :: log) =
  if e_ok e && e_sched e then (e_s e, e_e e) :: completed_sched log else completed_sched log.
Proof. unfold completed_sched. cbn [filter]. destruct (e_ok e && e_sched e); reflexivity. Qed.

Lemma completed_sched_in_completed log w : In w (completed_sched log) -> In w (completed log).
Proof.
  unfold completed_sched, completed. rewrite !in_map_iff. intros (e & <- & He).
  apply filter_In in He as [He Hf]. apply andb_true_iff in Hf as [Hok _].
  exists e. split; [reflexivity|]. apply filter_In. auto.
Qed.

Lemma inv_sorted_weaken s T T' : inv_sorted s T -> T <= T' -> inv_sorted s T'.
Proof.
  intros (H1 & H2 & H3 & H4) Hle. repeat split; auto. intros w Hw. specialize (H3 w Hw). lia.
Qed.

Lemma inv_sorted_step lbs lbm s o s' out T :
  inv_sorted s T -> explicit_both o = false -> step lbs lbm s o = (s', out) ->
  match op_now o with
  | Some t => T <= t -> inv_sorted s' t
  | None => inv_sorted s' T
  end.
Proof.
  intros Hi Hx H. pose proof Hi as (Hp & Hso & Hb & Hl).
  assert (Hsame : match op_now o with Some t => T <= t -> inv_sorted s t | None => inv_sorted s T end).
  { destruct (op_now o); [intros; eapply inv_sorted_weaken; eauto|exact Hi]. }
  destruct (step_shape_of _ _ _ _ _ _ H) as
      [-> _|act -> -> _|sched sns ens Hw -> _|sns ens Hw -> _|now fail -> Ha Hw -> _|now xs xe fail -> Ha Hw -> _].
  - exact Hsame.
  - cbn [op_now]. exact Hi.
  - assert (Hi' : inv_sorted (add_failed s sched sns ens) T).
    { unfold inv_sorted. cbn [add_failed lp execs last_end e_ok]. rewrite completed_sched_cons. cbn [e_ok andb].
      repeat split; assumption. }
    destruct (op_now o); [intros; eapply inv_sorted_weaken; eauto|exact Hi'].
  - exact Hsame.
  - (* scheduled run completes at `now` *)
    cbn [op_now]. intros HT.
    unfold inv_sorted. cbn [committed lp execs last_end the_exec e_ok e_sched e_s e_e].
    rewrite completed_sched_cons. cbn [the_exec e_ok e_sched e_s e_e andb].
    set (sns := win_start lbs s now None) in *.
    assert (Hprev : forall w, In w (completed_sched (execs s)) -> snd w <= sns / ns).
    { intros w Hw'. unfold sns, win_start. destruct (lp s) as [l|] eqn:El.
      - rewrite mul_div_ns. eapply Hl; eauto.
      - symmetry in Hp. apply last_end_none in Hp. apply completed_sched_in_completed in Hw'.
        rewrite Hp in Hw'. destruct Hw'. }
    split; [reflexivity|split; [|split]].
    + cbn [rsorted]. split; [apply div_ns_le; exact Hw|split; [exact Hprev|exact Hso]].
    + intros w [<-|Hw']; cbn [snd]; [unfold ns; lia|]. specialize (Hb w Hw'). lia.
    + intros p Hpe w [<-|Hw']; injection Hpe as <-; cbn [snd]; [lia|].
      specialize (Hb w Hw'). unfold ns in *. lia.
  - (* manual run completes *)
    cbn [op_now]. intros HT.
    unfold inv_sorted. cbn [committed lp execs last_end the_exec e_ok e_sched e_s e_e].
    rewrite completed_sched_cons. cbn [the_exec e_ok e_sched e_s e_e andb].
    split; [reflexivity|split; [exact Hso|split]].
    + intros w Hw'. specialize (Hb w Hw'). lia.
    + intros p Hpe w Hw'. injection Hpe as <-.
      destruct xs as [x|].
      * destruct xe as [y|]; [cbn in Hx; discriminate|]. cbn [win_end].
        specialize (Hb w Hw'). unfold ns in *. lia.
      * (* start = pointer: the pointer can only move forward *)
        unfold win_start in Hw. destruct (lp s) as [l|] eqn:El.
        -- specialize (Hl l eq_refl w Hw'). unfold ns in *. lia.
        -- symmetry in Hp. apply last_end_none in Hp. apply completed_sched_in_completed in Hw'.
           rewrite Hp in Hw'. destruct Hw'.
Qed.

Lemma inv_sorted_run lbs lbm ops : forall s T,
  inv_sorted s T -> no_explicit_both ops = true -> clock_ok T ops ->
  exists T', inv_sorted (run lbs lbm s ops) T'.
Proof.
  induction ops as [|o r IH]; intros s T Hs Hg Hc; [exists T; exact Hs|].
  cbn [run]. unfold no_explicit_both in Hg. cbn [forallb] in Hg. apply andb_true_iff in Hg as [Ho Hr].
  apply negb_true_iff in Ho.
  destruct (step lbs lbm s o) as [s' out] eqn:E. cbn [fst].
  pose proof (inv_sorted_step _ _ _ _ _ _ _ Hs Ho E) as Hstep.
  cbn [clock_ok] in Hc. destruct (op_now o) as [t|].
  - destruct Hc as [Hle Hc]. eapply IH; [apply Hstep; exact Hle|exact Hr|exact Hc].
  - eapply IH; [exact Hstep|exact Hr|exact Hc].
Qed.

Lemma inv_sorted_init T : inv_sorted init T.
Proof.
  split; [reflexivity|split; [exact I|split]].
  - intros w [].
  - intros p Hp; discriminate.
Qed.

Lemma sched_disjoint_guarded lbs lbm ops :
  no_explicit_both ops = true -> nondecrb (clocks ops) = true ->
  sortedb (completed_sched (rev (execs (run lbs lbm init ops)))) = true.
Proof.
  intros Hg Hn. rewrite completed_sched_rev. apply sortedb_rev.
  set (T := match clocks ops with [] => 0 | t :: _ => t end).
  destruct (inv_sorted_run lbs lbm ops init T (inv_sorted_init T) Hg) as [T' (_ & H & _)]; [|exact H].
  apply clock_ok_of_nondecr; [exact Hn|]. unfold T. destruct (clocks ops); [exact I|lia].
Qed.

(* ------------------------------------------------------------------------------------ *)
(* failure / crash: the window is re-processed, not skipped                                *)
(* ------------------------------------------------------------------------------------ *)

Lemma sched_failed_then_ok lbs lbm s l now1 now2 c :
  active s = true -> lp s = Some l -> l * ns < now1 -> now1 <= now2 ->
  let '(s1, o1) := step lbs lbm s (Sched now1 true c) in
  let '(s2, o2) := step lbs lbm s1 (Sched now2 false None) in
  o1 = OFailed l (now1 / ns) /\ lp s1 = Some l /\
  o2 = OCompleted l (now2 / ns) /\ lp s2 = Some (now2 / ns) /\ now1 / ns <= now2 / ns.
Proof.
  intros Ha Hl H1 H2. cbn [step]. rewrite Ha. cbn [negb]. unfold win_start. rewrite Hl.
  assert (E1 : (l * ns <? now1) = true) by (apply Z.ltb_lt; exact H1). rewrite E1. cbn [negb].
  unfold run_window at 1. cbn [add_failed active lp]. rewrite Ha. cbn [negb]. rewrite Hl.
  assert (E2 : (l * ns <? now2) = true) by (apply Z.ltb_lt; lia). rewrite E2. cbn [negb].
  unfold run_window. rewrite run_prefix_full by lia. cbn [committed lp].
  rewrite mul_div_ns. repeat split; try reflexivity. unfold ns. lia.
Qed.

Lemma sched_crashed_then_ok lbs lbm s l now1 now2 c :
  active s = true -> lp s = Some l -> l * ns < now1 -> now1 <= now2 ->
  let '(s1, o1) := step lbs lbm s (Sched now1 false (Some c)) in
  let '(s2, o2) := step lbs lbm s1 (Sched now2 false None) in
  o1 = OCrashed /\ lp s1 = Some l /\ execs s1 = execs s /\
  o2 = OCompleted l (now2 / ns) /\ lp s2 = Some (now2 / ns) /\ now1 / ns <= now2 / ns.
Proof.
  intros Ha Hl H1 H2. cbn [step]. rewrite Ha. cbn [negb]. unfold win_start. rewrite Hl.
  assert (E1 : (l * ns <? now1) = true) by (apply Z.ltb_lt; exact H1). rewrite E1. cbn [negb].
  unfold run_window at 1.
  rewrite run_prefix_mid by (destruct c; cbn; lia). cbn [add_dest active lp execs]. rewrite Ha. cbn [negb]. rewrite Hl.
  assert (E2 : (l * ns <? now2) = true) by (apply Z.ltb_lt; lia). rewrite E2. cbn [negb].
  unfold run_window. rewrite run_prefix_full by lia. cbn [committed lp].
  rewrite mul_div_ns. repeat split; try reflexivity. unfold ns. lia.
Qed.

(* label of the rows written by a scheduled run that starts at the pointer: exactly the
   window start, in microseconds *)
Lemma sched_label_exact lbs lbm s l now :
  active s = true -> lp s = Some l -> l * ns < now ->
  dest (fst (step lbs lbm s (Sched now false None))) =
  {| r_t := l * 1000000; r_ws := l; r_we := now / ns |} :: dest s.
Proof.
  intros Ha Hl H1. cbn [step]. rewrite Ha. cbn [negb]. unfold win_start. rewrite Hl.
  assert (E1 : (l * ns <? now) = true) by (apply Z.ltb_lt; exact H1). rewrite E1. cbn [negb].
  unfold run_window. rewrite run_prefix_full by lia. cbn [fst committed dest the_row].
  f_equal. unfold the_row. f_equal; unfold ns; lia.
Qed.
