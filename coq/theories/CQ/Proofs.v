From Coq Require Import List ZArith Bool Lia ZifyBool.
From Arc Require Import CQ.Model.
Import ListNotations.
Open Scope Z_scope.

Ltac Zify.zify_post_hook ::= Z.div_mod_to_equations.

(* ------------------------------------------------------------------------------------ *)
(* micro-steps                                                                            *)
(* ------------------------------------------------------------------------------------ *)

Definition add_dest (s : st) (r : row) : st :=
  {| lp := lp s; active := active s; execs := execs s; dest := r :: dest s |}.

Definition the_row (sns ens : Z) : row := {| r_t := sns / 1000; r_ws := sns / ns; r_we := ens / ns |}.
Definition the_exec (sched : bool) (sns ens : Z) : exec :=
  {| e_sched := sched; e_ok := true; e_s := sns / ns; e_e := ens / ns |}.

Definition committed (sched : bool) (s : st) (sns ens : Z) : st :=
  {| lp := if advances (lp s) (sns / ns) (ens / ns) then Some (ens / ns) else lp s; active := active s;
     execs := the_exec sched sns ens :: execs s; dest := the_row sns ens :: dest s |}.

Lemma run_prefix_0 sched s sns ens : run_prefix 0 sched s sns ens = s.
Proof. reflexivity. Qed.

Lemma run_prefix_mid k sched s sns ens :
  (1 <= k <= 3)%nat -> run_prefix k sched s sns ens = add_dest s (the_row sns ens).
Proof.
  intros H. destruct k as [|[|[|[|k]]]]; try lia; reflexivity.
Qed.

Lemma run_prefix_full k sched s sns ens :
  (4 <= k)%nat -> run_prefix k sched s sns ens = committed sched s sns ens.
Proof.
  intros H. destruct k as [|[|[|[|k]]]]; try lia.
  unfold run_prefix, success_steps. cbn [firstn]. rewrite firstn_nil. reflexivity.
Qed.

(* every crash prefix: either nothing of the transaction is visible, or all of it *)
Lemma atomic_advance k sched s sns ens :
  let s' := run_prefix k sched s sns ens in
  ((k < 4)%nat -> lp s' = lp s /\ execs s' = execs s /\ active s' = active s) /\
  ((4 <= k)%nat -> lp s' = (if advances (lp s) (sns / ns) (ens / ns) then Some (ens / ns) else lp s) /\
                   execs s' = the_exec sched sns ens :: execs s /\ active s' = active s).
Proof.
  cbn zeta. split; intros H.
  - destruct (Nat.eq_dec k 0) as [->|].
    + rewrite run_prefix_0. auto.
    + rewrite run_prefix_mid by lia. cbn. auto.
  - rewrite run_prefix_full by lia. cbn. auto.
Qed.

Lemma crash_prefix_lt c : (crash_prefix (Some c) < 4)%nat /\ (1 <= crash_prefix (Some c))%nat.
Proof. destruct c; cbn; lia. Qed.

(* ------------------------------------------------------------------------------------ *)
(* what one operation can do to the pointer and to the log                                 *)
(* ------------------------------------------------------------------------------------ *)

Definition is_completed (o : outcome) : bool := match o with OCompleted _ _ => true | _ => false end.

Lemma run_window_cases sched s sns ens fail crash s' out :
  run_window sched s sns ens fail crash = (s', out) ->
  (fail = true /\ s' = add_failed s sched sns ens /\ out = OFailed (sns / ns) (ens / ns)) \/
  (fail = false /\ crash = None /\ s' = committed sched s sns ens /\ out = OCompleted (sns / ns) (ens / ns)) \/
  (fail = false /\ crash <> None /\ s' = add_dest s (the_row sns ens) /\ out = OCrashed).
Proof.
  unfold run_window. destruct fail.
  - intros H; injection H as <- <-. left. auto.
  - destruct crash as [c|].
    + intros H; injection H as <- <-. right; right.
      rewrite run_prefix_mid by (destruct c; cbn; lia). repeat split; congruence.
    + intros H; injection H as <- <-. right; left. rewrite run_prefix_full by lia. auto.
Qed.

(* the shape of every step: the state is unchanged, or gets a failed record, or a crashed
   run's rows, or a committed window [sns, ens) whose bounds are described *)
Inductive step_shape (lbs lbm : Z) (s : st) (o : op) (s' : st) (out : outcome) : Prop :=
| SSame : s' = s -> is_completed out = false -> step_shape lbs lbm s o s' out
| SUpdate act : o = Update act ->
    s' = {| lp := lp s; active := act; execs := execs s; dest := dest s |} -> out = ONone ->
    step_shape lbs lbm s o s' out
| SFailed sched sns ens : sns < ens -> s' = add_failed s sched sns ens -> out = OFailed (sns / ns) (ens / ns) ->
    step_shape lbs lbm s o s' out
| SCrashed sns ens : sns < ens -> s' = add_dest s (the_row sns ens) -> out = OCrashed ->
    step_shape lbs lbm s o s' out
| SSched now fail : o = Sched now fail None -> active s = true ->
    win_start lbs s now None < now ->
    s' = committed true s (win_start lbs s now None) now ->
    out = OCompleted (win_start lbs s now None / ns) (now / ns) ->
    step_shape lbs lbm s o s' out
| SManual now xs xe fail : o = Manual now xs xe false false fail None -> active s = true ->
    win_start lbm s now xs < win_end now xe ->
    s' = committed false s (win_start lbm s now xs) (win_end now xe) ->
    out = OCompleted (win_start lbm s now xs / ns) (win_end now xe / ns) ->
    step_shape lbs lbm s o s' out.

Lemma step_shape_of lbs lbm s o s' out :
  step lbs lbm s o = (s', out) -> step_shape lbs lbm s o s' out.
Proof.
  destruct o as [now fail crash|now xs xe bad dry fail crash| |act]; cbn [step].
  - destruct (active s) eqn:Ha; cbn [negb].
    2:{ intros H; injection H as <- <-. apply SSame; reflexivity. }
    destruct (win_start lbs s now None <? now) eqn:Hw; cbn [negb].
    2:{ intros H; injection H as <- <-. apply SSame; reflexivity. }
    apply Z.ltb_lt in Hw. intros H.
    destruct (run_window_cases _ _ _ _ _ _ _ _ H) as [(-> & -> & ->)|[(-> & -> & -> & ->)|(-> & Hc & -> & ->)]].
    + eapply SFailed; eauto.
    + eapply SSched; eauto.
    + eapply SCrashed; eauto.
  - destruct (active s) eqn:Ha; cbn [negb].
    2:{ intros H; injection H as <- <-. apply SSame; reflexivity. }
    destruct bad.
    { intros H; injection H as <- <-. apply SSame; reflexivity. }
    destruct (win_start lbm s now xs <? win_end now xe) eqn:Hw; cbn [negb].
    2:{ intros H; injection H as <- <-. apply SSame; reflexivity. }
    apply Z.ltb_lt in Hw.
    destruct dry.
    { intros H; injection H as <- <-. apply SSame; reflexivity. }
    intros H.
    destruct (run_window_cases _ _ _ _ _ _ _ _ H) as [(-> & -> & ->)|[(-> & -> & -> & ->)|(-> & Hc & -> & ->)]].
    + eapply SFailed; eauto.
    + eapply SManual; eauto.
    + eapply SCrashed; eauto.
  - intros H; injection H as <- <-. apply SSame; reflexivity.
  - intros H; injection H as <- <-. eapply SUpdate; eauto.
Qed.

(* only a completed execution moves the pointer or adds a completed record *)
Lemma not_completed_no_advance lbs lbm s o s' out :
  step lbs lbm s o = (s', out) -> is_completed out = false ->
  lp s' = lp s /\ filter e_ok (execs s') = filter e_ok (execs s).
Proof.
  intros H Hc. destruct (step_shape_of _ _ _ _ _ _ H) as
      [-> _|act _ -> _|sched sns ens _ -> _|sns ens _ -> _|now fail _ _ _ _ ->|now xs xe fail _ _ _ _ ->];
    try discriminate; cbn; auto.
Qed.

(* ------------------------------------------------------------------------------------ *)
(* list lemmas about the specification predicates                                          *)
(* ------------------------------------------------------------------------------------ *)

(* chain / sorted on NEWEST-FIRST lists, as Props *)
Fixpoint rchain (ws : list (Z * Z)) : Prop :=
  match ws with
  | [] => True
  | (a, b) :: r => a <= b /\ match r with [] => True | (_, d) :: _ => a = d end /\ rchain r
  end.

Fixpoint rsorted (ws : list (Z * Z)) : Prop :=
  match ws with
  | [] => True
  | (a, b) :: r => a <= b /\ (forall w, In w r -> snd w <= a) /\ rsorted r
  end.

Fixpoint lastw (l : list (Z * Z)) : option (Z * Z) :=
  match l with
  | [] => None
  | x :: r => match r with [] => Some x | _ :: _ => lastw r end
  end.

Lemma lastw_snoc l x : lastw (l ++ [x]) = Some x.
Proof.
  induction l as [|y r IH]; [reflexivity|].
  cbn [app lastw]. destruct (r ++ [x]) eqn:E; [destruct r; discriminate|exact IH].
Qed.

Lemma chainb_cons2 c d c2 d2 t :
  chainb ((c, d) :: (c2, d2) :: t) = (c <=? d) && (c2 =? d) && chainb ((c2, d2) :: t).
Proof. reflexivity. Qed.

Lemma chainb_snoc l a b :
  chainb (l ++ [(a, b)]) = chainb l && (a <=? b) &&
    match lastw l with None => true | Some (_, d) => a =? d end.
Proof.
  induction l as [|[c d] r IH].
  - cbn. destruct (a <=? b); reflexivity.
  - destruct r as [|[c2 d2] r'].
    + cbn. destruct (c <=? d), (a <=? b), (a =? d); reflexivity.
    + cbn [app]. rewrite !chainb_cons2.
      change ((c2, d2) :: r' ++ [(a, b)]) with (((c2, d2) :: r') ++ [(a, b)]). rewrite IH.
      change (lastw ((c, d) :: (c2, d2) :: r')) with (lastw ((c2, d2) :: r')).
      destruct (c <=? d), (c2 =? d), (chainb ((c2, d2) :: r')), (a <=? b),
        (match lastw ((c2, d2) :: r') with None => true | Some (_, d0) => a =? d0 end); reflexivity.
Qed.

Lemma chainb_rev ws : chainb (rev ws) = true <-> rchain ws.
Proof.
  induction ws as [|[a b] r IH]; cbn [rev rchain].
  - cbn. tauto.
  - rewrite chainb_snoc, !andb_true_iff, IH, Z.leb_le.
    destruct r as [|[c d] r'].
    + cbn. tauto.
    + cbn [rev]. rewrite lastw_snoc, Z.eqb_eq. tauto.
Qed.

Lemma sortedb_snoc l a b :
  sortedb (l ++ [(a, b)]) = sortedb l && (a <=? b) && forallb (fun w => snd w <=? a) l.
Proof.
  induction l as [|[c d] r IH]; cbn [app sortedb forallb].
  - cbn. rewrite !andb_true_r. reflexivity.
  - rewrite IH, forallb_app. cbn [forallb fst snd].
    destruct (c <=? d), (forallb (fun w => d <=? fst w) r), (sortedb r), (a <=? b), (d <=? a),
      (forallb (fun w => snd w <=? a) r); reflexivity.
Qed.

Lemma sortedb_rev ws : sortedb (rev ws) = true <-> rsorted ws.
Proof.
  induction ws as [|[a b] r IH]; cbn [rev rsorted].
  - cbn. tauto.
  - rewrite sortedb_snoc, !andb_true_iff, IH, Z.leb_le, forallb_forall.
    split.
    + intros [[H1 H2] H3]. repeat split; auto. intros w Hw. apply Z.leb_le, H3, in_rev.
      rewrite rev_involutive. exact Hw.
    + intros (H1 & H2 & H3). repeat split; auto. intros w Hw. apply Z.leb_le, H2.
      apply in_rev in Hw. exact Hw.
Qed.

Lemma completed_rev log : completed (rev log) = rev (completed log).
Proof.
  unfold completed. rewrite <- map_rev. f_equal.
  induction log as [|e r IH]; [reflexivity|]. cbn [rev filter].
  rewrite filter_app, IH. cbn [filter]. destruct (e_ok e); cbn; [reflexivity|apply app_nil_r].
Qed.

Lemma completed_sched_rev log : completed_sched (rev log) = rev (completed_sched log).
Proof.
  unfold completed_sched. rewrite <- map_rev. f_equal.
  induction log as [|e r IH]; [reflexivity|]. cbn [rev filter].
  rewrite filter_app, IH. cbn [filter]. destruct (e_ok e && e_sched e); cbn; [reflexivity|apply app_nil_r].
Qed.

Lemma completed_cons_ok e log : e_ok e = true -> completed (e :: log) = (e_s e, e_e e) :: completed log.
Proof. intros H. unfold completed. cbn [filter]. rewrite H. reflexivity. Qed.

Lemma completed_cons_failed e log : e_ok e = false -> completed (e :: log) = completed log.
Proof. intros H. unfold completed. cbn [filter]. rewrite H. reflexivity. Qed.

Lemma div_ns_le a b : a < b -> a / ns <= b / ns.
Proof. unfold ns. intros. lia. Qed.

Lemma mul_div_ns l : l * ns / ns = l.
Proof. unfold ns. lia. Qed.

(* ------------------------------------------------------------------------------------ *)
(* the guarded pointer update                                                              *)
(* ------------------------------------------------------------------------------------ *)

(* a window that starts at the pointer always leaves the pointer at its end *)
Lemma commit_at_pointer sched s sns ens :
  sns < ens -> (match lp s with Some l => sns / ns = l | None => True end) ->
  lp (committed sched s sns ens) = Some (ens / ns).
Proof.
  intros Hw Hs. cbn [committed lp]. pose proof (div_ns_le _ _ Hw) as Hle.
  destruct (lp s) as [l|]; cbn [advances]; [|reflexivity]. subst l.
  destruct (sns / ns <=? sns / ns) eqn:E1; [|lia].
  destruct (sns / ns <? ens / ns) eqn:E2; cbn [andb]; [reflexivity|]. f_equal. lia.
Qed.

(* the pointer never moves backwards *)
Lemma commit_monotone sched s sns ens p :
  lp s = Some p -> exists p', lp (committed sched s sns ens) = Some p' /\ p <= p'.
Proof.
  intros H. cbn [committed lp]. rewrite H. cbn [advances].
  destruct ((sns / ns <=? p) && (p <? ens / ns)) eqn:E.
  - exists (ens / ns). split; [reflexivity|]. apply andb_true_iff in E as [_ E]. lia.
  - exists p. split; [reflexivity|lia].
Qed.

Lemma step_monotone lbs lbm s o s' out p :
  step lbs lbm s o = (s', out) -> lp s = Some p -> exists p', lp s' = Some p' /\ p <= p'.
Proof.
  intros H Hp. destruct (step_shape_of _ _ _ _ _ _ H) as
      [-> _|act _ -> _|sched sns ens _ -> _|sns ens _ -> _|now fail _ _ _ -> _|now xs xe fail _ _ _ -> _];
    try (exists p; split; [assumption|lia]).
  - apply commit_monotone; exact Hp.
  - apply commit_monotone; exact Hp.
Qed.

Lemma run_monotone lbs lbm ops : forall s p,
  lp s = Some p -> exists p', lp (run lbs lbm s ops) = Some p' /\ p <= p'.
Proof.
  induction ops as [|o r IH]; intros s p Hp; [exists p; split; [exact Hp|lia]|].
  cbn [run]. destruct (step lbs lbm s o) as [s' out] eqn:E. cbn [fst].
  destruct (step_monotone _ _ _ _ _ _ _ E Hp) as (p1 & H1 & L1).
  destruct (IH s' p1 H1) as (p2 & H2 & L2). exists p2. split; [exact H2|lia].
Qed.

(* ------------------------------------------------------------------------------------ *)
(* C29_history, C29_label: invariant of ALL histories                                      *)
(* ------------------------------------------------------------------------------------ *)

Definition inv_all (s : st) : Prop :=
  lp s = ptr_of (execs s) /\ starts_at_ptr (execs s) = true /\ forallb label_ok (dest s) = true.

Lemma label_ok_the_row sns ens : sns < ens -> label_ok (the_row sns ens) = true.
Proof.
  intros H. unfold label_ok, the_row; cbn [r_t r_ws r_we]. unfold ns.
  apply andb_true_iff. split; [apply Z.eqb_eq|apply Z.leb_le]; lia.
Qed.

Lemma inv_all_init : inv_all init.
Proof. repeat split. Qed.

Lemma inv_all_commit sched s sns ens :
  inv_all s -> sns < ens ->
  (sched = true -> match lp s with Some l => sns / ns = l | None => True end) ->
  inv_all (committed sched s sns ens).
Proof.
  intros (Hp & Hs & Hl) Hw Hstart. split; [|split].
  - cbn [committed lp execs ptr_of the_exec e_ok e_s e_e andb]. rewrite <- Hp. reflexivity.
  - cbn [committed execs starts_at_ptr the_exec e_ok e_sched e_s e_e andb]. rewrite Hs, andb_true_r.
    destruct sched; [|reflexivity]. rewrite <- Hp. specialize (Hstart eq_refl).
    destruct (lp s) as [l|]; [|reflexivity]. apply Z.eqb_eq. exact Hstart.
  - cbn [committed dest forallb]. rewrite label_ok_the_row by assumption. exact Hl.
Qed.

Lemma inv_all_step lbs lbm s o s' out :
  inv_all s -> step lbs lbm s o = (s', out) -> inv_all s'.
Proof.
  intros Hi H. pose proof Hi as (Hp & Hs & Hl).
  destruct (step_shape_of _ _ _ _ _ _ H) as
      [-> _|act _ -> _|sched sns ens Hw -> _|sns ens Hw -> _|now fail _ Ha Hw -> _|now xs xe fail _ Ha Hw -> _].
  - exact Hi.
  - exact Hi.
  - repeat split; cbn; assumption.
  - repeat split; cbn [add_dest lp execs dest forallb]; try assumption.
    rewrite label_ok_the_row by assumption. exact Hl.
  - apply inv_all_commit; [exact Hi|exact Hw|]. intros _. unfold win_start.
    destruct (lp s); [apply mul_div_ns|exact I].
  - apply inv_all_commit; [exact Hi|exact Hw|]. intros Hx; discriminate.
Qed.

Lemma inv_all_run lbs lbm ops : forall s, inv_all s -> inv_all (run lbs lbm s ops).
Proof.
  induction ops as [|o r IH]; intros s Hs; [exact Hs|].
  cbn [run]. apply IH. destruct (step lbs lbm s o) as [s' out] eqn:E. cbn [fst].
  eapply inv_all_step; eauto.
Qed.

(* every completed execution's row is in the destination *)
Lemma has_row_mono dest r e : has_row dest e = true -> has_row (r :: dest) e = true.
Proof.
  unfold has_row. destruct (negb (e_ok e)); cbn [orb]; [reflexivity|].
  cbn [existsb]. intros ->. apply orb_true_r.
Qed.

Lemma rows_step lbs lbm s o s' out :
  forallb (has_row (dest s)) (execs s) = true -> step lbs lbm s o = (s', out) ->
  forallb (has_row (dest s')) (execs s') = true.
Proof.
  intros Hr H.
  assert (Hmono : forall r, forallb (has_row (r :: dest s)) (execs s) = true).
  { intros r. rewrite forallb_forall in *. intros e He. apply has_row_mono. auto. }
  assert (Hnew : forall sched sns ens d, has_row (the_row sns ens :: d) (the_exec sched sns ens) = true).
  { intros. unfold has_row. cbn [the_exec the_row e_ok e_s e_e negb orb existsb r_ws r_we].
    rewrite !Z.eqb_refl. reflexivity. }
  destruct (step_shape_of _ _ _ _ _ _ H) as
      [-> _|act _ -> _|sched sns ens _ -> _|sns ens _ -> _|now fail _ _ _ -> _|now xs xe fail _ _ _ -> _].
  - exact Hr.
  - exact Hr.
  - unfold add_failed. cbn [execs dest forallb]. rewrite Hr. reflexivity.
  - unfold add_dest. cbn [execs dest]. apply Hmono.
  - unfold committed. cbn [execs dest forallb]. rewrite Hnew, Hmono. reflexivity.
  - unfold committed. cbn [execs dest forallb]. rewrite Hnew, Hmono. reflexivity.
Qed.

Lemma rows_run lbs lbm ops : forall s,
  forallb (has_row (dest s)) (execs s) = true ->
  forallb (has_row (dest (run lbs lbm s ops))) (execs (run lbs lbm s ops)) = true.
Proof.
  induction ops as [|o r IH]; intros s Hs; [exact Hs|].
  cbn [run]. apply IH. destruct (step lbs lbm s o) as [s' out] eqn:E. cbn [fst].
  eapply rows_step; eauto.
Qed.

(* no pointer <-> nothing completed yet *)
Lemma ptr_of_none log : ptr_of log = None -> filter e_ok log = [].
Proof.
  induction log as [|e r IH]; [reflexivity|]. cbn [ptr_of filter].
  destruct (e_ok e) eqn:Eo; cbn [andb].
  - destruct (ptr_of r) as [p|]; cbn [advances].
    + destruct ((e_s e <=? p) && (p <? e_e e)); discriminate.
    + discriminate.
  - exact IH.
Qed.

Lemma no_ok_no_sched log : filter e_ok log = [] -> completed_sched log = [].
Proof.
  intros H. unfold completed_sched. induction log as [|e r IH]; [reflexivity|].
  cbn [filter] in *. destruct (e_ok e); [discriminate|]. cbn [andb]. apply IH. exact H.
Qed.

Lemma no_ok_no_front log : filter e_ok log = [] -> front log = None.
Proof.
  induction log as [|e r IH]; [reflexivity|]. cbn [filter front].
  destruct (e_ok e); [discriminate|]. exact IH.
Qed.

(* ------------------------------------------------------------------------------------ *)
(* tiling when no effective manual run names an explicit start                             *)
(* ------------------------------------------------------------------------------------ *)

(* end of the most recent completed execution of a log given NEWEST FIRST *)
Fixpoint last_end (log : list exec) : option Z :=
  match log with
  | [] => None
  | e :: r => if e_ok e then Some (e_e e) else last_end r
  end.

Lemma last_end_head log :
  match completed log with
  | [] => last_end log = None
  | (_, d) :: _ => last_end log = Some d
  end.
Proof.
  induction log as [|e r IH]; [reflexivity|].
  unfold completed in *. cbn [filter last_end]. destruct (e_ok e); cbn [map]; [reflexivity|exact IH].
Qed.

Definition inv_chain (s : st) : Prop :=
  lp s = last_end (execs s) /\ rchain (completed (execs s)).

Lemma rchain_push a b ws :
  a <= b -> match ws with [] => True | (_, d) :: _ => a = d end -> rchain ws -> rchain ((a, b) :: ws).
Proof. intros. cbn [rchain]. auto. Qed.

Lemma inv_chain_commit sched s sns ens :
  inv_chain s -> sns < ens ->
  (match lp s with Some l => sns / ns = l | None => True end) ->
  inv_chain (committed sched s sns ens).
Proof.
  intros (Hp & Hc) Hw Hstart. split.
  - rewrite (commit_at_pointer sched s sns ens Hw Hstart). reflexivity.
  - cbn [committed execs]. rewrite completed_cons_ok by reflexivity.
    cbn [the_exec e_s e_e]. apply rchain_push; [apply div_ns_le; exact Hw| |exact Hc].
    pose proof (last_end_head (execs s)) as L.
    destruct (completed (execs s)) as [|[a d] r]; [exact I|].
    rewrite <- Hp in L. rewrite L in Hstart. exact Hstart.
Qed.

Lemma inv_chain_step lbs lbm s o s' out :
  inv_chain s -> explicit_start o = false -> step lbs lbm s o = (s', out) -> inv_chain s'.
Proof.
  intros Hi Hx H. pose proof Hi as (Hp & Hc).
  destruct (step_shape_of _ _ _ _ _ _ H) as
      [-> _|act _ -> _|sched sns ens Hw -> _|sns ens Hw -> _|now fail _ Ha Hw -> _|now xs xe fail -> Ha Hw -> _].
  - exact Hi.
  - exact Hi.
  - split; cbn [add_failed lp execs last_end e_ok]; [exact Hp|].
    rewrite completed_cons_failed by reflexivity. exact Hc.
  - exact Hi.
  - apply inv_chain_commit; [exact Hi|exact Hw|]. unfold win_start.
    destruct (lp s); [apply mul_div_ns|exact I].
  - destruct xs as [x|]; [cbn in Hx; discriminate|].
    apply inv_chain_commit; [exact Hi|exact Hw|]. unfold win_start.
    destruct (lp s); [apply mul_div_ns|exact I].
Qed.

Lemma inv_chain_run lbs lbm ops : forall s,
  inv_chain s -> no_explicit_start ops = true -> inv_chain (run lbs lbm s ops).
Proof.
  induction ops as [|o r IH]; intros s Hs Hg; [exact Hs|].
  cbn [run]. unfold no_explicit_start in Hg. cbn [forallb] in Hg. apply andb_true_iff in Hg as [Ho Hr].
  apply IH; [|exact Hr]. destruct (step lbs lbm s o) as [s' out] eqn:E. cbn [fst].
  eapply inv_chain_step; eauto. apply negb_true_iff. exact Ho.
Qed.

Lemma tiles_guarded lbs lbm ops s :
  inv_chain s -> no_explicit_start ops = true ->
  chainb (completed (rev (execs (run lbs lbm s ops)))) = true.
Proof.
  intros Hs Hg. rewrite completed_rev. apply chainb_rev. apply (inv_chain_run lbs lbm ops s Hs Hg).
Qed.

Lemma inv_chain_init : inv_chain init.
Proof. split; [reflexivity|exact I]. Qed.

(* scheduled-only histories: every completed record is a scheduled one *)
Definition all_sched (s : st) : Prop := forall e, In e (execs s) -> e_ok e = true -> e_sched e = true.

Lemma all_sched_step lbs lbm s o s' out :
  all_sched s -> effective_manual o = false -> step lbs lbm s o = (s', out) -> all_sched s'.
Proof.
  intros Hi Hx H.
  destruct (step_shape_of _ _ _ _ _ _ H) as
      [-> _|act _ -> _|sched sns ens Hw -> _|sns ens Hw -> _|now fail _ Ha Hw -> _|now xs xe fail -> Ha Hw -> _];
    try exact Hi.
  - intros e [<-|He] Hok; [discriminate|auto].
  - intros e [<-|He] Hok; [reflexivity|auto].
  - cbn in Hx. discriminate.
Qed.

Lemma all_sched_run lbs lbm ops : forall s,
  all_sched s -> no_effective_manual ops = true -> all_sched (run lbs lbm s ops).
Proof.
  induction ops as [|o r IH]; intros s Hs Hg; [exact Hs|].
  cbn [run]. unfold no_effective_manual in Hg. cbn [forallb] in Hg. apply andb_true_iff in Hg as [Ho Hr].
  apply IH; [|exact Hr]. destruct (step lbs lbm s o) as [s' out] eqn:E. cbn [fst].
  eapply all_sched_step; eauto. apply negb_true_iff. exact Ho.
Qed.

Lemma all_sched_completed log :
  (forall e, In e log -> e_ok e = true -> e_sched e = true) -> completed_sched log = completed log.
Proof.
  intros H. unfold completed_sched, completed. f_equal. apply filter_ext_in.
  intros e He. destruct (e_ok e) eqn:E; [|reflexivity]. rewrite (H e He E). reflexivity.
Qed.

Lemma no_effective_no_explicit ops : no_effective_manual ops = true -> no_explicit_start ops = true.
Proof.
  unfold no_effective_manual, no_explicit_start. rewrite !forallb_forall. intros H o Ho.
  specialize (H o Ho). destruct o as [| now [x|] xe bad dry fail crash | |]; try reflexivity. exact H.
Qed.

Lemma scheduled_contiguous lbs lbm ops :
  no_effective_manual ops = true ->
  chainb (completed_sched (rev (execs (run lbs lbm init ops)))) = true.
Proof.
  intros Hg. rewrite all_sched_completed.
  - apply tiles_guarded; [apply inv_chain_init|apply no_effective_no_explicit; exact Hg].
  - intros e He. apply in_rev in He. revert e He.
    apply (all_sched_run lbs lbm ops init); [intros e []|exact Hg].
Qed.

(* ------------------------------------------------------------------------------------ *)
(* ALL histories: scheduled windows never overlap and leave no gap                         *)
(* ------------------------------------------------------------------------------------ *)

Lemma completed_sched_cons e log :
  completed_sched (e :: log) =
  if e_ok e && e_sched e then (e_s e, e_e e) :: completed_sched log else completed_sched log.
Proof. unfold completed_sched. cbn [filter]. destruct (e_ok e && e_sched e); reflexivity. Qed.

Definition inv_win (s : st) : Prop :=
  inv_all s /\
  rsorted (completed_sched (execs s)) /\
  (forall p, lp s = Some p -> forall w, In w (completed_sched (execs s)) -> snd w <= p) /\
  (forall p x, lp s = Some p -> front (execs s) = Some x -> p <= x) /\
  gap_free (execs s) = true.

Lemma inv_win_init : inv_win init.
Proof.
  split; [apply inv_all_init|]. split; [exact I|]. split; [intros p Hp; discriminate|].
  split; [intros p x Hp; discriminate|reflexivity].
Qed.

Lemma lp_none_facts s : inv_all s -> lp s = None ->
  completed_sched (execs s) = [] /\ front (execs s) = None.
Proof.
  intros (Hp & _) Hn. rewrite Hp in Hn. apply ptr_of_none in Hn.
  split; [apply no_ok_no_sched|apply no_ok_no_front]; exact Hn.
Qed.

Lemma inv_win_commit sched s sns ens :
  inv_win s -> sns < ens ->
  (sched = true -> match lp s with Some l => sns / ns = l | None => True end) ->
  inv_win (committed sched s sns ens).
Proof.
  intros (Ha & Hso & Hb & Hf & Hg) Hw Hstart.
  pose proof (div_ns_le _ _ Hw) as Hle.
  split; [apply inv_all_commit; assumption|].
  destruct sched.
  - (* a scheduled window: it starts at the pointer and the pointer ends at its end *)
    specialize (Hstart eq_refl).
    pose proof (commit_at_pointer true s sns ens Hw Hstart) as Hlp.
    assert (Hprev : forall w, In w (completed_sched (execs s)) -> snd w <= sns / ns).
    { intros w Hin. destruct (lp s) as [l|] eqn:El.
      - rewrite Hstart. eapply Hb; eauto.
      - destruct (lp_none_facts s Ha El) as [E _]. rewrite E in Hin. destruct Hin. }
    cbn [committed execs]. rewrite completed_sched_cons. cbn [the_exec e_ok e_sched e_s e_e andb].
    split; [|split; [|split]].
    + cbn [rsorted]. auto.
    + intros p Hp w [<-|Hin]; rewrite Hlp in Hp; injection Hp as <-; cbn [snd]; [lia|].
      specialize (Hprev w Hin). lia.
    + intros p x Hp. rewrite Hlp in Hp. injection Hp as <-.
      cbn [front the_exec e_ok e_sched e_s e_e]. destruct (front (execs s)) as [y|] eqn:Ef.
      * assert (Hy : sns / ns <= y).
        { destruct (lp s) as [l|] eqn:El.
          - rewrite Hstart. eapply Hf; eauto.
          - destruct (lp_none_facts s Ha El) as [_ E]. rewrite E in Ef. discriminate. }
        replace (sns / ns <=? y) with true by (symmetry; apply Z.leb_le; exact Hy).
        intros Hx; injection Hx as <-. lia.
      * intros Hx; injection Hx as <-; lia.
    + cbn [gap_free the_exec e_ok e_sched e_s andb]. rewrite Hg, andb_true_r.
      destruct (front (execs s)) as [y|] eqn:Ef; [|reflexivity]. apply Z.leb_le.
      destruct (lp s) as [l|] eqn:El.
      * rewrite Hstart. eapply Hf; eauto.
      * destruct (lp_none_facts s Ha El) as [_ E]. rewrite E in Ef. discriminate.
  - (* a manual window: the scheduled windows are untouched; the pointer moves only if covered *)
    cbn [committed execs lp]. rewrite completed_sched_cons. cbn [the_exec e_ok e_sched e_s e_e andb].
    split; [exact Hso|]. split; [|split].
    + intros p Hp w Hin. destruct (lp s) as [l|] eqn:El; cbn [advances] in Hp.
      * specialize (Hb l eq_refl w Hin).
        destruct ((sns / ns <=? l) && (l <? ens / ns)) eqn:E; injection Hp as <-; [|exact Hb].
        apply andb_true_iff in E as [_ E]. lia.
      * destruct (lp_none_facts s Ha El) as [E _]. rewrite E in Hin. destruct Hin.
    + intros p x Hp. cbn [front the_exec e_ok e_sched e_s e_e].
      destruct (lp s) as [l|] eqn:El; cbn [advances] in Hp.
      * destruct (front (execs s)) as [y|] eqn:Ef; [|intros Hx; discriminate].
        specialize (Hf l y eq_refl eq_refl).
        destruct ((sns / ns <=? l) && (l <? ens / ns)) eqn:E; injection Hp as <-.
        -- apply andb_true_iff in E as [E1 E2].
           replace (sns / ns <=? y) with true by (symmetry; apply Z.leb_le; lia).
           intros Hx; injection Hx as <-. lia.
        -- destruct (sns / ns <=? y); intros Hx; injection Hx as <-; lia.
      * destruct (lp_none_facts s Ha El) as [_ E]. rewrite E. intros Hx; discriminate.
    + cbn [gap_free the_exec e_ok e_sched andb]. exact Hg.
Qed.

Lemma inv_win_step lbs lbm s o s' out :
  inv_win s -> step lbs lbm s o = (s', out) -> inv_win s'.
Proof.
  intros Hi H. pose proof Hi as (Ha & Hso & Hb & Hf & Hg).
  destruct (step_shape_of _ _ _ _ _ _ H) as
      [-> _|act _ -> _|sched sns ens Hw -> _|sns ens Hw -> _|now fail _ Hact Hw -> _|now xs xe fail _ Hact Hw -> _].
  - exact Hi.
  - exact Hi.
  - assert (Ha' : inv_all (add_failed s sched sns ens)).
    { destruct Ha as (A1 & A2 & A3). repeat split; cbn; assumption. }
    split; [exact Ha'|]. cbn [add_failed lp execs]. rewrite completed_sched_cons.
    cbn [e_ok andb front gap_free]. repeat split; assumption.
  - assert (Ha' : inv_all (add_dest s (the_row sns ens))).
    { destruct Ha as (A1 & A2 & A3). repeat split; cbn [add_dest lp execs dest forallb]; try assumption.
      rewrite label_ok_the_row by assumption. exact A3. }
    split; [exact Ha'|]. cbn [add_dest lp execs]. repeat split; assumption.
  - apply inv_win_commit; [exact Hi|exact Hw|]. intros _. unfold win_start.
    destruct (lp s); [apply mul_div_ns|exact I].
  - apply inv_win_commit; [exact Hi|exact Hw|]. intros Hx; discriminate.
Qed.

Lemma inv_win_run lbs lbm ops : forall s, inv_win s -> inv_win (run lbs lbm s ops).
Proof.
  induction ops as [|o r IH]; intros s Hs; [exact Hs|].
  cbn [run]. apply IH. destruct (step lbs lbm s o) as [s' out] eqn:E. cbn [fst].
  eapply inv_win_step; eauto.
Qed.

Lemma sched_disjoint_all lbs lbm ops :
  sortedb (completed_sched (rev (execs (run lbs lbm init ops)))) = true.
Proof.
  rewrite completed_sched_rev. apply sortedb_rev.
  destruct (inv_win_run lbs lbm ops init inv_win_init) as (_ & H & _). exact H.
Qed.

Lemma no_gap_all lbs lbm ops : gap_free (execs (run lbs lbm init ops)) = true.
Proof. destruct (inv_win_run lbs lbm ops init inv_win_init) as (_ & _ & _ & _ & H). exact H. Qed.

(* ------------------------------------------------------------------------------------ *)
(* failure / crash: the window is re-processed, not skipped                                *)
(* ------------------------------------------------------------------------------------ *)

Lemma sched_complete_at lbs lbm s l now :
  active s = true -> lp s = Some l -> l * ns < now ->
  step lbs lbm s (Sched now false None) = (committed true s (l * ns) now, OCompleted l (now / ns)) /\
  lp (committed true s (l * ns) now) = Some (now / ns).
Proof.
  intros Ha Hl H1. cbn [step]. rewrite Ha. cbn [negb]. unfold win_start. rewrite Hl.
  assert (E : (l * ns <? now) = true) by (apply Z.ltb_lt; exact H1). rewrite E. cbn [negb].
  unfold run_window. rewrite run_prefix_full by lia. rewrite mul_div_ns. split; [reflexivity|].
  apply commit_at_pointer; [exact H1|]. rewrite Hl. apply mul_div_ns.
Qed.

Lemma sched_failed_then_ok lbs lbm s l now1 now2 c :
  active s = true -> lp s = Some l -> l * ns < now1 -> now1 <= now2 ->
  let '(s1, o1) := step lbs lbm s (Sched now1 true c) in
  let '(s2, o2) := step lbs lbm s1 (Sched now2 false None) in
  o1 = OFailed l (now1 / ns) /\ lp s1 = Some l /\
  o2 = OCompleted l (now2 / ns) /\ lp s2 = Some (now2 / ns) /\ now1 / ns <= now2 / ns.
Proof.
  intros Ha Hl H1 H2.
  assert (E1 : step lbs lbm s (Sched now1 true c) = (add_failed s true (l * ns) now1, OFailed l (now1 / ns))).
  { cbn [step]. rewrite Ha. cbn [negb]. unfold win_start. rewrite Hl.
    assert (E : (l * ns <? now1) = true) by (apply Z.ltb_lt; exact H1). rewrite E. cbn [negb].
    unfold run_window. rewrite mul_div_ns. reflexivity. }
  rewrite E1.
  destruct (sched_complete_at lbs lbm (add_failed s true (l * ns) now1) l now2) as [E2 E3];
    [exact Ha|exact Hl|lia|].
  rewrite E2. repeat split; try assumption; try reflexivity. unfold ns. lia.
Qed.

Lemma sched_crashed_then_ok lbs lbm s l now1 now2 c :
  active s = true -> lp s = Some l -> l * ns < now1 -> now1 <= now2 ->
  let '(s1, o1) := step lbs lbm s (Sched now1 false (Some c)) in
  let '(s2, o2) := step lbs lbm s1 (Sched now2 false None) in
  o1 = OCrashed /\ lp s1 = Some l /\ execs s1 = execs s /\
  o2 = OCompleted l (now2 / ns) /\ lp s2 = Some (now2 / ns) /\ now1 / ns <= now2 / ns.
Proof.
  intros Ha Hl H1 H2.
  assert (E1 : step lbs lbm s (Sched now1 false (Some c)) = (add_dest s (the_row (l * ns) now1), OCrashed)).
  { cbn [step]. rewrite Ha. cbn [negb]. unfold win_start. rewrite Hl.
    assert (E : (l * ns <? now1) = true) by (apply Z.ltb_lt; exact H1). rewrite E. cbn [negb].
    unfold run_window. rewrite run_prefix_mid by (destruct c; cbn; lia). reflexivity. }
  rewrite E1.
  destruct (sched_complete_at lbs lbm (add_dest s (the_row (l * ns) now1)) l now2) as [E2 E3];
    [exact Ha|exact Hl|lia|].
  rewrite E2. repeat split; try assumption; try reflexivity. unfold ns. lia.
Qed.

(* label of the rows written by a scheduled run that starts at the pointer: exactly the
   window start, in microseconds *)
Lemma sched_label_exact lbs lbm s l now :
  active s = true -> lp s = Some l -> l * ns < now ->
  dest (fst (step lbs lbm s (Sched now false None))) =
  {| r_t := l * 1000000; r_ws := l; r_we := now / ns |} :: dest s.
Proof.
  intros Ha Hl H1. destruct (sched_complete_at lbs lbm s l now Ha Hl H1) as [E _]. rewrite E.
  cbn [fst committed dest]. f_equal. unfold the_row. f_equal; unfold ns; lia.
Qed.

(* a manual back-fill that ends before the pointer, or a manual run that starts after it, is
   executed and recorded but leaves the pointer where it is *)
Lemma manual_outside_keeps_pointer sched s sns ens l :
  lp s = Some l -> (ens / ns <= l \/ l < sns / ns) -> lp (committed sched s sns ens) = Some l.
Proof.
  intros Hl H. cbn [committed lp]. rewrite Hl. cbn [advances].
  destruct ((sns / ns <=? l) && (l <? ens / ns)) eqn:E; [|reflexivity].
  apply andb_true_iff in E as [E1 E2]. lia.
Qed.
