(* Model of the continuous-query window machinery of
     internal/api/continuous_query.go   ExecuteCQ (scheduled run, driven by
                                        scheduler.CQScheduler.executeJob), handleExecute
                                        (manual run), handleUpdate, recordExecution,
                                        recordExecutionAndUpdateTime, executeAggregation
                                        (label of the output rows).
   Clock readings and explicit request bounds are nanoseconds since the epoch (Z); the
   stored pointer last_processed_time, the window literals substituted into the query and
   the execution records are whole seconds, because the code formats all of them with
   time.RFC3339 (no fractional part).  The window test `!startTime.Before(endTime)` is made
   on the un-truncated instants, exactly as the code does.
   Definitions only - proofs are in Proofs.v. *)
From Coq Require Import List ZArith Bool.
Import ListNotations.
Open Scope Z_scope.

Definition ns : Z := 1000000000.

(* one row of continuous_query_executions *)
Record exec := { e_sched : bool;    (* execution_id prefix cq-sched- (scheduler) / cq-exec- (manual) *)
                 e_ok : bool;       (* status completed / failed *)
                 e_s : Z; e_e : Z }.  (* start_time, end_time (seconds) *)

(* one row stored in the destination measurement by the harness query
   SELECT {start_time} AS ws, {end_time} AS we : label (microseconds) and the two
   substituted window literals (seconds) *)
Record row := { r_t : Z; r_ws : Z; r_we : Z }.

(* durable state of one continuous query *)
Record st := { lp : option Z;          (* last_processed_time (seconds) or NULL *)
               active : bool;           (* is_active *)
               execs : list exec;       (* execution table, NEWEST FIRST *)
               dest : list row }.       (* destination rows, newest first *)

Definition init : st := {| lp := None; active := true; execs := []; dest := [] |}.

(* ---- the record-and-advance protocol as durable micro-steps ------------------------- *)

(* executeAggregation hands the rows to the ingest buffer (MDest); then
   recordExecutionAndUpdateTime: BEGIN; INSERT execution; guarded UPDATE of the pointer; COMMIT.
   The UPDATE (fix 5249f50) is
     SET last_processed_time = end WHERE id = ? AND (last_processed_time IS NULL
                                  OR (last_processed_time >= start AND last_processed_time < end))
   i.e. the pointer advances only when the executed window covers it. *)
Inductive mstep := MDest (r : row) | MInsert (e : exec) | MPointer (s e : Z) | MCommit.

Definition advances (p : option Z) (s e : Z) : bool :=
  match p with None => true | Some q => (s <=? q) && (q <? e) end.

Record dstate := { d_st : st; d_tx : list mstep }.     (* committed state, pending transaction *)

Definition apply_tx (s : st) (m : mstep) : st :=
  match m with
  | MInsert e => {| lp := lp s; active := active s; execs := e :: execs s; dest := dest s |}
  | MPointer ws we => {| lp := if advances (lp s) ws we then Some we else lp s;
                         active := active s; execs := execs s; dest := dest s |}
  | _ => s
  end.

Definition mapply (d : dstate) (m : mstep) : dstate :=
  match m with
  | MDest r => {| d_st := {| lp := lp (d_st d); active := active (d_st d); execs := execs (d_st d);
                             dest := r :: dest (d_st d) |}; d_tx := d_tx d |}
  | MInsert _ | MPointer _ _ => {| d_st := d_st d; d_tx := d_tx d ++ [m] |}
  | MCommit => {| d_st := fold_left apply_tx (d_tx d) (d_st d); d_tx := [] |}
  end.

(* a crash (or a failed COMMIT) forgets the pending transaction: SQLite rolls it back *)
Definition recover (d : dstate) : st := d_st d.

Definition success_steps (sched : bool) (sns ens : Z) : list mstep :=
  [ MDest {| r_t := sns / 1000; r_ws := sns / ns; r_we := ens / ns |};
    MInsert {| e_sched := sched; e_ok := true; e_s := sns / ns; e_e := ens / ns |};
    MPointer (sns / ns) (ens / ns);
    MCommit ].

(* state after the first k micro-steps of a successful run followed by a crash/recovery;
   k >= 4 is the run that completes *)
Definition run_prefix (k : nat) (sched : bool) (s : st) (sns ens : Z) : st :=
  recover (fold_left mapply (firstn k (success_steps sched sns ens)) {| d_st := s; d_tx := [] |}).

(* the crash points the harness can force in the real code *)
Inductive crashpt := AfterAgg | TxBetween | BeforeCommit.
Definition crash_prefix (c : option crashpt) : nat :=
  match c with
  | None => 4%nat
  | Some AfterAgg => 1%nat
  | Some TxBetween => 2%nat
  | Some BeforeCommit => 3%nat
  end.

(* ---- operations ------------------------------------------------------------------------ *)

Inductive outcome :=
| ONone                      (* update / restart *)
| OCompleted (s e : Z)
| ODry (s e : Z)
| OFailed (s e : Z)
| ORejInactive
| ORejWindow
| OBad                       (* malformed start_time / end_time text *)
| OCrashed.

Inductive op :=
| Sched (now : Z) (fail : bool) (crash : option crashpt)
| Manual (now : Z) (xs xe : option Z) (bad : bool) (dry : bool) (fail : bool) (crash : option crashpt)
| Restart
| Update (act : bool).

(* start of the window: explicit bound, else the pointer, else now - lookback *)
Definition win_start (lb : Z) (s : st) (now : Z) (xs : option Z) : Z :=
  match xs with
  | Some x => x
  | None => match lp s with Some l => l * ns | None => now - lb end
  end.
Definition win_end (now : Z) (xe : option Z) : Z :=
  match xe with Some y => y | None => now end.

Definition add_failed (s : st) (sched : bool) (sns ens : Z) : st :=
  {| lp := lp s; active := active s;
     execs := {| e_sched := sched; e_ok := false; e_s := sns / ns; e_e := ens / ns |} :: execs s;
     dest := dest s |}.

(* the part shared (textually duplicated in the Go code) by ExecuteCQ and handleExecute once
   the window is fixed: aggregation, then record-and-advance.  [fail] = executeAggregation returns
   an error: the aggregation query fails, OR the query succeeds and the write of its rows to the
   destination measurement fails (ingest buffer rejects the batch / no buffer).  Either way the
   execution is recorded as failed, nothing reaches the destination and the pointer stays. *)
Definition run_window (sched : bool) (s : st) (sns ens : Z) (fail : bool) (crash : option crashpt)
  : st * outcome :=
  if fail then (add_failed s sched sns ens, OFailed (sns / ns) (ens / ns))
  else match crash with
       | None => (run_prefix 4 sched s sns ens, OCompleted (sns / ns) (ens / ns))
       | Some _ => (run_prefix (crash_prefix crash) sched s sns ens, OCrashed)
       end.

(* lbs / lbm : the look-back used when the pointer is NULL, by the scheduled and by the manual
   path (both are `time.Now().UTC().Add(-1 * time.Hour)` in the source; regenerated) *)
Definition step (lbs lbm : Z) (s : st) (o : op) : st * outcome :=
  match o with
  | Sched now fail crash =>
      if negb (active s) then (s, ORejInactive)
      else let sns := win_start lbs s now None in
           let ens := now in
           if negb (sns <? ens) then (s, ORejWindow)
           else run_window true s sns ens fail crash
  | Manual now xs xe bad dry fail crash =>
      if negb (active s) then (s, ORejInactive)
      else if bad then (s, OBad)
      else let sns := win_start lbm s now xs in
           let ens := win_end now xe in
           if negb (sns <? ens) then (s, ORejWindow)
           else if dry then (s, ODry (sns / ns) (ens / ns))
           else run_window false s sns ens fail crash
  | Restart => (s, ONone)
  | Update act => ({| lp := lp s; active := act; execs := execs s; dest := dest s |}, ONone)
  end.

Fixpoint run (lbs lbm : Z) (s : st) (ops : list op) : st :=
  match ops with
  | [] => s
  | o :: r => run lbs lbm (fst (step lbs lbm s o)) r
  end.

(* outcomes and pointer after every operation *)
Fixpoint trace (lbs lbm : Z) (s : st) (ops : list op) : list (outcome * option Z) :=
  match ops with
  | [] => []
  | o :: r => let '(s', out) := step lbs lbm s o in (out, lp s') :: trace lbs lbm s' r
  end.

(* ---- executable specification predicates (used in the theorems AND as the oracle on the
        implementation's observations) -------------------------------------------------- *)

(* windows of the completed executions of a log given OLDEST FIRST *)
Definition completed (log : list exec) : list (Z * Z) :=
  map (fun e => (e_s e, e_e e)) (filter e_ok log).
Definition completed_sched (log : list exec) : list (Z * Z) :=
  map (fun e => (e_s e, e_e e)) (filter (fun e => e_ok e && e_sched e) log).

(* tiling: every window is well-formed and starts where the previous one ended *)
Fixpoint chainb (ws : list (Z * Z)) : bool :=
  match ws with
  | [] => true
  | (a, b) :: r => (a <=? b) && match r with [] => true | (c, _) :: _ => c =? b end && chainb r
  end.

(* no overlap, in order: every later window starts at or after the end of every earlier one *)
Fixpoint sortedb (ws : list (Z * Z)) : bool :=
  match ws with
  | [] => true
  | (a, b) :: r => (a <=? b) && forallb (fun w => b <=? fst w) r && sortedb r
  end.

(* the pointer a log implies (log NEWEST FIRST): replay the guarded UPDATE over the completed
   executions, oldest to newest *)
Fixpoint ptr_of (log : list exec) : option Z :=
  match log with
  | [] => None
  | e :: r => let p := ptr_of r in
              if e_ok e && advances p (e_s e) (e_e e) then Some (e_e e) else p
  end.

(* every completed SCHEDULED execution starts at the pointer, i.e. where the previous
   pointer-advancing execution ended; log NEWEST FIRST *)
Fixpoint starts_at_ptr (log : list exec) : bool :=
  match log with
  | [] => true
  | e :: r => (if e_ok e && e_sched e
               then match ptr_of r with Some p => e_s e =? p | None => true end
               else true) && starts_at_ptr r
  end.

(* no gap: [front] is the end of the contiguously covered region that starts with the first
   completed scheduled window (a completed window that starts inside the covered region extends
   it); every later scheduled window must start inside it.  log NEWEST FIRST *)
Fixpoint front (log : list exec) : option Z :=
  match log with
  | [] => None
  | e :: r =>
      let f := front r in
      if e_ok e then
        match f with
        | None => if e_sched e then Some (e_e e) else None
        | Some x => if e_s e <=? x then Some (Z.max x (e_e e)) else Some x
        end
      else f
  end.
Fixpoint gap_free (log : list exec) : bool :=
  match log with
  | [] => true
  | e :: r => (if e_ok e && e_sched e
               then match front r with Some x => e_s e <=? x | None => true end
               else true) && gap_free r
  end.

Definition label_ok (r : row) : bool := (r_t r / 1000000 =? r_ws r) && (r_ws r <=? r_we r).

Definition opt_eqb (a b : option Z) : bool :=
  match a, b with Some x, Some y => x =? y | None, None => true | _, _ => false end.

(* ---- correspondence cases ----------------------------------------------------------- *)

(* observed outcome codes: 0 none, 1 completed, 2 dry_run, 3 failed, 4 rejected-inactive,
   5 rejected-window, 6 bad request, 7 crashed, 8 rejected (scheduled run: the scheduler
   only logs the reason) *)
Record obs_out := { oo_code : N; oo_s : Z; oo_e : Z; oo_lp : option Z }.

Definition out_matches (m : outcome * option Z) (o : obs_out) : bool :=
  opt_eqb (snd m) (oo_lp o) &&
  match fst m with
  | ONone => N.eqb (oo_code o) 0
  | OCompleted s e => N.eqb (oo_code o) 1 && (oo_s o =? s) && (oo_e o =? e)
  | ODry s e => N.eqb (oo_code o) 2 && (oo_s o =? s) && (oo_e o =? e)
  | OFailed s e => N.eqb (oo_code o) 3 && ((oo_s o =? -1) || ((oo_s o =? s) && (oo_e o =? e)))
  | ORejInactive => N.eqb (oo_code o) 4 || N.eqb (oo_code o) 8
  | ORejWindow => N.eqb (oo_code o) 5 || N.eqb (oo_code o) 8
  | OBad => N.eqb (oo_code o) 6
  | OCrashed => N.eqb (oo_code o) 7
  end.

Fixpoint all2 {A B} (f : A -> B -> bool) (a : list A) (b : list B) : bool :=
  match a, b with
  | [], [] => true
  | x :: a', y :: b' => f x y && all2 f a' b'
  | _, _ => false
  end.

Definition exec_eqb (a b : exec) : bool :=
  Bool.eqb (e_sched a) (e_sched b) && Bool.eqb (e_ok a) (e_ok b) && (e_s a =? e_s b) && (e_e a =? e_e b).
Definition row_eqb (a b : row) : bool := (r_t a =? r_t b) && (r_ws a =? r_ws b) && (r_we a =? r_we b).

Definition row_leb (a b : row) : bool :=
  (r_t a <? r_t b) || ((r_t a =? r_t b) && ((r_ws a <? r_ws b) || ((r_ws a =? r_ws b) && (r_we a <=? r_we b)))).
Fixpoint row_insert (x : row) (l : list row) : list row :=
  match l with
  | [] => [x]
  | y :: r => if row_leb x y then x :: l else y :: row_insert x r
  end.
Definition row_sort (l : list row) : list row := fold_right row_insert [] l.

Record ccase := { c_lbs : Z; c_lbm : Z; c_ops : list op;
                  c_outs : list obs_out;      (* per operation *)
                  c_execs : list exec;        (* execution table, OLDEST FIRST *)
                  c_dest : list row }.        (* destination rows *)

Definition case_agrees (c : ccase) : bool :=
  let s := run (c_lbs c) (c_lbm c) init (c_ops c) in
  all2 out_matches (trace (c_lbs c) (c_lbm c) init (c_ops c)) (c_outs c) &&
  all2 exec_eqb (rev (execs s)) (c_execs c) &&
  all2 row_eqb (row_sort (dest s)) (row_sort (c_dest c)).

(* observed pointer after the last operation *)
Definition final_lp (c : ccase) : option Z :=
  match rev (c_outs c) with [] => None | o :: _ => oo_lp o end.

(* failed / rejected / crashed / dry operations leave the pointer where it was *)
Fixpoint no_advance_ok (prev : option Z) (outs : list obs_out) : bool :=
  match outs with
  | [] => true
  | o :: r => (if N.eqb (oo_code o) 1 then true else opt_eqb prev (oo_lp o)) && no_advance_ok (oo_lp o) r
  end.

(* every completed execution has written its window's row to the destination measurement *)
Definition has_row (dest : list row) (e : exec) : bool :=
  negb (e_ok e) || existsb (fun r => (r_ws r =? e_s e) && (r_we r =? e_e e)) dest.

(* the pointer never moves backwards *)
Fixpoint lp_monotone (prev : option Z) (outs : list obs_out) : bool :=
  match outs with
  | [] => true
  | o :: r => match prev, oo_lp o with
              | Some a, Some b => a <=? b
              | Some _, None => false
              | None, _ => true
              end && lp_monotone (oo_lp o) r
  end.

(* the property, evaluated on the implementation's observations of EVERY history
   (C29_history, C29_label, C29_failure_no_advance, C29_pointer_monotone, C29_sched_disjoint,
   C29_no_gap): the pointer is what the log implies, every scheduled run starts at it, it never
   moves backwards, non-completing operations leave it alone, completed scheduled windows do not
   overlap and leave no gap, rows are labelled with their window start, and every completed
   execution's row is in the destination (C29_completed_has_rows) *)
Definition case_oracle (c : ccase) : bool :=
  opt_eqb (final_lp c) (ptr_of (rev (c_execs c))) &&
  starts_at_ptr (rev (c_execs c)) &&
  forallb label_ok (c_dest c) &&
  no_advance_ok None (c_outs c) &&
  lp_monotone None (c_outs c) &&
  sortedb (completed_sched (c_execs c)) &&
  gap_free (rev (c_execs c)) &&
  forallb (has_row (c_dest c)) (c_execs c).

(* all completed windows tile (holds when no effective manual run names a start) *)
Definition case_tiles (c : ccase) : bool := chainb (completed (c_execs c)).

(* classes of histories (guards of the positive theorems) *)
Definition effective_manual (o : op) : bool :=
  match o with Manual _ _ _ bad dry _ _ => negb bad && negb dry | _ => false end.
Definition explicit_start (o : op) : bool :=
  match o with Manual _ (Some _) _ _ _ _ _ => effective_manual o | _ => false end.
Definition explicit_both (o : op) : bool :=
  match o with Manual _ (Some _) (Some _) _ _ _ _ => effective_manual o | _ => false end.
Definition no_effective_manual (ops : list op) : bool := forallb (fun o => negb (effective_manual o)) ops.
Definition no_explicit_start (ops : list op) : bool := forallb (fun o => negb (explicit_start o)) ops.
Definition no_explicit_both (ops : list op) : bool := forallb (fun o => negb (explicit_both o)) ops.

(* clock readings of a history, in order *)
Definition op_now (o : op) : option Z :=
  match o with Sched now _ _ => Some now | Manual now _ _ _ _ _ _ => Some now | _ => None end.
Fixpoint clocks (ops : list op) : list Z :=
  match ops with
  | [] => []
  | o :: r => match op_now o with Some t => t :: clocks r | None => clocks r end
  end.
Fixpoint nondecrb (l : list Z) : bool :=
  match l with
  | [] => true
  | x :: r => match r with [] => true | y :: _ => x <=? y end && nondecrb r
  end.

(* histories in which no effective manual run names a start: all completed windows tile *)
Definition case_guarded_oracle (c : ccase) : bool :=
  if no_explicit_start (c_ops c) then case_tiles c else true.
