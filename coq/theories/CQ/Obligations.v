(* C29 obligations on the parameters regenerated from /repo on every run
   (coq/gen/Params_CQ.v, written by tools/props/C29.py through tools/goast): the look-back
   used for a continuous query that has never been processed, as written in ExecuteCQ
   (scheduled path) and in handleExecute (manual path). *)
From Coq Require Import List ZArith Bool Lia.
From Arc Require Import CQ.Model CQ.Proofs.
From ArcGen Require Import Params_CQ.
Import ListNotations.
Open Scope Z_scope.

(* both paths look back by the same, positive amount *)
Theorem C29_lookback_positive : 0 < sched_lookback_ns /\ sched_lookback_ns = manual_lookback_ns.
Proof. vm_compute. split; reflexivity. Qed.
Print Assumptions C29_lookback_positive.

(* with the deployed look-back the very first scheduled run is never rejected for an empty
   window: it processes [now - lookback, now) and sets the pointer *)
Theorem C29_first_window_deployed : forall now,
  step sched_lookback_ns manual_lookback_ns init (Sched now false None) =
  (committed true init (now - sched_lookback_ns) now,
   OCompleted ((now - sched_lookback_ns) / ns) (now / ns)).
Proof.
  intros now. destruct C29_lookback_positive as [Hpos _].
  cbn [step init active negb win_start lp].
  assert (E : (now - sched_lookback_ns <? now) = true) by (apply Z.ltb_lt; lia).
  rewrite E. cbn [negb]. unfold run_window. rewrite run_prefix_full by lia. reflexivity.
Qed.
Print Assumptions C29_first_window_deployed.
