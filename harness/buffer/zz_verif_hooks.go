//go:build verif

// Schedule points for the /verif harness.  This file is injected into package ingest by
// `go test -overlay`; the overlay also replaces arrow_writer.go by a copy of the CURRENT
// file in which verifPoint("...") calls are inserted at anchored statements.  With no hook
// installed a point is a no-op.
package ingest

import "sync/atomic"

var verifHook atomic.Value // func(string)

func verifPoint(name string) {
	if h, ok := verifHook.Load().(func(string)); ok && h != nil {
		h(name)
	}
}
