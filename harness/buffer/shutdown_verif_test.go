//go:build verif

// C07: the REAL shutdown.Coordinator run on registration tables (the table regenerated from
// cmd/arc/main.go and generated tables with priority ties); every hook / component only
// records its name.  Injected into package shutdown by `go test -overlay`.
package shutdown

import (
	"context"
	"encoding/json"
	"os"
	"sync"
	"testing"
	"time"

	"github.com/rs/zerolog"
)

type verifReg struct {
	Name string `json:"name"`
	Kind string `json:"kind"` // RHook | RComp
	Prio int    `json:"prio"`
}

type verifOrderCase struct {
	ID   int        `json:"id"`
	Regs []verifReg `json:"regs"`
}

type verifOrderObs struct {
	ID     int      `json:"id"`
	Order  []string `json:"order"`  // names by START of their hook / Close
	Events []string `json:"events"` // "+name" when a hook / Close starts, "-name" when it has returned
}

type verifRec struct {
	mu     sync.Mutex
	order  []string
	events []string
}

// every hook / Close takes a moment, so that an implementation that runs two of them at the
// same time shows overlapping start/return events
func (r *verifRec) run(name string) {
	r.mu.Lock()
	r.order = append(r.order, name)
	r.events = append(r.events, "+"+name)
	r.mu.Unlock()
	time.Sleep(2 * time.Millisecond)
	r.mu.Lock()
	r.events = append(r.events, "-"+name)
	r.mu.Unlock()
}

type verifComp struct {
	name string
	rec  *verifRec
}

func (c *verifComp) Close() error { c.rec.run(c.name); return nil }

func TestVerifShutdownOrder(t *testing.T) {
	raw, err := os.ReadFile(os.Getenv("VERIF_CASES"))
	if err != nil {
		t.Fatal(err)
	}
	var cases []verifOrderCase
	if err := json.Unmarshal(raw, &cases); err != nil {
		t.Fatal(err)
	}
	out := make([]verifOrderObs, 0, len(cases))
	for _, c := range cases {
		coord := New(30*time.Second, zerolog.Nop())
		rec := &verifRec{}
		for _, r := range c.Regs {
			name := r.Name
			if r.Kind == "RHook" {
				coord.RegisterHook(name, func(ctx context.Context) error { rec.run(name); return nil }, r.Prio)
			} else {
				coord.Register(name, &verifComp{name: name, rec: rec}, r.Prio)
			}
		}
		if err := coord.Shutdown(); err != nil {
			t.Fatalf("case %d: Shutdown: %v", c.ID, err)
		}
		out = append(out, verifOrderObs{ID: c.ID, Order: rec.order, Events: rec.events})
	}
	buf, _ := json.Marshal(out)
	if err := os.WriteFile(os.Getenv("VERIF_OUT"), buf, 0o644); err != nil {
		t.Fatal(err)
	}
}
