//go:build verif

// C07 correspondence harness: fault traces on a REAL ArrowBuffer (in-memory storage backend
// with injected write failures / a blocked worker) wired to a REAL wal.Writer and
// wal.Recovery.  The periodic WAL maintenance tick of cmd/arc/main.go (an inline goroutine
// body) is re-composed here from the same calls in the same order (the order and the
// constants are checked against the current main.go by tools/props/C07.py on every run); the
// recovery callback does what createColumnarRecoveryCallback does.  The WAL writer rotates
// after every entry (MaxSizeBytes = 1), file ages are set with os.Chtimes.
package ingest

import (
	"bytes"
	"context"
	"encoding/json"
	"fmt"
	"os"
	"path/filepath"
	"sort"
	"strings"
	"sync"
	"sync/atomic"
	"testing"
	"time"

	"github.com/Basekick-Labs/msgpack/v6"
	"github.com/basekick-labs/arc/internal/config"
	"github.com/basekick-labs/arc/internal/shutdown"
	"github.com/basekick-labs/arc/internal/wal"
	"github.com/basekick-labs/arc/pkg/models"
	"github.com/rs/zerolog"
)

type dOp struct {
	Op    string     `json:"op"`
	Key   string     `json:"key,omitempty"`
	Batch *vBatch    `json:"batch,omitempty"`
	Mode  string     `json:"mode,omitempty"` // fail: none | all | hours
	Dirs  [][]string `json:"dirs,omitempty"` // hours: directories (YYYY MM DD HH) whose writes fail
	Old   bool       `json:"old,omitempty"`
	SlowMS int       `json:"slow_ms,omitempty"` // fail: every failing Write first takes this long
	Regs  []dReg     `json:"regs,omitempty"` // shutdown: the registration table
	Guarded bool     `json:"guarded,omitempty"` // shutdown: the purge is skipped when HasFlushFailure()
}

type dReg struct {
	Name string `json:"name"`
	Kind string `json:"kind"` // RHook | RComp
	Prio int    `json:"prio"`
}

type dCase struct {
	ID      int   `json:"id"`
	MaxSize int   `json:"max_size"`
	Queue   int   `json:"queue"`
	WAL     bool  `json:"wal"`
	Ops     []dOp `json:"ops"`
}

type dObs struct {
	ID         int      `json:"id"`
	Files      []vFile  `json:"files"`
	WalFiles   int      `json:"wal_files"`
	WalEntries int      `json:"wal_entries"`
	Failed     bool     `json:"failed"`
	Rejected   []int    `json:"rejected,omitempty"`
	Order      []string `json:"order,omitempty"` // shutdown: names in execution order (by start)
	Events     []string `json:"events,omitempty"` // shutdown: "+name" start / "-name" return of every hook and Close
	Stats      map[string]int64 `json:"stats,omitempty"`
}

type verifShutdownLog struct {
	mu     sync.Mutex
	order  []string
	events []string
}

func (l *verifShutdownLog) run(name string, fn func() error) error {
	l.mu.Lock()
	l.order = append(l.order, name)
	l.events = append(l.events, "+"+name)
	l.mu.Unlock()
	var err error
	if fn != nil {
		err = fn()
	} else {
		time.Sleep(time.Millisecond)
	}
	l.mu.Lock()
	l.events = append(l.events, "-"+name)
	l.mu.Unlock()
	return err
}

type verifRecorder struct {
	name string
	log  *verifShutdownLog
	fn   func() error
}

func (r *verifRecorder) Close() error { return r.log.run(r.name, r.fn) }

func TestVerifDurable(t *testing.T) {
	raw, err := os.ReadFile(os.Getenv("VERIF_CASES"))
	if err != nil {
		t.Fatal(err)
	}
	var cases []dCase
	if err := json.NewDecoder(bytes.NewReader(raw)).Decode(&cases); err != nil {
		t.Fatal(err)
	}
	verifInstallHook()
	const safeAge = 30 * time.Second     // main.go: max(3*MaxBufferAgeMS, 30s) with the default 5000 ms
	const minFileAge = 5 * time.Second   // main.go: MinFileAge of the periodic recovery
	out := make([]dObs, 0, len(cases))
	for ci := range cases {
		c := &cases[ci]
		o := dObs{ID: c.ID}
		verifDone.Store(verifQueued.Load())
		st := &verifMemBackend{entered: make(chan struct{}, 1), release: make(chan struct{})}
		var failAll atomic.Bool
		var failDirs atomic.Value // []string
		failDirs.Store([]string{})
		var slowMS atomic.Int64
		st.fail = func(path string) bool {
			if failAll.Load() {
				if d := slowMS.Load(); d > 0 {
					time.Sleep(time.Duration(d) * time.Millisecond) // a slow, then failing storage
				}
				return true
			}
			for _, d := range failDirs.Load().([]string) {
				if strings.Contains(path, d) {
					return true
				}
			}
			return false
		}
		icfg := &config.IngestConfig{MaxBufferSize: c.MaxSize, MaxBufferAgeMS: 3600_000, Compression: "snappy",
			FlushWorkers: 1, FlushQueueSize: c.Queue, ShardCount: 1, FlushTimeoutSeconds: 120}
		ab := NewArrowBuffer(icfg, st, zerolog.Nop())
		var w *wal.Writer
		walDir := ""
		walWrites := int64(0)
		if c.WAL {
			walDir = t.TempDir()
			w, err = wal.NewWriter(&wal.WriterConfig{WALDir: walDir, SyncMode: wal.SyncModeAsync, MaxSizeBytes: 1,
				MaxAge: time.Hour, BufferSize: 1000, Logger: zerolog.Nop()})
			if err != nil {
				t.Fatal(err)
			}
			ab.SetWAL(w)
		}
		blocked := false
		closed, walClosed := false, false
		// age class of every rotated WAL file (0 younger than MinFileAge, 1 in between, 2 older than
		// safeAge); the mtimes are set from the classes right before the tick reads them, so that the
		// wall-clock time a trace takes on a loaded machine never moves a file into another class
		ageClass := map[string]int{}
		applyAges := func() {
			if walDir == "" {
				return
			}
			files, _ := filepath.Glob(filepath.Join(walDir, "*.wal"))
			cur := w.CurrentFile()
			now := time.Now()
			for _, f := range files {
				if f == cur {
					continue
				}
				when := now
				switch ageClass[f] {
				case 1:
					when = now.Add(-10 * time.Second)
				case 2:
					when = now.Add(-time.Hour)
				}
				if err := os.Chtimes(f, when, when); err != nil {
					t.Fatal(err)
				}
			}
		}
		colCallback := func(ctx context.Context, database, measurement string, columns map[string][]interface{}) error {
			if database == "" {
				database = "default"
			}
			err := ab.WriteColumnarDirectNoWAL(ctx, database, measurement, columns)
			// the worker is kept blocked during the tick: wait until it holds the task it is going
			// to hold (so that what fits into the queue does not depend on goroutine timing)
			deadline := time.Now().Add(60 * time.Second)
			for verifQueued.Load() != verifDone.Load() && st.waiting.Load() == 0 {
				if time.Now().After(deadline) {
					t.Fatalf("verif: worker never reached storage.Write during replay")
				}
				time.Sleep(200 * time.Microsecond)
			}
			return err
		}
		rowCallback := func(ctx context.Context, records []map[string]interface{}) error {
			return fmt.Errorf("verif: row-format WAL entry not expected in this harness")
		}
		settle := func() {
			if !blocked {
				verifWaitIdle(t)
				return
			}
			deadline := time.Now().Add(60 * time.Second)
			for verifQueued.Load() != verifDone.Load() && st.waiting.Load() == 0 {
				if time.Now().After(deadline) {
					t.Fatalf("verif: blocked worker never reached storage.Write")
				}
				time.Sleep(200 * time.Microsecond)
			}
		}
		for oi := range c.Ops {
			op := &c.Ops[oi]
			switch op.Op {
			case "write":
				db, meas := verifSplitKey(op.Key)
				cols := verifToGeneric(op.Batch)
				payload, merr := msgpack.Marshal(map[string]interface{}{"m": meas, "columns": cols})
				if merr != nil {
					t.Fatal(merr)
				}
				rec := &models.ColumnarRecord{Measurement: meas, Columnar: true, Columns: cols, RawPayload: payload}
				if err := ab.WriteColumnarRecord(context.Background(), db, rec); err != nil {
					o.Rejected = append(o.Rejected, oi)
				}
				if w != nil && !walClosed {
					walWrites++
					deadline := time.Now().Add(60 * time.Second)
					for atomic.LoadInt64(&w.TotalEntries) < walWrites || atomic.LoadInt64(&w.TotalRotations) < walWrites+1 {
						if time.Now().After(deadline) {
							t.Fatalf("verif: WAL writer did not persist/rotate entry %d", walWrites)
						}
						time.Sleep(200 * time.Microsecond)
					}
				}
				settle()
			case "fail":
				failAll.Store(op.Mode == "all")
				slowMS.Store(int64(op.SlowMS))
				dirs := []string{}
				if op.Mode == "hours" {
					for _, d := range op.Dirs {
						dirs = append(dirs, "/"+strings.Join(d, "/")+"/")
					}
				}
				failDirs.Store(dirs)
			case "block":
				blocked = true
				st.block.Store(true)
			case "block_ctx":
				// context-aware backend (S3/Azure style): the next Write that carries a deadline blocks until
				// its context is cancelled and then returns ctx.Err()
				blocked = true
				st.blockCtx.Store(true)
			case "unblock":
				blocked = false
				st.block.Store(false)
				close(st.release)
				verifWaitIdle(t)
				st.release = make(chan struct{})
			case "flushall":
				_ = ab.FlushAll(context.Background())
				settle()
			case "age":
				// time only passes: a rotated file moves to the class "older than MinFileAge" (old = false)
				// or "older than safeAge" (old = true) and never back
				if w == nil {
					break
				}
				files, _ := filepath.Glob(filepath.Join(walDir, "*.wal"))
				cur := w.CurrentFile()
				cls := 1
				if op.Old {
					cls = 2
				}
				for _, f := range files {
					if f != cur && ageClass[f] < cls {
						ageClass[f] = cls
					}
				}
			case "tick":
				// periodic WAL maintenance of cmd/arc/main.go, one ticker fire
				applyAges()
				if ab.HasFlushFailure() {
					// keep the flush worker inside storage.Write while the tick body runs: the order
					// "replay enqueues, ResetFlushFailure, asynchronous flushes finish" is then fixed
					st.block.Store(true)
					recovery := wal.NewRecovery(walDir, zerolog.Nop())
					_, rerr := recovery.RecoverWithOptions(context.Background(), rowCallback, &wal.RecoveryOptions{
						SkipActiveFile:   w.CurrentFile(),
						MinFileAge:       minFileAge,
						BatchSize:        10000,
						ColumnarCallback: colCallback,
						FlushReplayed:    ab.FlushAll,
					})
					if rerr == nil {
						ab.ResetFlushFailure()
					}
					st.block.Store(false)
					close(st.release)
					verifWaitIdle(t)
					st.release = make(chan struct{})
				} else {
					if _, err := w.PurgeOlderThan(safeAge); err != nil {
						t.Fatal(err)
					}
				}
				settle()
			case "purge_all":
				if _, err := w.PurgeAll(); err != nil {
					t.Fatal(err)
				}
			case "close":
				ab.Close()
				closed = true
			case "shutdown":
				// the REAL coordinator with the generated registration table; the three
				// registrations that matter do the real thing, the others only record
				coord := shutdown.New(30*time.Second, zerolog.Nop())
				slog := &verifShutdownLog{}
				for _, r := range op.Regs {
					name := r.Name
					var fn func() error
					switch name {
					case "wal-purge":
						fn = func() error {
							if w == nil {
								return nil
							}
							if op.Guarded && ab.HasFlushFailure() {
								return nil // main.go's purge is skipped when the final flush failed
							}
							_, e := w.PurgeAll()
							return e
						}
					case "arrow-buffer":
						fn = func() error { closed = true; return ab.Close() }
					case "wal":
						fn = func() error {
							if w != nil {
								walClosed = true
								return w.Close()
							}
							return nil
						}
					}
					if r.Kind == "RHook" {
						f := fn
						coord.RegisterHook(name, func(ctx context.Context) error { return slog.run(name, f) }, r.Prio)
					} else {
						coord.Register(name, &verifRecorder{name: name, log: slog, fn: fn}, r.Prio)
					}
				}
				_ = coord.Shutdown()
				o.Order, o.Events = slog.order, slog.events
			default:
				t.Fatalf("unknown op %q", op.Op)
			}
		}
		// observations
		files, _, derr := verifDecodeWrites(st.snapshot())
		if derr != nil {
			t.Fatal(derr)
		}
		o.Files = files
		o.Failed = ab.HasFlushFailure()
		if walDir != "" {
			wf, _ := filepath.Glob(filepath.Join(walDir, "*.wal"))
			sort.Strings(wf)
			for _, f := range wf {
				info, serr := os.Stat(f)
				if serr != nil {
					continue
				}
				if info.Size() <= int64(wal.WALFileHeaderSize) {
					continue // header-only (the active file after a rotation)
				}
				o.WalFiles++
				entries, rerr := wal.NewReader(f, zerolog.Nop()).ReadAll()
				if rerr != nil {
					t.Fatalf("read %s: %v", f, rerr)
				}
				o.WalEntries += len(entries)
			}
		}
		o.Stats = map[string]int64{"errors": ab.totalErrors.Load(), "queue_depth": ab.queueDepth.Load()}
		// tear down
		if blocked {
			st.block.Store(false)
			close(st.release)
		}
		if !closed {
			// do not let the final Close add files to the observation: it already is a snapshot
			ab.Close()
		}
		if w != nil && !walClosed {
			w.Close()
		}
		verifDone.Store(verifQueued.Load())
		if o.Files == nil {
			o.Files = []vFile{}
		}
		out = append(out, o)
	}
	buf, err := json.Marshal(out)
	if err != nil {
		t.Fatal(err)
	}
	if err := os.WriteFile(os.Getenv("VERIF_OUT"), buf, 0o644); err != nil {
		t.Fatal(err)
	}
}
