//go:build verif

// C03 (and shared Buffer area) correspondence harness.  Injected into package ingest by
// `go test -overlay`, so it calls the REAL unexported kernels (HourBucketID, groupByHour,
// permuteByTime, permuteByTimeSort, radixPermuteByTime, getColumnSignature, mergeBatches,
// flushPartitionedData) and drives a REAL ArrowBuffer over an in-memory storage.Backend.
// Every Parquet file the buffer writes is decoded here; cases come from $VERIF_CASES and
// observations go to $VERIF_OUT (JSON).  Nothing is written outside t.TempDir().
package ingest

import (
	"bytes"
	"context"
	"encoding/json"
	"fmt"
	"io"
	"math"
	"os"
	"sort"
	"strings"
	"sync"
	"sync/atomic"
	"testing"
	"time"

	"github.com/apache/arrow-go/v18/arrow"
	"github.com/apache/arrow-go/v18/arrow/array"
	"github.com/apache/arrow-go/v18/arrow/memory"
	"github.com/apache/arrow-go/v18/parquet"
	"github.com/apache/arrow-go/v18/parquet/pqarrow"
	"github.com/basekick-labs/arc/internal/config"
	"github.com/rs/zerolog"
)

// ---------------------------------------------------------------------------------------
// JSON shapes
// ---------------------------------------------------------------------------------------

type vCol struct {
	N string   `json:"n"`
	T string   `json:"t"` // i f s b
	I []int64  `json:"i,omitempty"`
	U []uint64 `json:"u,omitempty"` // float64 bit patterns
	S []string `json:"s,omitempty"`
	B []bool   `json:"b,omitempty"`
	V []bool   `json:"v,omitempty"` // validity, absent = all valid
}

type vBatch struct {
	Cols []vCol `json:"cols"`
}

type vFile struct {
	Key   string   `json:"key"`
	Dir   []string `json:"dir"` // YYYY MM DD HH
	Path  string   `json:"path"`
	Batch vBatch   `json:"batch"`
}

type vOp struct {
	Op    string  `json:"op"` // write | flushall | close
	Key   string  `json:"key,omitempty"`
	Batch *vBatch `json:"batch,omitempty"`
	Via   string  `json:"via,omitempty"` // typed (default) | generic ([]interface{} columns through convertColumnsToTyped)
}

type vCfg struct {
	MaxSize int `json:"max_size"`
	Workers int `json:"workers"`
	Queue   int `json:"queue"`
	AgeMS   int `json:"age_ms"`
	Shards  int `json:"shards"`
}

type vCase struct {
	ID      int       `json:"id"`
	Kind    string    `json:"kind"`
	T       int64     `json:"t,omitempty"`
	Ts      []int64   `json:"ts,omitempty"`
	Fn      int       `json:"fn,omitempty"`
	Batch   *vBatch   `json:"batch,omitempty"`
	Batches []vBatch  `json:"batches,omitempty"`
	Cfg     *vCfg     `json:"cfg,omitempty"`
	Ops     []vOp     `json:"ops,omitempty"`
	Writers [][]vOp   `json:"writers,omitempty"`
	Key     string    `json:"key,omitempty"`
	Trials  int       `json:"trials,omitempty"`
}

type vGroup struct {
	ID  int64 `json:"id"`
	Idx []int `json:"idx"`
	Min int64 `json:"min"`
	Max int64 `json:"max"`
}

type vObs struct {
	ID       int        `json:"id"`
	Kind     string     `json:"kind"`
	Z        *int64     `json:"z,omitempty"`
	H        int64      `json:"h,omitempty"`
	Groups   []vGroup   `json:"groups,omitempty"`
	Perm     []int      `json:"perm"`
	PermNil  bool       `json:"perm_nil,omitempty"`
	Sig      string     `json:"sig,omitempty"`
	Merged   *vBatch    `json:"merged,omitempty"`
	Outcome  string     `json:"outcome,omitempty"` // ok | err | panic
	Err      string     `json:"err,omitempty"`
	Files    []vFile    `json:"files"`
	Trials   [][]vFile  `json:"trials,omitempty"`
	Dup      int        `json:"dup_paths,omitempty"`
	Rejected []int      `json:"rejected,omitempty"` // indices of write ops that returned an error
	Stats    map[string]int64 `json:"stats,omitempty"`
}

// ---------------------------------------------------------------------------------------
// in-memory storage backend (records every Write in order; optional blocking / failing)
// ---------------------------------------------------------------------------------------

type verifWrite struct {
	path string
	data []byte
}

type verifMemBackend struct {
	mu      sync.Mutex
	writes  []verifWrite
	entered chan struct{} // signalled when a Write is blocked
	release chan struct{} // closed to let blocked Writes proceed
	block   atomic.Bool
	waiting atomic.Int64 // goroutines currently blocked inside Write
	blockCtx atomic.Bool // one-shot: the next deadline-carrying Write waits for ctx.Done() and returns ctx.Err()
	fail    func(path string) bool
}

func (m *verifMemBackend) Write(ctx context.Context, path string, data []byte) error {
	// only flushes that carry a deadline block (flush workers, Close, the age flusher); the
	// synchronous flushes of a writer / FlushAll caller use the caller's context
	if _, hasDeadline := ctx.Deadline(); hasDeadline && m.blockCtx.CompareAndSwap(true, false) {
		m.waiting.Add(1)
		select {
		case <-ctx.Done():
			m.waiting.Add(-1)
			return ctx.Err()
		case <-time.After(60 * time.Second):
			m.waiting.Add(-1)
			return context.DeadlineExceeded
		}
	}
	if _, hasDeadline := ctx.Deadline(); hasDeadline && m.block.Load() {
		select {
		case m.entered <- struct{}{}:
		default:
		}
		m.waiting.Add(1)
		<-m.release
		m.waiting.Add(-1)
	}
	if m.fail != nil && m.fail(path) {
		return fmt.Errorf("verif: injected storage failure for %s", path)
	}
	cp := make([]byte, len(data))
	copy(cp, data)
	m.mu.Lock()
	m.writes = append(m.writes, verifWrite{path, cp})
	m.mu.Unlock()
	return nil
}
func (m *verifMemBackend) WriteReader(ctx context.Context, path string, r io.Reader, size int64) error {
	b, err := io.ReadAll(r)
	if err != nil {
		return err
	}
	return m.Write(ctx, path, b)
}
func (m *verifMemBackend) Read(ctx context.Context, path string) ([]byte, error) { return nil, nil }
func (m *verifMemBackend) ReadTo(ctx context.Context, path string, w io.Writer) error { return nil }
func (m *verifMemBackend) ReadToAt(_ context.Context, _ string, _ io.Writer, _ int64) error {
	return nil
}
func (m *verifMemBackend) StatFile(_ context.Context, _ string) (int64, error) { return -1, nil }
func (m *verifMemBackend) List(ctx context.Context, prefix string) ([]string, error) {
	return nil, nil
}
func (m *verifMemBackend) Delete(ctx context.Context, path string) error          { return nil }
func (m *verifMemBackend) Exists(ctx context.Context, path string) (bool, error) { return false, nil }
func (m *verifMemBackend) Close() error                                          { return nil }
func (m *verifMemBackend) Type() string                                          { return "verif-mem" }
func (m *verifMemBackend) ConfigJSON() string                                    { return "{}" }

func (m *verifMemBackend) snapshot() []verifWrite {
	m.mu.Lock()
	defer m.mu.Unlock()
	out := make([]verifWrite, len(m.writes))
	copy(out, m.writes)
	return out
}

// ---------------------------------------------------------------------------------------
// conversions
// ---------------------------------------------------------------------------------------

func verifToTyped(b *vBatch) *TypedColumnBatch {
	data := make(map[string]interface{}, len(b.Cols))
	var validity map[string][]bool
	for _, c := range b.Cols {
		switch c.T {
		case "i":
			v := make([]int64, len(c.I))
			copy(v, c.I)
			data[c.N] = v
		case "f":
			v := make([]float64, len(c.U))
			for i, u := range c.U {
				v[i] = math.Float64frombits(u)
			}
			data[c.N] = v
		case "s":
			v := make([]string, len(c.S))
			copy(v, c.S)
			data[c.N] = v
		case "b":
			v := make([]bool, len(c.B))
			copy(v, c.B)
			data[c.N] = v
		}
		if c.V != nil {
			if validity == nil {
				validity = make(map[string][]bool)
			}
			vv := make([]bool, len(c.V))
			copy(vv, c.V)
			validity[c.N] = vv
		}
	}
	return &TypedColumnBatch{Data: data, Validity: validity}
}

func verifRows(b *vBatch) int {
	for _, c := range b.Cols {
		if c.N == "time" {
			return len(c.I)
		}
	}
	return 0
}

// generic []interface{} columns (nil = NULL) for the convertColumnsToTyped path
func verifToGeneric(b *vBatch) map[string][]interface{} {
	out := make(map[string][]interface{}, len(b.Cols))
	for _, c := range b.Cols {
		var n int
		switch c.T {
		case "i":
			n = len(c.I)
		case "f":
			n = len(c.U)
		case "s":
			n = len(c.S)
		case "b":
			n = len(c.B)
		}
		col := make([]interface{}, n)
		for i := 0; i < n; i++ {
			if c.V != nil && !c.V[i] {
				col[i] = nil
				continue
			}
			switch c.T {
			case "i":
				col[i] = c.I[i]
			case "f":
				col[i] = math.Float64frombits(c.U[i])
			case "s":
				col[i] = c.S[i]
			case "b":
				col[i] = c.B[i]
			}
		}
		out[c.N] = col
	}
	return out
}

func verifFromTyped(tb *TypedColumnBatch) *vBatch {
	names := make([]string, 0, len(tb.Data))
	for n := range tb.Data {
		names = append(names, n)
	}
	sort.Strings(names)
	out := &vBatch{}
	for _, n := range names {
		c := vCol{N: n}
		switch v := tb.Data[n].(type) {
		case []int64:
			c.T = "i"
			c.I = append([]int64{}, v...)
		case []float64:
			c.T = "f"
			c.U = make([]uint64, len(v))
			for i, f := range v {
				c.U[i] = math.Float64bits(f)
			}
		case []string:
			c.T = "s"
			c.S = append([]string{}, v...)
		case []bool:
			c.T = "b"
			c.B = append([]bool{}, v...)
		default:
			c.T = "?"
		}
		if tb.Validity != nil {
			if vv, ok := tb.Validity[n]; ok && vv != nil {
				c.V = append([]bool{}, vv...)
			}
		}
		out.Cols = append(out.Cols, c)
	}
	return out
}

// decode one Parquet file into the JSON batch shape (NULL = validity false, zero value)
func verifDecodeParquet(data []byte) (*vBatch, error) {
	tbl, err := pqarrow.ReadTable(context.Background(), bytes.NewReader(data), parquet.NewReaderProperties(memory.DefaultAllocator),
		pqarrow.ArrowReadProperties{}, memory.DefaultAllocator)
	if err != nil {
		return nil, err
	}
	defer tbl.Release()
	out := &vBatch{}
	nrows := int(tbl.NumRows())
	for ci := 0; ci < int(tbl.NumCols()); ci++ {
		col := tbl.Column(ci)
		c := vCol{N: col.Name()}
		valid := make([]bool, 0, nrows)
		anyNull := false
		for _, chunk := range col.Data().Chunks() {
			switch a := chunk.(type) {
			case *array.Timestamp:
				c.T = "i"
				for i := 0; i < a.Len(); i++ {
					ok := !a.IsNull(i)
					valid = append(valid, ok)
					if ok {
						c.I = append(c.I, int64(a.Value(i)))
					} else {
						c.I = append(c.I, 0)
						anyNull = true
					}
				}
				if tt, ok2 := a.DataType().(*arrow.TimestampType); ok2 && tt.Unit != arrow.Microsecond {
					return nil, fmt.Errorf("column %s: timestamp unit %v, want us", col.Name(), tt.Unit)
				}
			case *array.Int64:
				c.T = "i"
				for i := 0; i < a.Len(); i++ {
					ok := !a.IsNull(i)
					valid = append(valid, ok)
					if ok {
						c.I = append(c.I, a.Value(i))
					} else {
						c.I = append(c.I, 0)
						anyNull = true
					}
				}
			case *array.Float64:
				c.T = "f"
				for i := 0; i < a.Len(); i++ {
					ok := !a.IsNull(i)
					valid = append(valid, ok)
					if ok {
						c.U = append(c.U, math.Float64bits(a.Value(i)))
					} else {
						c.U = append(c.U, 0)
						anyNull = true
					}
				}
			case *array.String:
				c.T = "s"
				for i := 0; i < a.Len(); i++ {
					ok := !a.IsNull(i)
					valid = append(valid, ok)
					if ok {
						c.S = append(c.S, a.Value(i))
					} else {
						c.S = append(c.S, "")
						anyNull = true
					}
				}
			case *array.Boolean:
				c.T = "b"
				for i := 0; i < a.Len(); i++ {
					ok := !a.IsNull(i)
					valid = append(valid, ok)
					if ok {
						c.B = append(c.B, a.Value(i))
					} else {
						c.B = append(c.B, false)
						anyNull = true
					}
				}
			default:
				return nil, fmt.Errorf("column %s: unsupported arrow type %s", col.Name(), chunk.DataType())
			}
		}
		if anyNull {
			c.V = valid
		}
		out.Cols = append(out.Cols, c)
	}
	sort.Slice(out.Cols, func(i, j int) bool { return out.Cols[i].N < out.Cols[j].N })
	return out, nil
}

func verifDecodeWrites(ws []verifWrite) ([]vFile, int, error) {
	files := make([]vFile, 0, len(ws))
	seen := map[string]bool{}
	dup := 0
	for _, w := range ws {
		if seen[w.path] {
			dup++
		}
		seen[w.path] = true
		parts := strings.Split(w.path, "/")
		if len(parts) != 7 {
			return nil, 0, fmt.Errorf("unexpected storage path %q", w.path)
		}
		b, err := verifDecodeParquet(w.data)
		if err != nil {
			return nil, 0, fmt.Errorf("decode %s: %w", w.path, err)
		}
		files = append(files, vFile{Key: parts[0] + "/" + parts[1], Dir: parts[2:6], Path: w.path, Batch: *b})
	}
	return files, dup, nil
}

// ---------------------------------------------------------------------------------------
// idle detection through the overlay schedule points
// ---------------------------------------------------------------------------------------

var verifQueued, verifDone atomic.Int64

func verifInstallHook() {
	verifHook.Store(func(name string) {
		switch name {
		case "queued":
			verifQueued.Add(1)
		case "task-done":
			verifDone.Add(1)
		}
	})
}

func verifWaitIdle(t *testing.T) {
	deadline := time.Now().Add(60 * time.Second)
	for verifQueued.Load() != verifDone.Load() {
		if time.Now().After(deadline) {
			t.Fatalf("verif: flush workers did not become idle (queued=%d done=%d)", verifQueued.Load(), verifDone.Load())
		}
		time.Sleep(200 * time.Microsecond)
	}
}

func verifNewBuffer(cfg *vCfg, st *verifMemBackend) *ArrowBuffer {
	age := cfg.AgeMS
	if age <= 0 {
		age = 3600_000
	}
	icfg := &config.IngestConfig{
		MaxBufferSize:       cfg.MaxSize,
		MaxBufferAgeMS:      age,
		Compression:         "snappy",
		FlushWorkers:        cfg.Workers,
		FlushQueueSize:      cfg.Queue,
		ShardCount:          cfg.Shards,
		FlushTimeoutSeconds: 120,
	}
	return NewArrowBuffer(icfg, st, zerolog.Nop())
}

func verifSplitKey(key string) (string, string) {
	i := strings.IndexByte(key, '/')
	return key[:i], key[i+1:]
}

func verifWrite1(b *ArrowBuffer, op *vOp) error {
	db, meas := verifSplitKey(op.Key)
	if op.Via == "generic" {
		return b.WriteColumnarDirect(context.Background(), db, meas, verifToGeneric(op.Batch))
	}
	return b.WriteTypedColumnarDirect(context.Background(), db, meas, verifToTyped(op.Batch), verifRows(op.Batch))
}

// ---------------------------------------------------------------------------------------
// the test
// ---------------------------------------------------------------------------------------

func TestVerifBuffer(t *testing.T) {
	raw, err := os.ReadFile(os.Getenv("VERIF_CASES"))
	if err != nil {
		t.Fatal(err)
	}
	var cases []vCase
	dec := json.NewDecoder(bytes.NewReader(raw))
	if err := dec.Decode(&cases); err != nil {
		t.Fatal(err)
	}
	verifInstallHook()
	out := make([]vObs, 0, len(cases))
	for ci := range cases {
		c := &cases[ci]
		o := vObs{ID: c.ID, Kind: c.Kind}
		switch c.Kind {
		case "bucket":
			z := HourBucketID(c.T)
			o.Z = &z
			o.H = microPerHour
		case "group":
			buckets, _, _, err := groupByHour(c.Ts)
			if err != nil {
				o.Err = err.Error()
				break
			}
			for id, b := range buckets {
				if b.hourID != id {
					t.Fatalf("bucket key %d holds hourID %d", id, b.hourID)
				}
				o.Groups = append(o.Groups, vGroup{ID: id, Idx: append([]int{}, b.indices...), Min: b.minTime, Max: b.maxTime})
			}
			sort.Slice(o.Groups, func(i, j int) bool { return o.Groups[i].ID < o.Groups[j].ID })
		case "perm":
			var p []int
			switch c.Fn {
			case 0:
				p = permuteByTime(c.Ts)
			case 1:
				p = permuteByTimeSort(c.Ts)
			default:
				p = radixPermuteByTime(c.Ts)
			}
			if p == nil {
				o.PermNil = true
			} else {
				o.Perm = p
			}
			o.H = int64(radixSkipThreshold)
		case "sig":
			o.Sig = getColumnSignature(verifToTyped(c.Batch).Data)
		case "key":
			d := verifToTyped(c.Batch).Data
			o.Sig = bufferSchemaKey(getColumnSignature(d), d)
		case "merge":
			func() {
				defer func() {
					if r := recover(); r != nil {
						o.Outcome = "panic"
						o.Err = fmt.Sprint(r)
					}
				}()
				bs := make([]interface{}, len(c.Batches))
				for i := range c.Batches {
					bs[i] = verifToTyped(&c.Batches[i])
				}
				ab := &ArrowBuffer{logger: zerolog.Nop()}
				m, err := ab.mergeBatches(bs)
				if err != nil {
					o.Outcome = "err"
					o.Err = err.Error()
					return
				}
				o.Outcome = "ok"
				o.Merged = verifFromTyped(m)
			}()
		case "flush":
			st := &verifMemBackend{}
			ab := verifNewBuffer(&vCfg{MaxSize: 1 << 30, Workers: 1, Queue: 4, Shards: 1}, st)
			tb := verifToTyped(c.Batch)
			err := ab.flushPartitionedData(context.Background(), "db/m", "db", "m", tb, verifRows(c.Batch), flushTypeSync, time.Now())
			ab.Close()
			if err != nil {
				o.Outcome = "err"
				o.Err = err.Error()
				break
			}
			o.Outcome = "ok"
			files, dup, derr := verifDecodeWrites(st.snapshot())
			if derr != nil {
				t.Fatal(derr)
			}
			o.Files, o.Dup = files, dup
		case "hist":
			st := &verifMemBackend{}
			ab := verifNewBuffer(c.Cfg, st)
			closed := false
			for oi := range c.Ops {
				op := &c.Ops[oi]
				switch op.Op {
				case "write":
					if err := verifWrite1(ab, op); err != nil {
						o.Rejected = append(o.Rejected, oi)
					}
					verifWaitIdle(t)
				case "flushall":
					_ = ab.FlushAll(context.Background())
				case "close":
					ab.Close()
					closed = true
				}
			}
			if !closed {
				// leave nothing running; rows still buffered are NOT part of the observation
				snap := st.snapshot()
				ab.Close()
				files, dup, derr := verifDecodeWrites(snap)
				if derr != nil {
					t.Fatal(derr)
				}
				o.Files, o.Dup = files, dup
				break
			}
			files, dup, derr := verifDecodeWrites(st.snapshot())
			if derr != nil {
				t.Fatal(derr)
			}
			o.Files, o.Dup = files, dup
		case "conc":
			st := &verifMemBackend{}
			ab := verifNewBuffer(c.Cfg, st)
			var wg sync.WaitGroup
			var rejMu sync.Mutex
			for wi := range c.Writers {
				wg.Add(1)
				go func(wi int) {
					defer wg.Done()
					for oi := range c.Writers[wi] {
						op := &c.Writers[wi][oi]
						if err := verifWrite1(ab, op); err != nil {
							rejMu.Lock()
							o.Rejected = append(o.Rejected, wi*10000+oi)
							rejMu.Unlock()
						}
					}
				}(wi)
			}
			wg.Wait()
			// the property's quantifier: explicit flush and close AFTER the writers; the
			// queue is let drain before Close (Close with a non-empty queue is the closew kind)
			if c.Fn == 0 {
				_ = ab.FlushAll(context.Background())
			}
			verifWaitIdle(t)
			ab.Close()
			files, dup, derr := verifDecodeWrites(st.snapshot())
			if derr != nil {
				t.Fatal(derr)
			}
			o.Files, o.Dup = files, dup
			o.Stats = map[string]int64{"queued": verifQueued.Load(), "errors": ab.totalErrors.Load(), "churn": ab.totalSchemaChurnExceeded.Load()}
		case "race":
			// forced schedule through the lock-released I/O window of flushBufferLocked: batches[0] is
			// buffered; writer B (batches[1], another schema) starts the schema-change flush and is parked
			// inside storage.Write; writer A (batches[2]) writes meanwhile and installs a fresh buffer; B is
			// released; then FlushAll and Close
			st := &verifMemBackend{entered: make(chan struct{}, 1), release: make(chan struct{})}
			ab := verifNewBuffer(c.Cfg, st)
			if err := verifWrite1(ab, &vOp{Op: "write", Key: c.Key, Batch: &c.Batches[0]}); err != nil {
				t.Fatalf("race: first write: %v", err)
			}
			st.block.Store(true)
			bdone := make(chan error, 1)
			go func() {
				ctx, cancel := context.WithTimeout(context.Background(), 120*time.Second) // a deadline: this flush parks
				defer cancel()
				db, meas := verifSplitKey(c.Key)
				bdone <- ab.WriteTypedColumnarDirect(ctx, db, meas, verifToTyped(&c.Batches[1]), verifRows(&c.Batches[1]))
			}()
			deadline := time.Now().Add(60 * time.Second)
			for st.waiting.Load() == 0 {
				if time.Now().After(deadline) {
					t.Fatal("race: writer B never reached storage.Write")
				}
				time.Sleep(200 * time.Microsecond)
			}
			if err := verifWrite1(ab, &vOp{Op: "write", Key: c.Key, Batch: &c.Batches[2]}); err != nil {
				o.Rejected = append(o.Rejected, 2)
			}
			st.block.Store(false)
			close(st.release)
			if err := <-bdone; err != nil {
				o.Rejected = append(o.Rejected, 1)
			}
			_ = ab.FlushAll(context.Background())
			verifWaitIdle(t)
			ab.Close()
			files, dup, derr := verifDecodeWrites(st.snapshot())
			if derr != nil {
				t.Fatal(derr)
			}
			o.Files, o.Dup = files, dup
			o.Stats = map[string]int64{"errors": ab.totalErrors.Load()}
		case "closew":
			// one worker blocked inside storage.Write on the first size-triggered flush, the
			// remaining batches queued, then Close while the worker is still blocked
			trials := c.Trials
			if trials <= 0 {
				trials = 1
			}
			for tr := 0; tr < trials; tr++ {
				st := &verifMemBackend{entered: make(chan struct{}, 1), release: make(chan struct{})}
				st.block.Store(true)
				ab := verifNewBuffer(&vCfg{MaxSize: 1, Workers: 1, Queue: c.Cfg.Queue, Shards: 1}, st)
				for bi := range c.Batches {
					op := &vOp{Op: "write", Key: c.Key, Batch: &c.Batches[bi]}
					if err := verifWrite1(ab, op); err != nil {
						t.Fatalf("closew write %d: %v", bi, err)
					}
					if bi == 0 {
						select {
						case <-st.entered:
						case <-time.After(60 * time.Second):
							t.Fatal("closew: worker never reached storage.Write")
						}
					}
				}
				deadline := time.Now().Add(60 * time.Second)
				for ab.queueDepth.Load() != int64(len(c.Batches)-1) {
					if time.Now().After(deadline) {
						t.Fatalf("closew: queue depth %d, want %d", ab.queueDepth.Load(), len(c.Batches)-1)
					}
					time.Sleep(200 * time.Microsecond)
				}
				done := make(chan struct{})
				go func() { ab.Close(); close(done) }()
				for ab.ctx.Err() == nil { // Close has set closing and cancelled the context
					time.Sleep(200 * time.Microsecond)
				}
				st.block.Store(false)
				close(st.release)
				select {
				case <-done:
				case <-time.After(120 * time.Second):
					t.Fatal("closew: Close did not return")
				}
				files, _, derr := verifDecodeWrites(st.snapshot())
				if derr != nil {
					t.Fatal(derr)
				}
				o.Trials = append(o.Trials, files)
				// settle the idle counters for the cases that follow: abandoned tasks never finish
				verifDone.Store(verifQueued.Load())
			}
		default:
			t.Fatalf("unknown case kind %q", c.Kind)
		}
		if o.Files == nil {
			o.Files = []vFile{}
		}
		out = append(out, o)
	}
	buf, err := json.Marshal(out)
	if err != nil {
		t.Fatal(err)
	}
	if err := os.WriteFile(os.Getenv("VERIF_OUT"), buf, 0o644); err != nil {
		t.Fatal(err)
	}
}
