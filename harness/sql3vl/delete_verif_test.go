//go:build verif

// C10 correspondence harness: drives the REAL DeleteHandler (handleDelete through its fiber route:
// validateWhereClause, confirmation gates, findAffectedFiles, rewriteFileWithoutDeletedRows,
// rewriteLocalFile) with a real DuckDB and a real LocalBackend on the datasets of $VERIF_CASES,
// asks the same DuckDB for its verdict SELECT (<where>) on every row (the oracle half of the
// model), and writes everything observed to $VERIF_OUT.  All SQL text comes from the case file.
package api

import (
	"bytes"
	"context"
	"database/sql"
	"encoding/json"
	"fmt"
	"io"
	"io/fs"
	"net/http/httptest"
	"os"
	"path/filepath"
	"sort"
	"strings"
	"sync"
	"testing"

	"github.com/gofiber/fiber/v2"
	"github.com/rs/zerolog"

	"github.com/basekick-labs/arc/internal/config"
	"github.com/basekick-labs/arc/internal/database"
	"github.com/basekick-labs/arc/internal/storage"
)

type verifDelFile struct {
	Path      string `json:"path"`       // relative to the storage root
	CreateSQL string `json:"create_sql"` // SELECT producing the rows, in order
	// read-back projection of THIS file (files of one measurement may have different schemas:
	// a column can have another numeric type or be absent); empty = the case's select_list
	SelectList string `json:"select_list"`
}

type verifDelCase struct {
	ID         int            `json:"id"`
	Database   string         `json:"database"`
	Meas       string         `json:"measurement"`
	Files      []verifDelFile `json:"files"`
	Sibling    []verifDelFile `json:"sibling"`     // files of other measurements / junk, must stay byte-identical
	SelectList string         `json:"select_list"` // read-back projection (normalises every column to int/string/bool)
	Where      string         `json:"where"`
	Confirm    bool           `json:"confirm"`
	Threshold  int            `json:"threshold"`
	MaxRows    int            `json:"max_rows"`
}

type verifDelResp struct {
	Status    int    `json:"status"`
	Success   bool   `json:"success"`
	Deleted   int64  `json:"deleted"`
	Affected  int    `json:"affected"`
	Rewritten int    `json:"rewritten"`
	Failed    int    `json:"failed"`
	Error     string `json:"error"`
}

type verifDelRows struct {
	Path string          `json:"path"`
	Rows [][]interface{} `json:"rows"`
}

type verifDelObs struct {
	ID       int                 `json:"id"`
	Before   []verifDelRows      `json:"before"`
	Verdicts map[string][]string `json:"verdicts"` // path -> "T"/"F"/"U" per row
	// Search: what ONE union read over all files returns for  ... WHERE <where>  (the construct the
	// handler's affected-file search uses): path -> ids of the returned rows
	Search     map[string][]int64 `json:"search"`
	SearchErr  string             `json:"search_err"`
	Unbound    []string           `json:"unbound"` // files against which the WHERE does not bind when read alone (verdict taken from the union_by_name read)
	VerdictErr string             `json:"verdict_err"`
	Dry        verifDelResp       `json:"dry"`
	DryBytesOK bool               `json:"dry_bytes_unchanged"` // every data file byte-identical after the dry run
	DryFiles   []verifDelRows     `json:"dry_files"`           // re-read only when the bytes changed
	Real       verifDelResp       `json:"real"`
	After      []verifDelRows     `json:"after"`
	SiblingOK  bool               `json:"sibling_ok"`
	Leftovers  []string           `json:"leftovers"` // non-parquet files/dirs left under the measurement (e.g. .tmp)
}

func verifQueryRows(ctx context.Context, db *sql.DB, q string) ([][]interface{}, error) {
	conn, err := db.Conn(ctx)
	if err != nil {
		return nil, err
	}
	defer conn.Close()
	restore, err := database.ForcePreserveInsertionOrder(ctx, conn)
	if err != nil {
		return nil, err
	}
	defer restore()
	rows, err := conn.QueryContext(ctx, q)
	if err != nil {
		return nil, err
	}
	defer rows.Close()
	cols, err := rows.Columns()
	if err != nil {
		return nil, err
	}
	out := [][]interface{}{}
	for rows.Next() {
		vals := make([]interface{}, len(cols))
		ptrs := make([]interface{}, len(cols))
		for i := range vals {
			ptrs[i] = &vals[i]
		}
		if err := rows.Scan(ptrs...); err != nil {
			return nil, err
		}
		for i, v := range vals {
			if b, ok := v.([]byte); ok {
				vals[i] = string(b)
			}
		}
		out = append(out, vals)
	}
	return out, rows.Err()
}

func verifListParquet(t *testing.T, root, rel string) []string {
	var out []string
	base := filepath.Join(root, rel)
	_ = filepath.WalkDir(base, func(p string, d fs.DirEntry, err error) error {
		if err != nil {
			return nil
		}
		if !d.IsDir() && strings.HasSuffix(p, ".parquet") {
			r, _ := filepath.Rel(root, p)
			out = append(out, filepath.ToSlash(r))
		}
		return nil
	})
	sort.Strings(out)
	return out
}

func verifReadAll(t *testing.T, ctx context.Context, db *sql.DB, root string, paths []string, sel string, perFile map[string]string) []verifDelRows {
	out := []verifDelRows{}
	for _, p := range paths {
		fsel := sel
		if s, ok := perFile[p]; ok && s != "" {
			fsel = s
		}
		rows, err := verifQueryRows(ctx, db, fmt.Sprintf("SELECT %s FROM read_parquet('%s')", fsel, filepath.Join(root, p)))
		if err != nil {
			t.Fatalf("read back %s: %v", p, err)
		}
		out = append(out, verifDelRows{Path: p, Rows: rows})
	}
	return out
}

func verifHashFiles(root string, files []verifDelFile) string {
	var b strings.Builder
	for _, f := range files {
		data, err := os.ReadFile(filepath.Join(root, f.Path))
		fmt.Fprintf(&b, "%s:%v:%x\n", f.Path, err != nil, data)
	}
	return b.String()
}

func verifPost(t *testing.T, app *fiber.App, body map[string]interface{}) verifDelResp {
	raw, _ := json.Marshal(body)
	req := httptest.NewRequest("POST", "/api/v1/delete", bytes.NewReader(raw))
	req.Header.Set("Content-Type", "application/json")
	resp, err := app.Test(req, -1)
	if err != nil {
		t.Fatalf("app.Test: %v", err)
	}
	defer resp.Body.Close()
	data, _ := io.ReadAll(resp.Body)
	var dr DeleteResponse
	_ = json.Unmarshal(data, &dr)
	return verifDelResp{Status: resp.StatusCode, Success: dr.Success, Deleted: dr.DeletedCount, Affected: dr.AffectedFiles,
		Rewritten: dr.RewrittenFiles, Failed: len(dr.FailedFiles), Error: dr.Error}
}

func TestVerifDelete(t *testing.T) {
	raw, err := os.ReadFile(os.Getenv("VERIF_CASES"))
	if err != nil {
		t.Fatal(err)
	}
	var cases []verifDelCase
	if err := json.Unmarshal(raw, &cases); err != nil {
		t.Fatal(err)
	}
	root := t.TempDir()
	spill := t.TempDir()
	t.Setenv("TMPDIR", t.TempDir())
	logger := zerolog.New(io.Discard).Level(zerolog.Disabled)
	backend, err := storage.NewLocalBackend(root, logger)
	if err != nil {
		t.Fatal(err)
	}
	duck, err := database.New(&database.Config{MemoryLimit: "512MB", ThreadCount: 2, MaxConnections: 8,
		LocalStorageRoot: root, TempDirectory: spill}, logger)
	if err != nil {
		t.Fatalf("duckdb: %v", err)
	}
	defer duck.Close()
	ctx := context.Background()
	db := duck.DB()
	obs := make([]verifDelObs, 0, len(cases))

	runCase := func(c verifDelCase) verifDelObs {
		o := verifDelObs{ID: c.ID, Verdicts: map[string][]string{}, Leftovers: []string{}}
		for _, f := range append(append([]verifDelFile{}, c.Files...), c.Sibling...) {
			full := filepath.Join(root, filepath.FromSlash(f.Path))
			if err := os.MkdirAll(filepath.Dir(full), 0o755); err != nil {
				t.Fatal(err)
			}
			if strings.HasSuffix(f.Path, ".parquet") {
				q := fmt.Sprintf("COPY (%s) TO '%s' (FORMAT PARQUET)", f.CreateSQL, full)
				if err := database.ExecPreservingInsertionOrder(ctx, db, q); err != nil {
					t.Fatalf("case %d: create %s: %v\n%s", c.ID, f.Path, err, q)
				}
			} else if err := os.WriteFile(full, []byte(f.CreateSQL), 0o644); err != nil {
				t.Fatal(err)
			}
		}
		measRel := c.Database + "/" + c.Meas
		paths := verifListParquet(t, root, measRel)
		sibBefore := verifHashFiles(root, c.Sibling)
		dataFiles := make([]verifDelFile, 0, len(paths))
		for _, p := range paths {
			dataFiles = append(dataFiles, verifDelFile{Path: p})
		}
		dataBefore := verifHashFiles(root, dataFiles)

		// one read per file: the rows as stored AND DuckDB's own verdict SELECT (<where>) on every row
		// (the oracle the Kleene evaluator is compared with); a WHERE DuckDB refuses falls back to the rows only
		perFile := map[string]string{}
		for _, f := range c.Files {
			perFile[f.Path] = f.SelectList
		}
		selOf := func(p string) string {
			if s, ok := perFile[p]; ok && s != "" {
				return s
			}
			return c.SelectList
		}
		var allList strings.Builder
		for i, p := range paths {
			if i > 0 {
				allList.WriteString(", ")
			}
			allList.WriteString("'" + filepath.Join(root, p) + "'")
		}
		verdictOf := func(r []interface{}) string {
			switch v := r[len(r)-1].(type) {
			case nil:
				return "U"
			case bool:
				if v {
					return "T"
				}
				return "F"
			default:
				return fmt.Sprintf("?%v", v)
			}
		}
		for _, p := range paths {
			full := filepath.Join(root, p)
			if strings.TrimSpace(c.Where) == "" {
				o.VerdictErr = "empty where"
				break
			}
			rows, err := verifQueryRows(ctx, db, fmt.Sprintf("SELECT %s, (%s) AS verif_verdict FROM read_parquet('%s')", selOf(p), c.Where, full))
			if err == nil {
				vs := make([]string, 0, len(rows))
				plain := make([][]interface{}, 0, len(rows))
				for _, r := range rows {
					vs = append(vs, verdictOf(r))
					plain = append(plain, r[:len(r)-1])
				}
				o.Verdicts[p] = vs
				o.Before = append(o.Before, verifDelRows{Path: p, Rows: plain})
				continue
			}
			// read alone the WHERE does not bind (a column it names is absent from this file): the
			// verdict is the one of the union_by_name read over all files of the measurement
			urows, uerr := verifQueryRows(ctx, db, fmt.Sprintf(
				"SELECT (%s) AS verif_verdict FROM read_parquet([%s], union_by_name=true, filename=true) WHERE filename = '%s'", c.Where, allList.String(), full))
			if uerr != nil {
				o.VerdictErr = err.Error()
				break
			}
			vs := make([]string, 0, len(urows))
			for _, r := range urows {
				vs = append(vs, verdictOf(r))
			}
			o.Verdicts[p] = vs
			o.Unbound = append(o.Unbound, p)
			o.Before = append(o.Before, verifReadAll(t, ctx, db, root, []string{p}, c.SelectList, perFile)...)
		}
		o.Search = map[string][]int64{}
		if len(paths) > 0 && strings.TrimSpace(c.Where) != "" {
			srows, serr := verifQueryRows(ctx, db, fmt.Sprintf(
				"SELECT filename, id FROM read_parquet([%s], filename=true, union_by_name=true) WHERE %s", allList.String(), c.Where))
			if serr != nil {
				o.SearchErr = serr.Error()
			} else {
				for _, r := range srows {
					fn, _ := r[0].(string)
					rel, rerr := filepath.Rel(root, fn)
					if rerr != nil {
						rel = fn
					}
					rel = filepath.ToSlash(rel)
					var id int64
					switch v := r[1].(type) {
					case int64:
						id = v
					case int32:
						id = int64(v)
					}
					o.Search[rel] = append(o.Search[rel], id)
				}
			}
		}
		if o.VerdictErr != "" {
			o.Before = verifReadAll(t, ctx, db, root, paths, c.SelectList, perFile)
			o.Verdicts = map[string][]string{}
			o.Unbound = nil
		}
		if o.Before == nil {
			o.Before = []verifDelRows{}
		}

		h := NewDeleteHandler(duck, backend, &config.DeleteConfig{Enabled: true, ConfirmationThreshold: c.Threshold, MaxRowsPerDelete: c.MaxRows},
			nil, filepath.Join(root, ".verif-upload"), logger)
		app := fiber.New(fiber.Config{DisableStartupMessage: true})
		h.RegisterRoutes(app)
		body := map[string]interface{}{"database": c.Database, "measurement": c.Meas, "where": c.Where, "confirm": c.Confirm}

		body["dry_run"] = true
		o.Dry = verifPost(t, app, body)
		o.DryBytesOK = verifHashFiles(root, dataFiles) == dataBefore && strings.Join(verifListParquet(t, root, measRel), "|") == strings.Join(paths, "|")
		if !o.DryBytesOK {
			o.DryFiles = verifReadAll(t, ctx, db, root, verifListParquet(t, root, measRel), c.SelectList, perFile)
		}

		body["dry_run"] = false
		o.Real = verifPost(t, app, body)
		o.After = verifReadAll(t, ctx, db, root, verifListParquet(t, root, measRel), c.SelectList, perFile)
		o.SiblingOK = verifHashFiles(root, c.Sibling) == sibBefore

		_ = filepath.WalkDir(filepath.Join(root, measRel), func(p string, d fs.DirEntry, err error) error {
			if err != nil {
				return nil
			}
			r, _ := filepath.Rel(root, p)
			r = filepath.ToSlash(r)
			if strings.Contains(r, "/.tmp") || (!d.IsDir() && !strings.HasSuffix(r, ".parquet")) {
				known := false
				for _, s := range c.Sibling {
					if s.Path == r {
						known = true
					}
				}
				if !known {
					o.Leftovers = append(o.Leftovers, r)
				}
			}
			return nil
		})
		_ = app.Shutdown()
		if err := os.RemoveAll(filepath.Join(root, c.Database)); err != nil {
			t.Fatal(err)
		}
		return o
	}

	// cases are independent (one database directory each): run them on a few workers
	results := make([]verifDelObs, len(cases))
	var wg sync.WaitGroup
	next := make(chan int)
	for w := 0; w < 4; w++ {
		wg.Add(1)
		go func() {
			defer wg.Done()
			for i := range next {
				results[i] = runCase(cases[i])
			}
		}()
	}
	for i := range cases {
		next <- i
	}
	close(next)
	wg.Wait()
	obs = append(obs, results...)
	out, err := json.Marshal(obs)
	if err != nil {
		t.Fatal(err)
	}
	if err := os.WriteFile(os.Getenv("VERIF_OUT"), out, 0o644); err != nil {
		t.Fatal(err)
	}
}
