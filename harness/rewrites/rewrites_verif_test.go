//go:build verif

// C17 correspondence harness.  Thin step runner compiled INTO package api (so the unexported
// rewrite functions are reachable) that
//   - runs the REAL rewrite functions of query.go / regex_rewriter.go / like_optimizer.go on SQL
//     text ("rewrite" steps), and
//   - evaluates SQL (original and rewritten) on a real DuckDB opened through the repo's own
//     internal/database package ("exec" / "query" steps).
// A query step may splice the input (<E n>) or the output (<R n>) of an earlier rewrite step into
// its SQL, so that one `go test` invocation evaluates the expression the Go code emitted.
// Cases come from $VERIF_CASES, observations go to $VERIF_OUT; nothing is written outside
// t.TempDir().
package api

import (
	"encoding/json"
	"fmt"
	"os"
	"regexp"
	"strconv"
	"testing"
	"time"

	"github.com/basekick-labs/arc/internal/database"
	"github.com/rs/zerolog"
)

type verifRwStep struct {
	Op  string `json:"op"`  // rewrite | exec | query
	Fn  string `json:"fn"`  // rewrite: tb | dt | regex | like | tbdt
	SQL string `json:"sql"` // rewrite: input text; exec/query: statement (may contain <E n>, <R n>)
}

type verifRwOut struct {
	Out     string          `json:"out,omitempty"`     // rewrite: emitted text
	Changed bool            `json:"changed,omitempty"` // rewrite: function reported a change
	Rows    [][]interface{} `json:"rows,omitempty"`    // query: rows
	Err     string          `json:"err,omitempty"`
	SQL     string          `json:"sql,omitempty"` // query: SQL after splicing
	Ms      int64           `json:"ms,omitempty"`  // wall time of the step
}

var verifRwSplice = regexp.MustCompile(`<([ER]) (\d+)>`)

func verifRwValue(v interface{}) interface{} {
	switch x := v.(type) {
	case nil:
		return nil
	case int64:
		return strconv.FormatInt(x, 10) // decimal strings: exact for every int64
	case int32:
		return strconv.FormatInt(int64(x), 10)
	case int:
		return strconv.Itoa(x)
	case bool:
		if x {
			return "true"
		}
		return "false"
	case []byte:
		return "s:" + string(x)
	case string:
		return "s:" + x
	default:
		return "o:" + fmt.Sprint(x)
	}
}

func TestVerifRewrites(t *testing.T) {
	raw, err := os.ReadFile(os.Getenv("VERIF_CASES"))
	if err != nil {
		t.Fatal(err)
	}
	var steps []verifRwStep
	if err := json.Unmarshal(raw, &steps); err != nil {
		t.Fatal(err)
	}
	outs := make([]verifRwOut, len(steps))
	var db *database.DuckDB
	openDB := func() *database.DuckDB {
		if db != nil {
			return db
		}
		dir := t.TempDir()
		d, err := database.New(&database.Config{MemoryLimit: "512MB", ThreadCount: 2, MaxConnections: 1,
			LocalStorageRoot: dir}, zerolog.New(os.Stderr).Level(zerolog.Disabled))
		if err != nil {
			t.Fatalf("database.New: %v", err)
		}
		t.Cleanup(func() { d.Close() })
		db = d
		return db
	}
	splice := func(s string) string {
		return verifRwSplice.ReplaceAllStringFunc(s, func(m string) string {
			p := verifRwSplice.FindStringSubmatch(m)
			n, _ := strconv.Atoi(p[2])
			if n < 0 || n >= len(steps) || steps[n].Op != "rewrite" {
				return m
			}
			if p[1] == "E" {
				return steps[n].SQL
			}
			return outs[n].Out
		})
	}
	for i, st := range steps {
		t0 := time.Now()
		switch st.Op {
		case "rewrite":
			switch st.Fn {
			case "tb":
				outs[i].Out = rewriteTimeBucket(st.SQL)
			case "dt":
				outs[i].Out = rewriteDateTrunc(st.SQL)
			case "tbdt": // the order convertSQLToStoragePaths applies them
				outs[i].Out = rewriteDateTrunc(rewriteTimeBucket(st.SQL))
			case "regex":
				outs[i].Out, outs[i].Changed = RewriteRegexToStringFuncs(st.SQL)
			case "like":
				outs[i].Out, outs[i].Changed = OptimizeLikePatterns(st.SQL)
			default:
				t.Fatalf("step %d: unknown rewrite fn %q", i, st.Fn)
			}
			if st.Fn == "tb" || st.Fn == "dt" || st.Fn == "tbdt" {
				outs[i].Changed = outs[i].Out != st.SQL
			}
		case "exec":
			q := splice(st.SQL)
			if _, err := openDB().Exec(q); err != nil {
				outs[i].Err = err.Error()
			}
		case "query":
			q := splice(st.SQL)
			outs[i].SQL = q
			rows, err := openDB().Query(q)
			if err != nil {
				outs[i].Err = err.Error()
				continue
			}
			cols, _ := rows.Columns()
			res := [][]interface{}{}
			for rows.Next() {
				vals := make([]interface{}, len(cols))
				ptrs := make([]interface{}, len(cols))
				for k := range vals {
					ptrs[k] = &vals[k]
				}
				if err := rows.Scan(ptrs...); err != nil {
					outs[i].Err = err.Error()
					break
				}
				for k := range vals {
					vals[k] = verifRwValue(vals[k])
				}
				res = append(res, vals)
			}
			if err := rows.Err(); err != nil && outs[i].Err == "" {
				outs[i].Err = err.Error()
			}
			rows.Close()
			outs[i].Rows = res
		default:
			t.Fatalf("step %d: unknown op %q", i, st.Op)
		}
		outs[i].Ms = time.Since(t0).Milliseconds()
	}
	b, err := json.Marshal(outs)
	if err != nil {
		t.Fatal(err)
	}
	if err := os.WriteFile(os.Getenv("VERIF_OUT"), b, 0o644); err != nil {
		t.Fatal(err)
	}
}
