//go:build verif

// C06 (and later C05) correspondence harness for package wal.  It is compiled INTO the
// repo package by `go test -overlay` (nothing is written under /repo) and drives the REAL
// wal.Writer, wal.Reader and wal.Recovery:
//
//	mode "write":   every log = a sequence of Append / AppendRaw / AppendRawWithMeta calls on a
//	                real Writer (optionally with a tiny MaxSizeBytes so that it rotates); returns
//	                the bytes of every file it produced (name order) and what the replication
//	                hook saw (timestamp + payload of every append).
//	mode "read":    every item = file bytes + a list of mutations (truncate at k / substitute
//	                byte i by b); each mutated file is written to t.TempDir() and read back with
//	                the real Reader.ReadAll; optional Recovery runs over a directory of files.
//	                Also returns the msgpack-decoding oracle table (what the tail of readEntry
//	                makes of every CRC-valid candidate payload that occurs anywhere in a mutated
//	                file) and the CRC-32 single-byte-detection checks it performed.
//
// All case generation, enumeration of mutations, comparison with the Coq model and shrinking
// live in tools/props/C06.py.
package wal

import (
	"bytes"
	"context"
	"crypto/sha256"
	"encoding/binary"
	"encoding/hex"
	"encoding/json"
	"fmt"
	"hash/crc32"
	"os"
	"path/filepath"
	"sort"
	"strings"
	"sync"
	"testing"
	"time"
	"unsafe"

	"github.com/Basekick-Labs/msgpack/v6"
	"github.com/rs/zerolog"
)

// ---- input -----------------------------------------------------------------------------

type verifWalOp struct {
	K    string                   `json:"k"`    // raw | meta | rows
	DB   string                   `json:"db"`   // hex (meta)
	P    string                   `json:"p"`    // hex (raw, meta)
	Scr  string                   `json:"scr"`  // hex: what the caller writes into its payload buffer right after the call (default 'Z's)
	N    int                      `json:"n"`    // > 0: the payload is N bytes 0x90 0x41 0x41 .. instead of P (size-only probes)
	Rows []map[string]interface{} `json:"rows"` // rows
}

type verifWalLog struct {
	ID      int          `json:"id"`
	MaxSize int64        `json:"max_size"` // 0 = default (no rotation in a test)
	Hold    bool         `json:"hold"`     // hold the writer goroutine off the queue while appending (see below)
	NoFiles bool         `json:"nofiles"`  // size-only probe: report file sizes and ReadAll entry counts instead of bytes
	Ops     []verifWalOp `json:"ops"`
}

type verifWalMut struct {
	F int    `json:"f"` // file index
	K string `json:"k"` // "n" none | "t" truncate at P | "s" substitute byte P by B
	P int    `json:"p"`
	B int    `json:"b"`
}

type verifWalItem struct {
	ID      int           `json:"id"`
	Files   []string      `json:"files"`   // hex
	Muts    []verifWalMut `json:"muts"`    // each read with Reader.ReadAll (file F only)
	Recover []verifWalMut `json:"recover"` // each replayed with Recovery over the whole directory
	Frames  [][][2]int    `json:"frames"`  // per file: [payload offset, payload length] of genuine frames (for the CRC hypothesis check)
}

type verifWalIn struct {
	Mode   string         `json:"mode"`
	Logs   []verifWalLog  `json:"logs"`
	Items  []verifWalItem `json:"items"`
	Decode []string       `json:"decode"` // extra payloads (hex) to classify
}

// ---- output ----------------------------------------------------------------------------

type verifWalHook struct {
	TS uint64 `json:"ts"`
	P  string `json:"p"`
}

type verifWalLogOut struct {
	ID      int            `json:"id"`
	Files   []string       `json:"files"`
	Names   []string       `json:"names"`
	Hook    []verifWalHook `json:"hook"`
	Errs    []string       `json:"errs"`
	Dropped int64          `json:"dropped"`
	Sizes   []int          `json:"sizes"`  // nofiles: size of every file
	Counts  []int          `json:"counts"` // nofiles: number of entries ReadAll returns for every file (-1 error, -2 panic)
}

type verifWalEntry struct {
	TS   uint64 `json:"ts"`
	Kind int    `json:"kind"` // 0 row, 1 columnar
	DB   string `json:"db"`   // hex; always "" for rows (Entry has no database for rows)
	FP   uint64 `json:"fp"`
}

type verifWalObs struct {
	St string `json:"st"` // ok | err | panic
	E  []int  `json:"e"`  // indices into the item's entry table
	C  int64  `json:"c"`  // Reader.CorruptedEntries
}

type verifWalClass struct {
	P    string `json:"p"`    // hex of the bytes handed to msgpack (after ParseEnvelope)
	Kind int    `json:"kind"` // 0 row, 1 columnar, 2 rejected, 3 row format decoded to a nil slice
	FP   uint64 `json:"fp"`
}

type verifWalItemOut struct {
	ID      int             `json:"id"`
	Entries []verifWalEntry `json:"entries"`
	Obs     []verifWalObs   `json:"obs"`
	Recover []verifWalObs   `json:"recover"`
	Classes []verifWalClass `json:"classes"` // decoding table for every CRC-valid candidate payload of this item
}

type verifWalOut struct {
	Logs      []verifWalLogOut  `json:"logs"`
	Items     []verifWalItemOut `json:"items"`
	Classes   []verifWalClass   `json:"classes"`
	CrcChecks int64             `json:"crc_checks"`
	CrcMisses []string          `json:"crc_misses"` // single-byte changes NOT detected by hash/crc32 (expected: none)
	Params    map[string]int64  `json:"params"`
}

// ---- canonical fingerprints of decoded content --------------------------------------------

func verifCanon(b *strings.Builder, v interface{}) {
	switch x := v.(type) {
	case nil:
		b.WriteString("nil")
	case map[string]interface{}:
		if x == nil {
			b.WriteString("nilmap")
			return
		}
		keys := make([]string, 0, len(x))
		for k := range x {
			keys = append(keys, k)
		}
		sort.Strings(keys)
		b.WriteString("{")
		for _, k := range keys {
			fmt.Fprintf(b, "%q:", k)
			verifCanon(b, x[k])
			b.WriteString(",")
		}
		b.WriteString("}")
	case []map[string]interface{}:
		if x == nil {
			b.WriteString("nilrows")
			return
		}
		b.WriteString("rows[")
		for _, m := range x {
			verifCanon(b, m)
			b.WriteString(",")
		}
		b.WriteString("]")
	case map[string][]interface{}:
		keys := make([]string, 0, len(x))
		for k := range x {
			keys = append(keys, k)
		}
		sort.Strings(keys)
		b.WriteString("cols{")
		for _, k := range keys {
			fmt.Fprintf(b, "%q:", k)
			verifCanon(b, x[k])
			b.WriteString(",")
		}
		b.WriteString("}")
	case []interface{}:
		if x == nil {
			b.WriteString("nilarr")
			return
		}
		b.WriteString("[")
		for _, e := range x {
			verifCanon(b, e)
			b.WriteString(",")
		}
		b.WriteString("]")
	case string:
		fmt.Fprintf(b, "s%q", x)
	case []byte:
		fmt.Fprintf(b, "b%x", x)
	case float64:
		// numbers are compared by value: JSON input (float64) vs msgpack-decoded ints
		fmt.Fprintf(b, "n%v", x)
	case float32:
		fmt.Fprintf(b, "n%v", float64(x))
	case int64:
		fmt.Fprintf(b, "n%v", float64(x))
	case uint64:
		fmt.Fprintf(b, "n%v", float64(x))
	case int8:
		fmt.Fprintf(b, "n%v", float64(x))
	case int16:
		fmt.Fprintf(b, "n%v", float64(x))
	case int32:
		fmt.Fprintf(b, "n%v", float64(x))
	case int:
		fmt.Fprintf(b, "n%v", float64(x))
	case uint8:
		fmt.Fprintf(b, "n%v", float64(x))
	case uint16:
		fmt.Fprintf(b, "n%v", float64(x))
	case uint32:
		fmt.Fprintf(b, "n%v", float64(x))
	case bool:
		fmt.Fprintf(b, "t%v", x)
	default:
		fmt.Fprintf(b, "%T:%v", v, v)
	}
}

func verifFP(tag string, v ...interface{}) uint64 {
	var b strings.Builder
	b.WriteString(tag)
	for _, x := range v {
		b.WriteString("|")
		verifCanon(&b, x)
	}
	h := sha256.Sum256([]byte(b.String()))
	return binary.BigEndian.Uint64(h[:8]) >> 8 // 56 bits
}

func verifRowsFP(records []map[string]interface{}) uint64 { return verifFP("rows", records) }
func verifColFP(c *ColumnarEntry) uint64                  { return verifFP("col", c.Measurement, c.Columns) }

// verifClassify = the msgpack-decoding ORACLE: what the tail of readEntry makes of the bytes
// that follow the envelope (two Unmarshal attempts of the msgpack library + the repo's own
// parseColumnarEntry).
func verifClassify(msgpackData []byte) (kind int, fp uint64) {
	var records []map[string]interface{}
	if err := msgpack.Unmarshal(msgpackData, &records); err == nil {
		if records == nil {
			return 3, verifRowsFP(records)
		}
		return 0, verifRowsFP(records)
	}
	var rawMap map[string]interface{}
	if err := msgpack.Unmarshal(msgpackData, &rawMap); err == nil {
		if colEntry := parseColumnarEntry(rawMap); colEntry != nil {
			return 1, verifColFP(colEntry)
		}
	}
	return 2, 0
}

func verifEntryObs(e *Entry) verifWalEntry {
	if e.ColumnarData != nil {
		return verifWalEntry{TS: e.TimestampUS, Kind: 1, DB: hex.EncodeToString([]byte(e.ColumnarData.Database)), FP: verifColFP(e.ColumnarData)}
	}
	return verifWalEntry{TS: e.TimestampUS, Kind: 0, FP: verifRowsFP(e.Records)}
}

// ---- helpers -----------------------------------------------------------------------------

// verifVolatile returns a string whose bytes live in a caller-owned buffer (fiber's header and
// body values alias the connection buffer in production); the harness scribbles over it later.
func verifVolatile(s string) (string, []byte) {
	if len(s) == 0 {
		return "", nil
	}
	b := []byte(s)
	return unsafe.String(&b[0], len(b)), b
}

func verifUnhex(t *testing.T, s string) []byte {
	b, err := hex.DecodeString(s)
	if err != nil {
		t.Fatalf("bad hex in case file: %v", err)
	}
	return b
}

func verifMutate(data []byte, m verifWalMut) []byte {
	switch m.K {
	case "t":
		if m.P < len(data) {
			return append([]byte(nil), data[:m.P]...)
		}
	case "s":
		if m.P < len(data) {
			d := append([]byte(nil), data...)
			d[m.P] = byte(m.B)
			return d
		}
	}
	return append([]byte(nil), data...)
}

type verifInterner struct {
	idx map[verifWalEntry]int
	tab []verifWalEntry
}

func (in *verifInterner) id(e verifWalEntry) int {
	if i, ok := in.idx[e]; ok {
		return i
	}
	if in.idx == nil {
		in.idx = map[verifWalEntry]int{}
	}
	in.idx[e] = len(in.tab)
	in.tab = append(in.tab, e)
	return len(in.tab) - 1
}

// verifReadAll runs the real Reader on the file at path; a Go panic is an observable outcome.
func verifReadAll(path string) (entries []Entry, corrupted int64, st string) {
	r := NewReader(path, zerolog.Nop())
	defer func() {
		if p := recover(); p != nil {
			entries, corrupted, st = nil, 0, "panic"
		}
	}()
	es, err := r.ReadAll()
	if err != nil {
		return nil, r.CorruptedEntries, "err"
	}
	return es, r.CorruptedEntries, "ok"
}

type verifClassSet struct {
	seen map[string]bool
	out  []verifWalClass
}

func (cs *verifClassSet) add(msgpackData []byte) {
	k := string(msgpackData)
	if cs.seen[k] {
		return
	}
	if cs.seen == nil {
		cs.seen = map[string]bool{}
	}
	cs.seen[k] = true
	kind, fp := verifClassify(msgpackData)
	cs.out = append(cs.out, verifWalClass{P: hex.EncodeToString(msgpackData), Kind: kind, FP: fp})
}

// addPayload classifies what follows the envelope of a CRC-valid payload (real ParseEnvelope;
// a panic there is the reader's panic and needs no table entry) and the payload as is.
func (cs *verifClassSet) addPayload(payload []byte) {
	cs.add(payload)
	func() {
		defer func() { _ = recover() }()
		_, inner := ParseEnvelope(payload, "")
		cs.add(inner)
	}()
}

// scan collects every byte range of data that any frame-by-frame reader could accept: at every
// offset, the 16-byte header found there, its own length, and a CRC-32 match.
func (cs *verifClassSet) scan(data []byte) {
	for o := 0; o+WALEntryHeaderSize <= len(data); o++ {
		l := int(binary.BigEndian.Uint32(data[o : o+4]))
		if l > MaxWALPayloadSize || o+WALEntryHeaderSize+l > len(data) {
			continue
		}
		p := data[o+WALEntryHeaderSize : o+WALEntryHeaderSize+l]
		if crc32.ChecksumIEEE(p) == binary.BigEndian.Uint32(data[o+12:o+16]) {
			cs.addPayload(p)
		}
	}
}

// ---- the test ----------------------------------------------------------------------------

func TestVerifWal(t *testing.T) {
	raw, err := os.ReadFile(os.Getenv("VERIF_CASES"))
	if err != nil {
		t.Fatal(err)
	}
	var in verifWalIn
	if err := json.Unmarshal(raw, &in); err != nil {
		t.Fatal(err)
	}
	out := verifWalOut{Logs: []verifWalLogOut{}, Items: []verifWalItemOut{}, Classes: []verifWalClass{}, CrcMisses: []string{},
		Params: map[string]int64{"entry_header_size": WALEntryHeaderSize, "file_header_size": WALFileHeaderSize,
			"max_payload": MaxWALPayloadSize, "envelope_marker": WALEnvelopeMarker, "nil_rows_fp": int64(verifRowsFP(nil))}}
	cs := &verifClassSet{}
	cs.add([]byte{})
	for _, s := range in.Decode {
		cs.addPayload(verifUnhex(t, s))
	}

	// ---- write mode: real Writer ----
	for _, lg := range in.Logs {
		dir := t.TempDir()
		lo := verifWalLogOut{ID: lg.ID, Files: []string{}, Names: []string{}, Hook: []verifWalHook{}, Errs: []string{}}
		w, err := NewWriter(&WriterConfig{WALDir: dir, SyncMode: SyncModeAsync, MaxSizeBytes: lg.MaxSize, Logger: zerolog.Nop()})
		if err != nil {
			t.Fatalf("NewWriter: %v", err)
		}
		// Two ways of calling the writer.  Hook mode: the replication hook reports timestamp and
		// payload of every accepted append.  Hold mode (no hook, so that Append* never takes w.mu):
		// the writer goroutine is kept off the queue (w.mu held) while the caller appends and - as
		// the ingest path does with the recycled request body - REUSES ITS BUFFERS; the timestamps
		// are then read back from the files.  In both modes every payload and database name lives
		// in a buffer owned by the harness that is overwritten as soon as the call has returned:
		// the model has value semantics, so the writer must have copied what it keeps.
		if !lg.Hold {
			w.SetReplicationHook(func(e *ReplicationEntry) {
				lo.Hook = append(lo.Hook, verifWalHook{TS: e.TimestampUS, P: hex.EncodeToString(e.Payload)})
			})
		} else {
			w.mu.Lock()
		}
		var sizes []int // on-disk payload size of every accepted append (hold mode)
		for _, op := range lg.Ops {
			var err error
			buf := append([]byte(nil), verifUnhex(t, op.P)...)
			if op.N > 0 {
				buf = bytes.Repeat([]byte{0x41}, op.N)
				buf[0] = 0x90
			}
			dbs, dbb := verifVolatile(string(verifUnhex(t, op.DB)))
			func() {
				defer func() {
					if p := recover(); p != nil {
						err = fmt.Errorf("panic: %v", p)
					}
				}()
				switch op.K {
				case "raw":
					err = w.AppendRaw(buf)
				case "meta":
					err = w.AppendRawWithMeta(dbs, buf)
				case "rows":
					err = w.Append(op.Rows)
				default:
					t.Fatalf("unknown op kind %q", op.K)
				}
			}()
			// the caller moves on to its next request
			scr := verifUnhex(t, op.Scr)
			for i := range buf {
				if i < len(scr) {
					buf[i] = scr[i]
				} else {
					buf[i] = 'Z'
				}
			}
			for i := range dbb {
				dbb[i] = 'Z'
			}
			if err != nil {
				lo.Errs = append(lo.Errs, err.Error())
			} else {
				lo.Errs = append(lo.Errs, "")
				n := len(buf)
				if op.K == "meta" {
					n += 3 + len(dbb)
				}
				sizes = append(sizes, n)
			}
			if lg.MaxSize > 0 && !lg.Hold {
				// rotation names its file after the wall clock (ns); keep two rotations apart
				time.Sleep(20 * time.Microsecond)
			}
		}
		if lg.Hold {
			w.mu.Unlock()
		}
		if err := w.Close(); err != nil {
			t.Fatalf("Close: %v", err)
		}
		lo.Dropped = w.DroppedEntries
		names, _ := filepath.Glob(filepath.Join(dir, "*.wal"))
		sort.Strings(names)
		for _, n := range names {
			b, err := os.ReadFile(n)
			if err != nil {
				t.Fatal(err)
			}
			lo.Names = append(lo.Names, filepath.Base(n))
			if lg.NoFiles {
				lo.Sizes = append(lo.Sizes, len(b))
				es, _, st := verifReadAll(n)
				c := len(es)
				if st == "err" {
					c = -1
				} else if st == "panic" {
					c = -2
				}
				lo.Counts = append(lo.Counts, c)
				continue
			}
			lo.Files = append(lo.Files, hex.EncodeToString(b))
			if lg.Hold {
				// timestamps of the accepted appends, in order, at the offsets their sizes imply
				o := WALFileHeaderSize
				for len(sizes) > 0 && o+WALEntryHeaderSize+sizes[0] <= len(b) {
					lo.Hook = append(lo.Hook, verifWalHook{TS: binary.BigEndian.Uint64(b[o+4 : o+12])})
					o += WALEntryHeaderSize + sizes[0]
					sizes = sizes[1:]
				}
			}
		}
		out.Logs = append(out.Logs, lo)
	}

	// ---- read mode: real Reader / Recovery on mutated files ----
	scratch := t.TempDir()
	for _, it := range in.Items {
		cs := &verifClassSet{}
		cs.add([]byte{})
		cs.add([]byte{0xc0})
		files := make([][]byte, len(it.Files))
		for i, h := range it.Files {
			files[i] = verifUnhex(t, h)
			cs.scan(files[i])
		}
		io := verifWalItemOut{ID: it.ID, Obs: make([]verifWalObs, 0, len(it.Muts)), Recover: []verifWalObs{}}
		in2 := &verifInterner{}
		for _, m := range it.Muts {
			if m.F < 0 || m.F >= len(files) {
				t.Fatalf("mutation names file %d of %d", m.F, len(files))
			}
		}
		// The reads are independent: a few workers, each with its own scratch file, its own
		// candidate-payload set and its own slice of the results; merged in input order below.
		type rawObs struct {
			es []verifWalEntry
			c  int64
			st string
		}
		raws := make([]rawObs, len(it.Muts))
		const workers = 6
		wsets := make([]*verifClassSet, workers)
		wchecks := make([]int64, workers)
		wmisses := make([][]string, workers)
		werr := make([]error, workers)
		var wg sync.WaitGroup
		for w := 0; w < workers; w++ {
			wsets[w] = &verifClassSet{}
			wg.Add(1)
			go func(w int) {
				defer wg.Done()
				path := filepath.Join(scratch, fmt.Sprintf("arc-verif-%d.wal", w))
				for mi := w; mi < len(it.Muts); mi += workers {
					m := it.Muts[mi]
					data := verifMutate(files[m.F], m)
					if m.K == "s" {
						wsets[w].scan(data)
						// CRC-32 hypothesis of the proofs (crc_detects_1byte): a single changed byte inside a
						// genuine payload changes the checksum.
						if m.F < len(it.Frames) {
							for _, fr := range it.Frames[m.F] {
								if m.P >= fr[0] && m.P < fr[0]+fr[1] && data[m.P] != files[m.F][m.P] {
									wchecks[w]++
									if crc32.ChecksumIEEE(data[fr[0]:fr[0]+fr[1]]) == crc32.ChecksumIEEE(files[m.F][fr[0]:fr[0]+fr[1]]) {
										wmisses[w] = append(wmisses[w], fmt.Sprintf("item %d file %d pos %d byte %d", it.ID, m.F, m.P, m.B))
									}
								}
							}
						}
					}
					if err := os.WriteFile(path, data, 0600); err != nil {
						werr[w] = err
						return
					}
					es, c, st := verifReadAll(path)
					r := rawObs{c: c, st: st, es: make([]verifWalEntry, 0, len(es))}
					for i := range es {
						r.es = append(r.es, verifEntryObs(&es[i]))
					}
					raws[mi] = r
				}
			}(w)
		}
		wg.Wait()
		for w := 0; w < workers; w++ {
			if werr[w] != nil {
				t.Fatal(werr[w])
			}
			out.CrcChecks += wchecks[w]
			out.CrcMisses = append(out.CrcMisses, wmisses[w]...)
			for _, c := range wsets[w].out {
				raw, _ := hex.DecodeString(c.P)
				if !cs.seen[string(raw)] {
					cs.seen[string(raw)] = true
					cs.out = append(cs.out, c)
				}
			}
		}
		for _, r := range raws {
			ob := verifWalObs{St: r.st, E: make([]int, 0, len(r.es)), C: r.c}
			for _, e := range r.es {
				ob.E = append(ob.E, in2.id(e))
			}
			io.Obs = append(io.Obs, ob)
		}
		// Recovery over the whole directory (files in name order = rotation order; mtimes are set
		// increasing so that findWALFiles' mtime sort is the rotation order, as in production).
		for ri, m := range it.Recover {
			dir := filepath.Join(scratch, fmt.Sprintf("rec-%d-%d", it.ID, ri))
			if err := os.MkdirAll(dir, 0700); err != nil {
				t.Fatal(err)
			}
			base := time.Now().Add(-time.Hour)
			for i, f := range files {
				data := f
				if i == m.F {
					data = verifMutate(f, m)
					if m.K == "s" {
						cs.scan(data)
					}
				}
				p := filepath.Join(dir, fmt.Sprintf("arc-%04d.wal", i))
				if err := os.WriteFile(p, data, 0600); err != nil {
					t.Fatal(err)
				}
				mt := base.Add(time.Duration(i) * time.Second)
				_ = os.Chtimes(p, mt, mt)
			}
			ob := verifWalObs{St: "ok", E: []int{}}
			func() {
				defer func() {
					if p := recover(); p != nil {
						ob = verifWalObs{St: "panic", E: []int{}}
					}
				}()
				rec := NewRecovery(dir, zerolog.Nop())
				stats, err := rec.RecoverWithOptions(context.Background(),
					func(ctx context.Context, records []map[string]interface{}) error {
						ob.E = append(ob.E, in2.id(verifWalEntry{Kind: 0, FP: verifRowsFP(records)}))
						return nil
					},
					&RecoveryOptions{ColumnarCallback: func(ctx context.Context, database, measurement string, columns map[string][]interface{}) error {
						ob.E = append(ob.E, in2.id(verifWalEntry{Kind: 1, DB: hex.EncodeToString([]byte(database)),
							FP: verifColFP(&ColumnarEntry{Measurement: measurement, Columns: columns})}))
						return nil
					}})
				if err != nil {
					ob.St = "err"
				} else {
					ob.C = int64(stats.CorruptedEntries)
				}
			}()
			io.Recover = append(io.Recover, ob)
			os.RemoveAll(dir)
		}
		io.Entries = in2.tab
		io.Classes = cs.out
		if io.Entries == nil {
			io.Entries = []verifWalEntry{}
		}
		out.Items = append(out.Items, io)
	}
	out.Classes = cs.out

	// sanity of the harness' own fingerprinting: distinct decoded contents get distinct ids
	if verifRowsFP(nil) == verifRowsFP([]map[string]interface{}{}) || bytes.Equal([]byte("a"), []byte("b")) {
		t.Fatal("fingerprint does not separate nil from empty")
	}

	res, err := json.Marshal(out)
	if err != nil {
		t.Fatal(err)
	}
	if err := os.WriteFile(os.Getenv("VERIF_OUT"), res, 0644); err != nil {
		t.Fatal(err)
	}
}
