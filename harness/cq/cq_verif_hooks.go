//go:build verif

// C29 instrumentation added to package api by overlay (never present in /repo):
// a controlled clock that replaces time.Now() in continuous_query.go and named
// crash points inserted at anchored statements of the record-and-advance path.
package api

import "time"

// VerifCQClockNS is the controlled clock (nanoseconds since the Unix epoch).
var VerifCQClockNS int64

// VerifCQPoint, when set, is called at every inserted crash point with its name.
var VerifCQPoint func(name string)

func verifCQNow() time.Time { return time.Unix(0, VerifCQClockNS) }

func verifCQPoint(name string) {
	if VerifCQPoint != nil {
		VerifCQPoint(name)
	}
}
