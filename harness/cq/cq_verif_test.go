//go:build verif

// C29 correspondence harness.  Drives the REAL continuous-query machinery
//
//	scheduled run : CQScheduler.executeJob -> ContinuousQueryHandler.ExecuteCQ
//	manual run    : POST /api/v1/continuous_queries/:id/execute (handleExecute)
//	update        : PUT  /api/v1/continuous_queries/:id          (handleUpdate)
//	restart       : close the handler (and its SQLite pool), build a new handler, scheduler
//	                and HTTP app on the same SQLite file
//
// with real SQLite (one file per history), and one real DuckDB + ArrowBuffer + local storage
// backend shared by all histories of a run (every history writes to its own database), under
// the controlled clock / crash points that the overlay writes into continuous_query.go
// (api.VerifCQClockNS, api.VerifCQPoint).  Observations: outcome of every operation,
// last_processed_time after every operation, the execution table in insertion order and
// the rows stored in the destination measurement.
package scheduler

import (
	"bytes"
	"context"
	"database/sql"
	"encoding/json"
	"fmt"
	"io"
	"net/http/httptest"
	"os"
	"path/filepath"
	"strings"
	"testing"
	"time"

	"github.com/basekick-labs/arc/internal/api"
	"github.com/basekick-labs/arc/internal/config"
	"github.com/basekick-labs/arc/internal/database"
	"github.com/basekick-labs/arc/internal/ingest"
	"github.com/basekick-labs/arc/internal/storage"
	"github.com/gofiber/fiber/v2"
	fiberrecover "github.com/gofiber/fiber/v2/middleware/recover"
	_ "github.com/mattn/go-sqlite3"
	"github.com/rs/zerolog"
)

type verifCQOp struct {
	K      string `json:"k"` // sched | manual | restart | update
	Now    int64  `json:"now"`
	Fail   bool   `json:"fail"`
	Crash  string `json:"crash"` // "" | after-aggregation | tx-between | before-commit
	XS     string `json:"xs"`    // explicit start_time (RFC 3339 text) or ""
	XE     string `json:"xe"`
	Dry    bool   `json:"dry"`
	Active bool   `json:"active"`
	// destination-write failure: "" | nulltime | strtime (the definition is switched to a query whose
	// `time` output the ingest buffer rejects) | nobuf (run through a handler without ingest buffer)
	WFail string `json:"wfail"`
}

type verifCQCase struct {
	ID  int         `json:"id"`
	Ops []verifCQOp `json:"ops"`
}

type verifCQOut struct {
	Code string `json:"code"` // completed | dry_run | failed | rej_inactive | rej_window | bad_request | crashed | ok | other:<..>
	S    int64  `json:"s"`    // window reported in the response (seconds), -1 when none
	E    int64  `json:"e"`
	LP   int64  `json:"lp"` // last_processed_time after the operation (seconds), -1 = NULL
}

type verifCQExec struct {
	Sched  bool   `json:"sched"`
	Status string `json:"status"`
	S      int64  `json:"s"`
	E      int64  `json:"e"`
}

type verifCQRow struct {
	T  int64 `json:"t"` // label (microseconds)
	WS int64 `json:"ws"`
	WE int64 `json:"we"`
}

type verifCQObs struct {
	ID    int           `json:"id"`
	Outs  []verifCQOut  `json:"outs"`
	Execs []verifCQExec `json:"execs"`
	Dest  []verifCQRow  `json:"dest"`
}

const verifCQQuery = "SELECT {start_time} AS ws, {end_time} AS we, " +
	"CASE WHEN (SELECT max(f) FROM verif_ctl) THEN error('verif-injected-failure') ELSE 0 END AS x"

// the aggregation succeeds with one row, but its time column cannot be written to the destination
const verifCQQueryNullTime = "SELECT {start_time} AS ws, {end_time} AS we, 0 AS x, CAST(NULL AS TIMESTAMP) AS time"
const verifCQQueryStrTime = "SELECT {start_time} AS ws, {end_time} AS we, 0 AS x, 'not-a-time' AS time"

type verifCQShared struct {
	root    string
	duck    *database.DuckDB
	backend *storage.LocalBackend
	buf     *ingest.ArrowBuffer
}

func verifCQOpenShared(t *testing.T, dir string) *verifCQShared {
	logger := zerolog.Nop()
	root := filepath.Join(dir, "data")
	if err := os.MkdirAll(root, 0o755); err != nil {
		t.Fatal(err)
	}
	backend, err := storage.NewLocalBackend(root, logger)
	if err != nil {
		t.Fatalf("backend: %v", err)
	}
	duck, err := database.New(&database.Config{MaxConnections: 2, MemoryLimit: "512MB", ThreadCount: 2,
		TempDirectory: filepath.Join(dir, "spill"), LocalStorageRoot: root}, logger)
	if err != nil {
		t.Fatalf("duckdb: %v", err)
	}
	if _, err := duck.Exec("CREATE TABLE verif_ctl(f BOOLEAN)"); err != nil {
		t.Fatalf("ctl: %v", err)
	}
	if _, err := duck.Exec("INSERT INTO verif_ctl VALUES (false)"); err != nil {
		t.Fatalf("ctl: %v", err)
	}
	buf := ingest.NewArrowBuffer(&config.IngestConfig{MaxBufferSize: 10000000, MaxBufferAgeMS: 36000000, Compression: "snappy",
		FlushWorkers: 4, FlushQueueSize: 64, ShardCount: 4}, backend, logger)
	return &verifCQShared{root: root, duck: duck, backend: backend, buf: buf}
}

type verifCQEnv struct {
	t      *testing.T
	sh     *verifCQShared
	db     string // database name of this history
	sqlite string
	h      *api.ContinuousQueryHandler
	sched  *CQScheduler
	app    *fiber.App
	ro     *sql.DB
	// the same query store served by a handler that has NO ingest buffer: every destination write fails
	h2     *api.ContinuousQueryHandler
	sched2 *CQScheduler
	app2   *fiber.App
	active bool
}

func (e *verifCQEnv) open() {
	t := e.t
	logger := zerolog.Nop()
	h, err := api.NewContinuousQueryHandler(e.sh.duck, e.sh.backend, e.sh.buf, &config.ContinuousQueryConfig{Enabled: true, DBPath: e.sqlite}, nil, logger)
	if err != nil {
		t.Fatalf("handler: %v", err)
	}
	e.h = h
	s, err := NewCQScheduler(&CQSchedulerConfig{CQHandler: h, Logger: logger})
	if err != nil {
		t.Fatalf("scheduler: %v", err)
	}
	e.sched = s
	app := fiber.New(fiber.Config{DisableStartupMessage: true})
	app.Use(fiberrecover.New())
	h.RegisterRoutes(app)
	e.app = app
	h2, err := api.NewContinuousQueryHandler(e.sh.duck, e.sh.backend, nil, &config.ContinuousQueryConfig{Enabled: true, DBPath: e.sqlite}, nil, logger)
	if err != nil {
		t.Fatalf("handler2: %v", err)
	}
	e.h2 = h2
	s2, err := NewCQScheduler(&CQSchedulerConfig{CQHandler: h2, Logger: logger})
	if err != nil {
		t.Fatalf("scheduler2: %v", err)
	}
	e.sched2 = s2
	app2 := fiber.New(fiber.Config{DisableStartupMessage: true})
	app2.Use(fiberrecover.New())
	h2.RegisterRoutes(app2)
	e.app2 = app2
	ro, err := sql.Open("sqlite3", e.sqlite)
	if err != nil {
		t.Fatalf("sqlite ro: %v", err)
	}
	e.ro = ro
}

func (e *verifCQEnv) close() {
	_ = e.h2.Close()
	_ = e.h.Close()
	_ = e.ro.Close()
}

func (e *verifCQEnv) call(method, path string, body interface{}) (int, map[string]interface{}) {
	return e.callOn(e.app, method, path, body)
}

func (e *verifCQEnv) callOn(app *fiber.App, method, path string, body interface{}) (int, map[string]interface{}) {
	var rd io.Reader
	if body != nil {
		b, _ := json.Marshal(body)
		rd = bytes.NewReader(b)
	}
	req := httptest.NewRequest(method, path, rd)
	req.Header.Set("Content-Type", "application/json")
	resp, err := app.Test(req, 60000)
	if err != nil {
		e.t.Fatalf("%s %s: %v", method, path, err)
	}
	raw, _ := io.ReadAll(resp.Body)
	var m map[string]interface{}
	_ = json.Unmarshal(raw, &m)
	return resp.StatusCode, m
}

func verifCQSec(v interface{}) int64 {
	s, _ := v.(string)
	tm, err := time.Parse(time.RFC3339, s)
	if err != nil {
		return -1
	}
	return tm.Unix()
}

func (e *verifCQEnv) lastProcessed(id int64) int64 {
	var v sql.NullString
	if err := e.ro.QueryRow("SELECT CAST(last_processed_time AS TEXT) FROM continuous_queries WHERE id = ?", id).Scan(&v); err != nil {
		e.t.Fatalf("read last_processed_time: %v", err)
	}
	if !v.Valid {
		return -1
	}
	tm, err := time.Parse(time.RFC3339, v.String)
	if err != nil {
		e.t.Fatalf("stored last_processed_time %q: %v", v.String, err)
	}
	return tm.Unix()
}

func (e *verifCQEnv) body(active bool) map[string]interface{} {
	return e.bodyQ(active, verifCQQuery)
}

func (e *verifCQEnv) bodyQ(active bool, query string) map[string]interface{} {
	return map[string]interface{}{"name": "verifcq", "database": e.db, "source_measurement": "src",
		"destination_measurement": "dst", "query": query, "interval": "1h", "is_active": active}
}

func (e *verifCQEnv) runCase(c verifCQCase) verifCQObs {
	obs := verifCQObs{ID: c.ID, Outs: []verifCQOut{}, Execs: []verifCQExec{}, Dest: []verifCQRow{}}
	e.open()
	e.active = true
	st, m := e.call("POST", "/api/v1/continuous_queries/", e.body(true))
	if st != 201 {
		e.t.Fatalf("create: %d %v", st, m)
	}
	id := int64(m["id"].(float64))
	path := fmt.Sprintf("/api/v1/continuous_queries/%d", id)
	for _, op := range c.Ops {
		out := verifCQOut{Code: "ok", S: -1, E: -1}
		crashed := false
		if op.K == "sched" || op.K == "manual" {
			api.VerifCQClockNS = op.Now
			if _, err := e.sh.duck.Exec(fmt.Sprintf("UPDATE verif_ctl SET f = %v", op.Fail)); err != nil {
				e.t.Fatalf("ctl: %v", err)
			}
			api.VerifCQPoint = nil
			if op.Crash != "" {
				want := op.Crash
				api.VerifCQPoint = func(name string) {
					if name == want {
						crashed = true
						panic("verif-crash@" + name)
					}
				}
			}
		}
		sched, app := e.sched, e.app
		if op.K == "sched" || op.K == "manual" {
			switch op.WFail {
			case "nulltime", "strtime":
				q := verifCQQueryNullTime
				if op.WFail == "strtime" {
					q = verifCQQueryStrTime
				}
				if st, m := e.call("PUT", path, e.bodyQ(e.active, q)); st != 200 {
					e.t.Fatalf("switch definition: %d %v", st, m)
				}
			case "nobuf":
				sched, app = e.sched2, e.app2
			}
		}
		switch op.K {
		case "sched":
			// the scheduler's per-tick body (licence and cluster-gate checks of runJob only skip ticks)
			job := &cqJob{cqID: id, cqName: "verifcq", interval: time.Hour, stopCh: make(chan struct{}), done: make(chan struct{})}
			before := e.countExecs(id)
			lpBefore := e.lastProcessed(id)
			func() {
				defer func() { _ = recover() }()
				sched.executeJob(job)
			}()
			close(job.stopCh)
			switch {
			case crashed:
				out.Code = "crashed"
			default:
				// executeJob only logs; classify from the durable effects, then confirm with ExecuteCQ's own verdict below
				after := e.countExecs(id)
				if after == before {
					out.Code = "rejected"
				} else {
					ex := e.execs(id)
					last := ex[len(ex)-1]
					out.Code, out.S, out.E = last.Status, last.S, last.E
				}
				_ = lpBefore
			}
		case "manual":
			req := map[string]interface{}{"dry_run": op.Dry}
			if op.XS != "" {
				req["start_time"] = op.XS
			}
			if op.XE != "" {
				req["end_time"] = op.XE
			}
			st, m := e.callOn(app, "POST", path+"/execute", req)
			switch {
			case crashed:
				out.Code = "crashed"
			case st == 200:
				out.Code, _ = m["status"].(string)
				out.S, out.E = verifCQSec(m["start_time"]), verifCQSec(m["end_time"])
			case st == 400:
				msg, _ := m["error"].(string)
				switch {
				case strings.Contains(msg, "not active"):
					out.Code = "rej_inactive"
				case strings.Contains(msg, "must be before"):
					out.Code = "rej_window"
				default:
					out.Code = "bad_request"
				}
			case st == 500:
				out.Code = "failed"
			default:
				out.Code = fmt.Sprintf("other:%d", st)
			}
		case "update":
			st, m := e.call("PUT", path, e.body(op.Active))
			if st != 200 {
				e.t.Fatalf("update: %d %v", st, m)
			}
			e.active = op.Active
		case "restart":
			e.close()
			e.open()
		default:
			e.t.Fatalf("unknown op %q", op.K)
		}
		api.VerifCQPoint = nil
		if crashed {
			// process death: the handler and its SQLite pool are dropped and the durable state is
			// reopened (rows already handed to the ingest buffer stay there, as WAL recovery would
			// restore them)
			e.close()
			e.open()
		}
		if (op.K == "sched" || op.K == "manual") && (op.WFail == "nulltime" || op.WFail == "strtime") {
			if st, m := e.call("PUT", path, e.body(e.active)); st != 200 {
				e.t.Fatalf("restore definition: %d %v", st, m)
			}
		}
		out.LP = e.lastProcessed(id)
		obs.Outs = append(obs.Outs, out)
	}
	obs.Execs = e.execs(id)
	e.close()
	return obs
}

func (e *verifCQEnv) countExecs(id int64) int {
	var n int
	if err := e.ro.QueryRow("SELECT count(*) FROM continuous_query_executions WHERE query_id = ?", id).Scan(&n); err != nil {
		e.t.Fatalf("count: %v", err)
	}
	return n
}

func (e *verifCQEnv) execs(id int64) []verifCQExec {
	rows, err := e.ro.Query("SELECT execution_id, status, CAST(start_time AS TEXT), CAST(end_time AS TEXT) FROM continuous_query_executions WHERE query_id = ? ORDER BY id", id)
	if err != nil {
		e.t.Fatalf("execs: %v", err)
	}
	defer rows.Close()
	out := []verifCQExec{}
	for rows.Next() {
		var eid, status, s, en string
		if err := rows.Scan(&eid, &status, &s, &en); err != nil {
			e.t.Fatalf("scan: %v", err)
		}
		out = append(out, verifCQExec{Sched: strings.HasPrefix(eid, "cq-sched-"), Status: status, S: verifCQSec(s), E: verifCQSec(en)})
	}
	return out
}

// destination rows of every history, keyed by database name (one read of everything stored)
func (sh *verifCQShared) destRows(t *testing.T) map[string][]verifCQRow {
	out := map[string][]verifCQRow{}
	if err := sh.buf.FlushAll(context.Background()); err != nil {
		t.Fatalf("flush: %v", err)
	}
	matches, _ := filepath.Glob(filepath.Join(sh.root, "*", "dst"))
	if len(matches) == 0 {
		return out
	}
	rows, err := sh.duck.Query(fmt.Sprintf("SELECT filename, epoch_us(time), ws, we FROM read_parquet('%s/*/dst/**/*.parquet', union_by_name=true, filename=true) ORDER BY 1, 2, 3, 4", sh.root))
	if err != nil {
		t.Fatalf("read destination: %v", err)
	}
	defer rows.Close()
	for rows.Next() {
		var fn, ws, we string
		var tm int64
		if err := rows.Scan(&fn, &tm, &ws, &we); err != nil {
			t.Fatalf("scan dest: %v", err)
		}
		rel, err := filepath.Rel(sh.root, fn)
		if err != nil {
			t.Fatalf("dest file %q outside root", fn)
		}
		db := strings.Split(filepath.ToSlash(rel), "/")[0]
		out[db] = append(out[db], verifCQRow{T: tm, WS: verifCQSec(ws), WE: verifCQSec(we)})
	}
	return out
}

func TestVerifCQ(t *testing.T) {
	raw, err := os.ReadFile(os.Getenv("VERIF_CASES"))
	if err != nil {
		t.Fatal(err)
	}
	var cases []verifCQCase
	if err := json.Unmarshal(raw, &cases); err != nil {
		t.Fatal(err)
	}
	base := t.TempDir()
	sh := verifCQOpenShared(t, base)
	res := make([]verifCQObs, 0, len(cases))
	for i, c := range cases {
		env := &verifCQEnv{t: t, sh: sh, db: fmt.Sprintf("vdb%d", i), sqlite: filepath.Join(base, fmt.Sprintf("cq%d.db", i))}
		res = append(res, env.runCase(c))
	}
	dest := sh.destRows(t)
	for i := range res {
		if rows, ok := dest[fmt.Sprintf("vdb%d", i)]; ok {
			res[i].Dest = rows
		}
	}
	_ = sh.buf.Close()
	_ = sh.duck.Close()
	out, _ := json.Marshal(res)
	if err := os.WriteFile(os.Getenv("VERIF_OUT"), out, 0o644); err != nil {
		t.Fatal(err)
	}
}
