//go:build verif

package license

// Verif-tagged seam (injected by go test -overlay, never part of a normal build): a Client
// holding an in-memory licence, so that licence-gated components (tiering.NewManager,
// api.RetentionHandler) can be constructed by the verification harnesses without a
// licence server.

import "github.com/rs/zerolog"

// VerifClient returns a client whose current licence is active and carries the given features.
func VerifClient(features ...string) *Client {
	return &Client{
		offline: true,
		license: &License{LicenseKey: "verif", CustomerID: "verif", Tier: TierEnterprise, Features: features, Status: "active", DaysRemaining: 365},
		stopCh:  make(chan struct{}),
		logger:  zerolog.Nop(),
	}
}
