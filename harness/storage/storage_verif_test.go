//go:build verif

// C08 correspondence harness, compiled into package storage by `go test -overlay`.
//
//   - keys:  every key is resolved by the REAL LocalBackend.validatePath (three backends with
//     different roots, one of them "/") and sanitised by the real sanitizePath;
//   - lib:   filepath.Clean / filepath.Rel on generated operands (the model's stdlib part);
//   - crash: Write / WriteReader / AppendReader of the real backend on a fresh temp dir, with
//     local.go rewritten (overlay, from the current source) to call verifPoint(...) between its
//     file-system calls; the n-th point panics (process-crash model), the harness recovers and
//     reports what is on disk.
//
// Input $VERIF_CASES, output $VERIF_OUT (JSON, byte strings hex-encoded).
package storage

import (
	"bytes"
	"context"
	"encoding/hex"
	"encoding/json"
	"errors"
	"io"
	"os"
	"path/filepath"
	"strings"
	"testing"

	"github.com/rs/zerolog"
)

// ---- crash-point machinery (referenced by the rewritten local.go) ----------------------

type verifCrash struct{ point string }

var (
	verifTarget     int // panic at the verifTarget-th point (0 = never)
	verifCount      int
	verifChunksDone int
	verifChunks     [][]byte
	verifPassed     []string // names of the points reached, in order (the last one is the crash point)
)

func verifPoint(name string) {
	if name == "chunk" {
		verifChunksDone++
	}
	verifPassed = append(verifPassed, name)
	verifCount++
	if verifTarget != 0 && verifCount == verifTarget {
		panic(verifCrash{name})
	}
}

// verifChunkedWrite replaces tmpFile.Write(data) in Write: the same bytes, written in the
// chunking chosen by the case, with a crash point after every chunk.
func verifChunkedWrite(f *os.File, data []byte) (int, error) {
	if verifChunks == nil { // not a crash case: plain write
		return f.Write(data)
	}
	total := 0
	for _, c := range verifChunks {
		n, err := f.Write(c)
		total += n
		if err != nil {
			return total, err
		}
		verifPoint("chunk")
	}
	return total, nil
}

var errVerifReader = errors.New("verif: reader failed")

// verifReader delivers the chunks one Read at a time; a crash point fires once the previous
// chunk has been written by io.Copy; it ends with EOF or with an error.
type verifReader struct {
	chunks [][]byte
	i      int
	clean  bool
}

func (r *verifReader) Read(p []byte) (int, error) {
	if r.i > 0 && r.i <= len(r.chunks) {
		verifPoint("chunk")
	}
	if r.i >= len(r.chunks) {
		r.i++
		if r.clean {
			return 0, io.EOF
		}
		return 0, errVerifReader
	}
	c := r.chunks[r.i]
	r.i++
	if len(c) > len(p) {
		panic("verif: chunk larger than the copy buffer")
	}
	copy(p, c)
	return len(c), nil
}

// ---- case types ------------------------------------------------------------------------

// In a key, the byte sequence 0x01 'B' 0x01 stands for the base name of the chosen root and
// 0x01 'P' 0x01 for the base name of its parent directory (keys aimed at the root's siblings);
// the key actually used is written back.
type verifKeyCase struct {
	Root int    `json:"root"` // index into roots
	Key  string `json:"key"`  // hex
	Obs  *string `json:"obs"` // hex of the returned path, nil = error
	San  string `json:"san"`
}

type verifLibCase struct {
	A     string  `json:"a"`
	B     string  `json:"b"`
	Clean string  `json:"clean"`
	Rel   *string `json:"rel"`
}

type verifCrashCase struct {
	Op       string   `json:"op"` // write | write_reader | append_reader
	OldFinal *string  `json:"old_final"`
	OldPart  *string  `json:"old_part"`
	Chunks   []string `json:"chunks"`
	Clean    bool     `json:"clean"`
	Size     int64    `json:"size"`
	Target   int      `json:"target"`
	// DirRemoved: history "an earlier Write cached the directory in the backend's dirCache, then the
	// directory (with everything in it) was removed behind the backend's back" precedes the operation
	DirRemoved bool `json:"dir_removed"`

	Crashed    bool     `json:"crashed"`
	Passed     []string `json:"passed"`
	Point      string   `json:"point"`
	ChunksDone int     `json:"chunks_done"`
	Returned   string  `json:"returned"` // "nil" | "err" | "" (crashed)
	ObsFinal   *string `json:"obs_final"`
	ObsPart    *string `json:"obs_part"`
	ObsTmp     *string `json:"obs_tmp"`
	TmpCount   int     `json:"tmp_count"`
	Other      []string `json:"other"`
}

// verifMethodCase: which file does every key-taking method of LocalBackend actually touch?
// A fresh "world" directory holds the storage root, an "outside" directory and the process
// working directory; canary files are planted OUTSIDE the root wherever the raw or the sanitised
// key would land if it were used unvalidated (absolute, cwd-relative, ".."), plus "<that>.part".
// Inside the root, at the path validatePath resolves the key to, the requested final / .part
// contents are planted.  Then every method is called with the key.
type verifMethodCase struct {
	Key     string  `json:"key"` // hex; 0x01 'O' 0x01 = absolute path of the outside directory
	InFinal *string `json:"in_final"`
	InPart  *string `json:"in_part"`

	Root      string  `json:"root"`
	Resolved  *string `json:"resolved"`
	Plantable bool    `json:"plantable"`
	Read      *string `json:"read"`
	ReadTo    *string `json:"read_to"`
	ReadAt    *string `json:"read_at"`
	Stat      *int64  `json:"stat"`
	Exists    *bool   `json:"exists"`
	DelOK     bool    `json:"del_ok"`
	DelFinal  *string `json:"del_final"`
	DelPart   *string `json:"del_part"`
	WriteOK   bool    `json:"write_ok"`
	AfterW    *string `json:"after_write"`
	WROK      bool    `json:"wr_ok"`
	AfterWR   *string `json:"after_wr"`
	AppOK     bool    `json:"app_ok"`
	AfterApp  *string `json:"after_app"`
	AppPart   *string `json:"after_app_part"`
	ListOK    bool    `json:"list_ok"`
	Leaked    []string `json:"leaked"`          // methods that returned canary bytes / the canary size
	Outside   []string `json:"outside_changed"` // files outside the root created, changed or removed
	Canaries  int      `json:"canaries"`
}

var verifCanary = []byte("CANARY-outside-the-storage-root-0123456789") // 42 bytes

func verifSnapshot(world, root string) map[string]string {
	m := map[string]string{}
	_ = filepath.WalkDir(world, func(p string, d os.DirEntry, err error) error {
		if err != nil {
			return nil
		}
		if p == root {
			return filepath.SkipDir
		}
		if d.IsDir() {
			m[p+"/"] = ""
		} else if b, err := os.ReadFile(p); err == nil {
			m[p] = string(b)
		}
		return nil
	})
	return m
}

func runMethodCase(t *testing.T, c *verifMethodCase) {
	verifTarget, verifChunks = 0, nil
	world := t.TempDir()
	root, out, cwd := filepath.Join(world, "root"), filepath.Join(world, "out"), filepath.Join(world, "cwd", "sub")
	for _, d := range []string{out, cwd} {
		if err := os.MkdirAll(d, 0o700); err != nil {
			t.Fatal(err)
		}
	}
	if err := os.Chdir(cwd); err != nil {
		t.Fatal(err)
	}
	b, err := NewLocalBackend(root, zerolog.Nop())
	if err != nil {
		t.Fatal(err)
	}
	root = b.basePath
	c.Root = hex.EncodeToString([]byte(root))
	key := strings.ReplaceAll(string(unhex(t, c.Key)), "\x01O\x01", out)
	c.Key = hex.EncodeToString([]byte(key))
	plant := func(target string) {
		cl := filepath.Clean(target)
		if !strings.HasPrefix(cl, world+"/") || cl == root || strings.HasPrefix(cl, root+"/") || strings.ContainsRune(cl, 0) {
			return
		}
		for _, p := range []string{cl, cl + ".part"} {
			if os.MkdirAll(filepath.Dir(p), 0o700) == nil {
				if st, err := os.Stat(p); err == nil && st.IsDir() {
					continue
				}
				if os.WriteFile(p, verifCanary, 0o600) == nil {
					c.Canaries++
				}
			}
		}
	}
	for _, base := range []string{key, sanitizePath(key), strings.TrimSuffix(key, "/")} {
		if base == "" {
			continue
		}
		if filepath.IsAbs(base) {
			plant(base)
		} else {
			plant(filepath.Join(cwd, base))
		}
	}
	for _, d := range []string{out, cwd, filepath.Dir(cwd)} {
		plant(filepath.Join(d, "victim"))
	}
	before := verifSnapshot(world, root)

	ctx := context.Background()
	p, verr := b.validatePath(key)
	if verr == nil {
		c.Resolved = hexp([]byte(p))
		if p != root && os.MkdirAll(filepath.Dir(p), 0o700) == nil {
			if st, err := os.Stat(p); err != nil || !st.IsDir() {
				c.Plantable = true
			}
		}
	}
	if c.Plantable {
		if c.InFinal != nil {
			_ = os.WriteFile(p, unhex(t, *c.InFinal), 0o600)
		}
		if c.InPart != nil {
			_ = os.WriteFile(p+".part", unhex(t, *c.InPart), 0o600)
		}
	}
	leak := func(method string, data []byte) {
		if bytes.Contains(data, []byte("CANARY")) {
			c.Leaked = append(c.Leaked, method)
		}
	}
	if data, err := b.Read(ctx, key); err == nil {
		c.Read = hexp(data)
		leak("Read", data)
	}
	var w1 bytes.Buffer
	if err := b.ReadTo(ctx, key, &w1); err == nil {
		c.ReadTo = hexp(w1.Bytes())
	}
	leak("ReadTo", w1.Bytes())
	var w2 bytes.Buffer
	if err := b.ReadToAt(ctx, key, &w2, 0); err == nil {
		c.ReadAt = hexp(w2.Bytes())
	}
	leak("ReadToAt", w2.Bytes())
	if n, err := b.StatFile(ctx, key); err == nil {
		c.Stat = &n
		if n == int64(len(verifCanary)) {
			c.Leaked = append(c.Leaked, "StatFile")
		}
	}
	if ok, err := b.Exists(ctx, key); err == nil {
		c.Exists = &ok
	}
	c.ListOK = true
	if ents, err := b.List(ctx, key); err == nil {
		for _, e := range ents {
			full := filepath.Join(root, e)
			if strings.HasPrefix(e, "..") || !(full == root || strings.HasPrefix(full, root+"/")) {
				c.ListOK = false
			}
		}
	}
	c.DelOK = b.Delete(ctx, key) == nil
	if verr == nil {
		c.DelFinal, c.DelPart = readOpt(p), readOpt(p+".part")
	}
	c.WriteOK = b.Write(ctx, key, []byte("W")) == nil
	if verr == nil {
		c.AfterW = readOpt(p)
	}
	c.WROK = b.WriteReader(ctx, key, bytes.NewReader([]byte("RR")), 2) == nil
	if verr == nil {
		c.AfterWR = readOpt(p)
	}
	if c.Plantable {
		_ = os.WriteFile(p+".part", []byte("P"), 0o600)
	}
	c.AppOK = b.AppendReader(ctx, key, bytes.NewReader([]byte("A")), 1) == nil
	if verr == nil {
		c.AfterApp, c.AppPart = readOpt(p), readOpt(p+".part")
	}
	after := verifSnapshot(world, root)
	for k, v := range before {
		if v2, ok := after[k]; !ok || v2 != v {
			c.Outside = append(c.Outside, k)
		}
	}
	for k := range after {
		if _, ok := before[k]; !ok {
			c.Outside = append(c.Outside, k)
		}
	}
}

type verifStorageIO struct {
	Methods []verifMethodCase `json:"methods"`
	Roots []string         `json:"roots"` // out: the absolute roots (hex)
	Keys  []verifKeyCase   `json:"keys"`
	Lib   []verifLibCase   `json:"lib"`
	Crash []verifCrashCase `json:"crash"`
}

func unhex(t *testing.T, s string) []byte {
	b, err := hex.DecodeString(s)
	if err != nil {
		t.Fatalf("bad hex %q: %v", s, err)
	}
	return b
}

func hexp(b []byte) *string { s := hex.EncodeToString(b); return &s }

func readOpt(p string) *string {
	b, err := os.ReadFile(p)
	if err != nil {
		return nil
	}
	return hexp(b)
}

func runCrashCase(t *testing.T, c *verifCrashCase) {
	root := t.TempDir()
	b, err := NewLocalBackend(root, zerolog.Nop())
	if err != nil {
		t.Fatal(err)
	}
	dir := filepath.Join(b.basePath, "d")
	final := filepath.Join(dir, "f")
	if c.OldFinal != nil || c.OldPart != nil {
		if err := os.MkdirAll(dir, 0o700); err != nil {
			t.Fatal(err)
		}
	}
	if c.OldFinal != nil {
		if err := os.WriteFile(final, unhex(t, *c.OldFinal), 0o600); err != nil {
			t.Fatal(err)
		}
	}
	if c.OldPart != nil {
		if err := os.WriteFile(final+".part", unhex(t, *c.OldPart), 0o600); err != nil {
			t.Fatal(err)
		}
	}
	if c.DirRemoved {
		verifTarget, verifChunks = 0, nil
		if err := b.Write(context.Background(), "d/warm", []byte("x")); err != nil {
			t.Fatal(err)
		}
		if err := os.RemoveAll(dir); err != nil {
			t.Fatal(err)
		}
	}
	chunks := make([][]byte, len(c.Chunks))
	var all []byte
	for i, h := range c.Chunks {
		chunks[i] = unhex(t, h)
		all = append(all, chunks[i]...)
	}
	verifTarget, verifCount, verifChunksDone, verifChunks, verifPassed = c.Target, 0, 0, chunks, nil
	func() {
		defer func() {
			if r := recover(); r != nil {
				vc, ok := r.(verifCrash)
				if !ok {
					panic(r)
				}
				c.Crashed, c.Point = true, vc.point
			}
		}()
		var err error
		switch c.Op {
		case "write":
			err = b.Write(context.Background(), "d/f", all)
		case "write_reader":
			err = b.WriteReader(context.Background(), "d/f", &verifReader{chunks: chunks, clean: c.Clean}, c.Size)
		case "append_reader":
			err = b.AppendReader(context.Background(), "d/f", &verifReader{chunks: chunks, clean: c.Clean}, c.Size)
		default:
			t.Fatalf("unknown op %q", c.Op)
		}
		if err == nil {
			c.Returned = "nil"
		} else {
			c.Returned = "err"
		}
	}()
	verifTarget = 0
	c.ChunksDone = verifChunksDone
	c.Passed = append([]string{}, verifPassed...)
	c.ObsFinal = readOpt(final)
	c.ObsPart = readOpt(final + ".part")
	ents, _ := os.ReadDir(dir)
	for _, e := range ents {
		n := e.Name()
		switch {
		case n == "f" || n == "f.part":
		case strings.HasPrefix(n, ".arc-") && strings.HasSuffix(n, ".tmp"):
			c.TmpCount++
			c.ObsTmp = readOpt(filepath.Join(dir, n))
		default:
			c.Other = append(c.Other, n)
		}
	}
}

func TestVerifStorage(t *testing.T) {
	raw, err := os.ReadFile(os.Getenv("VERIF_CASES"))
	if err != nil {
		t.Fatal(err)
	}
	var in verifStorageIO
	if err := json.Unmarshal(raw, &in); err != nil {
		t.Fatal(err)
	}
	base := t.TempDir()
	rootDirs := []string{filepath.Join(base, "r"), filepath.Join(base, "a..b", "...", "r t"), "/"}
	var backends []*LocalBackend
	in.Roots = nil
	for _, rd := range rootDirs {
		b, err := NewLocalBackend(rd, zerolog.Nop())
		if err != nil {
			t.Fatal(err)
		}
		backends = append(backends, b)
		in.Roots = append(in.Roots, hex.EncodeToString([]byte(b.basePath)))
	}
	for i := range in.Keys {
		c := &in.Keys[i]
		key := string(unhex(t, c.Key))
		key = strings.ReplaceAll(key, "\x01B\x01", filepath.Base(backends[c.Root].basePath))
		key = strings.ReplaceAll(key, "\x01P\x01", filepath.Base(filepath.Dir(backends[c.Root].basePath)))
		c.Key = hex.EncodeToString([]byte(key))
		p, err := backends[c.Root].validatePath(key)
		if err == nil {
			c.Obs = hexp([]byte(p))
		} else {
			c.Obs = nil
		}
		c.San = hex.EncodeToString([]byte(sanitizePath(key)))
	}
	for i := range in.Lib {
		c := &in.Lib[i]
		a, b := string(unhex(t, c.A)), string(unhex(t, c.B))
		c.Clean = hex.EncodeToString([]byte(filepath.Clean(a)))
		if r, err := filepath.Rel(a, b); err == nil {
			c.Rel = hexp([]byte(r))
		} else {
			c.Rel = nil
		}
	}
	for i := range in.Crash {
		runCrashCase(t, &in.Crash[i])
	}
	if len(in.Methods) > 0 {
		wd, err := os.Getwd()
		if err != nil {
			t.Fatal(err)
		}
		for i := range in.Methods {
			runMethodCase(t, &in.Methods[i])
		}
		if err := os.Chdir(wd); err != nil {
			t.Fatal(err)
		}
	}
	out, _ := json.Marshal(in)
	if err := os.WriteFile(os.Getenv("VERIF_OUT"), out, 0o644); err != nil {
		t.Fatal(err)
	}
}
