//go:build verif

// C08 correspondence harness (second half), compiled into package edgesync: the REAL key
// validators that sit in front of the storage backend for cluster-manifest entries
// (raft.ValidateManifestPath) and for edge-sync uploads (validateSyncPath, validateSpokeID,
// NamespacedPath).  Keys are hex-encoded byte strings.
package edgesync

import (
	"encoding/hex"
	"encoding/json"
	"os"
	"testing"

	"github.com/basekick-labs/arc/internal/cluster/raft"
)

type verifKeyValidators struct {
	Key      string `json:"key"`
	Manifest bool   `json:"manifest"`
	Sync     bool   `json:"sync"`
	Spoke    bool   `json:"spoke"`
	NS       string `json:"ns"`
}

func TestVerifKeyValidators(t *testing.T) {
	raw, err := os.ReadFile(os.Getenv("VERIF_CASES"))
	if err != nil {
		t.Fatal(err)
	}
	var cases []verifKeyValidators
	if err := json.Unmarshal(raw, &cases); err != nil {
		t.Fatal(err)
	}
	for i := range cases {
		c := &cases[i]
		kb, err := hex.DecodeString(c.Key)
		if err != nil {
			t.Fatal(err)
		}
		key := string(kb)
		c.Manifest = raft.ValidateManifestPath(key) == nil
		c.Sync = validateSyncPath(key) == nil
		c.Spoke = validateSpokeID(key) == nil
		c.NS = hex.EncodeToString([]byte(NamespacedPath("sp0ke", key)))
	}
	out, _ := json.Marshal(cases)
	if err := os.WriteFile(os.Getenv("VERIF_OUT"), out, 0o644); err != nil {
		t.Fatal(err)
	}
}
