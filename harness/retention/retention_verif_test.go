//go:build verif

package api

// C11 harness (injected into package api by go test -overlay).  Real RetentionHandler
// (licence satisfied by license.VerifClient) on a real LocalBackend with real DuckDB;
// policies are created through the real POST /api/v1/retention handler and executed
// through ExecutePolicy (the scheduler's entry point) or POST /:id/execute (real or dry run).
// tools/props/C11.py rewrites the CURRENT retention.go: time.Now() -> verifRetentionNow()
// (controlled clock, so that file maxima can sit exactly on the cutoff) and
// h.storage.Delete(...) -> verifRetentionDelete(h.storage, ...) (injected storage faults).

import (
	"bytes"
	"context"
	"database/sql"
	"encoding/json"
	"errors"
	"fmt"
	"io"
	"net/http/httptest"
	"os"
	"path/filepath"
	"sort"
	"strings"
	"testing"
	"time"

	"github.com/basekick-labs/arc/internal/config"
	"github.com/basekick-labs/arc/internal/database"
	"github.com/basekick-labs/arc/internal/license"
	"github.com/basekick-labs/arc/internal/storage"
	"github.com/gofiber/fiber/v2"
	"github.com/rs/zerolog"
)

type rvFile struct {
	Key   string  `json:"key"`
	Kind  string  `json:"kind"` // parquet | notime | garbage | empty | other
	Times []int64 `json:"times"`
}

type rvCase struct {
	ID            int      `json:"id"`
	Files         []rvFile `json:"files"`
	Database      string   `json:"database"`
	Measurement   *string  `json:"measurement"`
	RetentionDays int      `json:"retention_days"`
	BufferDays    int      `json:"buffer_days"`
	NowUS         int64    `json:"now_us"`
	Mode          string   `json:"mode"` // scheduler | http | dry
	Fail          []string `json:"fail"`
}

type rvObs struct {
	ID           int      `json:"id"`
	Keys         []string `json:"keys"`
	Rows         int64    `json:"rows"`
	FilesDeleted int      `json:"files_deleted"`
	Measurements []string `json:"measurements"`
	Cutoff       string   `json:"cutoff"`
	Err          string   `json:"err,omitempty"`
}

var verifRetentionClock time.Time
var verifRetentionFail map[string]bool

func verifRetentionNow() time.Time { return verifRetentionClock }

func verifRetentionDelete(b storage.Backend, ctx context.Context, path string) error {
	if verifRetentionFail[path] {
		return errors.New("verif: injected storage failure")
	}
	return b.Delete(ctx, path)
}

func rvWrite(duck *sql.DB, full string, f rvFile) error {
	if err := os.MkdirAll(filepath.Dir(full), 0o755); err != nil {
		return err
	}
	lit := "'" + strings.ReplaceAll(full, "'", "''") + "'"
	switch f.Kind {
	case "garbage", "other":
		return os.WriteFile(full, []byte("this is not a parquet file"), 0o644)
	case "notime":
		_, err := duck.Exec("COPY (SELECT 1::BIGINT AS v) TO " + lit + " (FORMAT PARQUET)")
		return err
	case "empty":
		_, err := duck.Exec(`COPY (SELECT make_timestamptz(0) AS "time", 1::BIGINT AS v WHERE false) TO ` + lit + " (FORMAT PARQUET)")
		return err
	}
	var vals []string
	for i, t := range f.Times {
		vals = append(vals, fmt.Sprintf("(make_timestamptz(%d), %d::BIGINT)", t, i))
	}
	_, err := duck.Exec(fmt.Sprintf(`COPY (SELECT * FROM (VALUES %s) AS t("time", v)) TO %s (FORMAT PARQUET)`, strings.Join(vals, ", "), lit))
	return err
}

func rvRunCase(t *testing.T, base string, plain *sql.DB, duck *database.DuckDB, c rvCase) (obs rvObs) {
	obs.ID = c.ID
	// the production DuckDB is sandboxed to LocalStorageRoot: every case root lives under it,
	// and the fixtures are written by a separate, unrestricted DuckDB
	root := filepath.Join(base, fmt.Sprintf("case%d", c.ID))
	if err := os.MkdirAll(root, 0o755); err != nil {
		obs.Err = err.Error()
		return
	}
	defer os.RemoveAll(root)
	backend, err := storage.NewLocalBackend(root, zerolog.Nop())
	if err != nil {
		obs.Err = err.Error()
		return
	}
	for _, f := range c.Files {
		if err := rvWrite(plain, filepath.Join(root, filepath.FromSlash(f.Key)), f); err != nil {
			obs.Err = "fixture " + f.Key + ": " + err.Error()
			return
		}
	}
	cfg := &config.RetentionConfig{Enabled: true, DBPath: filepath.Join(t.TempDir(), "retention.db")}
	h, err := NewRetentionHandler(backend, duck, cfg, license.VerifClient(), nil, zerolog.Nop())
	if err != nil {
		obs.Err = err.Error()
		return
	}
	defer h.Close()
	app := fiber.New()
	h.RegisterRoutes(app)
	post := func(url string, body interface{}) (int, []byte, error) {
		raw, _ := json.Marshal(body)
		req := httptest.NewRequest("POST", url, bytes.NewReader(raw))
		req.Header.Set("Content-Type", "application/json")
		resp, err := app.Test(req, -1)
		if err != nil {
			return 0, nil, err
		}
		defer resp.Body.Close()
		b, _ := io.ReadAll(resp.Body)
		return resp.StatusCode, b, nil
	}
	verifRetentionClock = time.UnixMicro(c.NowUS).UTC()
	verifRetentionFail = map[string]bool{}
	for _, k := range c.Fail {
		verifRetentionFail[k] = true
	}
	status, body, err := post("/api/v1/retention", RetentionPolicyRequest{Name: fmt.Sprintf("p%d", c.ID), Database: c.Database, Measurement: c.Measurement,
		RetentionDays: c.RetentionDays, BufferDays: c.BufferDays, IsActive: true})
	if err != nil || status != 201 {
		obs.Err = fmt.Sprintf("create policy: status %d %s %v", status, body, err)
		return
	}
	var pol RetentionPolicy
	if err := json.Unmarshal(body, &pol); err != nil {
		obs.Err = err.Error()
		return
	}
	var resp ExecuteRetentionResponse
	switch c.Mode {
	case "scheduler":
		r, err := h.ExecutePolicy(context.Background(), pol.ID)
		if err != nil {
			obs.Err = "execute: " + err.Error()
			return
		}
		resp = *r
	default:
		status, body, err := post(fmt.Sprintf("/api/v1/retention/%d/execute", pol.ID), ExecuteRetentionRequest{DryRun: c.Mode == "dry", Confirm: c.Mode != "dry"})
		if err != nil || status != 200 {
			obs.Err = fmt.Sprintf("execute: status %d %s %v", status, body, err)
			return
		}
		if err := json.Unmarshal(body, &resp); err != nil {
			obs.Err = err.Error()
			return
		}
	}
	obs.Rows, obs.FilesDeleted, obs.Measurements, obs.Cutoff = resp.DeletedCount, resp.FilesDeleted, resp.AffectedMeasurements, resp.CutoffDate
	sort.Strings(obs.Measurements)
	obs.Keys = []string{}
	filepath.Walk(root, func(p string, info os.FileInfo, err error) error {
		if err == nil && !info.IsDir() {
			rel, _ := filepath.Rel(root, p)
			obs.Keys = append(obs.Keys, filepath.ToSlash(rel))
		}
		return nil
	})
	sort.Strings(obs.Keys)
	return
}

func TestVerifRetention(t *testing.T) {
	in, outp := os.Getenv("VERIF_CASES"), os.Getenv("VERIF_OUT")
	if in == "" || outp == "" {
		t.Skip("VERIF_CASES / VERIF_OUT not set")
	}
	raw, err := os.ReadFile(in)
	if err != nil {
		t.Fatal(err)
	}
	var cases []rvCase
	if err := json.Unmarshal(raw, &cases); err != nil {
		t.Fatal(err)
	}
	base := t.TempDir()
	duck, err := database.New(&database.Config{MemoryLimit: "256MB", ThreadCount: 1, MaxConnections: 2, LocalStorageRoot: base}, zerolog.Nop())
	if err != nil {
		t.Fatal(err)
	}
	defer duck.Close()
	plain, err := sql.Open("duckdb", "?threads=1")
	if err != nil {
		t.Fatal(err)
	}
	defer plain.Close()
	out := []rvObs{}
	for _, c := range cases {
		out = append(out, rvRunCase(t, base, plain, duck, c))
	}
	enc, err := json.Marshal(out)
	if err != nil {
		t.Fatal(err)
	}
	if err := os.WriteFile(outp, enc, 0o644); err != nil {
		t.Fatal(err)
	}
}
