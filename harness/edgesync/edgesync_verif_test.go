//go:build verif

// C27 correspondence harness.  Drives the REAL Agent + SQLite Ledger on the spoke side and the
// REAL Receiver + HubIndex + Reconciler over a LocalBackend on the hub side, joined by an
// in-memory loopback transport that injects the scripted per-call faults of a case (drop
// before the hub, answer lost after the hub processed the call, truncated / corrupted body,
// backpressure, scripted conflict, RegisterFile failure).  Spoke crashes are produced at the
// verifAt(...) points which the overlay inserts into agent.go in front of every durable step
// (ledger write or transport call): when the crash budget of a run is used up the calling
// goroutine exits and nothing of that run executes afterwards; the next run re-opens the
// ledger and builds a new Agent (restart).  After every event the harness reports the ledger
// rows, the transition log kept by SQLite triggers, the hub's files / staged partials /
// receipts and the number of promotes per path.
package edgesync

import (
	"bytes"
	"context"
	"crypto/sha256"
	"database/sql"
	"encoding/hex"
	"encoding/json"
	"errors"
	"fmt"
	"io"
	"os"
	"path/filepath"
	"runtime"
	"strings"
	"sync"
	"testing"
	"time"

	"github.com/basekick-labs/arc/internal/storage"
	_ "github.com/mattn/go-sqlite3"
	"github.com/rs/zerolog"
)

// ---- controlled clock (time.Now() in ledger.go is rewritten to verifNow()) -----------------

var verifClockMu sync.Mutex
var verifClock = time.Date(2026, 8, 20, 0, 0, 0, 0, time.UTC)

func verifNow() time.Time {
	verifClockMu.Lock()
	defer verifClockMu.Unlock()
	verifClock = verifClock.Add(time.Millisecond)
	return verifClock
}

func verifAdvance(d time.Duration) {
	verifClockMu.Lock()
	defer verifClockMu.Unlock()
	verifClock = verifClock.Add(d)
}

// ---- crash points ---------------------------------------------------------------------------

type verifProc struct {
	mu        sync.Mutex
	remaining int // -1: never crash
	dead      bool
	crashed   chan struct{}
	points    []string
}

type verifProcKey struct{}

// verifAt is called (through the overlay) in front of every durable step of the agent.  The
// process a call belongs to travels in the context, so goroutines left over from a crashed
// run can never act on behalf of a later one.
func verifAt(name string, ctx context.Context) context.Context {
	p, _ := ctx.Value(verifProcKey{}).(*verifProc)
	if p == nil {
		return ctx
	}
	p.mu.Lock()
	if p.dead {
		p.mu.Unlock()
		runtime.Goexit()
	}
	if p.remaining == 0 {
		p.dead = true
		close(p.crashed)
		p.mu.Unlock()
		runtime.Goexit()
	}
	if p.remaining > 0 {
		p.remaining--
	}
	p.points = append(p.points, name)
	p.mu.Unlock()
	return ctx
}

// ---- hub backend wrapper: counts promotes (writes outside the staging area) -------------------

type verifHubBackend struct {
	*storage.LocalBackend
	mu      sync.Mutex
	commits map[string]int
}

func (b *verifHubBackend) WriteReader(ctx context.Context, p string, r io.Reader, size int64) error {
	err := b.LocalBackend.WriteReader(ctx, p, r, size)
	if err == nil && !strings.HasPrefix(p, StagingPrefix+"/") {
		b.mu.Lock()
		b.commits[p]++
		b.mu.Unlock()
	}
	return err
}

// ---- spoke backend wrapper: transient Exists errors ---------------------------------------------

type verifSpokeBackend struct {
	*storage.LocalBackend
	existsErr bool
}

func (b *verifSpokeBackend) Exists(ctx context.Context, p string) (bool, error) {
	if b.existsErr {
		return false, errors.New("verif: transient storage error (stat: input/output error)")
	}
	return b.LocalBackend.Exists(ctx, p)
}

// ---- faulting loopback transport -------------------------------------------------------------

type verifFault struct {
	K       string `json:"k"` // deliver | retry | drop | existserr | backpressure | conflict
	Reached bool   `json:"reached"` // existserr: the hub processed a clean delivery before the transfer failed
	IdxFail bool   `json:"idxfail"` // the hub index refuses writes while the hub processes this request
	Mark    bool   `json:"mark"` // retry: the hub's compaction marks the receipt between the two deliveries
	Keep    int    `json:"keep"`
	Flip    int    `json:"flip"`
	Lost    bool   `json:"lost"`
	RegFail bool   `json:"regfail"`
	D       string `json:"d"` // conflict: hex content whose digest the scripted 409 carries
}

type verifTransport struct {
	mu      sync.Mutex
	rcv     *Receiver
	rec     *Reconciler
	spokeID string
	puts    []verifFault
	recF    string
	regFail *bool
	calls   []string
	mark    func(path string)
	// idxReadOnly makes every write to the hub's receipt index fail (PRAGMA query_only; the hub
	// database is pinned to one connection so that the pragma governs every statement)
	idxReadOnly func(on bool)
	spoke       *verifSpokeBackend
}

func (t *verifTransport) Reconcile(ctx context.Context, hubID string, pending []*LedgerEntry) (*ReconcileResult, error) {
	if t.recF == "drop" {
		return nil, errors.New("edgesync: reconcile request: connection refused")
	}
	entries := make([]ReconcileEntry, 0, len(pending))
	for _, e := range pending {
		entries = append(entries, ReconcileEntry{Path: e.Path, SHA256: e.SHA256, SizeBytes: e.SizeBytes})
	}
	if t.recF == "idxfail" {
		t.idxReadOnly(true)
	}
	res, err := t.rec.Reconcile(ctx, t.spokeID, entries)
	if t.recF == "idxfail" {
		t.idxReadOnly(false)
	}
	if t.recF == "lost" {
		return nil, errors.New("edgesync: reconcile request: response lost")
	}
	if err != nil {
		if errors.Is(err, ErrReconcileTooLarge) {
			return nil, &ReconcileTooLargeError{MaxEntries: t.rec.MaxEntries()}
		}
		return nil, fmt.Errorf("edgesync: reconcile failed with 503: hub temporarily unable to reconcile")
	}
	return res, nil
}

func (t *verifTransport) PutFile(ctx context.Context, hubID string, entry *LedgerEntry, body io.Reader, offset int64) (*PutResult, error) {
	t.mu.Lock()
	f := verifFault{K: "deliver", Keep: -1, Flip: -1}
	if len(t.puts) > 0 {
		f = t.puts[0]
		t.puts = t.puts[1:]
	}
	t.calls = append(t.calls, f.K)
	t.mu.Unlock()
	// the Exists fault covers the agent's handling of THIS call's failure, whatever made it fail
	t.spoke.existsErr = f.K == "existserr"

	data, err := io.ReadAll(body)
	if err != nil {
		return nil, fmt.Errorf("edgesync: file request: %w", err)
	}
	switch f.K {
	case "drop":
		return nil, errors.New("edgesync: file request: connection reset by peer")
	case "existserr":
		// the transfer fails and, while the agent handles that, the spoke's own storage answers
		// Exists with a transient error
		if f.Reached {
			_, _ = t.rcv.Receive(ctx, t.spokeID, entry.Path, entry.SHA256, entry.SizeBytes, offset, bytes.NewReader(data))
		}
		return nil, errors.New("edgesync: file request: connection reset by peer")
	case "backpressure":
		return BackpressureResult(time.Second), nil
	case "conflict":
		raw, _ := hex.DecodeString(f.D)
		sum := sha256.Sum256(raw)
		return &PutResult{Outcome: OutcomeConflict, TheirSHA256: hex.EncodeToString(sum[:])}, nil
	}
	full := data
	if f.Keep >= 0 && f.Keep < len(data) {
		data = data[:f.Keep]
	}
	if f.Flip >= 0 && f.Flip < len(data) {
		data = append([]byte(nil), data...)
		if data[f.Flip] == 255 {
			data[f.Flip] = 0
		} else {
			data[f.Flip]++
		}
	}
	if f.K == "retry" {
		// transport-level retry: the first delivery reaches the hub, its answer is lost, and the
		// whole request is sent again without a new reconcile
		_, _ = t.rcv.Receive(ctx, t.spokeID, entry.Path, entry.SHA256, entry.SizeBytes, offset, bytes.NewReader(data))
		if f.Mark {
			t.mark(entry.Path)
		}
		res, err := t.rcv.Receive(ctx, t.spokeID, entry.Path, entry.SHA256, entry.SizeBytes, offset, bytes.NewReader(full))
		if f.Lost {
			return nil, errors.New("edgesync: file request: response lost")
		}
		if err != nil {
			return nil, fmt.Errorf("edgesync: file transfer failed with 503: hub temporarily unable to accept this file")
		}
		return res, nil
	}
	*t.regFail = f.RegFail
	if f.IdxFail {
		t.idxReadOnly(true)
	}
	res, err := t.rcv.Receive(ctx, t.spokeID, entry.Path, entry.SHA256, entry.SizeBytes, offset, bytes.NewReader(data))
	if f.IdxFail {
		t.idxReadOnly(false)
	}
	*t.regFail = false
	if f.Lost {
		return nil, errors.New("edgesync: file request: response lost")
	}
	if err != nil {
		return nil, fmt.Errorf("edgesync: file transfer failed with 503: hub temporarily unable to accept this file")
	}
	return res, nil
}

// ---- case format --------------------------------------------------------------------------------

type verifEvent struct {
	Op    string       `json:"op"`
	P     int          `json:"p"`
	B     string       `json:"b"`
	Crash int          `json:"crash"`
	Rec   string       `json:"rec"`
	Puts  []verifFault `json:"puts"`
}

type verifCase struct {
	ID          int          `json:"id"`
	MaxAttempts int          `json:"max_attempts"`
	Paths       []string     `json:"paths"` // index = path id - 1
	Events      []verifEvent `json:"events"`
}

type verifRow struct {
	ID    int64  `json:"id"`
	P     int    `json:"p"`
	SHA   string `json:"sha"`
	Size  int64  `json:"size"`
	PT    int64  `json:"pt"`
	State string `json:"state"`
	Att   int64  `json:"att"`
	Sent  int64  `json:"sent"`
	Dism  bool   `json:"dism"`
}

type verifRcpt struct {
	SHA       string `json:"sha"`
	Compacted bool   `json:"compacted"`
}

type verifObs struct {
	Led     []verifRow            `json:"led"`
	Final   map[string]*string    `json:"final"`
	Part    map[string]*string    `json:"part"`
	Rcpt    map[string]*verifRcpt `json:"rcpt"`
	Commits map[string]int        `json:"commits"`
	Trans   [][3]string           `json:"trans"`
	Stray   []string              `json:"stray"`
	Crashed bool                  `json:"crashed"`
	RunErr  string                `json:"run_err"`
	Points  []string              `json:"points"`
	Calls   []string              `json:"calls"`
	Result  *RunResult            `json:"result,omitempty"`
}

type verifOut struct {
	ID  int        `json:"id"`
	Obs []verifObs `json:"obs"`
}

const verifSpoke = "rocket-01"

func verifRunCase(t *testing.T, c *verifCase) verifOut {
	ctx := context.Background()
	dir := t.TempDir()
	spokeLocal, err := storage.NewLocalBackend(filepath.Join(dir, "spoke"), zerolog.Nop())
	if err != nil {
		t.Fatal(err)
	}
	spokeBackend := &verifSpokeBackend{LocalBackend: spokeLocal}
	hubLocal, err := storage.NewLocalBackend(filepath.Join(dir, "hub"), zerolog.Nop())
	if err != nil {
		t.Fatal(err)
	}
	hubBackend := &verifHubBackend{LocalBackend: hubLocal, commits: map[string]int{}}

	open := func(name string) *sql.DB {
		db, err := sql.Open("sqlite3", filepath.Join(dir, name))
		if err != nil {
			t.Fatal(err)
		}
		if _, err := db.Exec("PRAGMA synchronous = OFF"); err != nil {
			t.Fatal(err)
		}
		return db
	}
	spokeDB, hubDB := open("spoke.db"), open("hub.db")
	hubDB.SetMaxOpenConns(1)
	idxReadOnly := func(on bool) {
		v := "OFF"
		if on {
			v = "ON"
		}
		if _, err := hubDB.Exec("PRAGMA query_only = " + v); err != nil {
			t.Fatal(err)
		}
	}
	defer spokeDB.Close()
	defer hubDB.Close()

	ledger, err := NewLedger(spokeDB, zerolog.Nop())
	if err != nil {
		t.Fatal(err)
	}
	if _, err := spokeDB.Exec(`
		CREATE TABLE verif_trans(seq INTEGER PRIMARY KEY AUTOINCREMENT, path TEXT, old TEXT, new TEXT);
		CREATE TRIGGER verif_upd AFTER UPDATE OF state ON sync_ledger WHEN OLD.state <> NEW.state
		  BEGIN INSERT INTO verif_trans(path, old, new) VALUES (NEW.path, OLD.state, NEW.state); END;
		CREATE TRIGGER verif_ins AFTER INSERT ON sync_ledger
		  BEGIN INSERT INTO verif_trans(path, old, new) VALUES (NEW.path, NULL, NEW.state); END;
		CREATE TRIGGER verif_del AFTER DELETE ON sync_ledger
		  BEGIN INSERT INTO verif_trans(path, old, new) VALUES (OLD.path, OLD.state, NULL); END;`); err != nil {
		t.Fatal(err)
	}

	index, err := NewHubIndex(hubDB, zerolog.Nop())
	if err != nil {
		t.Fatal(err)
	}
	regFail := false
	receiver, err := NewReceiver(ReceiverConfig{
		Backend: hubBackend, Index: index, Logger: zerolog.Nop(),
		RegisterFile: func(ctx context.Context, f *ReceivedFile) error {
			if regFail {
				return errors.New("verif: manifest write failed (raft election)")
			}
			return nil
		},
	})
	if err != nil {
		t.Fatal(err)
	}
	reconciler, err := NewReconciler(ReconcilerConfig{Index: index, Backend: hubBackend})
	if err != nil {
		t.Fatal(err)
	}

	pid := map[string]int{}
	for i, p := range c.Paths {
		pid[p] = i + 1
	}
	lastSeq := int64(0)

	observe := func(o *verifObs) {
		rows, err := spokeDB.Query(`SELECT id, path, sha256, size_bytes, partition_time, state, attempts, bytes_sent,
			COALESCE(last_error, '') FROM sync_ledger ORDER BY id`)
		if err != nil {
			t.Fatal(err)
		}
		o.Led = []verifRow{}
		for rows.Next() {
			var r verifRow
			var p, lastErr string
			var pt time.Time
			if err := rows.Scan(&r.ID, &p, &r.SHA, &r.Size, &pt, &r.State, &r.Att, &r.Sent, &lastErr); err != nil {
				t.Fatal(err)
			}
			r.P = pid[p]
			r.PT = pt.UTC().Unix() / 3600
			r.Dism = lastErr == NoteOperatorDismissed
			o.Led = append(o.Led, r)
		}
		rows.Close()

		o.Final, o.Part, o.Rcpt, o.Commits = map[string]*string{}, map[string]*string{}, map[string]*verifRcpt{}, map[string]int{}
		hubRoot := filepath.Join(dir, "hub")
		expected := map[string]bool{}
		for i, p := range c.Paths {
			k := fmt.Sprint(i + 1)
			fp := filepath.Join(hubRoot, verifSpoke, filepath.FromSlash(p))
			pp := filepath.Join(hubRoot, StagingPrefix, verifSpoke, filepath.FromSlash(p)+".part")
			expected[fp], expected[pp] = true, true
			if b, err := os.ReadFile(fp); err == nil {
				s := hex.EncodeToString(b)
				o.Final[k] = &s
			} else {
				o.Final[k] = nil
			}
			if b, err := os.ReadFile(pp); err == nil {
				s := hex.EncodeToString(b)
				o.Part[k] = &s
			} else {
				o.Part[k] = nil
			}
			o.Rcpt[k] = nil
			o.Commits[k] = hubBackend.commits[NamespacedPath(verifSpoke, p)]
		}
		o.Stray = []string{}
		_ = filepath.Walk(hubRoot, func(p string, info os.FileInfo, err error) error {
			if err == nil && !info.IsDir() && !expected[p] {
				rel, _ := filepath.Rel(hubRoot, p)
				o.Stray = append(o.Stray, rel)
			}
			return nil
		})
		rr, err := hubDB.Query(`SELECT source_path, sha256, compacted_at IS NOT NULL FROM sync_received WHERE spoke_id = ?`, verifSpoke)
		if err != nil {
			t.Fatal(err)
		}
		for rr.Next() {
			var p string
			var rc verifRcpt
			if err := rr.Scan(&p, &rc.SHA, &rc.Compacted); err != nil {
				t.Fatal(err)
			}
			if id, ok := pid[p]; ok {
				cp := rc
				o.Rcpt[fmt.Sprint(id)] = &cp
			} else {
				o.Stray = append(o.Stray, "receipt:"+p)
			}
		}
		rr.Close()

		tr, err := spokeDB.Query(`SELECT seq, path, COALESCE(old, ''), COALESCE(new, '') FROM verif_trans WHERE seq > ? ORDER BY seq`, lastSeq)
		if err != nil {
			t.Fatal(err)
		}
		o.Trans = [][3]string{}
		for tr.Next() {
			var seq int64
			var p, a, b string
			if err := tr.Scan(&seq, &p, &a, &b); err != nil {
				t.Fatal(err)
			}
			lastSeq = seq
			o.Trans = append(o.Trans, [3]string{fmt.Sprint(pid[p]), a, b})
		}
		tr.Close()
	}

	// what the hub's compaction of a received namespace does when it consumes one input: the
	// consumed-inputs observer marks the receipt (an UPDATE: only an existing receipt); the raw
	// file is deleted later ("hubdeleteraw")
	consumed := map[string]bool{}
	markCompacted := func(p string) {
		final := NamespacedPath(verifSpoke, p)
		ex, _ := hubBackend.Exists(ctx, final)
		held, err := index.Lookup(ctx, verifSpoke, []string{p})
		if err != nil {
			t.Fatal(err)
		}
		if _, ok := held[p]; ok && ex {
			if err := index.MarkCompacted(ctx, verifSpoke, []string{p}); err != nil {
				t.Fatal(err)
			}
			consumed[p] = true
		}
	}

	out := verifOut{ID: c.ID}
	for _, ev := range c.Events {
		var o verifObs
		switch ev.Op {
		case "create":
			raw, _ := hex.DecodeString(ev.B)
			if err := spokeBackend.Write(ctx, c.Paths[ev.P-1], raw); err != nil {
				t.Fatal(err)
			}
		case "vanish":
			if err := spokeBackend.Delete(ctx, c.Paths[ev.P-1]); err != nil {
				t.Fatal(err)
			}
		case "prune":
			verifAdvance(40 * 24 * time.Hour)
			if _, err := ledger.PruneSynced(ctx, 1); err != nil {
				t.Fatal(err)
			}
		case "requeue":
			if _, err := ledger.RequeueFailed(ctx, DefaultHubID, ""); err != nil {
				t.Fatal(err)
			}
		case "dismiss":
			if _, err := ledger.DismissFailed(ctx, DefaultHubID, ""); err != nil {
				t.Fatal(err)
			}
		case "hubmark":
			markCompacted(c.Paths[ev.P-1])
		case "hubdeleteraw":
			// the (possibly deferred) source deletion of a file the hub's compaction consumed
			p := c.Paths[ev.P-1]
			if consumed[p] {
				if err := hubBackend.Delete(ctx, NamespacedPath(verifSpoke, p)); err != nil {
					t.Fatal(err)
				}
			}
		case "hubremove":
			// a genuine removal (retention, operator); files consumed by compaction are not its business
			p := c.Paths[ev.P-1]
			if !consumed[p] {
				if err := hubBackend.Delete(ctx, NamespacedPath(verifSpoke, p)); err != nil {
					t.Fatal(err)
				}
			}
		case "run":
			// restart: a new process re-opens the ledger over the same database
			ledger, err = NewLedger(spokeDB, zerolog.Nop())
			if err != nil {
				t.Fatal(err)
			}
			tr := &verifTransport{rcv: receiver, rec: reconciler, spokeID: verifSpoke, puts: ev.Puts, recF: ev.Rec, regFail: &regFail, mark: markCompacted, idxReadOnly: idxReadOnly, spoke: spokeBackend}
			agent, err := NewAgent(AgentConfig{Ledger: ledger, Transport: tr, Backend: spokeBackend, HubID: DefaultHubID,
				SpokeID: verifSpoke, MaxAttempts: c.MaxAttempts, MaxConcurrent: 1, BatchSize: 0, Logger: zerolog.Nop()})
			if err != nil {
				t.Fatal(err)
			}
			proc := &verifProc{remaining: ev.Crash, crashed: make(chan struct{})}
			runCtx := context.WithValue(ctx, verifProcKey{}, proc)
			done := make(chan struct{})
			var res *RunResult
			var runErr error
			finished := false
			go func() {
				defer close(done)
				res, runErr = agent.Run(runCtx)
				finished = true
			}()
			select {
			case <-done:
				if finished {
					if runErr != nil {
						o.RunErr = runErr.Error()
					}
					o.Result = res
				} else {
					o.Crashed = true
				}
			case <-proc.crashed:
				o.Crashed = true
				// let the dying goroutine run its deferred calls
				time.Sleep(2 * time.Millisecond)
			case <-time.After(60 * time.Second):
				t.Fatalf("case %d: agent run did not finish", c.ID)
			}
			spokeBackend.existsErr = false
			proc.mu.Lock()
			proc.dead = true
			o.Points = append([]string{}, proc.points...)
			proc.mu.Unlock()
			tr.mu.Lock()
			o.Calls = append([]string{}, tr.calls...)
			tr.mu.Unlock()
		default:
			t.Fatalf("unknown op %q", ev.Op)
		}
		observe(&o)
		out.Obs = append(out.Obs, o)
	}
	spokeBackend.Close()
	hubLocal.Close()
	return out
}

func TestVerifEdgeSync(t *testing.T) {
	raw, err := os.ReadFile(os.Getenv("VERIF_CASES"))
	if err != nil {
		t.Fatal(err)
	}
	var cases []verifCase
	if err := json.Unmarshal(raw, &cases); err != nil {
		t.Fatal(err)
	}
	outs := make([]verifOut, 0, len(cases))
	for i := range cases {
		outs = append(outs, verifRunCase(t, &cases[i]))
	}
	data, _ := json.Marshal(outs)
	if err := os.WriteFile(os.Getenv("VERIF_OUT"), data, 0o644); err != nil {
		t.Fatal(err)
	}
}
