//go:build verif

// C14 / C16 correspondence harness (area SqlAst).  Runs every statement of $VERIF_CASES through
// the REAL HTTP handlers of the production query path (fiber app.Test on the routes registered
// by QueryHandler.RegisterRoutes; build tags "verif duckdb_arrow") against a sandboxed DuckDB
// (database.New => lockdownExternalAccess) over Parquet files planted under t.TempDir():
//
//   * the caller is an RBAC token; the RBACChecker is a recording stub that allows exactly the
//     databases listed per case and records every (database, measurement, permission) asked;
//   * the executed text is taken from the handler's own debug log line ("Executing query",
//     field converted_sql) - no source rewriting;
//   * what DuckDB really opens for the executed text is measured by hiding one measurement
//     directory at a time and re-running the executed text on the same DuckDB ("No files found");
//   * the raw response body is searched for the canary markers of every measurement;
//   * C16: the same SQL text is run on plain DuckDB instances that have views over exactly the
//     same files (one instance per default schema = per header value) through the same JSON
//     streamer, and both results are reported.
//
// Everything written stays inside t.TempDir().  "{ROOT}" in a statement is replaced by the
// storage base path; the base path is replaced by "/R" in everything reported.
package api

import (
	"bytes"
	"context"
	"encoding/json"
	"fmt"
	"io"
	"net/http/httptest"
	"net/url"
	"os"
	"path/filepath"
	"sort"
	"strings"
	"sync"
	"testing"
	"time"

	"github.com/basekick-labs/arc/internal/auth"
	"github.com/basekick-labs/arc/internal/database"
	"github.com/basekick-labs/arc/internal/storage"
	"github.com/gofiber/fiber/v2"
	"github.com/rs/zerolog"
)

type verifSAFile struct {
	Path   string `json:"path"`   // db/measurement/YYYY/MM/DD/HH/name.parquet
	Select string `json:"select"` // SELECT ... producing the rows
}

type verifSAView struct {
	Inst   string `json:"inst"`   // reference instance ("" = no header, else header value)
	Schema string `json:"schema"` // "" = main
	Name   string `json:"name"`
	Glob   string `json:"glob"` // relative to the base path
}

type verifSACase struct {
	SQL     string   `json:"sql"`
	Hdr     string   `json:"hdr"`
	XHdr    string   `json:"xhdr"`    // ep=measurement only: the x-arc-database header (hdr is the database parameter there)
	Ep      string   `json:"ep"`      // query | estimate | arrow | msgpack | measurement
	Meas    string   `json:"meas"`    // ep=measurement: GET /api/v1/query/<meas>?database=<hdr>&where=<sql>&order_by=id
	Allow   []string `json:"allow"`   // databases the RBAC stub allows ("*" = everything)
	Reads   bool     `json:"reads"`   // measure what DuckDB opens for the executed text
	Ref     bool     `json:"ref"`     // run the same text on the plain DuckDB with views
	Twice   bool     `json:"twice"`   // send the request a second time (transform cache) and compare
	NoToken bool     `json:"notoken"` // no token info in the context
	// Pre: requests sent to the SAME handler instance immediately before this one (their responses are
	// discarded): sequences within the transform-cache TTL.  Everything reported is about THIS request.
	Pre []verifSAPre `json:"pre"`
}

type verifSAPre struct {
	SQL   string   `json:"sql"`
	Hdr   string   `json:"hdr"`
	Allow []string `json:"allow"`
}

type verifSAIn struct {
	Files    []verifSAFile `json:"files"`
	Measures []string      `json:"measures"` // "db/measurement" directories (for hiding and markers)
	Markers  []string      `json:"markers"`  // strings searched in the raw response
	Views    []verifSAView `json:"views"`
	Cases    []verifSACase `json:"cases"`
}

type verifSAOut struct {
	Status   int             `json:"status"`
	Success  bool            `json:"success"`
	Err      string          `json:"err,omitempty"`
	Columns  []string        `json:"columns,omitempty"`
	Data     json.RawMessage `json:"data,omitempty"`
	RowCount int             `json:"row_count"`
	Checked  [][3]string     `json:"checked"`
	Executed *string         `json:"executed"` // nil: the handler never reached execution
	Seen     []string        `json:"seen"`     // markers found in the raw response
	ReadSet  []string        `json:"readset"`  // measurements DuckDB opens for the executed text
	ReadErr  string          `json:"readerr,omitempty"`
	RefOK    bool            `json:"ref_ok"`
	RefErr   string          `json:"ref_err,omitempty"`
	RefCols  []string        `json:"ref_columns,omitempty"`
	RefData  json.RawMessage `json:"ref_data,omitempty"`
	Again    string          `json:"again,omitempty"` // "" or a description of how the second response differed
	BodyLen  int             `json:"body_len"`
}

// ---- recording RBAC stub ---------------------------------------------------------------

type verifSARBAC struct {
	mu      sync.Mutex
	allow   map[string]bool
	checked [][3]string
}

func (r *verifSARBAC) IsRBACEnabled() bool { return true }

func (r *verifSARBAC) decide(req *auth.PermissionCheckRequest) *auth.PermissionCheckResult {
	r.checked = append(r.checked, [3]string{strings.Clone(req.Database), strings.Clone(req.Measurement), strings.Clone(req.Permission)})
	ok := r.allow["*"] || r.allow[req.Database]
	if ok {
		return &auth.PermissionCheckResult{Allowed: true, Source: "verif"}
	}
	return &auth.PermissionCheckResult{Allowed: false, Reason: "verif: database not allowed"}
}

func (r *verifSARBAC) CheckPermission(req *auth.PermissionCheckRequest) *auth.PermissionCheckResult {
	r.mu.Lock()
	defer r.mu.Unlock()
	return r.decide(req)
}

func (r *verifSARBAC) CheckPermissionsBatch(reqs []*auth.PermissionCheckRequest) []*auth.PermissionCheckResult {
	r.mu.Lock()
	defer r.mu.Unlock()
	out := make([]*auth.PermissionCheckResult, len(reqs))
	for i, q := range reqs {
		out[i] = r.decide(q)
	}
	return out
}

func (r *verifSARBAC) reset(allow []string) {
	r.mu.Lock()
	defer r.mu.Unlock()
	r.allow = map[string]bool{}
	for _, a := range allow {
		r.allow[a] = true
	}
	r.checked = [][3]string{}
}

type verifSALog struct {
	mu  sync.Mutex
	buf bytes.Buffer
}

func (l *verifSALog) Write(p []byte) (int, error) {
	l.mu.Lock()
	defer l.mu.Unlock()
	return l.buf.Write(p)
}

func (l *verifSALog) take() string {
	l.mu.Lock()
	defer l.mu.Unlock()
	s := l.buf.String()
	l.buf.Reset()
	return s
}

func verifSAExecuted(logs string) *string {
	for _, line := range strings.Split(logs, "\n") {
		if strings.Contains(line, "\"Querying measurement\"") {
			var m map[string]interface{}
			if json.Unmarshal([]byte(line), &m) == nil {
				if s, ok := m["sql"].(string); ok {
					return &s
				}
			}
		}
		if !strings.Contains(line, "\"Executing query\"") && !strings.Contains(line, "\"Executing Arrow query\"") {
			continue
		}
		var m map[string]interface{}
		if json.Unmarshal([]byte(line), &m) == nil {
			if s, ok := m["converted_sql"].(string); ok {
				return &s
			}
		}
	}
	return nil
}

type verifSAResp struct {
	Success  bool            `json:"success"`
	Columns  []string        `json:"columns"`
	Data     json.RawMessage `json:"data"`
	RowCount int             `json:"row_count"`
	Error    string          `json:"error"`
}

func TestVerifSqlAst(t *testing.T) {
	raw, err := os.ReadFile(os.Getenv("VERIF_CASES"))
	if err != nil {
		t.Fatal(err)
	}
	var in verifSAIn
	if err := json.Unmarshal(raw, &in); err != nil {
		t.Fatal(err)
	}
	outs := make([]verifSAOut, len(in.Cases))
	if len(in.Cases) > 0 {
		verifSARun(t, &in, outs)
	}
	b, err := json.Marshal(outs)
	if err != nil {
		t.Fatal(err)
	}
	if err := os.WriteFile(os.Getenv("VERIF_OUT"), b, 0o644); err != nil {
		t.Fatal(err)
	}
}

func verifSARun(t *testing.T, in *verifSAIn, outs []verifSAOut) {
	dir := t.TempDir()
	base := filepath.Join(dir, "data")
	low := strings.ToLower(base)
	for _, bad := range []string{"from", "join", "read_parquet", "with ", "'", "\"", "`", "$", "--", "/*", " "} {
		if strings.Contains(low, bad) {
			t.Fatalf("temporary directory %q contains %q: the statements would not mean what the model reads", base, bad)
		}
	}
	if err := os.MkdirAll(base, 0o755); err != nil {
		t.Fatal(err)
	}
	quiet := zerolog.New(io.Discard).Level(zerolog.Disabled)
	cfg := func() *database.Config {
		return &database.Config{MemoryLimit: "512MB", ThreadCount: 2, MaxConnections: 2, LocalStorageRoot: base,
			TempDirectory: filepath.Join(dir, "tmp")}
	}
	if err := os.MkdirAll(filepath.Join(dir, "tmp"), 0o755); err != nil {
		t.Fatal(err)
	}
	db, err := database.New(cfg(), quiet)
	if err != nil {
		t.Fatalf("database.New: %v", err)
	}
	defer db.Close()
	backend, err := storage.NewLocalBackend(base, quiet)
	if err != nil {
		t.Fatalf("NewLocalBackend: %v", err)
	}
	for _, f := range in.Files {
		p := filepath.Join(base, filepath.FromSlash(f.Path))
		if err := os.MkdirAll(filepath.Dir(p), 0o755); err != nil {
			t.Fatal(err)
		}
		if _, err := db.Exec(fmt.Sprintf("COPY (%s) TO '%s' (FORMAT PARQUET)", f.Select, p)); err != nil {
			t.Fatalf("writing %s: %v", f.Path, err)
		}
	}

	logw := &verifSALog{}
	logger := zerolog.New(logw).Level(zerolog.DebugLevel)
	h := NewQueryHandler(db, backend, logger, 0, 0)
	rbac := &verifSARBAC{}
	h.SetAuthAndRBAC(nil, rbac)
	withToken := true
	app := fiber.New(fiber.Config{DisableStartupMessage: true, BodyLimit: 16 << 20})
	app.Use(func(c *fiber.Ctx) error {
		if withToken {
			c.Locals("token_info", &auth.TokenInfo{ID: 7, Name: "verif-caller"})
		}
		return c.Next()
	})
	h.RegisterRoutes(app)

	// reference instances: plain DuckDB + views over the same files, one per default schema
	type refInst struct {
		db *database.DuckDB
		h  *QueryHandler
	}
	refs := map[string]*refInst{}
	needRef := false
	for _, c := range in.Cases {
		if c.Ref {
			needRef = true
		}
	}
	if needRef {
		for _, v := range in.Views {
			ri, ok := refs[v.Inst]
			if !ok {
				rdb, err := database.New(cfg(), quiet)
				if err != nil {
					t.Fatalf("reference database.New: %v", err)
				}
				defer rdb.Close()
				ri = &refInst{db: rdb, h: NewQueryHandler(rdb, backend, quiet, 0, 0)}
				refs[v.Inst] = ri
			}
			name := `"` + v.Name + `"`
			if v.Schema != "" {
				if _, err := ri.db.Exec(`CREATE SCHEMA IF NOT EXISTS "` + v.Schema + `"`); err != nil {
					t.Fatalf("reference schema %s: %v", v.Schema, err)
				}
				name = `"` + v.Schema + `".` + name
			}
			q := fmt.Sprintf("CREATE VIEW %s AS SELECT * FROM read_parquet('%s', union_by_name=true)", name, base+"/"+v.Glob)
			if _, err := ri.db.Exec(q); err != nil {
				t.Fatalf("reference view %s: %v", name, err)
			}
		}
	}
	refApp := fiber.New(fiber.Config{DisableStartupMessage: true, BodyLimit: 16 << 20})
	refApp.Post("/ref", func(c *fiber.Ctx) error {
		ri := refs[c.Get("x-verif-inst")]
		if ri == nil {
			return c.Status(500).JSON(fiber.Map{"success": false, "error": "verif: no reference instance"})
		}
		start := time.Now()
		sqlText := string(c.Body())
		if arrowJSONQueryFunc == nil {
			return c.Status(500).JSON(fiber.Map{"success": false, "error": "verif: built without duckdb_arrow"})
		}
		_, handled := arrowJSONQueryFunc(ri.h, c, context.Background(), nil, sqlText, false, 0, start, start.UTC().Format(time.RFC3339), nil, nil, nil)
		if !handled {
			return c.Status(500).JSON(fiber.Map{"success": false, "error": "verif: arrow path declined"})
		}
		return nil
	})

	clean := func(s string) string { return strings.ReplaceAll(s, base, "/R") }
	send := func(c *verifSACase, sqlText string) (int, []byte, error) {
		var req *[]byte
		body, _ := json.Marshal(map[string]string{"sql": sqlText})
		req = &body
		path := "/api/v1/query"
		switch c.Ep {
		case "estimate":
			path = "/api/v1/query/estimate"
		case "arrow":
			path = "/api/v1/query/arrow"
		case "msgpack":
			path = "/api/v1/query/msgpack"
		}
		r := httptest.NewRequest("POST", path, bytes.NewReader(*req))
		r.Header.Set("Content-Type", "application/json")
		if c.Ep == "measurement" {
			q := url.Values{}
			if c.Hdr != "" {
				q.Set("database", c.Hdr)
			}
			if sqlText != "" {
				q.Set("where", sqlText)
			}
			q.Set("order_by", "id")
			r = httptest.NewRequest("GET", "/api/v1/query/"+url.PathEscape(c.Meas)+"?"+q.Encode(), nil)
			if c.XHdr != "" {
				r.Header.Set("x-arc-database", c.XHdr)
			}
		} else if c.Hdr != "" {
			r.Header.Set("x-arc-database", c.Hdr)
		}
		resp, err := app.Test(r, -1)
		if err != nil {
			return 0, nil, err
		}
		defer resp.Body.Close()
		b, err := io.ReadAll(resp.Body)
		return resp.StatusCode, b, err
	}

	for i := range in.Cases {
		c := &in.Cases[i]
		o := &outs[i]
		sqlText := strings.ReplaceAll(c.SQL, "{ROOT}", base)
		withToken = true
		for _, pre := range c.Pre {
			rbac.reset(pre.Allow)
			pc := verifSACase{SQL: pre.SQL, Hdr: pre.Hdr, Ep: c.Ep}
			if _, _, err := send(&pc, strings.ReplaceAll(pre.SQL, "{ROOT}", base)); err != nil {
				t.Fatalf("pre-request failed: %v", err)
			}
		}
		rbac.reset(c.Allow)
		withToken = !c.NoToken
		logw.take()
		status, body, err := send(c, sqlText)
		if err != nil {
			o.Err = "verif: request failed: " + err.Error()
			continue
		}
		o.Status = status
		o.BodyLen = len(body)
		o.Checked = [][3]string{}
		for _, ch := range rbac.checked {
			o.Checked = append(o.Checked, [3]string{clean(ch[0]), clean(ch[1]), ch[2]})
		}
		if ex := verifSAExecuted(logw.take()); ex != nil {
			s := clean(*ex)
			o.Executed = &s
		}
		for _, m := range in.Markers {
			if bytes.Contains(body, []byte(m)) {
				o.Seen = append(o.Seen, m)
			}
		}
		var r verifSAResp
		if json.Unmarshal(body, &r) == nil {
			o.Success = r.Success
			o.Columns = r.Columns
			o.Data = r.Data
			o.RowCount = r.RowCount
			o.Err = clean(r.Error)
		} else if c.Ep == "arrow" || c.Ep == "msgpack" {
			o.Success = status == 200
		}
		if status != 400 && len(o.Err) > 400 {
			o.Err = o.Err[:400] // (validation messages quote the offending name: kept whole)
		}
		if len(o.Data) > 1<<16 {
			o.Data = nil
		}

		if c.Twice {
			rbac.reset(c.Allow)
			logw.take()
			st2, body2, err2 := send(c, sqlText)
			var r2 verifSAResp
			_ = json.Unmarshal(body2, &r2)
			ex2 := verifSAExecuted(logw.take())
			switch {
			case err2 != nil:
				o.Again = "second request failed: " + err2.Error()
			case st2 != status:
				o.Again = fmt.Sprintf("status %d then %d", status, st2)
			case (ex2 == nil) != (o.Executed == nil) || (ex2 != nil && clean(*ex2) != *o.Executed):
				o.Again = "executed text differs on the second request"
			case !bytes.Equal(r2.Data, r.Data) && !strings.Contains(strings.ToLower(sqlText), "order by"):
				// unordered results may legitimately come back in another order; compared as multisets by the caller
			}
		}

		// what does DuckDB open for the executed text?
		if c.Reads && o.Executed != nil {
			real := strings.ReplaceAll(*o.Executed, "/R", base)
			if rows, err := db.Query(real); err != nil {
				o.ReadErr = clean(err.Error())
				if len(o.ReadErr) > 300 {
					o.ReadErr = o.ReadErr[:300]
				}
			} else {
				rows.Close()
			}
			o.ReadSet = []string{}
			for _, m := range in.Measures {
				if strings.HasPrefix(o.ReadErr, "Parser Error") || strings.Contains(o.ReadErr, ": Parser Error") {
					break // refused before anything is bound or opened: the error cannot depend on a directory
				}
				src := filepath.Join(base, filepath.FromSlash(m))
				hid := filepath.Join(dir, "hidden_"+strings.ReplaceAll(m, "/", "_"))
				if err := os.Rename(src, hid); err != nil {
					t.Fatalf("hide %s: %v", m, err)
				}
				rows, err := db.Query(real)
				changed := false
				if err != nil {
					changed = (o.ReadErr == "") || (clean(err.Error()) != o.ReadErr && strings.Contains(err.Error(), "No files found"))
				} else {
					rows.Close()
				}
				if err := os.Rename(hid, src); err != nil {
					t.Fatalf("unhide %s: %v", m, err)
				}
				if changed {
					o.ReadSet = append(o.ReadSet, m)
				}
			}
			sort.Strings(o.ReadSet)
		}

		if c.Ref {
			r := httptest.NewRequest("POST", "/ref", strings.NewReader(sqlText))
			r.Header.Set("x-verif-inst", c.Hdr)
			resp, err := refApp.Test(r, -1)
			if err != nil {
				o.RefErr = "verif: reference request failed: " + err.Error()
			} else {
				b, _ := io.ReadAll(resp.Body)
				resp.Body.Close()
				var rr verifSAResp
				if json.Unmarshal(b, &rr) != nil {
					o.RefErr = "verif: undecodable reference response"
				} else {
					o.RefOK = rr.Success && resp.StatusCode == 200
					o.RefErr = clean(rr.Error)
					if len(o.RefErr) > 400 {
						o.RefErr = o.RefErr[:400]
					}
					o.RefCols = rr.Columns
					o.RefData = rr.Data
				}
			}
		}
	}
}
