//go:build verif

// C20 correspondence harness: runs operation sequences on the REAL RBACManager and
// AuthManager over one SQLite file (foreign_keys=ON), in direct mode and in cluster-apply
// mode (a stand-in for the Raft FSM validates like the FSM does, stamps ids and calls the
// real Apply* materialisers on this node).  After every permission check the same request
// is also put to a FRESH RBACManager (empty caches, single-request path) on the same database: that is the
// oracle.  time.Now() in rbac_manager.go is verifRbacNow() (controlled clock, generated
// overlay); the licence comes from license.NewVerifClient (injected, tag verif).
package auth

import (
	"context"
	"encoding/json"
	"errors"
	"fmt"
	"os"
	"path/filepath"
	"reflect"
	"strings"
	"sync/atomic"
	"testing"
	"time"

	"github.com/basekick-labs/arc/internal/license"
	"github.com/rs/zerolog"
)

var verifRbacClockNS atomic.Int64

func verifRbacNow() time.Time { return time.Unix(0, verifRbacClockNS.Load()).UTC() }

type vrTI struct {
	ID      int64 `json:"id"`
	Perms   []int `json:"perms"`
	Enabled bool  `json:"enabled"`
}

type vrReq struct {
	TI   *vrTI  `json:"ti"`
	DB   string `json:"db"`
	Meas string `json:"meas"`
	Perm int    `json:"perm"`
}

type vrOp struct {
	Op    string  `json:"op"` // mut | check | batch | tick | drop_perm | drop_tok | janitor
	Kind  string  `json:"kind,omitempty"`
	ID    int64   `json:"id,omitempty"`
	A     int64   `json:"a,omitempty"` // parent / token
	B     int64   `json:"b,omitempty"` // team (memberships)
	En    bool    `json:"en,omitempty"`
	Pat   *string `json:"pat,omitempty"`
	Perms []int   `json:"perms,omitempty"`
	Req   *vrReq  `json:"req,omitempty"`
	Reqs  []vrReq `json:"reqs,omitempty"`
	Dt    int64   `json:"dt,omitempty"`
}

type vrCase struct {
	ID      int    `json:"id"`
	Mode    string `json:"mode"` // direct | cluster
	Enabled bool   `json:"enabled"`
	TTL     int64  `json:"ttl"`
	Max     int    `json:"max"` // MaxCacheSize of the long-lived manager (0: practically unbounded)
	T0      int64  `json:"t0"`
	Ops     []vrOp `json:"ops"`
}

type vrDec struct {
	Allowed bool   `json:"allowed"`
	Source  string `json:"source"`
}

type vrOut struct {
	Kind  string  `json:"kind"` // mut | dec | none
	OK    bool    `json:"ok"`
	ID    int64   `json:"id"`
	Err   string  `json:"err,omitempty"`
	Decs  []vrDec `json:"decs,omitempty"`
	Fresh []vrDec `json:"fresh,omitempty"`
}

type vrCaseOut struct {
	ID    int     `json:"id"`
	Outs  []vrOut `json:"outs"`
	Fatal string  `json:"fatal,omitempty"`
}

var vrPermNames = map[int]string{1: "admin", 2: "read", 3: "write", 4: "delete", 5: "custom", 6: "reader"}

func vrPerms(codes []int) []string {
	out := make([]string, 0, len(codes))
	for _, c := range codes {
		if n, ok := vrPermNames[c]; ok {
			out = append(out, n)
		} else {
			out = append(out, fmt.Sprintf("perm%d", c))
		}
	}
	return out
}

// ---- stand-in for the Raft FSM ------------------------------------------------------------
type vrProposer struct {
	am *AuthManager
	rm *RBACManager
	// per-table id counters (never reused), like the AUTOINCREMENT columns of direct mode
	nTok, nOrg, nTeam, nRole, nMP, nMem int64
}

func (p *vrProposer) IsLeader() bool { return true }

func (p *vrProposer) exists(table string, id int64) bool {
	var one int
	err := p.am.db.QueryRow("SELECT 1 FROM "+table+" WHERE id = ?", id).Scan(&one)
	return err == nil
}

func (p *vrProposer) Propose(ctx context.Context, cmdType uint8, payload []byte, timeout time.Duration) error {
	has := func(l []string, s string) bool {
		for _, x := range l {
			if x == s {
				return true
			}
		}
		return false
	}
	switch cmdType {
	case ProposalCommandCreateToken:
		var c struct {
			Token clusterTokenEntryWire `json:"token"`
		}
		if err := json.Unmarshal(payload, &c); err != nil {
			return err
		}
		p.nTok++
		return p.am.ApplyCreateToken(ClusterTokenEntry{ID: p.nTok, Name: c.Token.Name, Description: c.Token.Description,
			Permissions: c.Token.Permissions, TokenHash: c.Token.TokenHash, TokenPrefix: c.Token.TokenPrefix,
			CreatedAtUnixNano: c.Token.CreatedAtUnixNano, ExpiresAtUnixNano: c.Token.ExpiresAtUnixNano, Enabled: true})
	case ProposalCommandDeleteToken:
		var c struct {
			ID int64 `json:"id"`
		}
		if err := json.Unmarshal(payload, &c); err != nil {
			return err
		}
		if !p.exists("api_tokens", c.ID) {
			return errors.New("token not found")
		}
		return p.am.ApplyDeleteToken(c.ID)
	case ProposalCommandCreateOrganization:
		var c createOrganizationPayloadWire
		if err := json.Unmarshal(payload, &c); err != nil {
			return err
		}
		p.nOrg++
		o := c.Organization
		return p.rm.ApplyCreateOrganization(ClusterOrganizationEntry{ID: p.nOrg, Name: o.Name, Description: o.Description,
			CreatedAtUnixNano: o.CreatedAtUnixNano, UpdatedAtUnixNano: o.UpdatedAtUnixNano, Enabled: true})
	case ProposalCommandUpdateOrganization:
		var c updateOrganizationPayloadWire
		if err := json.Unmarshal(payload, &c); err != nil {
			return err
		}
		cur, err := p.rm.GetOrganization(c.ID)
		if err != nil {
			return err
		}
		if cur == nil {
			return errors.New("organization not found")
		}
		e := ClusterOrganizationEntry{ID: c.ID, Name: cur.Name, Description: cur.Description, UpdatedAtUnixNano: c.UpdatedAtUnixNano, Enabled: cur.Enabled}
		if has(c.ChangedFields, "name") {
			e.Name = c.Name
		}
		if has(c.ChangedFields, "description") {
			e.Description = c.Description
		}
		if has(c.ChangedFields, "enabled") {
			e.Enabled = c.Enabled
		}
		return p.rm.ApplyUpdateOrganization(e)
	case ProposalCommandDeleteOrganization:
		var c deleteOrganizationPayloadWire
		if err := json.Unmarshal(payload, &c); err != nil {
			return err
		}
		return p.rm.ApplyDeleteOrganization(c.ID)
	case ProposalCommandCreateTeam:
		var c createTeamPayloadWire
		if err := json.Unmarshal(payload, &c); err != nil {
			return err
		}
		if !p.exists("rbac_organizations", c.Team.OrganizationID) {
			return errors.New("organization not found")
		}
		p.nTeam++
		t := c.Team
		return p.rm.ApplyCreateTeam(ClusterTeamEntry{ID: p.nTeam, OrganizationID: t.OrganizationID, Name: t.Name, Description: t.Description,
			CreatedAtUnixNano: t.CreatedAtUnixNano, UpdatedAtUnixNano: t.UpdatedAtUnixNano, Enabled: true})
	case ProposalCommandUpdateTeam:
		var c updateTeamPayloadWire
		if err := json.Unmarshal(payload, &c); err != nil {
			return err
		}
		cur, err := p.rm.GetTeam(c.ID)
		if err != nil {
			return err
		}
		if cur == nil {
			return errors.New("team not found")
		}
		e := ClusterTeamEntry{ID: c.ID, OrganizationID: cur.OrganizationID, Name: cur.Name, Description: cur.Description,
			UpdatedAtUnixNano: c.UpdatedAtUnixNano, Enabled: cur.Enabled}
		if has(c.ChangedFields, "name") {
			e.Name = c.Name
		}
		if has(c.ChangedFields, "description") {
			e.Description = c.Description
		}
		if has(c.ChangedFields, "enabled") {
			e.Enabled = c.Enabled
		}
		return p.rm.ApplyUpdateTeam(e)
	case ProposalCommandDeleteTeam:
		var c deleteTeamPayloadWire
		if err := json.Unmarshal(payload, &c); err != nil {
			return err
		}
		return p.rm.ApplyDeleteTeam(c.ID)
	case ProposalCommandCreateRole:
		var c createRolePayloadWire
		if err := json.Unmarshal(payload, &c); err != nil {
			return err
		}
		if !p.exists("rbac_teams", c.Role.TeamID) {
			return errors.New("team not found")
		}
		p.nRole++
		r := c.Role
		return p.rm.ApplyCreateRole(ClusterRoleEntry{ID: p.nRole, TeamID: r.TeamID, DatabasePattern: r.DatabasePattern,
			Permissions: r.Permissions, CreatedAtUnixNano: r.CreatedAtUnixNano})
	case ProposalCommandUpdateRole:
		var c updateRolePayloadWire
		if err := json.Unmarshal(payload, &c); err != nil {
			return err
		}
		cur, err := p.rm.GetRole(c.ID)
		if err != nil {
			return err
		}
		if cur == nil {
			return errors.New("role not found")
		}
		e := ClusterRoleEntry{ID: c.ID, TeamID: cur.TeamID, DatabasePattern: cur.DatabasePattern, Permissions: strings.Join(cur.Permissions, ",")}
		if has(c.ChangedFields, "database_pattern") {
			e.DatabasePattern = c.DatabasePattern
		}
		if has(c.ChangedFields, "permissions") {
			e.Permissions = c.Permissions
		}
		return p.rm.ApplyUpdateRole(e)
	case ProposalCommandDeleteRole:
		var c deleteRolePayloadWire
		if err := json.Unmarshal(payload, &c); err != nil {
			return err
		}
		return p.rm.ApplyDeleteRole(c.ID)
	case ProposalCommandCreateMeasurementPermission:
		var c createMeasurementPermissionPayloadWire
		if err := json.Unmarshal(payload, &c); err != nil {
			return err
		}
		m := c.MeasurementPermission
		if !p.exists("rbac_roles", m.RoleID) {
			return errors.New("role not found")
		}
		p.nMP++
		return p.rm.ApplyCreateMeasurementPermission(ClusterMeasurementPermissionEntry{ID: p.nMP, RoleID: m.RoleID,
			MeasurementPattern: m.MeasurementPattern, Permissions: m.Permissions, CreatedAtUnixNano: m.CreatedAtUnixNano})
	case ProposalCommandDeleteMeasurementPermission:
		var c deleteMeasurementPermissionPayloadWire
		if err := json.Unmarshal(payload, &c); err != nil {
			return err
		}
		return p.rm.ApplyDeleteMeasurementPermission(c.ID)
	case ProposalCommandAddTokenToTeam:
		var c addTokenToTeamPayloadWire
		if err := json.Unmarshal(payload, &c); err != nil {
			return err
		}
		m := c.Membership
		if !p.exists("rbac_teams", m.TeamID) {
			return errors.New("team not found")
		}
		if !p.exists("api_tokens", m.TokenID) {
			return errors.New("token not found")
		}
		var one int
		if err := p.am.db.QueryRow("SELECT 1 FROM rbac_token_memberships WHERE token_id = ? AND team_id = ?", m.TokenID, m.TeamID).Scan(&one); err == nil {
			return errors.New("token is already a member of this team")
		}
		p.nMem++
		return p.rm.ApplyAddTokenToTeam(ClusterTokenMembershipEntry{ID: p.nMem, TokenID: m.TokenID, TeamID: m.TeamID, CreatedAtUnixNano: m.CreatedAtUnixNano})
	case ProposalCommandRemoveTokenFromTeam:
		var c removeTokenFromTeamPayloadWire
		if err := json.Unmarshal(payload, &c); err != nil {
			return err
		}
		return p.rm.ApplyRemoveTokenFromTeam(c.TokenID, c.TeamID)
	}
	return fmt.Errorf("vrProposer: unexpected command %d", cmdType)
}

// ---- one case -------------------------------------------------------------------------------
func vrNewRM(am *AuthManager, c *vrCase, maxSize int) *RBACManager {
	feats := []string{}
	if c.Enabled {
		feats = append(feats, license.FeatureRBAC)
	}
	if maxSize <= 0 {
		maxSize = 1 << 20
	}
	return NewRBACManager(&RBACManagerConfig{DB: am.GetDB(), LicenseClient: license.NewVerifClient(feats), Logger: zerolog.Nop(),
		CacheTTL: time.Duration(c.TTL), MaxCacheSize: maxSize})
}

func vrToReq(r *vrReq) *PermissionCheckRequest {
	req := &PermissionCheckRequest{Database: r.DB, Measurement: r.Meas, Permission: vrPermNames[r.Perm]}
	if r.TI != nil {
		req.TokenInfo = &TokenInfo{ID: r.TI.ID, Name: fmt.Sprintf("tok%d", r.TI.ID), Permissions: vrPerms(r.TI.Perms), Enabled: r.TI.Enabled}
	}
	return req
}

func vrDecOf(r *PermissionCheckResult) vrDec { return vrDec{Allowed: r.Allowed, Source: r.Source} }

func vrRunCase(am *AuthManager, c *vrCase) (out vrCaseOut) {
	out.ID = c.ID
	verifRbacClockNS.Store(c.T0)
	am.SetRaftProposer(nil)
	for _, q := range []string{"DELETE FROM rbac_organizations", "DELETE FROM rbac_token_memberships", "DELETE FROM api_tokens",
		"DELETE FROM sqlite_sequence"} {
		if _, err := am.db.Exec(q); err != nil {
			out.Fatal = "reset: " + err.Error()
			return
		}
	}
	var left int
	if err := am.db.QueryRow("SELECT (SELECT COUNT(*) FROM rbac_teams) + (SELECT COUNT(*) FROM rbac_roles) + (SELECT COUNT(*) FROM rbac_measurement_permissions)").Scan(&left); err != nil || left != 0 {
		out.Fatal = fmt.Sprintf("reset left %d rows (%v)", left, err)
		return
	}
	am.InvalidateCache()
	rm := vrNewRM(am, c, c.Max)
	defer rm.Close()
	var vrProp *vrProposer
	if c.Mode == "cluster" {
		vrProp = &vrProposer{am: am, rm: rm}
		am.SetRaftProposer(vrProp)
		rm.SetRaftProposer(vrProp)
		defer am.SetRaftProposer(nil)
	}
	ctx := context.Background()
	nOrgName, nTeamName, nTokName := 0, 0, 0
	fresh := func(f func(*RBACManager)) {
		fm := vrNewRM(am, c, 0)
		f(fm)
		fm.Close()
	}
	for _, o := range c.Ops {
		switch o.Op {
		case "tick":
			if o.Dt > 0 {
				verifRbacClockNS.Add(o.Dt)
			}
			out.Outs = append(out.Outs, vrOut{Kind: "none"})
		case "drop_perm":
			// eviction / cleanup stand-in: the entry of this request vanishes (reflection so that
			// the harness also compiles when the key carries the token's own permissions)
			rm.permCacheMu.Lock()
			for k := range rm.permCache {
				if k.tokenID != o.Req.TI.ID || k.database != o.Req.DB || k.measurement != o.Req.Meas || k.permission != vrPermNames[o.Req.Perm] {
					continue
				}
				v := reflect.ValueOf(k)
				if f := v.FieldByName("tokenPerms"); f.IsValid() && f.String() != strings.Join(vrPerms(o.Req.TI.Perms), ",") {
					continue
				}
				if f := v.FieldByName("tokenEnabled"); f.IsValid() && f.Bool() != o.Req.TI.Enabled {
					continue
				}
				delete(rm.permCache, k)
			}
			rm.permCacheMu.Unlock()
			out.Outs = append(out.Outs, vrOut{Kind: "none"})
		case "janitor":
			// what the once-a-minute cleanup loop runs, at the controlled clock's time
			rm.cleanupExpiredCache()
			out.Outs = append(out.Outs, vrOut{Kind: "none"})
		case "drop_tok":
			rm.tokenCacheMu.Lock()
			delete(rm.tokenCache, o.ID)
			rm.tokenCacheMu.Unlock()
			out.Outs = append(out.Outs, vrOut{Kind: "none"})
		case "check":
			req := vrToReq(o.Req)
			res := vrOut{Kind: "dec", Decs: []vrDec{vrDecOf(rm.CheckPermission(req))}}
			fresh(func(fm *RBACManager) { res.Fresh = []vrDec{vrDecOf(fm.CheckPermission(vrToReq(o.Req)))} })
			out.Outs = append(out.Outs, res)
		case "batch":
			mk := func() []*PermissionCheckRequest {
				reqs := make([]*PermissionCheckRequest, len(o.Reqs))
				for i := range o.Reqs {
					reqs[i] = vrToReq(&o.Reqs[i])
				}
				return reqs
			}
			res := vrOut{Kind: "dec", Decs: []vrDec{}, Fresh: []vrDec{}}
			for _, r := range rm.CheckPermissionsBatch(mk()) {
				res.Decs = append(res.Decs, vrDecOf(r))
			}
			// oracle of a batch: the SINGLE-request path of a fresh manager, request by request
			fresh(func(fm *RBACManager) {
				for _, r := range mk() {
					res.Fresh = append(res.Fresh, vrDecOf(fm.CheckPermission(r)))
				}
			})
			out.Outs = append(out.Outs, res)
		case "mut":
			var err error
			var id int64
			switch o.Kind {
			case "create_org":
				nOrgName++
				var x *Organization
				x, err = rm.CreateOrganization(ctx, &CreateOrganizationRequest{Name: fmt.Sprintf("org%d", nOrgName)})
				if x != nil {
					id = x.ID
				}
			case "update_org":
				en := o.En
				err = rm.UpdateOrganization(ctx, o.ID, &UpdateOrganizationRequest{Enabled: &en})
			case "delete_org":
				err = rm.DeleteOrganization(ctx, o.ID)
			case "realign_org":
				// what the FSM's apply callback does when the upgrade seed's CreateOrganization for a
				// name this node already holds (under another id) is applied: cluster-apply mode only
				var cur *Organization
				cur, err = rm.GetOrganization(o.ID)
				if err == nil && cur == nil {
					err = errors.New("organization not found")
				}
				if err == nil && vrProp == nil {
					err = errors.New("realign_org needs cluster-apply mode")
				}
				if err == nil {
					vrProp.nOrg++
					id = vrProp.nOrg
					now := verifRbacNow().UnixNano()
					err = rm.ApplyCreateOrganization(ClusterOrganizationEntry{ID: id, Name: cur.Name, Description: cur.Description,
						CreatedAtUnixNano: now, UpdatedAtUnixNano: now, Enabled: true})
				}
			case "create_team":
				nTeamName++
				var x *Team
				x, err = rm.CreateTeam(ctx, o.A, &CreateTeamRequest{Name: fmt.Sprintf("team%d", nTeamName)})
				if x != nil {
					id = x.ID
				}
			case "update_team":
				en := o.En
				err = rm.UpdateTeam(ctx, o.ID, &UpdateTeamRequest{Enabled: &en})
			case "delete_team":
				err = rm.DeleteTeam(ctx, o.ID)
			case "create_role":
				var x *Role
				x, err = rm.CreateRole(ctx, o.A, &CreateRoleRequest{DatabasePattern: *o.Pat, Permissions: vrPerms(o.Perms)})
				if x != nil {
					id = x.ID
				}
			case "update_role":
				err = rm.UpdateRole(ctx, o.ID, &UpdateRoleRequest{DatabasePattern: o.Pat, Permissions: vrPerms(o.Perms)})
			case "delete_role":
				err = rm.DeleteRole(ctx, o.ID)
			case "create_mp":
				var x *MeasurementPermission
				x, err = rm.CreateMeasurementPermission(ctx, o.A, &CreateMeasurementPermissionRequest{MeasurementPattern: *o.Pat, Permissions: vrPerms(o.Perms)})
				if x != nil {
					id = x.ID
				}
			case "delete_mp":
				err = rm.DeleteMeasurementPermission(ctx, o.ID)
			case "add_member":
				_, err = rm.AddTokenToTeam(ctx, o.A, o.B)
			case "remove_member":
				err = rm.RemoveTokenFromTeam(ctx, o.A, o.B)
			case "create_token":
				nTokName++
				_, err = am.CreateTokenWithValue(ctx, fmt.Sprintf("verif-rbac-token-value-%032d", nTokName), fmt.Sprintf("tok%d", nTokName), "", "read", nil)
				if err == nil {
					err = am.db.QueryRow("SELECT id FROM api_tokens WHERE name = ?", fmt.Sprintf("tok%d", nTokName)).Scan(&id)
				}
			case "delete_token":
				err = am.DeleteToken(ctx, o.ID)
			default:
				out.Fatal = "unknown mutation " + o.Kind
				return
			}
			r := vrOut{Kind: "mut", OK: err == nil, ID: id}
			if err != nil {
				r.Err = err.Error()
				r.ID = 0
			}
			out.Outs = append(out.Outs, r)
		default:
			out.Fatal = "unknown op " + o.Op
			return
		}
	}
	return
}

func TestVerifRbac(t *testing.T) {
	raw, err := os.ReadFile(os.Getenv("VERIF_CASES"))
	if err != nil {
		t.Fatal(err)
	}
	var cases []vrCase
	if err := json.Unmarshal(raw, &cases); err != nil {
		t.Fatal(err)
	}
	am, err := NewAuthManager(filepath.Join(t.TempDir(), "auth.db"), time.Minute, 100, zerolog.Nop())
	if err != nil {
		t.Fatal(err)
	}
	defer am.Close()
	outs := make([]vrCaseOut, 0, len(cases))
	for i := range cases {
		outs = append(outs, vrRunCase(am, &cases[i]))
	}
	b, _ := json.Marshal(outs)
	if err := os.WriteFile(os.Getenv("VERIF_OUT"), b, 0o644); err != nil {
		t.Fatal(err)
	}
}
