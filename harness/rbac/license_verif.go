//go:build verif

// Injected (go test -overlay, build tag verif) into package license by the C20 check: a
// network-free client holding an in-memory licence.  Nothing under /repo is edited.
package license

import "github.com/rs/zerolog"

// NewVerifClient returns a client whose current licence is active and carries exactly the
// given features.
func NewVerifClient(features []string) *Client {
	return &Client{
		offline: true,
		license: &License{LicenseKey: "verif", Tier: TierEnterprise, Features: features, Status: "active"},
		stopCh:  make(chan struct{}),
		logger:  zerolog.Nop(),
	}
}
