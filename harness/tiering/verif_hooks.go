//go:build verif

package tiering

// Verif-tagged seam of the C12 harness (injected into package tiering by go test -overlay).
// tools/props/C12.py rewrites the CURRENT migrator.go so that MigrateFile calls these
// functions at its four crash points and around its four fallible storage / metadata
// operations; with VerifHook left zero they are the identity.

import (
	"context"
	"errors"
	"io"

	"github.com/basekick-labs/arc/internal/storage"
)

// VerifHook is set by the harness (package api) before each MigrateFile call.
var VerifHook struct {
	Point        func(name string)              // called at before_copy, after_copy, after_meta, after_delete
	PointM       func(m *Migrator, name string) // same, with the migrator instance (overlapping migrations)
	CopyMode     string                         // "" real copy | "fail" no byte is copied | "midstream" the source read fails after CopyCut bytes
	CopyCut      int                            // midstream: 0 = no byte, 1 = one byte, 2 = half the file, 3 = all but the last byte
	RecordFail   bool                           // the tier_migrations insert (RecordMigration) returns an error
	MetaFail     bool                           // UpdateTier returns an error
	RollbackFail bool                           // deleting the cold copy during rollback fails
	SourceFail   bool                           // deleting the hot copy fails
}

func verifPointM(m *Migrator, name string) {
	if VerifHook.PointM != nil {
		VerifHook.PointM(m, name)
	}
	if VerifHook.Point != nil {
		VerifHook.Point(name)
	}
}

// verifCutSource is a hot backend whose ReadTo really delivers the first k bytes
// (0 <= k < size) of the file and then fails.
type verifCutSource struct {
	StreamingBackend
	cut int
}

func (h verifCutSource) ReadTo(ctx context.Context, path string, w io.Writer) error {
	pr, pw := io.Pipe()
	go func() { pw.CloseWithError(h.StreamingBackend.ReadTo(ctx, path, pw)) }()
	data, err := io.ReadAll(pr)
	if err != nil {
		return err
	}
	k := len(data) / 2
	switch h.cut {
	case 0:
		k = 0
	case 1:
		k = 1
	case 3:
		k = len(data) - 1
	}
	if k >= len(data) {
		k = len(data) - 1
	}
	if k < 0 {
		k = 0
	}
	if k > 0 {
		if _, err := w.Write(data[:k]); err != nil {
			return err
		}
	}
	return errors.New("verif: source read failed after delivering part of the file")
}

func verifCopy(m *Migrator, ctx context.Context, src, dst StreamingBackend, path string, size int64) error {
	switch VerifHook.CopyMode {
	case "fail":
		return errors.New("streaming copy failed: verif: injected")
	case "midstream":
		return m.copyFileStreaming(ctx, verifCutSource{src, VerifHook.CopyCut}, dst, path, size)
	}
	return m.copyFileStreaming(ctx, src, dst, path, size)
}

func verifUpdateTier(s *MetadataStore, ctx context.Context, path string, t Tier) error {
	if VerifHook.MetaFail {
		return errors.New("verif: injected metadata failure")
	}
	return s.UpdateTier(ctx, path, t)
}

func verifRecordMigration(s *MetadataStore, ctx context.Context, r *MigrationRecord) (int64, error) {
	if VerifHook.RecordFail {
		return 0, errors.New("verif: injected tier_migrations insert failure")
	}
	return s.RecordMigration(ctx, r)
}

func verifDelete(which string, b storage.Backend, ctx context.Context, path string) error {
	if (which == "rollback" && VerifHook.RollbackFail) || (which == "source" && VerifHook.SourceFail) {
		return errors.New("verif: injected delete failure")
	}
	return b.Delete(ctx, path)
}

// VerifMigrator exposes the manager's migrator to the harness in package api.
func (m *Manager) VerifMigrator() *Migrator { return m.migrator }
