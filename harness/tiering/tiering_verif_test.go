//go:build verif

package api

// C12 harness (injected into package api by go test -overlay).  Real tiering.Manager
// (licence satisfied by license.VerifClient) + Migrator + SQLite MetadataStore over two real
// LocalBackends; the multi-tier read is the real QueryHandler.buildMultiTierReadParquet,
// executed by DuckDB.  Crash points and step failures are injected through tiering.VerifHook.

import (
	"context"
	"crypto/sha1"
	"database/sql"
	"encoding/json"
	"fmt"
	"os"
	"path/filepath"
	"sort"
	"strings"
	"testing"

	"github.com/basekick-labs/arc/internal/config"
	"github.com/basekick-labs/arc/internal/license"
	"github.com/basekick-labs/arc/internal/storage"
	"github.com/basekick-labs/arc/internal/tiering"
	"github.com/rs/zerolog"
)

type tvOutcome struct {
	Kind       string `json:"kind"` // done | crash | copyfail | midstream | metafail | delfail
	K          int    `json:"k"`
	RollbackOK bool   `json:"rollback_ok"`
	RecordFail bool   `json:"record_fail"` // the tier_migrations insert fails too (tolerated by MigrateFile)
}

type tvOp struct {
	Op      string    `json:"op"` // migrate | reconcile | scan | settle | overlap
	File    int       `json:"file"`
	Outcome tvOutcome `json:"outcome"`
	// overlap: two MigrateFile calls for the same file (both listed as candidates beforehand) run in
	// two goroutines and are interleaved step by step: Sched[i] = 'A' | 'B' says who takes the next
	// step (a call's first step starts it, the following ones are its durable steps); FaultA / FaultB: "" | "metafail" (UpdateTier fails; rollback works iff RollbackOK*)
	Sched       string `json:"sched"`
	FaultA      string `json:"fault_a"`
	FaultB      string `json:"fault_b"`
	RollbackOKA bool   `json:"rollback_ok_a"`
	RollbackOKB bool   `json:"rollback_ok_b"`
}

type tvCase struct {
	ID    int       `json:"id"`
	Files [][]int64 `json:"files"`
	Ops   []tvOp    `json:"ops"`
}

type tvObs struct {
	Hot       map[string][]int64 `json:"hot"`
	Cold      map[string][]int64 `json:"cold"`
	Meta      map[string]string  `json:"meta"`
	Visible   []int64            `json:"visible"`
	VisibleOK bool               `json:"visible_ok"`
	SQL       string             `json:"sql"`
	Err       string             `json:"err,omitempty"`
}

type tvCaseObs struct {
	ID  int     `json:"id"`
	Obs []tvObs `json:"obs"`
	Err string  `json:"err,omitempty"`
}

type tvCrash struct{}

const tvDB = "db1"
const tvMeas = "cpu"

func tvName(i int) string {
	return fmt.Sprintf("%s/%s/2020/01/%02d/00/%s_f%d_daily.parquet", tvDB, tvMeas, 1+i%28, tvMeas, i)
}

func tvIndex(path string) string {
	base := filepath.Base(path)
	base = strings.TrimSuffix(base, "_daily.parquet")
	return base[strings.LastIndex(base, "_f")+2:]
}

func tvReadIDs(duck *sql.DB, from string) ([]int64, error) {
	rows, err := duck.Query("SELECT id " + from)
	if err != nil {
		return nil, err
	}
	defer rows.Close()
	out := []int64{}
	for rows.Next() {
		var v int64
		if err := rows.Scan(&v); err != nil {
			return nil, err
		}
		out = append(out, v)
	}
	sort.Slice(out, func(i, j int) bool { return out[i] < out[j] })
	return out, rows.Err()
}

var tvRowCache = map[string][]int64{}

func tvListTier(duck *sql.DB, b *storage.LocalBackend) (map[string][]int64, error) {
	res := map[string][]int64{}
	names, err := b.List(context.Background(), tvDB+"/"+tvMeas+"/")
	if err != nil {
		return nil, err
	}
	for _, n := range names {
		if !strings.HasSuffix(n, ".parquet") {
			continue // staging leftovers (*.part) are not matched by the read glob **/*.parquet
		}
		// a tier file's rows are decoded by DuckDB once per distinct content
		raw, rerr := os.ReadFile(b.GetFullPath(n))
		key := ""
		if rerr == nil {
			sum := sha1.Sum(raw)
			key = string(sum[:])
		}
		ids, hit := tvRowCache[key]
		if !hit || key == "" {
			var err error
			ids, err = tvReadIDs(duck, "FROM read_parquet("+quotePath(b.GetFullPath(n))+")")
			if err != nil {
				ids = []int64{0} // present but unreadable (row ids start at 1)
			}
			if key != "" {
				tvRowCache[key] = ids
			}
		}
		res[tvIndex(n)] = ids
	}
	return res, nil
}

// tvOverlap forces one interleaving of two migrations of the same file on the real Migrator.
func tvOverlap(ctx context.Context, tm *tiering.Manager, op tvOp) string {
	cands, err := tm.VerifMigrator().FindCandidates(ctx, tiering.TierHot, tiering.TierCold)
	if err != nil {
		return err.Error()
	}
	var cand *tiering.MigrationCandidate
	for i := range cands {
		if cands[i].Path == tvName(op.File) {
			cand = &cands[i]
		}
	}
	if cand == nil {
		return "" // not a candidate: neither cycle touches the file
	}
	type inst struct {
		mig      *tiering.Migrator
		arrive   chan string
		resume   chan struct{}
		done     chan error
		finished bool
		started  bool
		fault    string
		rbOK     bool
	}
	mk := func(fault string, rb bool) *inst {
		return &inst{mig: tiering.NewMigrator(&tiering.MigratorConfig{Manager: tm, Logger: zerolog.Nop()}),
			arrive: make(chan string), resume: make(chan struct{}), done: make(chan error, 1), fault: fault, rbOK: rb}
	}
	a, b := mk(op.FaultA, op.RollbackOKA), mk(op.FaultB, op.RollbackOKB)
	byMig := map[*tiering.Migrator]*inst{a.mig: a, b.mig: b}
	tiering.VerifHook.PointM = func(m *tiering.Migrator, name string) {
		if in, ok := byMig[m]; ok {
			in.arrive <- name
			<-in.resume
		}
	}
	defer func() { tiering.VerifHook.PointM = nil }()
	wait := func(in *inst) {
		select {
		case <-in.arrive:
		case <-in.done:
			in.finished = true
		}
	}
	grant := func(in *inst) {
		if in.finished {
			return
		}
		tiering.VerifHook.MetaFail = in.fault == "metafail"
		tiering.VerifHook.RollbackFail = in.fault == "metafail" && !in.rbOK
		if !in.started {
			// the first scheduled step of a call starts it: it runs up to its first hook point
			// (before_copy) or returns at once when MigrateFile refuses the path
			in.started = true
			c := *cand
			go func() { in.done <- in.mig.MigrateFile(ctx, c) }()
		} else {
			in.resume <- struct{}{}
		}
		wait(in)
		tiering.VerifHook.MetaFail, tiering.VerifHook.RollbackFail = false, false
	}
	for _, ch := range op.Sched {
		if ch == 'A' {
			grant(a)
		} else {
			grant(b)
		}
	}
	for _, in := range []*inst{a, b} { // let both return (no durable step is left after a complete schedule)
		for !in.finished {
			grant(in)
		}
	}
	return ""
}

func tvRunCase(t *testing.T, duck *sql.DB, c tvCase) (res tvCaseObs) {
	res.ID = c.ID
	ctx := context.Background()
	hot, err := storage.NewLocalBackend(t.TempDir(), zerolog.Nop())
	if err != nil {
		res.Err = err.Error()
		return
	}
	cold, err := storage.NewLocalBackend(t.TempDir(), zerolog.Nop())
	if err != nil {
		res.Err = err.Error()
		return
	}
	sq, err := sql.Open("sqlite3", filepath.Join(t.TempDir(), "tier.db"))
	if err != nil {
		res.Err = err.Error()
		return
	}
	defer sq.Close()
	cfg := &config.TieredStorageConfig{Enabled: true, DefaultHotMaxAgeDays: 1, MigrationMaxConcurrent: 1, MigrationBatchSize: 100}
	cfg.Cold.Enabled = true
	newManager := func() (*tiering.Manager, error) {
		return tiering.NewManager(&tiering.ManagerConfig{HotBackend: hot, ColdBackend: cold, DB: sq, Config: cfg,
			LicenseClient: license.VerifClient(license.FeatureTieredStorage), Logger: zerolog.Nop()})
	}
	tm, err := newManager()
	if err != nil {
		res.Err = err.Error()
		return
	}
	for i, ids := range c.Files {
		full := hot.GetFullPath(tvName(i))
		if err := os.MkdirAll(filepath.Dir(full), 0o755); err != nil {
			res.Err = err.Error()
			return
		}
		var vals []string
		for _, id := range ids {
			vals = append(vals, fmt.Sprintf("(%d::BIGINT, make_timestamptz(%d))", id, 1000+id))
		}
		q := fmt.Sprintf(`COPY (SELECT * FROM (VALUES %s) AS t(id, "time")) TO %s (FORMAT PARQUET)`, strings.Join(vals, ", "), quotePath(full))
		if _, err := duck.Exec(q); err != nil {
			res.Err = "fixture: " + err.Error()
			return
		}
	}
	if _, err := tm.ScanAndRegisterFiles(ctx); err != nil {
		res.Err = "initial scan: " + err.Error()
		return
	}
	for _, op := range c.Ops {
		ob := tvObs{}
		switch op.Op {
		case "migrate":
			cands, err := tm.VerifMigrator().FindCandidates(ctx, tiering.TierHot, tiering.TierCold)
			if err != nil {
				ob.Err = err.Error()
				break
			}
			var cand *tiering.MigrationCandidate
			for i := range cands {
				if cands[i].Path == tvName(op.File) {
					cand = &cands[i]
				}
			}
			if cand == nil {
				break // not a candidate: nothing happens
			}
			points := map[string]int{"before_copy": 0, "after_copy": 1, "after_meta": 2, "after_delete": 3}
			oc := op.Outcome
			tiering.VerifHook.Point = func(name string) {
				if oc.Kind == "crash" && points[name] == oc.K {
					panic(tvCrash{})
				}
			}
			tiering.VerifHook.CopyMode = map[string]string{"copyfail": "fail", "midstream": "midstream"}[oc.Kind]
			tiering.VerifHook.CopyCut = oc.K
			tiering.VerifHook.RecordFail = oc.RecordFail
			tiering.VerifHook.MetaFail = oc.Kind == "metafail"
			tiering.VerifHook.RollbackFail = oc.Kind == "metafail" && !oc.RollbackOK
			tiering.VerifHook.SourceFail = oc.Kind == "delfail"
			crashed := false
			func() {
				defer func() {
					if r := recover(); r != nil {
						if _, ok := r.(tvCrash); !ok {
							panic(r)
						}
						crashed = true
					}
				}()
				if err := tm.VerifMigrator().MigrateFile(ctx, *cand); err != nil {
					ob.Err = err.Error()
				}
			}()
			tiering.VerifHook.Point = nil
			tiering.VerifHook.CopyMode = ""
			tiering.VerifHook.RecordFail = false
			tiering.VerifHook.MetaFail, tiering.VerifHook.RollbackFail, tiering.VerifHook.SourceFail = false, false, false
			if crashed { // process restart: fresh manager, fresh caches
				if tm, err = newManager(); err != nil {
					res.Err = err.Error()
					return
				}
			}
		case "overlap":
			if msg := tvOverlap(ctx, tm, op); msg != "" {
				ob.Err = msg
			}
		case "reconcile":
			tm.VerifMigrator().ReconcileOrphanedFiles(ctx)
		case "scan":
			if _, err := tm.ScanAndRegisterFiles(ctx); err != nil {
				ob.Err = err.Error()
			}
		case "settle":
			if err := tm.RunMigrationCycle(ctx); err != nil {
				ob.Err = err.Error()
			}
		}
		var lerr error
		if ob.Hot, lerr = tvListTier(duck, hot); lerr != nil {
			res.Err = lerr.Error()
			return
		}
		if ob.Cold, lerr = tvListTier(duck, cold); lerr != nil {
			res.Err = lerr.Error()
			return
		}
		ob.Meta = map[string]string{}
		fm, err := tm.GetMetadata().GetFilesByDatabase(ctx, tvDB)
		if err != nil {
			res.Err = err.Error()
			return
		}
		for _, f := range fm {
			ob.Meta[tvIndex(f.Path)] = string(f.Tier)
		}
		h := &QueryHandler{storage: hot, tieringManager: tm, logger: zerolog.Nop()}
		ob.SQL = h.buildMultiTierReadParquet(tvDB, tvMeas, map[tiering.Tier]string{tiering.TierHot: "hot", tiering.TierCold: "cold"}, "FROM")
		vis, verr := tvReadIDs(duck, ob.SQL)
		ob.VisibleOK = verr == nil
		if verr != nil {
			ob.Visible = []int64{}
			ob.Err += " query: " + verr.Error()
		} else {
			ob.Visible = vis
		}
		ob.SQL = ""
		res.Obs = append(res.Obs, ob)
	}
	return
}

func TestVerifTiering(t *testing.T) {
	in, outp := os.Getenv("VERIF_CASES"), os.Getenv("VERIF_OUT")
	if in == "" || outp == "" {
		t.Skip("VERIF_CASES / VERIF_OUT not set")
	}
	raw, err := os.ReadFile(in)
	if err != nil {
		t.Fatal(err)
	}
	var cases []tvCase
	if err := json.Unmarshal(raw, &cases); err != nil {
		t.Fatal(err)
	}
	duck, err := sql.Open("duckdb", "?threads=1")
	if err != nil {
		t.Fatal(err)
	}
	defer duck.Close()
	out := []tvCaseObs{}
	for _, c := range cases {
		out = append(out, tvRunCase(t, duck, c))
	}
	enc, err := json.Marshal(out)
	if err != nil {
		t.Fatal(err)
	}
	if err := os.WriteFile(outp, enc, 0o644); err != nil {
		t.Fatal(err)
	}
}
