//go:build verif

// C25 correspondence harness, compiled into package filereplication by `go test -overlay`.
//
// Every case runs the REAL Puller (processEntry / pullOnce / tryResumeFromPartial /
// RunCatchUp / FullyCaughtUp) with the REAL storage.LocalBackend on a temp dir and the REAL
// FetchClient talking TCP (loopback) to a scripted peer that implements each fetch outcome on
// real bytes: dial failure, connection closed before the ack, error acks (generic / not_found /
// bad_offset), wrong offset echo / size / hash in the ack, truncation at any byte, corruption
// of any byte, other content, success.  Jobs (successive processEntry runs for the path) are
// executed synchronously on the calling goroutine (workers are not started), the first one
// optionally through RunCatchUp.  After each job the bytes at the final and .part paths, the
// puller counters and the catch-up gate are recorded.
//
// Input $VERIF_CASES, output $VERIF_OUT (JSON, byte strings hex-encoded).
package filereplication

import (
	"context"
	"crypto/sha256"
	"encoding/hex"
	"encoding/json"
	"hash"
	"net"
	"os"
	"path/filepath"
	"sync"
	"testing"
	"time"

	"github.com/basekick-labs/arc/internal/cluster/protocol"
	"github.com/basekick-labs/arc/internal/cluster/raft"
	"github.com/basekick-labs/arc/internal/storage"
	"github.com/rs/zerolog"
)

type verifResp struct {
	Kind      string  `json:"kind"` // dial | noack | err | serve
	Err       string  `json:"err"`  // generic | notfound | badoffset
	OffDelta  int64   `json:"off_delta"`
	SizeDelta int64   `json:"size_delta"`
	ShaWrong  bool    `json:"sha_wrong"`
	Trunc     int     `json:"trunc"` // -1 = none
	Flips     []int   `json:"flips"`
	Alt       *string `json:"alt"`
}

type verifJob struct {
	Catchup bool          `json:"catchup"`
	Script  [][]verifResp `json:"script"`
}

type verifJobObs struct {
	Mid      []*string `json:"mid"` // final path as seen between "last body byte written" and the digest verdict, one per fetch that got that far
	Final    *string `json:"final"`
	Part     *string `json:"part"`
	Cnt      []int64 `json:"cnt"`
	Fully    bool    `json:"fully"`
	CuFailed bool    `json:"cu_failed"`
}

type verifReplCase struct {
	Content     string        `json:"content"`
	ShaOK       bool          `json:"sha_ok"`
	Size        int64         `json:"size"`
	MaxAttempts int           `json:"max_attempts"`
	Final0      *string       `json:"final0"`
	Part0       *string       `json:"part0"`
	Jobs        []verifJob    `json:"jobs"`
	Obs         []verifJobObs `json:"obs"`
}

// ---- observation point inside Fetch ----------------------------------------------------------
// fetch_client.go is overlaid with `hasher.Sum(nil)` rewritten to `verifSum(hasher, byteOffset)`:
// the moment after the last body byte went into the pipe and before the whole-file digest is
// compared.  The writer goroutine may still be flushing, so the final path is polled for a short
// while (longer for resumed transfers); whatever shows up there is recorded.
var (
	verifMidFinal string
	verifMid      []*string
)

func verifSum(h hash.Hash, byteOffset int64) []byte {
	if verifMidFinal != "" {
		rounds := 10
		if byteOffset > 0 {
			rounds = 50
		}
		var seen *string
		for i := 0; i < rounds; i++ {
			if seen = verifReadOpt(verifMidFinal); seen != nil {
				break
			}
			time.Sleep(100 * time.Microsecond)
		}
		verifMid = append(verifMid, seen)
	}
	return h.Sum(nil)
}

// ---- scripted peer ------------------------------------------------------------------------

type verifPeer struct {
	l       net.Listener
	mu      sync.Mutex
	queue   []verifResp
	content []byte
	sha     string
	wg      sync.WaitGroup
}

func (p *verifPeer) loop() {
	defer p.wg.Done()
	for {
		conn, err := p.l.Accept()
		if err != nil {
			return
		}
		p.handle(conn)
	}
}

func (p *verifPeer) handle(conn net.Conn) {
	defer conn.Close()
	_ = conn.SetDeadline(time.Now().Add(10 * time.Second))
	msg, err := protocol.ReceiveMessage(conn, 5*time.Second)
	if err != nil {
		return
	}
	req, ok := msg.Payload.(*protocol.FetchFileRequest)
	if !ok {
		return
	}
	p.mu.Lock()
	if len(p.queue) == 0 {
		p.mu.Unlock()
		return
	}
	r := p.queue[0]
	p.queue = p.queue[1:]
	content, sha := p.content, p.sha
	p.mu.Unlock()

	sendErr := func(code protocol.AckErrorCode, text string) {
		_ = protocol.SendMessage(conn, &protocol.Message{Type: protocol.MsgFetchFileAck,
			Payload: &protocol.FetchFileAckHeader{Status: "error", Code: code, Error: text}}, 5*time.Second)
	}
	switch r.Kind {
	case "noack":
		return
	case "err":
		switch r.Err {
		case "notfound":
			sendErr(protocol.AckCodeNotFound, protocol.ErrMsgFileNotFound)
		case "badoffset":
			sendErr(protocol.AckCodeBadOffset, "bad offset")
		default:
			sendErr(protocol.AckCodeBackend, "backend exploded")
		}
		return
	}
	c := content
	if r.Alt != nil {
		c, _ = hex.DecodeString(*r.Alt)
	}
	off := req.ByteOffset
	if off < 0 || off > int64(len(c)) {
		sendErr(protocol.AckCodeBadOffset, "bad offset")
		return
	}
	tail := append([]byte(nil), c[off:]...)
	for _, i := range r.Flips {
		if i >= 0 && i < len(tail) {
			tail[i] ^= 0xFF
		}
	}
	body := tail
	if r.Trunc >= 0 && r.Trunc < len(body) {
		body = body[:r.Trunc]
	}
	ackSha := sha
	if r.ShaWrong {
		ackSha = "0"
	}
	ack := &protocol.FetchFileAckHeader{Status: "ok", SizeBytes: int64(len(tail)) + r.SizeDelta, SHA256: ackSha, ByteOffset: off + r.OffDelta}
	if err := protocol.SendMessage(conn, &protocol.Message{Type: protocol.MsgFetchFileAck, Payload: ack}, 5*time.Second); err != nil {
		return
	}
	if len(body) > 0 {
		_, _ = conn.Write(body)
	}
}

// ---- scripted resolver --------------------------------------------------------------------

type verifResolver struct {
	peer     *verifPeer
	deadAddr string
	script   [][]verifResp
	calls    int
}

func (r *verifResolver) ResolvePeers(originNodeID, path string) []string {
	var attempt []verifResp
	if r.calls < len(r.script) {
		attempt = r.script[r.calls]
	}
	r.calls++
	var addrs []string
	var q []verifResp
	for _, x := range attempt {
		if x.Kind == "dial" {
			addrs = append(addrs, r.deadAddr)
		} else {
			addrs = append(addrs, r.peer.l.Addr().String())
			q = append(q, x)
		}
	}
	r.peer.mu.Lock()
	r.peer.queue = q
	r.peer.mu.Unlock()
	return addrs
}

func verifReadOpt(p string) *string {
	b, err := os.ReadFile(p)
	if err != nil {
		return nil
	}
	s := hex.EncodeToString(b)
	return &s
}

func TestVerifFileRepl(t *testing.T) {
	raw, err := os.ReadFile(os.Getenv("VERIF_CASES"))
	if err != nil {
		t.Fatal(err)
	}
	var cases []verifReplCase
	if err := json.Unmarshal(raw, &cases); err != nil {
		t.Fatal(err)
	}
	l, err := net.Listen("tcp", "127.0.0.1:0")
	if err != nil {
		t.Fatal(err)
	}
	peer := &verifPeer{l: l}
	peer.wg.Add(1)
	go peer.loop()
	defer func() { l.Close(); peer.wg.Wait() }()
	dl, err := net.Listen("tcp", "127.0.0.1:0")
	if err != nil {
		t.Fatal(err)
	}
	deadAddr := dl.Addr().String()
	dl.Close()

	fc, err := NewFetchClient(FetchClient{SelfNodeID: "self", ClusterName: "verif", SharedSecret: "verif-secret",
		DialTimeout: 2 * time.Second, ResponseHeaderTimeout: 5 * time.Second})
	if err != nil {
		t.Fatal(err)
	}
	log := zerolog.Nop()
	for ci := range cases {
		c := &cases[ci]
		content, _ := hex.DecodeString(c.Content)
		sum := sha256.Sum256(content)
		if !c.ShaOK {
			sum = sha256.Sum256(append([]byte("X"), content...))
		}
		sha := hex.EncodeToString(sum[:])
		root := t.TempDir()
		backend, err := storage.NewLocalBackend(root, log)
		if err != nil {
			t.Fatal(err)
		}
		final := filepath.Join(backend.GetBasePath(), "d", "f")
		if c.Final0 != nil || c.Part0 != nil {
			if err := os.MkdirAll(filepath.Dir(final), 0o700); err != nil {
				t.Fatal(err)
			}
		}
		if c.Final0 != nil {
			b, _ := hex.DecodeString(*c.Final0)
			if err := os.WriteFile(final, b, 0o600); err != nil {
				t.Fatal(err)
			}
		}
		if c.Part0 != nil {
			b, _ := hex.DecodeString(*c.Part0)
			if err := os.WriteFile(final+".part", b, 0o600); err != nil {
				t.Fatal(err)
			}
		}
		peer.mu.Lock()
		peer.content, peer.sha, peer.queue = content, sha, nil
		peer.mu.Unlock()
		res := &verifResolver{peer: peer, deadAddr: deadAddr}
		p, err := New(Config{SelfNodeID: "self", Backend: backend, Fetcher: fc, PeerResolver: res, Workers: 1, QueueSize: 16,
			RetryMaxAttempts: c.MaxAttempts, RetryInitialBackoff: 1, FetchTimeout: 20 * time.Second, Logger: log})
		if err != nil {
			t.Fatal(err)
		}
		p.ctx, p.cancel = context.WithCancel(context.Background())
		entry := &raft.FileEntry{Path: "d/f", SHA256: sha, SizeBytes: c.Size, OriginNodeID: "origin", Database: "d", Measurement: "m"}
		for _, j := range c.Jobs {
			res.script, res.calls = j.Script, 0
			verifMidFinal, verifMid = final, nil
			if j.Catchup {
				served := false
				p.RunCatchUp(context.Background(), func(cursor string, limit int) ([]*raft.FileEntry, string, error) {
					if served {
						return nil, "", nil
					}
					served = true
					return []*raft.FileEntry{entry}, "", nil
				})
			} else {
				p.Enqueue(entry)
			}
			for len(p.queue) > 0 {
				e := <-p.queue
				p.processEntry(log, e)
			}
			st := p.Stats()
			c.Obs = append(c.Obs, verifJobObs{
				Mid:   append([]*string{}, verifMid...),
				Final: verifReadOpt(final), Part: verifReadOpt(final + ".part"),
				Cnt:   []int64{st["skipped_local"], st["pulled"], st["failed"], st["checksum_mismatch"], st["peer_lookup_failure"], st["bad_offset_server"]},
				Fully: p.FullyCaughtUp(), CuFailed: st["catchup_failed"] > 0,
			})
		}
		p.cancel()
	}
	out, _ := json.Marshal(cases)
	if err := os.WriteFile(os.Getenv("VERIF_OUT"), out, 0o644); err != nil {
		t.Fatal(err)
	}
}
