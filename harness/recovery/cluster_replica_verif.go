//go:build verif

// Overlaid into package cluster (non-test file, tag verif): exposes the REAL
// Coordinator.buildReplicationIngestHandler to the package-main harness.
package cluster

import (
	"github.com/basekick-labs/arc/internal/cluster/replication"
	"github.com/basekick-labs/arc/internal/ingest"
	"github.com/rs/zerolog"
)

func VerifReplicationIngestHandler(buf *ingest.ArrowBuffer) replication.IngestHandler {
	c := &Coordinator{ingestBuffer: buf, logger: zerolog.Nop()}
	return c.buildReplicationIngestHandler()
}
