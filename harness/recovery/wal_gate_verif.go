//go:build verif

// Overlaid into package wal (non-test file, tag verif) by tools/props/C05.py together with a
// textual rewrite of the CURRENT wal.go / recovery.go:
//   go w.writerLoop()                      -> go verifGatedLoop(w, VerifGate)
//   type Writer struct {                   -> + VerifEnqueued int64
//   successful channel send in tryEnqueue  -> + atomic.AddInt64(&w.VerifEnqueued, 1)
//   os.Remove(walFile) in RecoverWithOptions -> verifRemove(walFile)
// so that the harness can hold the writer goroutine ("acknowledged but not yet persisted"),
// know when every enqueued entry reached the file, and kill the process between replay and
// WAL file deletion.
package wal

import "os"

// VerifGate, when non-nil at NewWriter time, blocks that writer's loop until it is closed.
var VerifGate chan struct{}

func verifGatedLoop(w *Writer, g chan struct{}) {
	if g != nil {
		<-g
	}
	w.writerLoop()
}

// VerifRemoveHook is called before recovery deletes a WAL file; it may panic to simulate a kill.
var VerifRemoveHook func(path string)

func verifRemove(p string) error {
	if VerifRemoveHook != nil {
		VerifRemoveHook(p)
	}
	return os.Remove(p)
}
