//go:build verif

// C05 / C32 correspondence harness, overlaid into package main of cmd/arc so that it runs the
// REAL createWALRecoveryCallback / createColumnarRecoveryCallback together with a real
// wal.Writer, ingest.ArrowBuffer, wal.Recovery, the real msgpack / line-protocol / import
// handlers behind their own RegisterRoutes (served by fiber over ONE keep-alive in-memory
// connection per process lifetime, so header strings alias the connection buffer the way they
// do in production) and - for the replica route - the real
// Coordinator.buildReplicationIngestHandler fed from the writer's replication hook.
//
// A case is an event list interpreted both here and by the Coq model
// (Arc.Recovery.Model.run_events):
//   start{hold,replicate,rotate}  new process on the same WAL / storage directories: wal.NewWriter,
//                          ingest.NewArrowBuffer, SetWAL, handlers; NO recovery yet
//   recover{crash_at_remove} the startup-recovery statements of main() (copied verbatim from the
//                          current cmd/arc/main.go into verifStartupRecovery by tools/props/C05.py);
//                          crash_at_remove = n kills the process right before the n-th WAL file delete
//   write{...}             one HTTP request
//   persist                the WAL writer goroutine is released / has drained its queue
//   flush                  ArrowBuffer.FlushAll
//   crash                  the process state is abandoned (nothing is flushed or closed)
// At the end every Parquet file under the storage root (and the replica's root) is read back.
package main

import (
	"bufio"
	"bytes"
	"context"
	"encoding/hex"
	"encoding/json"
	"fmt"
	"io"
	"io/fs"
	"math"
	"mime/multipart"
	"net"
	"net/http"
	"os"
	"path/filepath"
	"sort"
	"strings"
	"sync"
	"sync/atomic"
	"testing"
	"time"

	"github.com/apache/arrow-go/v18/arrow"
	"github.com/apache/arrow-go/v18/arrow/array"
	"github.com/apache/arrow-go/v18/arrow/memory"
	"github.com/apache/arrow-go/v18/parquet"
	"github.com/apache/arrow-go/v18/parquet/pqarrow"
	"github.com/basekick-labs/arc/internal/api"
	"github.com/basekick-labs/arc/internal/auth"
	"github.com/basekick-labs/arc/internal/cluster"
	"github.com/basekick-labs/arc/internal/cluster/replication"
	"github.com/basekick-labs/arc/internal/config"
	"github.com/basekick-labs/arc/internal/ingest"
	"github.com/basekick-labs/arc/internal/storage"
	"github.com/basekick-labs/arc/internal/wal"
	"github.com/gofiber/fiber/v2"
	"github.com/rs/zerolog"
	"github.com/valyala/fasthttp/fasthttputil"
)

type vEvent struct {
	Op            string            `json:"op"`
	Hold          bool              `json:"hold,omitempty"`
	Replicate     bool              `json:"replicate,omitempty"`
	Rotate        bool              `json:"rotate,omitempty"` // MaxSizeBytes = 1: the writer rotates after every entry
	BatchSize     int               `json:"batch_size,omitempty"`
	URL           string            `json:"url,omitempty"`
	Headers       map[string]string `json:"headers,omitempty"`
	BodyHex       string            `json:"body_hex,omitempty"`
	Multipart     bool              `json:"multipart,omitempty"`
	AllowAll      bool              `json:"allow_all,omitempty"`
	Allow         [][2]string       `json:"allow,omitempty"`
	CrashAtRemove int               `json:"crash_at_remove,omitempty"`
	FailDir       string            `json:"fail_dir,omitempty"` // recover: storage rejects every write under this "database/measurement" directory
}

type vCase struct {
	ID     int      `json:"id"`
	Events []vEvent `json:"events"`
}

type vCell struct {
	T string `json:"t"`           // i (int64 / timestamp us), f (float64 bits), s (hex bytes), b
	I int64  `json:"i,omitempty"` // i, b
	U uint64 `json:"u,omitempty"` // f
	S string `json:"s,omitempty"` // s
}

type vRow struct {
	Dir   string           `json:"dir"`  // storage path without /YYYY/MM/DD/HH/file
	Hour  int64            `json:"hour"` // hours since the epoch named by the partition directories
	Cells map[string]vCell `json:"cells"`
}

type vObs struct {
	ID       int           `json:"id"`
	Acks     []int         `json:"acks"`
	Checked  [][][3]string `json:"checked"`   // per write: (database, measurement, permission) checks, sorted
	WalLeft  []int         `json:"wal_left"`  // per recover: inactive *.wal files left when recovery returned / died
	Crashed  []bool        `json:"crashed"`   // per recover: killed at the requested delete
	Stored   []vRow        `json:"stored"`    // every row of every Parquet file under the storage root at the end
	Replica  []vRow        `json:"replica"`   // same for the replica's storage root
	Note     string        `json:"note,omitempty"`
	ReplErrs int           `json:"repl_errs"` // replicated entries the real ingest handler returned an error for
}

// ---- recording RBAC stub --------------------------------------------------------------------

type vRBAC struct {
	mu       sync.Mutex
	allowAll bool
	allow    map[[2]string]bool
	log      [][3]string
}

func (r *vRBAC) IsRBACEnabled() bool { return true }

func (r *vRBAC) CheckPermission(req *auth.PermissionCheckRequest) *auth.PermissionCheckResult {
	r.mu.Lock()
	defer r.mu.Unlock()
	db, m, p := strings.Clone(req.Database), strings.Clone(req.Measurement), strings.Clone(req.Permission)
	r.log = append(r.log, [3]string{db, m, p})
	if r.allowAll || r.allow[[2]string{db, m}] {
		return &auth.PermissionCheckResult{Allowed: true, Source: "rbac"}
	}
	return &auth.PermissionCheckResult{Allowed: false, Source: "denied", Reason: "verif policy"}
}

func (r *vRBAC) CheckPermissionsBatch(reqs []*auth.PermissionCheckRequest) []*auth.PermissionCheckResult {
	out := make([]*auth.PermissionCheckResult, len(reqs))
	for i, q := range reqs {
		out[i] = r.CheckPermission(q)
	}
	return out
}

// ---- faulting storage: the real LocalBackend, except that writes under one directory fail ------

type vFaultBackend struct {
	*storage.LocalBackend
	mu         sync.Mutex
	failPrefix string
	failed     int
}

func (b *vFaultBackend) Write(ctx context.Context, path string, data []byte) error {
	b.mu.Lock()
	p := b.failPrefix
	hit := p != "" && strings.HasPrefix(path, p+"/")
	if hit {
		b.failed++
	}
	b.mu.Unlock()
	if hit {
		return fmt.Errorf("verif: injected storage failure for %s", path)
	}
	return b.LocalBackend.Write(ctx, path, data)
}

func (b *vFaultBackend) setFail(prefix string) {
	b.mu.Lock()
	b.failPrefix = prefix
	b.mu.Unlock()
}

// ---- one process lifetime ---------------------------------------------------------------------

type vReplica struct {
	storeDir string
	buffer   *ingest.ArrowBuffer
	handler  replication.IngestHandler
	errs     int
}

type vNode struct {
	cfg      *config.Config
	writer   *wal.Writer
	buffer   *ingest.ArrowBuffer
	recovery *wal.Recovery
	store    *vFaultBackend
	rbac     *vRBAC
	ln       *fasthttputil.InmemoryListener
	conn     net.Conn
	rd       *bufio.Reader
	gate     chan struct{}
	open     bool
}

var verifCrash = fmt.Errorf("verif: simulated kill")

func vIngestCfg() config.IngestConfig {
	return config.IngestConfig{MaxBufferSize: 10000000, MaxBufferAgeMS: 36000000, Compression: "snappy",
		FlushWorkers: 1, FlushQueueSize: 8, ShardCount: 8, FlushTimeoutSeconds: 120}
}

func vStart(t *testing.T, walDir, storeDir string, ev *vEvent, rep *vReplica) *vNode {
	n := &vNode{cfg: &config.Config{}}
	n.cfg.WAL = config.WALConfig{Enabled: true, Directory: walDir, SyncMode: "async", MaxSizeMB: 100, MaxAgeSeconds: 3600,
		RecoveryIntervalSeconds: 300, RecoveryBatchSize: ev.BatchSize, BufferSize: 10000}
	if n.cfg.WAL.RecoveryBatchSize == 0 {
		n.cfg.WAL.RecoveryBatchSize = 10000
	}
	n.cfg.Ingest = vIngestCfg()
	// same construction order as main(): WAL writer, recovery manager, buffer, SetWAL
	time.Sleep(2 * time.Millisecond) // distinct file names / modification times per process lifetime
	if ev.Hold {
		n.gate = make(chan struct{})
		wal.VerifGate = n.gate
	} else {
		wal.VerifGate = nil
		n.open = true
	}
	before, _ := filepath.Glob(filepath.Join(walDir, "*.wal"))
	maxSize := int64(n.cfg.WAL.MaxSizeMB) * 1024 * 1024
	if ev.Rotate {
		maxSize = 1 // size-triggered rotation after every entry
	}
	w, err := wal.NewWriter(&wal.WriterConfig{WALDir: n.cfg.WAL.Directory, SyncMode: wal.SyncMode(n.cfg.WAL.SyncMode),
		MaxSizeBytes: maxSize, MaxAge: time.Duration(n.cfg.WAL.MaxAgeSeconds) * time.Second,
		BufferSize: n.cfg.WAL.BufferSize, Logger: zerolog.Nop()})
	wal.VerifGate = nil
	if err != nil {
		t.Fatalf("NewWriter: %v", err)
	}
	for _, b := range before {
		if b == w.CurrentFile() {
			t.Fatalf("verif: new WAL file name collides with an existing file %s", b)
		}
	}
	n.writer = w
	n.recovery = wal.NewRecovery(n.cfg.WAL.Directory, zerolog.Nop())
	local, err := storage.NewLocalBackend(storeDir, zerolog.Nop())
	if err != nil {
		t.Fatalf("NewLocalBackend: %v", err)
	}
	n.store = &vFaultBackend{LocalBackend: local}
	n.buffer = ingest.NewArrowBuffer(&n.cfg.Ingest, n.store, zerolog.Nop())
	n.buffer.SetWAL(w)
	if rep != nil {
		w.SetReplicationHook(func(e *wal.ReplicationEntry) {
			// the Sender/Receiver transport delivers the payload bytes unchanged (C24); the
			// replica's applyEntry hands them to the ingest handler
			p := append([]byte(nil), e.Payload...)
			if err := rep.handler.ApplyReplicatedEntry(context.Background(), p); err != nil {
				rep.errs++
			}
		})
	}

	n.rbac = &vRBAC{allow: map[[2]string]bool{}}
	app := fiber.New(fiber.Config{DisableStartupMessage: true, BodyLimit: 64 << 20})
	app.Use(func(c *fiber.Ctx) error {
		c.Locals("token_info", &auth.TokenInfo{ID: 7, Name: "verif", Enabled: true, Permissions: []string{"write"}})
		return c.Next()
	})
	mp := api.NewMsgPackHandler(zerolog.Nop(), n.buffer, 64<<20)
	mp.SetAuthAndRBAC(nil, n.rbac)
	mp.RegisterRoutes(app)
	lp := api.NewLineProtocolHandler(n.buffer, zerolog.Nop())
	lp.SetAuthAndRBAC(nil, n.rbac)
	lp.RegisterRoutes(app)
	imp := api.NewImportHandler(zerolog.Nop())
	imp.SetArrowBuffer(n.buffer)
	imp.SetAuthAndRBAC(nil, n.rbac)
	imp.RegisterRoutes(app)
	n.ln = fasthttputil.NewInmemoryListener()
	go func() { _ = app.Listener(n.ln) }()
	c, err := n.ln.Dial()
	if err != nil {
		t.Fatalf("dial: %v", err)
	}
	n.conn = c
	n.rd = bufio.NewReader(c)
	return n
}

func (n *vNode) waitPersisted(t *testing.T) {
	deadline := time.Now().Add(20 * time.Second)
	for {
		enq := atomic.LoadInt64(&n.writer.VerifEnqueued)
		done := atomic.LoadInt64(&n.writer.TotalEntries) + atomic.LoadInt64(&n.writer.FailedWrites)
		if done >= enq {
			// writeEntry counts the entry while it still holds the writer's mutex and may go on to
			// rotate to a fresh file under that lock: CurrentFile() takes the same mutex, so when it
			// returns the entry AND the rotation it triggered are complete (otherwise a killed
			// process's writer could create its next file after the following recovery scanned
			// the directory)
			_ = n.writer.CurrentFile()
			return
		}
		if time.Now().After(deadline) {
			t.Fatalf("verif: WAL writer did not drain (enqueued=%d written=%d)", enq, done)
		}
		time.Sleep(100 * time.Microsecond)
	}
}

func (n *vNode) persist(t *testing.T) {
	if !n.open {
		close(n.gate)
		n.open = true
	}
	n.waitPersisted(t)
}

// write sends one request over the node's keep-alive connection and returns the status.
func (n *vNode) write(t *testing.T, ev *vEvent) (int, [][3]string) {
	body, err := hex.DecodeString(ev.BodyHex)
	if err != nil {
		t.Fatalf("body hex: %v", err)
	}
	hdr := map[string]string{}
	for k, v := range ev.Headers {
		hdr[k] = v
	}
	if ev.Multipart {
		var mb bytes.Buffer
		mw := multipart.NewWriter(&mb)
		fw, _ := mw.CreateFormFile("file", "data.lp")
		fw.Write(body)
		mw.Close()
		body = mb.Bytes()
		hdr["Content-Type"] = mw.FormDataContentType()
	}
	n.rbac.mu.Lock()
	n.rbac.allowAll = ev.AllowAll
	n.rbac.allow = map[[2]string]bool{}
	for _, a := range ev.Allow {
		n.rbac.allow[a] = true
	}
	n.rbac.log = nil
	n.rbac.mu.Unlock()

	var req bytes.Buffer
	fmt.Fprintf(&req, "POST %s HTTP/1.1\r\nHost: verif\r\nContent-Length: %d\r\n", ev.URL, len(body))
	keys := make([]string, 0, len(hdr))
	for k := range hdr {
		keys = append(keys, k)
	}
	sort.Strings(keys)
	for _, k := range keys {
		fmt.Fprintf(&req, "%s: %s\r\n", k, hdr[k])
	}
	req.WriteString("\r\n")
	req.Write(body)
	if _, err := n.conn.Write(req.Bytes()); err != nil {
		t.Fatalf("conn write: %v", err)
	}
	resp, err := http.ReadResponse(n.rd, nil)
	if err != nil {
		t.Fatalf("read response for %s: %v", ev.URL, err)
	}
	io.Copy(io.Discard, resp.Body)
	resp.Body.Close()
	n.rbac.mu.Lock()
	log := append([][3]string(nil), n.rbac.log...)
	n.rbac.mu.Unlock()
	sort.Slice(log, func(i, j int) bool {
		if log[i][0] != log[j][0] {
			return log[i][0] < log[j][0]
		}
		if log[i][1] != log[j][1] {
			return log[i][1] < log[j][1]
		}
		return log[i][2] < log[j][2]
	})
	if n.open {
		n.waitPersisted(t)
	}
	return resp.StatusCode, log
}

// recover runs the startup-recovery statements of main(); returns (inactive wal files left, killed).
func (n *vNode) recover(t *testing.T, ev *vEvent) (left int, killed bool) {
	n.store.setFail(ev.FailDir)
	defer n.store.setFail("")
	removals := 0
	wal.VerifRemoveHook = func(string) {
		removals++
		if ev.CrashAtRemove > 0 && removals == ev.CrashAtRemove {
			panic(verifCrash)
		}
	}
	func() {
		defer func() {
			if r := recover(); r != nil {
				if r == verifCrash {
					killed = true
					return
				}
				panic(r)
			}
		}()
		_, _ = verifStartupRecovery(n.cfg, n.writer, n.recovery, n.buffer)
	}()
	wal.VerifRemoveHook = nil
	files, _ := filepath.Glob(filepath.Join(n.cfg.WAL.Directory, "*.wal"))
	for _, f := range files {
		if f != n.writer.CurrentFile() {
			left++
		}
	}
	return left, killed
}

// abandon = kill -9: nothing is flushed, closed or purged.  Goroutines of the dead process
// stay parked (the buffer's age timer is 10 h, the writer loop is idle or gated).
func (n *vNode) abandon() {
	if n.conn != nil {
		n.conn.Close()
	}
	if n.ln != nil {
		n.ln.Close()
	}
}

// ---- reading the storage root back ------------------------------------------------------------

func vReadStore(root string) ([]vRow, error) {
	rows := []vRow{}
	err := filepath.WalkDir(root, func(p string, d fs.DirEntry, err error) error {
		if err != nil || d.IsDir() || !strings.HasSuffix(p, ".parquet") {
			return err
		}
		rel, _ := filepath.Rel(root, p)
		parts := strings.Split(filepath.ToSlash(rel), "/")
		if len(parts) < 6 {
			return fmt.Errorf("unexpected storage path %s", rel)
		}
		k := len(parts)
		var y, mo, dd, hh int
		if _, e := fmt.Sscanf(strings.Join(parts[k-5:k-1], " "), "%d %d %d %d", &y, &mo, &dd, &hh); e != nil {
			return fmt.Errorf("partition dirs of %s: %v", rel, e)
		}
		hour := time.Date(y, time.Month(mo), dd, hh, 0, 0, 0, time.UTC).Unix() / 3600
		dir := strings.Join(parts[:k-5], "/")
		data, e := os.ReadFile(p)
		if e != nil {
			return e
		}
		tbl, e := pqarrow.ReadTable(context.Background(), bytes.NewReader(data), parquet.NewReaderProperties(memory.DefaultAllocator),
			pqarrow.ArrowReadProperties{}, memory.DefaultAllocator)
		if e != nil {
			return fmt.Errorf("read %s: %v", rel, e)
		}
		defer tbl.Release()
		nr := int(tbl.NumRows())
		out := make([]vRow, nr)
		for i := range out {
			out[i] = vRow{Dir: dir, Hour: hour, Cells: map[string]vCell{}}
		}
		for ci := 0; ci < int(tbl.NumCols()); ci++ {
			col := tbl.Column(ci)
			name := col.Name()
			ri := 0
			for _, chunk := range col.Data().Chunks() {
				for i := 0; i < chunk.Len(); i++ {
					if !chunk.IsNull(i) {
						var c vCell
						switch a := chunk.(type) {
						case *array.Timestamp:
							if tt, ok := a.DataType().(*arrow.TimestampType); ok && tt.Unit != arrow.Microsecond {
								return fmt.Errorf("%s: column %s has unit %v", rel, name, tt.Unit)
							}
							c = vCell{T: "i", I: int64(a.Value(i))}
						case *array.Int64:
							c = vCell{T: "i", I: a.Value(i)}
						case *array.Float64:
							c = vCell{T: "f", U: math.Float64bits(a.Value(i))}
						case *array.String:
							c = vCell{T: "s", S: hex.EncodeToString([]byte(a.Value(i)))}
						case *array.Boolean:
							c = vCell{T: "b"}
							if a.Value(i) {
								c.I = 1
							}
						default:
							c = vCell{T: "?", S: fmt.Sprintf("%T", chunk)}
						}
						out[ri].Cells[name] = c
					}
					ri++
				}
			}
		}
		rows = append(rows, out...)
		return nil
	})
	return rows, err
}

// ---- driver -------------------------------------------------------------------------------------

func vRunCase(t *testing.T, c *vCase) (obs vObs) {
	obs = vObs{ID: c.ID, Acks: []int{}, Checked: [][][3]string{}, WalLeft: []int{}, Crashed: []bool{}}
	base := t.TempDir()
	walDir, storeDir := filepath.Join(base, "wal"), filepath.Join(base, "store")
	os.MkdirAll(walDir, 0o700)
	os.MkdirAll(storeDir, 0o755)
	var rep *vReplica
	var node *vNode
	var dead []*vNode
	for i := range c.Events {
		ev := &c.Events[i]
		switch ev.Op {
		case "start":
			if node != nil {
				continue // a process is alive (e.g. a requested kill found no file to delete): no-op, as in the model
			}
			if ev.Replicate && rep == nil {
				rdir := filepath.Join(base, "replica")
				os.MkdirAll(rdir, 0o755)
				rb, err := storage.NewLocalBackend(rdir, zerolog.Nop())
				if err != nil {
					t.Fatal(err)
				}
				icfg := vIngestCfg()
				rbuf := ingest.NewArrowBuffer(&icfg, rb, zerolog.Nop())
				rep = &vReplica{storeDir: rdir, buffer: rbuf, handler: cluster.VerifReplicationIngestHandler(rbuf)}
			}
			var r *vReplica
			if ev.Replicate {
				r = rep
			}
			node = vStart(t, walDir, storeDir, ev, r)
		case "write":
			st, log := node.write(t, ev)
			obs.Acks = append(obs.Acks, st)
			if log == nil {
				log = [][3]string{}
			}
			obs.Checked = append(obs.Checked, log)
		case "persist":
			node.persist(t)
		case "flush":
			_ = node.buffer.FlushAll(context.Background())
		case "recover":
			left, killed := node.recover(t, ev)
			obs.WalLeft = append(obs.WalLeft, left)
			obs.Crashed = append(obs.Crashed, killed)
			if killed {
				node.abandon()
				dead = append(dead, node)
				node = nil
			}
		case "crash":
			if node != nil {
				node.abandon()
				dead = append(dead, node)
				node = nil
			}
		default:
			t.Fatalf("case %d: unknown op %q", c.ID, ev.Op)
		}
	}
	rows, err := vReadStore(storeDir)
	if err != nil {
		obs.Note = "read store: " + err.Error()
	}
	obs.Stored = rows
	obs.Replica = []vRow{}
	if rep != nil {
		_ = rep.buffer.FlushAll(context.Background())
		rr, err := vReadStore(rep.storeDir)
		if err != nil {
			obs.Note += " read replica: " + err.Error()
		}
		obs.Replica = rr
		obs.ReplErrs = rep.errs
		rep.buffer.Close()
	}
	// tidy the surviving process (a clean shutdown is not part of the case: the rows were read already)
	if node != nil {
		node.abandon()
		if node.open {
			node.writer.Close()
		}
		node.buffer.Close()
	}
	for _, d := range dead {
		// release gated writer loops so that they drain into their (already abandoned) files and exit
		if !d.open {
			close(d.gate)
		}
	}
	return obs
}

func TestVerifRecovery(t *testing.T) {
	zerolog.SetGlobalLevel(zerolog.Disabled)
	raw, err := os.ReadFile(os.Getenv("VERIF_CASES"))
	if err != nil {
		t.Fatal(err)
	}
	var cases []vCase
	if err := json.Unmarshal(raw, &cases); err != nil {
		t.Fatal(err)
	}
	out := make([]vObs, 0, len(cases))
	for i := range cases {
		out = append(out, vRunCase(t, &cases[i]))
	}
	b, err := json.Marshal(out)
	if err != nil {
		t.Fatal(err)
	}
	if err := os.WriteFile(os.Getenv("VERIF_OUT"), b, 0o644); err != nil {
		t.Fatal(err)
	}
}
