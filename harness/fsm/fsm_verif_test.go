//go:build verif

// C22/C23 correspondence harness.  Drives the REAL ClusterFSM (Apply with JSON commands,
// Snapshot, fsmSnapshot.Persist, Restore) on the step lists in $VERIF_CASES and writes, per
// case, the result of every step, canonical dumps of the primary maps AND of every
// secondary index (in-package access to the unexported fields), and - for every prefix of
// the step list - whether snapshot+restore reproduces the state and whether replaying the
// remaining steps from the restored copy ends in the same state as the uninterrupted run.
// Nothing is decided here: the dumps are compared with the Coq model by tools/props/C22.py.
package raft

import (
	"bytes"
	"encoding/base64"
	"encoding/json"
	"fmt"
	"io"
	"os"
	"sort"
	"testing"

	hraft "github.com/hashicorp/raft"
	"github.com/rs/zerolog"
)

type verifStep struct {
	K       string          `json:"k"` // cmd | raw | snap | restore
	Idx     uint64          `json:"idx"`
	Type    int             `json:"type"`
	Payload json.RawMessage `json:"payload"`  // cmd: the payload JSON (becomes Command.Payload bytes)
	PayB64  string          `json:"pay_b64"`  // cmd: arbitrary payload bytes instead of Payload
	DataB64 string          `json:"data_b64"` // raw: arbitrary raft.Log.Data bytes
	Snap    json.RawMessage `json:"snapshot"` // restore: snapshot JSON handed to Restore
}

type verifCase struct {
	ID     int         `json:"id"`
	Steps  []verifStep `json:"steps"`
	DumpAt []int       `json:"dump_at"` // step indices after which a full dump is emitted (last step always)
	Prefix bool        `json:"prefix"`  // run the snapshot/restore/replay experiment at every prefix
}

type verifOut struct {
	ID        int                    `json:"id"`
	Res       []bool                 `json:"res"`        // step returned nil
	Dumps     map[string]*verifDump  `json:"dumps"`      // step index -> dump of the live FSM after the step
	SnapEq    []bool                 `json:"snap_eq"`    // restore(snapshot(state_k)) dumps equal to state_k
	SnapDumps map[string]*verifDump  `json:"snap_dumps"` // the restored dump where it differs
	ReplayEq  []bool                 `json:"replay_eq"`  // replay of the remaining steps from the restored copy reaches the final state
	LateEq    []bool                 `json:"late_eq"`    // the Snapshot() object of prefix k, persisted only AFTER all later steps were applied, restores to the same state as when persisted at once
	Panic     string                 `json:"panic,omitempty"`
	Extra     map[string]interface{} `json:"extra,omitempty"`
}

// verifDump: every row is a positional tuple; rows are sorted.  Nested index maps are
// flattened to rows; EmptyInner lists inner maps/slices that exist but are empty.
type verifDump struct {
	Nodes      [][]interface{} `json:"nodes"` // key,id,name,role,cluster,addr,api,state,version,ws,cores
	Primary    string          `json:"primary"`
	Compactor  string          `json:"compactor"`
	Files      [][]interface{} `json:"files"` // key,path,sha,size,db,meas,ptime_s,ptime_ns,origin,tier,created_s,created_ns,lsn
	FilesByDB  [][]interface{} `json:"files_by_db"`
	Tokens     [][]interface{} `json:"tokens"` // key,id,name,desc,perms,hash,prefix,created,expires,enabled,lsn
	TokByPre   [][]interface{} `json:"tok_by_prefix"`
	TokByName  [][]interface{} `json:"tok_by_name"`
	Orgs       [][]interface{} `json:"orgs"` // key,id,name,desc,created,updated,enabled,lsn
	OrgByName  [][]interface{} `json:"org_by_name"`
	Teams      [][]interface{} `json:"teams"` // key,id,org,name,desc,created,updated,enabled,lsn
	TeamsByOrg [][]interface{} `json:"teams_by_org"`
	Roles      [][]interface{} `json:"roles"` // key,id,team,pattern,perms,created,lsn
	RolesByTm  [][]interface{} `json:"roles_by_team"`
	MPerms     [][]interface{} `json:"mperms"` // key,id,role,pattern,perms,created,lsn
	MPByRole   [][]interface{} `json:"mperms_by_role"`
	Mems       [][]interface{} `json:"mems"` // key,id,token,team,created,lsn
	MemByPair  [][]interface{} `json:"mem_by_pair"`
	MemByTok   [][]interface{} `json:"mem_by_token"`
	MemByTeam  [][]interface{} `json:"mem_by_team"`
	EmptyInner []string        `json:"empty_inner"`
	NilEntries []string        `json:"nil_entries"`
}

func verifSortRows(rows [][]interface{}) [][]interface{} {
	if rows == nil {
		return [][]interface{}{}
	}
	if len(rows) < 2 {
		return rows
	}
	type keyed struct {
		k string
		r []interface{}
	}
	ks := make([]keyed, len(rows))
	for i, r := range rows {
		b, _ := json.Marshal(r)
		ks[i] = keyed{string(b), r}
	}
	sort.Slice(ks, func(i, j int) bool { return ks[i].k < ks[j].k })
	for i := range ks {
		rows[i] = ks[i].r
	}
	return rows
}

func verifDumpFSM(f *ClusterFSM) *verifDump {
	f.mu.RLock()
	defer f.mu.RUnlock()
	d := &verifDump{Primary: f.primaryWriterID, Compactor: f.activeCompactorID, EmptyInner: []string{}, NilEntries: []string{}}
	for k, n := range f.nodes {
		if n == nil {
			d.NilEntries = append(d.NilEntries, "nodes:"+k)
			continue
		}
		d.Nodes = append(d.Nodes, []interface{}{k, n.ID, n.Name, n.Role, n.ClusterName, n.Address, n.APIAddress, n.State, n.Version, n.WriterState, n.CoreCount})
	}
	for k, e := range f.files {
		if e == nil {
			d.NilEntries = append(d.NilEntries, "files:"+k)
			continue
		}
		d.Files = append(d.Files, []interface{}{k, e.Path, e.SHA256, e.SizeBytes, e.Database, e.Measurement,
			e.PartitionTime.Unix(), e.PartitionTime.Nanosecond(), e.OriginNodeID, e.Tier, e.CreatedAt.Unix(), e.CreatedAt.Nanosecond(), e.LSN})
	}
	for db, set := range f.filesByDB {
		if len(set) == 0 {
			d.EmptyInner = append(d.EmptyInner, "filesByDB:"+db)
		}
		for p := range set {
			d.FilesByDB = append(d.FilesByDB, []interface{}{db, p})
		}
	}
	for k, e := range f.tokens {
		if e == nil {
			d.NilEntries = append(d.NilEntries, fmt.Sprintf("tokens:%d", k))
			continue
		}
		d.Tokens = append(d.Tokens, []interface{}{k, e.ID, e.Name, e.Description, e.Permissions, e.TokenHash, e.TokenPrefix, e.CreatedAtUnixNano, e.ExpiresAtUnixNano, e.Enabled, e.LSN})
	}
	for pre, ids := range f.tokensByPrefix {
		if len(ids) == 0 {
			d.EmptyInner = append(d.EmptyInner, "tokensByPrefix:"+pre)
		}
		for _, id := range ids {
			d.TokByPre = append(d.TokByPre, []interface{}{pre, id})
		}
	}
	for name, id := range f.tokensByName {
		d.TokByName = append(d.TokByName, []interface{}{name, id})
	}
	for k, e := range f.organizations {
		if e == nil {
			d.NilEntries = append(d.NilEntries, fmt.Sprintf("organizations:%d", k))
			continue
		}
		d.Orgs = append(d.Orgs, []interface{}{k, e.ID, e.Name, e.Description, e.CreatedAtUnixNano, e.UpdatedAtUnixNano, e.Enabled, e.LSN})
	}
	for name, id := range f.organizationsByName {
		d.OrgByName = append(d.OrgByName, []interface{}{name, id})
	}
	for k, e := range f.teams {
		if e == nil {
			d.NilEntries = append(d.NilEntries, fmt.Sprintf("teams:%d", k))
			continue
		}
		d.Teams = append(d.Teams, []interface{}{k, e.ID, e.OrganizationID, e.Name, e.Description, e.CreatedAtUnixNano, e.UpdatedAtUnixNano, e.Enabled, e.LSN})
	}
	for org, m := range f.teamsByOrg {
		if len(m) == 0 {
			d.EmptyInner = append(d.EmptyInner, fmt.Sprintf("teamsByOrg:%d", org))
		}
		for name, id := range m {
			d.TeamsByOrg = append(d.TeamsByOrg, []interface{}{org, name, id})
		}
	}
	for k, e := range f.roles {
		if e == nil {
			d.NilEntries = append(d.NilEntries, fmt.Sprintf("roles:%d", k))
			continue
		}
		d.Roles = append(d.Roles, []interface{}{k, e.ID, e.TeamID, e.DatabasePattern, e.Permissions, e.CreatedAtUnixNano, e.LSN})
	}
	for tm, set := range f.rolesByTeam {
		if len(set) == 0 {
			d.EmptyInner = append(d.EmptyInner, fmt.Sprintf("rolesByTeam:%d", tm))
		}
		for id := range set {
			d.RolesByTm = append(d.RolesByTm, []interface{}{tm, id})
		}
	}
	for k, e := range f.measurementPermissions {
		if e == nil {
			d.NilEntries = append(d.NilEntries, fmt.Sprintf("measurementPermissions:%d", k))
			continue
		}
		d.MPerms = append(d.MPerms, []interface{}{k, e.ID, e.RoleID, e.MeasurementPattern, e.Permissions, e.CreatedAtUnixNano, e.LSN})
	}
	for r, set := range f.measurementPermsByRole {
		if len(set) == 0 {
			d.EmptyInner = append(d.EmptyInner, fmt.Sprintf("measurementPermsByRole:%d", r))
		}
		for id := range set {
			d.MPByRole = append(d.MPByRole, []interface{}{r, id})
		}
	}
	for k, e := range f.tokenMemberships {
		if e == nil {
			d.NilEntries = append(d.NilEntries, fmt.Sprintf("tokenMemberships:%d", k))
			continue
		}
		d.Mems = append(d.Mems, []interface{}{k, e.ID, e.TokenID, e.TeamID, e.CreatedAtUnixNano, e.LSN})
	}
	for tok, m := range f.tokenMembershipsByPair {
		if len(m) == 0 {
			d.EmptyInner = append(d.EmptyInner, fmt.Sprintf("tokenMembershipsByPair:%d", tok))
		}
		for tm, id := range m {
			d.MemByPair = append(d.MemByPair, []interface{}{tok, tm, id})
		}
	}
	for tok, set := range f.tokenMembershipsByToken {
		if len(set) == 0 {
			d.EmptyInner = append(d.EmptyInner, fmt.Sprintf("tokenMembershipsByToken:%d", tok))
		}
		for id := range set {
			d.MemByTok = append(d.MemByTok, []interface{}{tok, id})
		}
	}
	for tm, set := range f.tokenMembershipsByTeam {
		if len(set) == 0 {
			d.EmptyInner = append(d.EmptyInner, fmt.Sprintf("tokenMembershipsByTeam:%d", tm))
		}
		for id := range set {
			d.MemByTeam = append(d.MemByTeam, []interface{}{tm, id})
		}
	}
	d.Nodes, d.Files, d.FilesByDB = verifSortRows(d.Nodes), verifSortRows(d.Files), verifSortRows(d.FilesByDB)
	d.Tokens, d.TokByPre, d.TokByName = verifSortRows(d.Tokens), verifSortRows(d.TokByPre), verifSortRows(d.TokByName)
	d.Orgs, d.OrgByName, d.Teams, d.TeamsByOrg = verifSortRows(d.Orgs), verifSortRows(d.OrgByName), verifSortRows(d.Teams), verifSortRows(d.TeamsByOrg)
	d.Roles, d.RolesByTm, d.MPerms, d.MPByRole = verifSortRows(d.Roles), verifSortRows(d.RolesByTm), verifSortRows(d.MPerms), verifSortRows(d.MPByRole)
	d.Mems, d.MemByPair, d.MemByTok, d.MemByTeam = verifSortRows(d.Mems), verifSortRows(d.MemByPair), verifSortRows(d.MemByTok), verifSortRows(d.MemByTeam)
	sort.Strings(d.EmptyInner)
	sort.Strings(d.NilEntries)
	return d
}

func verifDumpKey(d *verifDump) string {
	b, err := json.Marshal(d)
	if err != nil {
		panic(err)
	}
	return string(b)
}

type verifSink struct {
	bytes.Buffer
}

func (s *verifSink) ID() string    { return "verif" }
func (s *verifSink) Cancel() error { return nil }
func (s *verifSink) Close() error  { return nil }

// verifPersist: fsmSnapshot.Persist(sink) of a snapshot object obtained earlier from
// ClusterFSM.Snapshot().  hashicorp/raft calls Persist asynchronously, after the FSM has
// resumed applying commands, so the object must not share mutable data with the live FSM.
func verifPersist(snap hraft.FSMSnapshot) ([]byte, error) {
	sink := &verifSink{}
	if err := snap.Persist(sink); err != nil {
		return nil, err
	}
	return sink.Bytes(), nil
}

func verifRestoreBytes(b []byte) (*ClusterFSM, error) {
	g := NewClusterFSM(zerolog.Nop())
	if err := g.Restore(io.NopCloser(bytes.NewReader(b))); err != nil {
		return nil, err
	}
	return g, nil
}

// verifRestoreCopy: the production path Snapshot() -> Persist(sink) -> Restore, back to back.
// Also returns the snapshot object so that it can be persisted again later.
func verifRestoreCopy(f *ClusterFSM) (*ClusterFSM, hraft.FSMSnapshot, error) {
	snap, err := f.Snapshot()
	if err != nil {
		return nil, nil, err
	}
	b, err := verifPersist(snap)
	if err != nil {
		return nil, nil, err
	}
	g, err := verifRestoreBytes(b)
	return g, snap, err
}

// verifStepApply runs one step; returns the (possibly replaced) FSM and whether the step returned nil.
func verifStepApply(f *ClusterFSM, st *verifStep) (*ClusterFSM, bool) {
	switch st.K {
	case "cmd":
		payload := []byte(st.Payload)
		if st.PayB64 != "" || st.Payload == nil {
			payload, _ = base64.StdEncoding.DecodeString(st.PayB64)
		}
		data, err := json.Marshal(Command{Type: CommandType(st.Type), Payload: payload})
		if err != nil {
			panic(err)
		}
		r := f.Apply(&hraft.Log{Index: st.Idx, Data: data})
		return f, r == nil
	case "raw":
		data, _ := base64.StdEncoding.DecodeString(st.DataB64)
		r := f.Apply(&hraft.Log{Index: st.Idx, Data: data})
		return f, r == nil
	case "snap":
		g, _, err := verifRestoreCopy(f)
		if err != nil {
			return f, false
		}
		return g, true
	case "restore":
		err := f.Restore(io.NopCloser(bytes.NewReader([]byte(st.Snap))))
		return f, err == nil
	}
	panic("unknown step kind " + st.K)
}

func verifRunCase(c *verifCase) (out verifOut) {
	out = verifOut{ID: c.ID, Dumps: map[string]*verifDump{}, SnapDumps: map[string]*verifDump{}}
	defer func() {
		if r := recover(); r != nil {
			out.Panic = fmt.Sprint(r)
		}
	}()
	want := map[int]bool{}
	for _, k := range c.DumpAt {
		want[k] = true
	}
	if len(c.Steps) > 0 {
		want[len(c.Steps)-1] = true
	}
	f := NewClusterFSM(zerolog.Nop())
	copies := make([]*ClusterFSM, len(c.Steps))
	snaps := make([]hraft.FSMSnapshot, len(c.Steps))
	restoredKeys := make([]string, len(c.Steps))
	for i := range c.Steps {
		var ok bool
		f, ok = verifStepApply(f, &c.Steps[i])
		out.Res = append(out.Res, ok)
		d := verifDumpFSM(f)
		if want[i] {
			out.Dumps[fmt.Sprint(i)] = d
		}
		if c.Prefix {
			g, snap, err := verifRestoreCopy(f)
			if err != nil {
				panic(fmt.Sprintf("snapshot/restore failed at step %d: %v", i, err))
			}
			gd := verifDumpFSM(g)
			snaps[i] = snap
			restoredKeys[i] = verifDumpKey(gd)
			eq := restoredKeys[i] == verifDumpKey(d)
			out.SnapEq = append(out.SnapEq, eq)
			if !eq {
				out.SnapDumps[fmt.Sprint(i)] = gd
			}
			copies[i] = g
		}
	}
	if c.Prefix {
		// late Persist: every later step has been applied to the live FSM by now
		for i := range c.Steps {
			b, err := verifPersist(snaps[i])
			if err != nil {
				panic(fmt.Sprintf("late persist of the snapshot of step %d failed: %v", i, err))
			}
			g, err := verifRestoreBytes(b)
			if err != nil {
				panic(fmt.Sprintf("restore of the late-persisted snapshot of step %d failed: %v", i, err))
			}
			out.LateEq = append(out.LateEq, verifDumpKey(verifDumpFSM(g)) == restoredKeys[i])
			snaps[i].Release()
		}
		final := verifDumpKey(verifDumpFSM(f))
		for i := range c.Steps {
			g := copies[i]
			for j := i + 1; j < len(c.Steps); j++ {
				g, _ = verifStepApply(g, &c.Steps[j])
			}
			out.ReplayEq = append(out.ReplayEq, verifDumpKey(verifDumpFSM(g)) == final)
		}
	}
	return out
}

func TestVerifFSM(t *testing.T) {
	raw, err := os.ReadFile(os.Getenv("VERIF_CASES"))
	if err != nil {
		t.Fatal(err)
	}
	var cases []verifCase
	if err := json.Unmarshal(raw, &cases); err != nil {
		t.Fatal(err)
	}
	outs := make([]verifOut, 0, len(cases))
	for i := range cases {
		outs = append(outs, verifRunCase(&cases[i]))
	}
	consts := map[string]int{
		"add_node": int(CommandAddNode), "remove_node": int(CommandRemoveNode), "update_node": int(CommandUpdateNode),
		"update_node_state": int(CommandUpdateNodeState), "promote": int(CommandPromoteWriter), "demote": int(CommandDemoteWriter),
		"register_file": int(CommandRegisterFile), "delete_file": int(CommandDeleteFile), "assign_compactor": int(CommandAssignCompactor),
		"batch": int(CommandBatchFileOps), "update_file": int(CommandUpdateFile), "create_token": int(CommandCreateToken),
		"update_token": int(CommandUpdateToken), "revoke_token": int(CommandRevokeToken), "delete_token": int(CommandDeleteToken),
		"rotate_token": int(CommandRotateToken), "create_org": int(CommandCreateOrganization), "update_org": int(CommandUpdateOrganization),
		"delete_org": int(CommandDeleteOrganization), "create_team": int(CommandCreateTeam), "update_team": int(CommandUpdateTeam),
		"delete_team": int(CommandDeleteTeam), "create_role": int(CommandCreateRole), "update_role": int(CommandUpdateRole),
		"delete_role": int(CommandDeleteRole), "create_mperm": int(CommandCreateMeasurementPermission),
		"delete_mperm": int(CommandDeleteMeasurementPermission), "add_member": int(CommandAddTokenToTeam),
		"remove_member": int(CommandRemoveTokenFromTeam),
		"max_path": MaxManifestPathLen, "max_hash": maxTokenHashLen, "max_prefix": maxTokenPrefixLen,
		"max_name": rbacNameMaxLen, "max_pattern": rbacPatternMaxLen, "max_desc": rbacDescriptionMaxLen,
	}
	b, err := json.Marshal(map[string]interface{}{"consts": consts, "outs": outs})
	if err != nil {
		t.Fatal(err)
	}
	if err := os.WriteFile(os.Getenv("VERIF_OUT"), b, 0o644); err != nil {
		t.Fatal(err)
	}
}
