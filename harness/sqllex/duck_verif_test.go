//go:build verif

// C15 supporting validation of the reference lexer `duck_lex`: runs each (hex encoded)
// statement of $VERIF_CASES on a REAL in-memory DuckDB (no files, no extensions, external
// access disabled) and reports whether it parsed/executed, the result column names and the
// first row's values.  The statements are SELECT lists of string literals aliased by quoted
// identifiers, so values and names expose DuckDB's own reading of every literal.
package database

import (
	"database/sql"
	"encoding/hex"
	"encoding/json"
	"os"
	"testing"

	_ "github.com/duckdb/duckdb-go/v2"
)

type verifDuckOut struct {
	OK    bool     `json:"ok"`
	Err   string   `json:"err"`
	Cols  []string `json:"cols"` // hex
	Vals  []string `json:"vals"` // hex; "NULL" for NULL
	Types []string `json:"types"`
}

func TestVerifSqlLexDuck(t *testing.T) {
	raw, err := os.ReadFile(os.Getenv("VERIF_CASES"))
	if err != nil {
		t.Fatal(err)
	}
	var cases []string
	if err := json.Unmarshal(raw, &cases); err != nil {
		t.Fatal(err)
	}
	db, err := sql.Open("duckdb", "")
	if err != nil {
		t.Fatal(err)
	}
	defer db.Close()
	db.SetMaxOpenConns(1)
	if _, err := db.Exec("SET enable_external_access=false"); err != nil {
		t.Fatal(err)
	}
	outs := make([]verifDuckOut, len(cases))
	for i, c := range cases {
		b, err := hex.DecodeString(c)
		if err != nil {
			t.Fatal(err)
		}
		o := &outs[i]
		o.Cols, o.Vals, o.Types = []string{}, []string{}, []string{}
		rows, err := db.Query(string(b))
		if err != nil {
			o.Err = err.Error()
			continue
		}
		cols, _ := rows.Columns()
		for _, cn := range cols {
			o.Cols = append(o.Cols, hex.EncodeToString([]byte(cn)))
		}
		if cts, err := rows.ColumnTypes(); err == nil {
			for _, ct := range cts {
				o.Types = append(o.Types, ct.DatabaseTypeName())
			}
		}
		if rows.Next() {
			vals := make([]interface{}, len(cols))
			ptrs := make([]interface{}, len(cols))
			for k := range vals {
				ptrs[k] = &vals[k]
			}
			if err := rows.Scan(ptrs...); err != nil {
				o.Err = "scan: " + err.Error()
			} else {
				for _, v := range vals {
					switch x := v.(type) {
					case nil:
						o.Vals = append(o.Vals, "NULL")
					case string:
						o.Vals = append(o.Vals, hex.EncodeToString([]byte(x)))
					case []byte:
						o.Vals = append(o.Vals, hex.EncodeToString(x))
					default:
						bs, _ := json.Marshal(x)
						o.Vals = append(o.Vals, hex.EncodeToString(bs))
					}
				}
			}
		}
		if err := rows.Err(); err != nil && o.Err == "" {
			o.Err = err.Error()
		}
		rows.Close()
		o.OK = o.Err == ""
	}
	buf, err := json.Marshal(outs)
	if err != nil {
		t.Fatal(err)
	}
	if err := os.WriteFile(os.Getenv("VERIF_OUT"), buf, 0o644); err != nil {
		t.Fatal(err)
	}
}
