//go:build verif

// C15 correspondence harness (package api): runs the REAL scanSQLFeatures,
// stripSQLComments, normalizeSQLForShow and the mask -> from-mask -> strip -> unmask
// composition in the order the query handler uses (query.go: convertSQLToStoragePaths) on
// hex-encoded byte strings from $VERIF_CASES; writes the results to $VERIF_OUT.
package api

import (
	"encoding/hex"
	"encoding/json"
	"os"
	"testing"

	sqlutil "github.com/basekick-labs/arc/internal/sql"
)

type verifStripCase struct {
	Op string `json:"op"` // strip | pipe
	S  string `json:"s"`  // hex
}

type verifStripOut struct {
	HasQ     bool   `json:"hasq"`
	HasDash  bool   `json:"hasdash"`
	HasBlock bool   `json:"hasblock"`
	Stripped string `json:"stripped"` // stripSQLComments(s, true)
	Gated    string `json:"gated"`    // stripSQLComments(s, hasDash||hasBlock)
	Fast     string `json:"fast"`     // stripSQLComments(s, false)
	// pipe: features -> mask -> strip -> unmask (normalizeSQLForShow without backticks/TrimSpace),
	// and features -> mask -> from-mask -> strip -> from-unmask -> unmask (rewrite path skeleton)
	PipeMasked   string `json:"pipe_masked"`
	PipeStripped string `json:"pipe_stripped"`
	PipeOut      string `json:"pipe_out"`
	Pipe2Out     string `json:"pipe2_out"`
	Show         string `json:"show"` // normalizeSQLForShow(s)
}

func verifHexS(s string) string { return hex.EncodeToString([]byte(s)) }

func TestVerifSqlLexStrip(t *testing.T) {
	raw, err := os.ReadFile(os.Getenv("VERIF_CASES"))
	if err != nil {
		t.Fatal(err)
	}
	var cases []verifStripCase
	if err := json.Unmarshal(raw, &cases); err != nil {
		t.Fatal(err)
	}
	outs := make([]verifStripOut, len(cases))
	for i, c := range cases {
		b, err := hex.DecodeString(c.S)
		if err != nil {
			t.Fatal(err)
		}
		s := string(b)
		o := &outs[i]
		f := scanSQLFeatures(s)
		o.HasQ, o.HasDash, o.HasBlock = f.hasQuotes, f.hasDashComment, f.hasBlockComment
		switch c.Op {
		case "strip":
			o.Stripped = verifHexS(stripSQLComments(s, true))
			o.Gated = verifHexS(stripSQLComments(s, f.hasDashComment || f.hasBlockComment))
			o.Fast = verifHexS(stripSQLComments(s, false))
		case "pipe":
			masked, masks := sqlutil.MaskStringLiterals(s, f.hasQuotes)
			stripped := stripSQLComments(masked, f.hasDashComment || f.hasBlockComment)
			o.PipeMasked = verifHexS(masked)
			o.PipeStripped = verifHexS(stripped)
			o.PipeOut = verifHexS(sqlutil.UnmaskStringLiterals(stripped, masks))
			m2, fm := sqlutil.MaskFromKeywordsInFunctionBodies(masked)
			s2 := stripSQLComments(m2, f.hasDashComment || f.hasBlockComment)
			s2 = sqlutil.UnmaskFromKeywordsInFunctionBodies(s2, fm)
			o.Pipe2Out = verifHexS(sqlutil.UnmaskStringLiterals(s2, masks))
			o.Show = verifHexS(normalizeSQLForShow(s))
		default:
			t.Fatalf("unknown op %q", c.Op)
		}
	}
	buf, err := json.Marshal(outs)
	if err != nil {
		t.Fatal(err)
	}
	if err := os.WriteFile(os.Getenv("VERIF_OUT"), buf, 0o644); err != nil {
		t.Fatal(err)
	}
}
