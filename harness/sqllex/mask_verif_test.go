//go:build verif

// C15 correspondence harness (package sql): runs the REAL MaskStringLiterals /
// UnmaskStringLiterals / IdentifierNames / MaskFromKeywordsInFunctionBodies /
// UnmaskFromKeywordsInFunctionBodies on the byte strings in $VERIF_CASES (hex encoded, so
// arbitrary bytes survive JSON) and writes what they returned to $VERIF_OUT.
package sql

import (
	"encoding/hex"
	"encoding/json"
	"os"
	"testing"
)

type verifLexCase struct {
	Op string `json:"op"` // mask | from
	S  string `json:"s"`  // hex
}

type verifLexMask struct {
	P string `json:"p"`
	O string `json:"o"`
	I bool   `json:"i"`
}

type verifLexOut struct {
	HasQ     bool           `json:"hasq"`
	Masked   string         `json:"masked"`
	Masks    []verifLexMask `json:"masks"`
	Unmasked string         `json:"unmasked"`
	Fast     string         `json:"fast"`  // MaskStringLiterals(s, false) output (must be s)
	Names    []string       `json:"names"` // IdentifierNames[placeholder] of every identifier mask, in mask order
	Contains bool           `json:"contains"`
}

func verifHex(s string) string { return hex.EncodeToString([]byte(s)) }

func TestVerifSqlLexMask(t *testing.T) {
	raw, err := os.ReadFile(os.Getenv("VERIF_CASES"))
	if err != nil {
		t.Fatal(err)
	}
	var cases []verifLexCase
	if err := json.Unmarshal(raw, &cases); err != nil {
		t.Fatal(err)
	}
	outs := make([]verifLexOut, len(cases))
	for i, c := range cases {
		b, err := hex.DecodeString(c.S)
		if err != nil {
			t.Fatal(err)
		}
		s := string(b)
		o := &outs[i]
		o.Masks = []verifLexMask{}
		o.Names = []string{}
		switch c.Op {
		case "mask":
			o.HasQ = HasQuotes(s)
			masked, masks := MaskStringLiterals(s, true)
			o.Masked = verifHex(masked)
			for _, m := range masks {
				o.Masks = append(o.Masks, verifLexMask{verifHex(m.Placeholder), verifHex(m.Original), m.Identifier})
			}
			o.Unmasked = verifHex(UnmaskStringLiterals(masked, masks))
			fast, fm := MaskStringLiterals(s, false)
			if len(fm) != 0 {
				t.Fatalf("fast path returned masks")
			}
			o.Fast = verifHex(fast)
			names := IdentifierNames(masks)
			nident := 0
			for _, m := range masks {
				if m.Identifier {
					nident++
					n, ok := names[m.Placeholder]
					if !ok {
						t.Fatalf("IdentifierNames misses %q", m.Placeholder)
					}
					o.Names = append(o.Names, verifHex(n))
				}
			}
			if len(names) != nident {
				t.Fatalf("IdentifierNames has %d entries for %d identifier masks", len(names), nident)
			}
		case "from":
			o.Contains = ContainsFromKeywordFunction(s)
			masked, masks := MaskFromKeywordsInFunctionBodies(s)
			o.Masked = verifHex(masked)
			for _, m := range masks {
				o.Masks = append(o.Masks, verifLexMask{verifHex(m.Placeholder), verifHex(m.Original), false})
			}
			o.Unmasked = verifHex(UnmaskFromKeywordsInFunctionBodies(masked, masks))
		default:
			t.Fatalf("unknown op %q", c.Op)
		}
	}
	buf, err := json.Marshal(outs)
	if err != nil {
		t.Fatal(err)
	}
	if err := os.WriteFile(os.Getenv("VERIF_OUT"), buf, 0o644); err != nil {
		t.Fatal(err)
	}
}
