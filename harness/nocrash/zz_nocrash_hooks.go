//go:build verif

// Counters for the /verif C04 harness.  This file is injected into package ingest by
// `go test -overlay`; the overlay also replaces arrow_writer.go by a copy of the CURRENT file
// in which the two counters are bumped at anchored statements (task accepted on the flush
// queue / worker finished a task), so the harness can wait until every size-triggered flush
// of a request has run before it sends the next one.
package ingest

import "sync/atomic"

var (
	VerifNoCrashEnq  atomic.Int64 // flush tasks accepted on the queue
	VerifNoCrashDone atomic.Int64 // flush tasks completed by a worker
	// fault injection: while set, mergeBatches panics (inserted by the overlay at the top of its body), so
	// the harness can observe what a panic inside a flush does on the code as it is
	VerifNoCrashPanic atomic.Bool
)
