//go:build verif

// C04 correspondence harness (package api, injected with go test -overlay).
//
// A case is a SEQUENCE of steps against ONE server instance:
//   - "req":   an HTTP request sent with app.Test to the app built by the REAL api.NewServer
//     (fiber recover middleware + customErrorHandler, as in production) on which the REAL
//     handlers registered their own routes (MsgPackHandler, LineProtocolHandler, TLEHandler,
//     ImportHandler) over a REAL ingest.ArrowBuffer writing to a storage.LocalBackend in a
//     temporary directory;
//   - "flush": ArrowBuffer.FlushAll on a BARE goroutine - the stand-in for the periodic
//     age-based flush goroutine (same flushBufferLocked -> mergeBatches -> flushPartitionedData).
//
// After every request the harness waits until every size-triggered flush task the request put
// on the worker queue has been completed by the flush worker (counters inserted by the overlay
// into the CURRENT arrow_writer.go).
//
// A panic outside a request handler kills the process, so the steps run in a CHILD process
// (this test binary re-executed with VERIF_NC_CHILD=1).  The child appends one JSON line per
// event to a log; the parent reconstructs per-step statuses, where the child died, the panic
// text, and counts the rows of every Parquet file stored per database/measurement.
//
// Input: $VERIF_CASES, output: $VERIF_OUT.  Nothing is written outside t.TempDir().
package api

import (
	"bufio"
	"bytes"
	"compress/gzip"
	"context"
	"encoding/base64"
	"encoding/json"
	"fmt"
	"io"
	"io/fs"
	"net/http/httptest"
	"os"
	"os/exec"
	"path/filepath"
	"runtime"
	"strconv"
	"strings"
	"sync"
	"testing"
	"time"

	"github.com/apache/arrow-go/v18/parquet/file"
	"github.com/basekick-labs/arc/internal/config"
	"github.com/basekick-labs/arc/internal/ingest"
	"github.com/basekick-labs/arc/internal/storage"
	"github.com/klauspost/compress/zstd"
	"github.com/rs/zerolog"
)

type ncStep struct {
	Op string `json:"op"` // req | flush | inject (On: make mergeBatches panic from now on / stop) | gate | release
	On bool   `json:"on"`
	// Async (gated cases): send the request on its own goroutine and go on as soon as it is parked inside the
	// gated storage write; its HTTP status is reported by the following "release" step
	Async  bool    `json:"async"`
	Method string  `json:"method"` // default POST
	Path   string  `json:"path"`   // path + query
	DB     *string `json:"db"`     // x-arc-database header, absent when null
	CType  string  `json:"ctype"`
	Body   string  `json:"body"` // base64
	Enc    string  `json:"enc"`  // "" | gzip | zstd : the harness compresses the body
	// Measure: report the bytes the process allocated while this request was served
	Measure bool `json:"measure"`
}

type ncCase struct {
	ID      int   `json:"id"`
	MaxRows int   `json:"max_rows"` // ingest.max_buffer_size
	Typed   *bool `json:"typed"`    // nil: as NewMsgPackHandler decides (production)
	// Fresh: run the case alone in a child process of its own with GOMAXPROCS(1) (empty sync.Pools, deterministic
	// pool hand-off between consecutive requests)
	Fresh bool `json:"fresh"`
	// Gated: the storage backend's Write can be made to block ("gate" step) until a "release" step
	Gated bool     `json:"gated"`
	Steps []ncStep `json:"steps"`
}

type ncObs struct {
	ID       int            `json:"id"`
	Statuses []int          `json:"statuses"` // per step: HTTP status; flush: 0 ok, 1 error returned
	Settled  int            `json:"settled"`  // number of steps that completed including the wait for background flushes
	Died     bool           `json:"died"`
	DiedAt   int            `json:"died_at"` // index of the step during which the process died (-1)
	Panic    string         `json:"panic"`   // panic value + innermost frames of the fatal panic
	Rows     map[string]int `json:"rows"`    // "db/measurement" -> rows in stored parquet files
	Files    int            `json:"files"`
	Err      string         `json:"err,omitempty"`
	Ms       int64          `json:"ms"`       // wall time of the case in the child
	AllocMB  []int64        `json:"alloc_mb"` // per measured step: MB allocated while the request was served (-1: not measured)
	Buffered int64          `json:"buffered"` // ArrowBuffer.GetStats()["total_records_buffered"] after Close (-1: the case did not end)
	Written  int64          `json:"written"`  // ... ["total_records_written"]
}

type ncLine struct {
	Case     int    `json:"case"`
	Step     int    `json:"step"`
	Ev       string `json:"ev"` // begin | status | settled | end | fatal
	Status   int    `json:"status"`
	Message  string `json:"msg,omitempty"`
	Ms       int64  `json:"ms,omitempty"`
	AllocMB  int64  `json:"alloc_mb,omitempty"`
	Buffered int64  `json:"buffered,omitempty"`
	Written  int64  `json:"written,omitempty"`
}

func ncCaseDir(root string, id int) string { return filepath.Join(root, "case"+strconv.Itoa(id)) }

// ---------------------------------------------------------------------------------------
// child

func ncCompress(enc string, body []byte) ([]byte, error) {
	switch enc {
	case "gzip":
		var b bytes.Buffer
		w := gzip.NewWriter(&b)
		if _, err := w.Write(body); err != nil {
			return nil, err
		}
		if err := w.Close(); err != nil {
			return nil, err
		}
		return b.Bytes(), nil
	case "zstd":
		w, err := zstd.NewWriter(nil)
		if err != nil {
			return nil, err
		}
		out := w.EncodeAll(body, nil)
		w.Close()
		return out, nil
	}
	return body, nil
}

// ncGatedBackend is the real LocalBackend whose next Write can be parked: forced interleavings of a flush that is
// inside its storage write (shard lock released) with another request.
type ncGatedBackend struct {
	storage.Backend
	mu      sync.Mutex
	armed   bool
	entered chan struct{}
	release chan struct{}
}

func (g *ncGatedBackend) arm() {
	g.mu.Lock()
	g.armed = true
	g.entered = make(chan struct{})
	g.release = make(chan struct{})
	g.mu.Unlock()
}

func (g *ncGatedBackend) Write(ctx context.Context, path string, data []byte) error {
	g.mu.Lock()
	park := g.armed
	g.armed = false // only the first write after arming is parked
	entered, release := g.entered, g.release
	g.mu.Unlock()
	if park {
		close(entered)
		<-release
	}
	return g.Backend.Write(ctx, path, data)
}

func ncRunCase(c ncCase, root string, emit func(ncLine)) error {
	dir := ncCaseDir(root, c.ID)
	if err := os.MkdirAll(dir, 0o755); err != nil {
		return err
	}
	logger := zerolog.Nop()
	local, err := storage.NewLocalBackend(dir, logger)
	if err != nil {
		return err
	}
	var backend storage.Backend = local
	var gate *ncGatedBackend
	if c.Gated {
		gate = &ncGatedBackend{Backend: local}
		backend = gate
	}
	type asyncResult struct {
		status int
		msg    string
	}
	var pending []chan asyncResult
	maxRows := c.MaxRows
	if maxRows <= 0 {
		maxRows = 1000000
	}
	buf := ingest.NewArrowBuffer(&config.IngestConfig{MaxBufferSize: maxRows, MaxBufferAgeMS: 3600000, Compression: "snappy",
		FlushWorkers: 1, FlushQueueSize: 100, ShardCount: 4}, backend, logger)
	srv := NewServer(&ServerConfig{MaxPayloadSize: 8 << 20, ReadTimeout: 30 * time.Second, WriteTimeout: 30 * time.Second}, logger)
	srv.RegisterRoutes()
	mp := NewMsgPackHandler(logger, buf, srv.GetMaxPayloadSize())
	if c.Typed != nil {
		mp.decoder.SetTypedDecodeEnabled(*c.Typed)
	}
	mp.RegisterRoutes(srv.GetApp())
	NewLineProtocolHandler(buf, logger).RegisterRoutes(srv.GetApp())
	NewTLEHandler(buf, logger).RegisterRoutes(srv.GetApp())
	imp := NewImportHandler(logger)
	imp.SetArrowBuffer(buf)
	imp.RegisterRoutes(srv.GetApp())

	t0 := time.Now()
	emit(ncLine{Case: c.ID, Ev: "begin"})
	for k, s := range c.Steps {
		switch s.Op {
		case "inject":
			ingest.VerifNoCrashPanic.Store(s.On)
			emit(ncLine{Case: c.ID, Step: k, Ev: "status", Status: 0})
		case "gate":
			if gate == nil {
				return fmt.Errorf("gate step in a case that is not gated")
			}
			gate.arm()
			emit(ncLine{Case: c.ID, Step: k, Ev: "status", Status: 0})
		case "release":
			// let the parked storage write go on, then collect the parked request(s); the status reported is the
			// last parked request's
			st := 0
			if gate != nil {
				gate.mu.Lock()
				rel := gate.release
				gate.mu.Unlock()
				if rel != nil {
					select {
					case <-rel:
					default:
						close(rel)
					}
				}
			}
			msg := ""
			for _, ch := range pending {
				select {
				case r := <-ch:
					st, msg = r.status, r.msg
				case <-time.After(60 * time.Second):
					return fmt.Errorf("parked request did not finish")
				}
			}
			pending = nil
			emit(ncLine{Case: c.ID, Step: k, Ev: "status", Status: st, Message: msg})
		case "flush":
			done := make(chan error, 1)
			go func() { done <- buf.FlushAll(context.Background()) }() // bare goroutine, as periodicFlush
			st := 0
			if err := <-done; err != nil {
				st = 1
			}
			emit(ncLine{Case: c.ID, Step: k, Ev: "status", Status: st})
		default:
			body, err := base64.StdEncoding.DecodeString(s.Body)
			if err != nil {
				return err
			}
			if body, err = ncCompress(s.Enc, body); err != nil {
				return err
			}
			method := s.Method
			if method == "" {
				method = "POST"
			}
			req := httptest.NewRequest(method, s.Path, bytes.NewReader(body))
			if s.CType != "" {
				req.Header.Set("Content-Type", s.CType)
			}
			if s.DB != nil {
				req.Header.Set("x-arc-database", *s.DB)
			}
			if s.Async {
				if gate == nil {
					return fmt.Errorf("async request in a case that is not gated")
				}
				ch := make(chan asyncResult, 1)
				pending = append(pending, ch)
				go func() {
					resp, err := srv.GetApp().Test(req, 60000)
					if err != nil {
						ch <- asyncResult{-1, err.Error()}
						return
					}
					io.Copy(io.Discard, resp.Body) //nolint:errcheck
					resp.Body.Close()
					ch <- asyncResult{resp.StatusCode, ""}
				}()
				gate.mu.Lock()
				entered := gate.entered
				gate.mu.Unlock()
				// 0: parked inside the storage write; 3: it finished (or 10 s passed) without reaching the gate
				st := 0
				select {
				case <-entered:
				case <-time.After(10 * time.Second):
					st = 3
				}
				emit(ncLine{Case: c.ID, Step: k, Ev: "status", Status: st})
				emit(ncLine{Case: c.ID, Step: k, Ev: "settled"})
				continue
			}
			var m0, m1 runtime.MemStats
			if s.Measure {
				runtime.ReadMemStats(&m0)
			}
			resp, err := srv.GetApp().Test(req, 60000)
			allocMB := int64(-1)
			if s.Measure {
				runtime.ReadMemStats(&m1)
				allocMB = int64((m1.TotalAlloc - m0.TotalAlloc) >> 20)
			}
			if err != nil {
				emit(ncLine{Case: c.ID, Step: k, Ev: "status", Status: -1, Message: err.Error(), AllocMB: allocMB})
			} else {
				io.Copy(io.Discard, resp.Body) //nolint:errcheck
				resp.Body.Close()
				emit(ncLine{Case: c.ID, Step: k, Ev: "status", Status: resp.StatusCode, AllocMB: allocMB})
			}
			// wait for the size-triggered flush tasks of this request
			deadline := time.Now().Add(60 * time.Second)
			for ingest.VerifNoCrashDone.Load() < ingest.VerifNoCrashEnq.Load() {
				if time.Now().After(deadline) {
					return fmt.Errorf("flush worker did not finish")
				}
				time.Sleep(200 * time.Microsecond)
			}
		}
		emit(ncLine{Case: c.ID, Step: k, Ev: "settled"})
	}
	ingest.VerifNoCrashPanic.Store(false)
	closed := make(chan struct{})
	go func() { buf.Close(); close(closed) }() //nolint:errcheck
	<-closed
	stats := buf.GetStats()
	nb, _ := stats["total_records_buffered"].(int64)
	nw, _ := stats["total_records_written"].(int64)
	emit(ncLine{Case: c.ID, Ev: "end", Ms: time.Since(t0).Milliseconds(), Buffered: nb, Written: nw})
	return nil
}

func TestVerifNoCrashChild(t *testing.T) {
	if os.Getenv("VERIF_NC_CHILD") != "1" {
		t.Skip("child mode only")
	}
	var cases []ncCase
	raw, err := os.ReadFile(os.Getenv("VERIF_NC_IN"))
	if err != nil {
		t.Fatal(err)
	}
	if err := json.Unmarshal(raw, &cases); err != nil {
		t.Fatal(err)
	}
	if os.Getenv("VERIF_NC_ONEPROC") == "1" {
		runtime.GOMAXPROCS(1)
	}
	lo, _ := strconv.Atoi(os.Getenv("VERIF_NC_LO"))
	hi, _ := strconv.Atoi(os.Getenv("VERIF_NC_HI"))
	logf, err := os.OpenFile(os.Getenv("VERIF_NC_LOG"), os.O_APPEND|os.O_CREATE|os.O_WRONLY, 0o644)
	if err != nil {
		t.Fatal(err)
	}
	emit := func(l ncLine) {
		b, _ := json.Marshal(l)
		logf.Write(append(b, '\n')) //nolint:errcheck
	}
	root := os.Getenv("VERIF_NC_ROOT")
	for i := lo; i < hi && i < len(cases); i++ {
		if err := ncRunCase(cases[i], root, emit); err != nil {
			emit(ncLine{Case: cases[i].ID, Ev: "fatal", Message: err.Error()})
		}
	}
	logf.Close()
}

// ---------------------------------------------------------------------------------------
// parent

// the fatal panic of a Go process is the LAST "panic: " block on stderr (the recover middleware
// prints recovered handler panics in the same format before it)
func ncFatalPanic(stderr string) string {
	i := strings.LastIndex(stderr, "\npanic: ")
	if strings.HasPrefix(stderr, "panic: ") && i < 0 {
		i = 0
	}
	if i < 0 {
		j := strings.LastIndex(stderr, "fatal error: ")
		if j < 0 {
			if len(stderr) > 400 {
				return stderr[len(stderr)-400:]
			}
			return stderr
		}
		i = j
	}
	blk := strings.TrimLeft(stderr[i:], "\n")
	lines := strings.Split(blk, "\n")
	out := []string{lines[0]}
	// the frames of the PANICKING goroutine only (the first goroutine block), innermost first, whatever package
	inBlock := false
	for _, l := range lines[1:] {
		if strings.HasPrefix(l, "goroutine ") {
			if inBlock {
				break
			}
			inBlock = true
			continue
		}
		if !inBlock || l == "" || strings.HasPrefix(l, "\t") || strings.HasPrefix(l, "created by ") || strings.HasPrefix(l, "panic(") {
			if inBlock && l == "" {
				break
			}
			continue
		}
		f := l
		if p := strings.LastIndex(f, "("); p > 0 { // drop the argument list, keep (*T).method
			f = f[:p]
		}
		f = strings.TrimPrefix(f, "github.com/basekick-labs/arc/")
		f = strings.TrimPrefix(f, "github.com/apache/arrow-go/v18/")
		out = append(out, f)
		if len(out) >= 8 {
			break
		}
	}
	return strings.Join(out, " | ")
}

func ncCountRows(root string, id int) (map[string]int, int) {
	rows := map[string]int{}
	files := 0
	dir := ncCaseDir(root, id)
	filepath.WalkDir(dir, func(p string, d fs.DirEntry, err error) error { //nolint:errcheck
		if err != nil || d.IsDir() || !strings.HasSuffix(p, ".parquet") {
			return nil
		}
		rel, _ := filepath.Rel(dir, p)
		parts := strings.Split(filepath.ToSlash(rel), "/")
		key := rel
		if len(parts) >= 7 {
			// database/measurement/YYYY/MM/DD/HH/file
			key = strings.Join(parts[:len(parts)-5], "/")
		} else if len(parts) == 6 {
			// an empty measurement collapses a path segment: database//YYYY/MM/DD/HH/file
			key = parts[0] + "/"
		}
		files++
		rd, err := file.OpenParquetFile(p, false)
		if err != nil {
			rows[key] += -1000000
			return nil
		}
		rows[key] += int(rd.NumRows())
		rd.Close()
		return nil
	})
	return rows, files
}

func ncRunRange(t *testing.T, casesPath, root string, cases []ncCase, lo, hi int, out []ncObs, oneProc bool) {
	exe, err := os.Executable()
	if err != nil {
		t.Fatal(err)
	}
	start := lo
	for start < hi {
		logPath := filepath.Join(root, fmt.Sprintf("log_%d_%d.jsonl", lo, start))
		cmd := exec.Command(exe, "-test.run", "^TestVerifNoCrashChild$", "-test.count=1")
		cmd.Env = append(os.Environ(), "VERIF_NC_CHILD=1", "VERIF_NC_IN="+casesPath, "VERIF_NC_LO="+strconv.Itoa(start),
			"VERIF_NC_HI="+strconv.Itoa(hi), "VERIF_NC_LOG="+logPath, "VERIF_NC_ROOT="+root, "GOTRACEBACK=all")
		if oneProc {
			cmd.Env = append(cmd.Env, "VERIF_NC_ONEPROC=1")
		}
		var stderr bytes.Buffer
		cmd.Stderr = &stderr
		cmd.Stdout = &stderr
		done := make(chan error, 1)
		if err := cmd.Start(); err != nil {
			t.Fatal(err)
		}
		go func() { done <- cmd.Wait() }()
		var werr error
		select {
		case werr = <-done:
		case <-time.After(10 * time.Minute):
			cmd.Process.Kill() //nolint:errcheck
			werr = fmt.Errorf("child timed out")
			<-done
		}
		// parse the log
		next := start
		f, err := os.Open(logPath)
		if err == nil {
			sc := bufio.NewScanner(f)
			sc.Buffer(make([]byte, 1<<20), 1<<24)
			idx := map[int]int{}
			for i := start; i < hi; i++ {
				idx[cases[i].ID] = i
			}
			for sc.Scan() {
				var l ncLine
				if json.Unmarshal(sc.Bytes(), &l) != nil {
					continue
				}
				i, ok := idx[l.Case]
				if !ok {
					continue
				}
				o := &out[i]
				switch l.Ev {
				case "begin":
					o.ID = l.Case
					o.DiedAt = -1
					o.Buffered, o.Written = -1, -1
					o.Statuses = []int{}
					next = i
				case "status":
					o.Statuses = append(o.Statuses, l.Status)
					o.AllocMB = append(o.AllocMB, l.AllocMB)
					if l.Message != "" {
						o.Err = l.Message
					}
				case "settled":
					o.Settled = l.Step + 1
				case "fatal":
					o.Err = l.Message
					next = i + 1
				case "end":
					o.Ms = l.Ms
					o.Buffered, o.Written = l.Buffered, l.Written
					next = i + 1
				}
			}
			f.Close()
		}
		if werr == nil && next >= hi {
			break
		}
		// the child stopped inside case `next` (or before starting it)
		if next < hi {
			o := &out[next]
			if o.Statuses == nil {
				o.ID = cases[next].ID
				o.Statuses = []int{}
			}
			o.Died = true
			o.DiedAt = o.Settled
			o.Panic = ncFatalPanic(stderr.String())
			if d := os.Getenv("VERIF_NC_STDERR"); d != "" { // debugging aid: keep the dead child's whole stderr
				os.WriteFile(filepath.Join(d, fmt.Sprintf("stderr_case%d.txt", cases[next].ID)), stderr.Bytes(), 0o644) //nolint:errcheck
			}
			if werr != nil && o.Panic == "" {
				o.Panic = werr.Error()
			}
		}
		start = next + 1
	}
}

func TestVerifNoCrash(t *testing.T) {
	if os.Getenv("VERIF_NC_CHILD") == "1" {
		t.Skip("parent mode only")
	}
	casesPath := os.Getenv("VERIF_CASES")
	raw, err := os.ReadFile(casesPath)
	if err != nil {
		t.Fatal(err)
	}
	var cases []ncCase
	if err := json.Unmarshal(raw, &cases); err != nil {
		t.Fatal(err)
	}
	root := t.TempDir()
	out := make([]ncObs, len(cases))
	workers := runtime.NumCPU()
	if workers > 12 {
		workers = 12
	}
	if w, err := strconv.Atoi(os.Getenv("VERIF_NC_WORKERS")); err == nil && w > 0 {
		workers = w
	}
	if workers < 1 {
		workers = 1
	}
	// "fresh" cases: each alone in a child of its own; the others in ranges that contain no fresh case
	var wg sync.WaitGroup
	sem := make(chan struct{}, workers)
	var plain [][2]int
	start := -1
	for i := range cases {
		if cases[i].Fresh {
			if start >= 0 {
				plain = append(plain, [2]int{start, i})
				start = -1
			}
			wg.Add(1)
			go func(i int) {
				defer wg.Done()
				sem <- struct{}{}
				defer func() { <-sem }()
				ncRunRange(t, casesPath, root, cases, i, i+1, out, true)
			}(i)
		} else if start < 0 {
			start = i
		}
	}
	if start >= 0 {
		plain = append(plain, [2]int{start, len(cases)})
	}
	for _, r := range plain {
		n := r[1] - r[0]
		parts := workers
		if parts > n {
			parts = n
		}
		for w := 0; w < parts; w++ {
			lo := r[0] + n*w/parts
			hi := r[0] + n*(w+1)/parts
			wg.Add(1)
			go func() {
				defer wg.Done()
				sem <- struct{}{}
				defer func() { <-sem }()
				ncRunRange(t, casesPath, root, cases, lo, hi, out, false)
			}()
		}
	}
	wg.Wait()
	for i := range out {
		out[i].ID = cases[i].ID
		if out[i].Statuses == nil {
			out[i].Statuses = []int{}
		}
		if !out[i].Died {
			out[i].DiedAt = -1
		}
		out[i].Rows, out[i].Files = ncCountRows(root, cases[i].ID)
	}
	if dst := os.Getenv("VERIF_NC_SAVE_PARQUET"); dst != "" {
		// one-off helper: keep one stored file as the seed of the Parquet mutation stream
		filepath.WalkDir(root, func(p string, d fs.DirEntry, err error) error { //nolint:errcheck
			if err == nil && !d.IsDir() && strings.HasSuffix(p, ".parquet") {
				if data, rerr := os.ReadFile(p); rerr == nil {
					os.WriteFile(dst, data, 0o644) //nolint:errcheck
					return filepath.SkipAll
				}
			}
			return nil
		})
	}
	b, err := json.Marshal(out)
	if err != nil {
		t.Fatal(err)
	}
	if err := os.WriteFile(os.Getenv("VERIF_OUT"), b, 0o644); err != nil {
		t.Fatal(err)
	}
}
