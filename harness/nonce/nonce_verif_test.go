//go:build verif

// C26 correspondence harness: drives the REAL validators and NonceCache of package
// security under a controlled clock (time.Now() in auth.go, edgesync_auth.go and
// nonce_cache.go is rewritten to verifNow() by the overlay generated from the current
// sources) on the cases in $VERIF_CASES and writes the observed decisions to $VERIF_OUT.
package security

import (
	"encoding/json"
	"os"
	"strings"
	"testing"
	"time"
	"unsafe"
)

// verifVolatile returns a string whose bytes live in a caller-owned buffer, the way
// fiber's c.Get() header values alias the connection's request buffer (Immutable=false).
// The harness scribbles over the buffer after each delivery: the model has value
// semantics, so the cache must have copied what it keeps.
func verifVolatile(s string) (string, []byte) {
	if len(s) == 0 {
		return "", nil
	}
	b := []byte(s)
	return unsafe.String(&b[0], len(b)), b
}

func verifScribble(bs ...[]byte) {
	for _, b := range bs {
		for i := range b {
			b[i] = 'Z'
		}
	}
}

type verifNonceEvent struct {
	Now    int64  `json:"now"`
	Sender string `json:"sender"`
	Nonce  string `json:"nonce"`
	TS     int64  `json:"ts"`
	Auth   bool   `json:"auth"`
}

type verifNonceCase struct {
	ID     int               `json:"id"`
	Kind   string            `json:"kind"` // forward | cacheinv | replsync | syncfile
	Tol    int64             `json:"tol"`
	TTL    int64             `json:"ttl"`
	T0     int64             `json:"t0"`
	Events []verifNonceEvent `json:"events"`
	Obs    []bool            `json:"obs"`
}

func TestVerifNonce(t *testing.T) {
	raw, err := os.ReadFile(os.Getenv("VERIF_CASES"))
	if err != nil {
		t.Fatal(err)
	}
	var cases []verifNonceCase
	if err := json.Unmarshal(raw, &cases); err != nil {
		t.Fatal(err)
	}
	const secret = "verif-shared-secret"
	const cluster = "verif-cluster"
	for ci := range cases {
		c := &cases[ci]
		VerifClockNS.Store(c.T0)
		nc := NewNonceCache(time.Duration(c.TTL))
		tol := time.Duration(c.Tol)
		for _, ev0 := range c.Events {
			ev := ev0
			VerifClockNS.Store(ev.Now)
			ok := false
			var sb, nb []byte
			ev.Sender, sb = verifVolatile(ev0.Sender)
			ev.Nonce, nb = verifVolatile(ev0.Nonce)
			switch c.Kind {
			case "forward":
				payload := []byte("payload-" + ev.Nonce)
				mac := ComputeForwardHMAC(secret, ev.Nonce, ev.Sender, cluster, payload, ev.TS)
				if !ev.Auth {
					mac = strings.Repeat("0", len(mac))
				}
				// composition of coordinator.handleForwardApply: validate, then Track
				if err := ValidateForwardHMAC(secret, ev.Nonce, ev.Sender, cluster, payload, ev.TS, mac, tol); err == nil {
					ok = nc.Track(ev.Sender, ev.Nonce)
				}
			case "cacheinv":
				mac := ComputeCacheInvalidateHMAC(secret, ev.Nonce, ev.Sender, cluster, ev.TS)
				if !ev.Auth {
					mac = strings.Repeat("0", len(mac))
				}
				if err := ValidateCacheInvalidateHMAC(secret, ev.Nonce, ev.Sender, cluster, ev.TS, mac, tol); err == nil {
					ok = nc.Track(ev.Sender, ev.Nonce)
				}
			case "replsync":
				mac := ComputeReplicateSyncHMAC(secret, ev.Nonce, ev.Sender, cluster, 42, ev.TS)
				if !ev.Auth {
					mac = strings.Repeat("0", len(mac))
				}
				if err := ValidateReplicateSyncHMAC(secret, ev.Nonce, ev.Sender, cluster, 42, ev.TS, mac, tol); err == nil {
					ok = nc.Track(ev.Sender, ev.Nonce)
				}
			case "syncfile":
				sha := strings.Repeat("ab", 32)
				mac, err := ComputeSyncFileHMAC(secret, ev.Nonce, ev.Sender, "hub1", "db/m/f.parquet", sha, ev.TS)
				if err != nil {
					t.Fatalf("case %d: compute: %v", c.ID, err)
				}
				if !ev.Auth {
					mac = strings.Repeat("0", len(mac))
				}
				// real composition (validate, then consume the nonce) lives in the package
				ok = ValidateSyncFileHMACWithReplay(nc, secret, ev.Nonce, ev.Sender, "hub1", "db/m/f.parquet", sha, ev.TS, mac, tol) == nil
			default:
				t.Fatalf("unknown kind %q", c.Kind)
			}
			verifScribble(sb, nb)
			c.Obs = append(c.Obs, ok)
		}
	}
	out, _ := json.Marshal(cases)
	if err := os.WriteFile(os.Getenv("VERIF_OUT"), out, 0o644); err != nil {
		t.Fatal(err)
	}
}
