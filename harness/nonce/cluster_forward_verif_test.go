//go:build verif

// C26 correspondence harness, handler level: delivers MsgForwardApply requests through the
// REAL leader-side dispatcher (Coordinator.handlePeerConnection -> handleForwardApplyLoop ->
// handleForwardApply) of a bare Coordinator whose nonce cache has the retention found at the
// construction site in the source, under the controlled clock of package security.  A request
// that gets past the HMAC and replay gates is answered "raft_unavailable" (no raft node);
// one stopped by a gate is answered "auth".
package cluster

import (
	"encoding/json"
	"net"
	"os"
	"strings"
	"testing"
	"time"

	"github.com/basekick-labs/arc/internal/cluster/protocol"
	"github.com/basekick-labs/arc/internal/cluster/security"
	"github.com/basekick-labs/arc/internal/config"
	"github.com/rs/zerolog"
)

type verifFwdEvent struct {
	Now    int64  `json:"now"`
	Sender string `json:"sender"`
	Nonce  string `json:"nonce"`
	TS     int64  `json:"ts"`
	Auth   bool   `json:"auth"`
	Mac    string `json:"mac"` // "", upper, mixed: re-spellings of the SAME valid MAC
}

type verifFwdCase struct {
	ID     int             `json:"id"`
	TTL    int64           `json:"ttl"`
	T0     int64           `json:"t0"`
	Events []verifFwdEvent `json:"events"`
	Obs    []bool          `json:"obs"`
}

func verifDeliverForward(t *testing.T, c *Coordinator, req *protocol.ForwardApplyRequest) protocol.ForwardApplyCode {
	server, client := net.Pipe()
	done := make(chan struct{})
	go func() {
		defer close(done)
		c.handlePeerConnection(server)
	}()
	cp := *req
	if err := protocol.SendMessage(client, &protocol.Message{Type: protocol.MsgForwardApply, Payload: &cp}, 5*time.Second); err != nil {
		t.Fatalf("send forward-apply: %v", err)
	}
	msg, err := protocol.ReceiveMessage(client, 5*time.Second)
	if err != nil {
		t.Fatalf("receive forward-apply ack: %v", err)
	}
	client.Close()
	<-done
	ack, ok := msg.Payload.(*protocol.ForwardApplyAck)
	if !ok {
		t.Fatalf("unexpected ack payload %T", msg.Payload)
	}
	return ack.Code
}

func TestVerifNonceForward(t *testing.T) {
	raw, err := os.ReadFile(os.Getenv("VERIF_CASES"))
	if err != nil {
		t.Fatal(err)
	}
	var cases []verifFwdCase
	if err := json.Unmarshal(raw, &cases); err != nil {
		t.Fatal(err)
	}
	const secret = "verif-shared-secret"
	const cluster = "verif-cluster"
	for ci := range cases {
		cs := &cases[ci]
		security.VerifClockNS.Store(cs.T0)
		local := NewNode("leader-1", "leader-1", RoleWriter, cluster)
		reg := NewRegistry(&RegistryConfig{LocalNode: local, Logger: zerolog.Nop()})
		c := &Coordinator{
			cfg:        &config.ClusterConfig{ClusterName: cluster, SharedSecret: secret},
			registry:   reg,
			localNode:  local,
			logger:     zerolog.Nop(),
			nonceCache: security.NewNonceCache(time.Duration(cs.TTL)),
		}
		for _, ev := range cs.Events {
			security.VerifClockNS.Store(ev.Now)
			payload := []byte(`{"type":10,"payload":{"path":"db/m/` + ev.Nonce + `.parquet"}}`)
			mac := security.ComputeForwardHMAC(secret, ev.Nonce, ev.Sender, cluster, payload, ev.TS)
			switch {
			case !ev.Auth:
				mac = strings.Repeat("0", len(mac))
			case ev.Mac == "upper":
				mac = strings.ToUpper(mac)
			case ev.Mac == "mixed":
				b := []byte(mac)
				for i := range b {
					if b[i] >= 'a' && b[i] <= 'f' {
						b[i] -= 'a' - 'A'
						break
					}
				}
				mac = string(b)
			}
			code := verifDeliverForward(t, c, &protocol.ForwardApplyRequest{CommandJSON: payload, NodeID: ev.Sender, Nonce: ev.Nonce, Timestamp: ev.TS, HMAC: mac})
			cs.Obs = append(cs.Obs, code == protocol.ForwardCodeRaftUnavailable)
		}
	}
	out, _ := json.Marshal(cases)
	if err := os.WriteFile(os.Getenv("VERIF_OUT"), out, 0o644); err != nil {
		t.Fatal(err)
	}
}
