//go:build verif

// Controlled clock shared by the C26 harnesses (overlaid into package security; time.Now()
// in auth.go, edgesync_auth.go and nonce_cache.go is rewritten to verifNow()).
package security

import (
	"sync/atomic"
	"time"
)

// VerifClockNS is the controlled wall clock in nanoseconds since the epoch.
var VerifClockNS atomic.Int64

func verifNow() time.Time { return time.Unix(0, VerifClockNS.Load()) }
