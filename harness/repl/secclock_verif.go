//go:build verif

// C24: controlled clock skew for the overlay-rewritten security/auth.go (time.Now() ->
// verifNow()): lets the harness run the real checkpoint validator with a receiver clock that
// differs from the sender's by a chosen number of seconds.
package security

import (
	"sync/atomic"
	"time"
)

// VerifClockSkewSec is added to the wall clock seen by the validators of this package.
var VerifClockSkewSec atomic.Int64

func verifNow() time.Time {
	return time.Now().Add(time.Duration(VerifClockSkewSec.Load()) * time.Second)
}
