//go:build verif

// C24 correspondence harness (package replication, injected with go test -overlay).
//
// Phase 1 - writer side: real wal.Writer (replication hook wired exactly as
// coordinator.Start wires it) + real Sender with one reader over net.Pipe.  Writer
// goroutines are driven step by step through the schedule points the overlay inserts into
// the CURRENT sources (wal.go: after the sequence assignment under w.mu; sender.go: between
// s.sequence.Add(1) and the channel send; distributionLoop: top of the loop), so the real
// goroutines execute exactly the interleaving the case names.  Observed: frames on the
// wire, entries left in entryChan, dropped-sequence reports, both sequence counters.
// Phase 2 - wire adversary: the case's edit script rewrites the frame list.
// Phase 3 - receiver side: the real Receiver.receiveLoop reads the edited frames from a
// net.Pipe; observed: every applyEntry call, final lastSeq, why the loop returned.
package replication

import (
	"bytes"
	"context"
	"encoding/binary"
	"encoding/hex"
	"encoding/json"
	"errors"
	"fmt"
	"net"
	"os"
	"path/filepath"
	"runtime"
	"strconv"
	"strings"
	"sync"
	"sync/atomic"
	"testing"
	"time"

	"github.com/basekick-labs/arc/internal/cluster/security"
	"github.com/basekick-labs/arc/internal/wal"
	"github.com/rs/zerolog"
)

// ---------------------------------------------------------------------------------------
// schedule control
// ---------------------------------------------------------------------------------------

type verifEvent struct {
	idx  int
	name string
}

type verifCtl struct {
	active  atomic.Bool
	atomicM bool // the implementation serialises assign+enqueue: "after-assign" is not a parking point
	mu      sync.Mutex
	gids    map[int64]int
	events  chan verifEvent
	release map[int]chan struct{}
	stash   map[int][]verifEvent
}

var verifCur atomic.Pointer[verifCtl]

func verifGID() int64 {
	var buf [64]byte
	n := runtime.Stack(buf[:], false)
	f := strings.Fields(string(buf[:n]))
	if len(f) < 2 {
		return -1
	}
	id, _ := strconv.ParseInt(f[1], 10, 64)
	return id
}

const verifDist = -1

func verifPoint(name string) {
	c := verifCur.Load()
	if c == nil || !c.active.Load() {
		return
	}
	idx := verifDist
	if name != "dist-loop" {
		c.mu.Lock()
		i, ok := c.gids[verifGID()]
		c.mu.Unlock()
		if !ok {
			return
		}
		idx = i
		if name == "after-assign" && c.atomicM {
			return
		}
	}
	ch := c.release[idx]
	c.events <- verifEvent{idx, name}
	<-ch
}

func newVerifCtl(nthreads int, atomicM bool) *verifCtl {
	c := &verifCtl{atomicM: atomicM, gids: map[int64]int{}, events: make(chan verifEvent, 1024),
		release: map[int]chan struct{}{}, stash: map[int][]verifEvent{}}
	for i := verifDist; i < nthreads; i++ {
		c.release[i] = make(chan struct{}, 1)
	}
	c.active.Store(true)
	return c
}

// wait for the next event of thread idx
func (c *verifCtl) await(idx int, d time.Duration) (verifEvent, bool) {
	if l := c.stash[idx]; len(l) > 0 {
		c.stash[idx] = l[1:]
		return l[0], true
	}
	timer := time.NewTimer(d)
	defer timer.Stop()
	for {
		select {
		case ev := <-c.events:
			if ev.idx == idx {
				return ev, true
			}
			c.stash[ev.idx] = append(c.stash[ev.idx], ev)
		case <-timer.C:
			return verifEvent{}, false
		}
	}
}

func (c *verifCtl) freeRun() {
	c.active.Store(false)
	for _, ch := range c.release {
		close(ch)
	}
}

// verifBlockedInReplicate returns the wait states ("sync.Mutex.Lock", "semacquire", "chan send"...)
// of goroutines that are inside Sender.Replicate, not parked at a schedule point, and not
// running/runnable: positive evidence that a writer is blocked behind another writer.
func verifBlockedInReplicate() []string {
	buf := make([]byte, 1<<20)
	n := runtime.Stack(buf, true)
	var out []string
	for _, g := range strings.Split(string(buf[:n]), "\n\n") {
		if !strings.Contains(g, "(*Sender).Replicate") || strings.Contains(g, "verifPoint") {
			continue
		}
		head := g
		if i := strings.Index(g, "\n"); i >= 0 {
			head = g[:i]
		}
		a, b := strings.Index(head, "["), strings.LastIndex(head, "]")
		if a < 0 || b <= a {
			continue
		}
		state := head[a+1 : b]
		if i := strings.Index(state, ","); i >= 0 {
			state = state[:i]
		}
		if state == "running" || state == "runnable" {
			continue
		}
		out = append(out, state)
	}
	return out
}

// ---------------------------------------------------------------------------------------
// case format
// ---------------------------------------------------------------------------------------

type verifWriter struct {
	Kind    string `json:"kind"` // direct | wal | walmeta
	DB      string `json:"db"`
	Payload string `json:"payload"` // hex
}

type verifOp struct {
	Op    string `json:"op"`
	I     int    `json:"i"`
	J     int    `json:"j"`
	K     int    `json:"k"`
	V     string `json:"v"`
	N     uint64 `json:"n"`
	Field string `json:"field"`
}

type verifRecvCfg struct {
	Last0    uint64 `json:"last0"`
	Key      string `json:"key"`     // same | other
	Secret   string `json:"secret"`  // same | other
	Cluster  string `json:"cluster"` // same | other
	Skew     int64  `json:"skew"`
	Outcomes []int  `json:"outcomes"` // per applyEntry call: 0 ok, 1 LocalWAL dropped (non-fatal), 2 LocalWAL error, 3 ingest error
	LocalWAL bool   `json:"localwal"`
}

type verifCase struct {
	ID       int           `json:"id"`
	Atomic   bool          `json:"atomic"`
	StepMS   int           `json:"step_ms"`
	Cap      int           `json:"cap"`
	Procs1   bool          `json:"procs1"` // run the case with GOMAXPROCS(1): every goroutine shares one P (and its sync.Pool slot)
	Interval int           `json:"interval"`
	Writers  []verifWriter `json:"writers"`
	Sched    []int         `json:"sched"`
	Edits    []verifOp     `json:"edits"`
	Recv     verifRecvCfg  `json:"recv"`
}

type verifCpDesc struct {
	Cluster   string `json:"cluster"`
	Sender    string `json:"sender"`
	Nonce     string `json:"nonce"`
	LastSeq   uint64 `json:"last_seq"`
	Hash      string `json:"hash"`
	Timestamp int64  `json:"timestamp"`
	HMAC      string `json:"hmac"`
}

type verifFrameDesc struct {
	Type    int          `json:"type"`
	Broken  string       `json:"broken,omitempty"`
	ParseOK bool         `json:"parse_ok"`
	Seq     uint64       `json:"seq"`
	Payload string       `json:"payload"`
	Tag     string       `json:"tag"`
	Cp      *verifCpDesc `json:"cp,omitempty"`
}

type verifEntryDesc struct {
	Seq     uint64 `json:"seq"`
	Payload string `json:"payload"`
}

type verifAtt struct {
	Pre     uint64 `json:"pre"`
	Payload string `json:"payload"`
	OK      bool   `json:"ok"`
}

type verifResult struct {
	ID         int                       `json:"id"`
	Error      string                    `json:"error"`
	BlockedAt  int                       `json:"blocked_at"`
	BlockedIn  []string                  `json:"blocked_in"` // wait states of goroutines blocked inside Sender.Replicate (not at a schedule point)
	Events     []string                  `json:"events"`
	Frames     []verifFrameDesc          `json:"frames"`
	Chan       []verifEntryDesc          `json:"chan"`
	Dropped    []uint64                  `json:"dropped"`
	DropCount  int64                     `json:"dropped_count"`
	WalSeq     uint64                    `json:"walseq"`
	NextSeq    uint64                    `json:"nextseq"`
	Assigned   []uint64                  `json:"assigned"` // per writer: the sequence Sender.Replicate stamped on its entry (0 = none)
	Wire       []verifFrameDesc          `json:"wire"`
	Skipped    []int                     `json:"skipped_ops"`
	OtherTags  map[string]verifEntryDesc `json:"other_tags"`
	Now        int64                     `json:"now"`
	Atts       []verifAtt                `json:"atts"`
	Last       uint64                    `json:"last"`
	Reason     string                    `json:"reason"`
	ReasonMsg  string                    `json:"reason_msg"`
	Used       int                       `json:"used"`
	Errors     int64                     `json:"errors"`
	AppliedTot int64                     `json:"applied_total"`
}

type verifFrame struct {
	Type   byte
	Raw    []byte
	Broken string // "" | zero | huge
}

const (
	verifSecret      = "verif-shared-secret"
	verifOtherSecret = "verif-other-secret"
	verifCluster     = "verif-cluster"
	verifOtherClu    = "other-cluster"
	verifNode        = "writer-1"
	verifNonce       = "verif-handshake-nonce-1"
	verifOtherNonce  = "verif-handshake-nonce-2"
	verifSentinel    = byte(0x7E)
)

func describeFrame(f verifFrame) verifFrameDesc {
	d := verifFrameDesc{Type: int(f.Type), Broken: f.Broken}
	if f.Broken != "" {
		return d
	}
	switch f.Type {
	case MsgReplicateEntry:
		e, err := ParseEntry(f.Raw)
		if err == nil {
			d.ParseOK = true
			d.Seq = e.Sequence
			d.Payload = hex.EncodeToString(e.Payload)
			d.Tag = e.Tag
		}
	case MsgReplicateCheckpoint:
		cp, err := ParseCheckpoint(f.Raw)
		if err == nil {
			d.ParseOK = true
			d.Cp = &verifCpDesc{Cluster: cp.ClusterName, Sender: cp.SenderNodeID, Nonce: cp.Nonce, LastSeq: cp.LastSequence,
				Hash: cp.CumulativePayloadHashHex, Timestamp: cp.Timestamp, HMAC: cp.HMAC}
		}
	case MsgReplicateError:
		_, err := ParseError(f.Raw)
		d.ParseOK = err == nil
	}
	return d
}

func frameBytes(f verifFrame) []byte {
	switch f.Broken {
	case "zero":
		return []byte{0, 0, 0, 0}
	case "huge":
		b := make([]byte, 4)
		binary.BigEndian.PutUint32(b, uint32(MaxMessageSize)+1)
		return b
	}
	b := make([]byte, 5+len(f.Raw))
	binary.BigEndian.PutUint32(b[0:4], uint32(1+len(f.Raw)))
	b[4] = f.Type
	copy(b[5:], f.Raw)
	return b
}

// ---------------------------------------------------------------------------------------
// phase 2: wire adversary
// ---------------------------------------------------------------------------------------

func applyEdits(frames []verifFrame, ops []verifOp, otherKey []byte, otherTags map[string]verifEntryDesc) ([]verifFrame, []int) {
	var skipped []int
	in := func(i int) bool { return i >= 0 && i < len(frames) }
	editEntry := func(i int, f func(e *ReplicateEntry)) bool {
		if !in(i) || frames[i].Broken != "" || frames[i].Type != MsgReplicateEntry {
			return false
		}
		e, err := ParseEntry(frames[i].Raw)
		if err != nil {
			return false
		}
		f(e)
		raw, err := json.Marshal(e)
		if err != nil {
			return false
		}
		frames[i] = verifFrame{Type: MsgReplicateEntry, Raw: raw}
		return true
	}
	editCp := func(i int, f func(c *ReplicateCheckpoint)) bool {
		if !in(i) || frames[i].Broken != "" || frames[i].Type != MsgReplicateCheckpoint {
			return false
		}
		c, err := ParseCheckpoint(frames[i].Raw)
		if err != nil {
			return false
		}
		f(c)
		raw, err := json.Marshal(c)
		if err != nil {
			return false
		}
		frames[i] = verifFrame{Type: MsgReplicateCheckpoint, Raw: raw}
		return true
	}
	insert := func(at int, f verifFrame) {
		if at < 0 {
			at = 0
		}
		if at > len(frames) {
			at = len(frames)
		}
		frames = append(frames, verifFrame{})
		copy(frames[at+1:], frames[at:])
		frames[at] = f
	}
	clone := func(f verifFrame) verifFrame {
		return verifFrame{Type: f.Type, Raw: append([]byte(nil), f.Raw...), Broken: f.Broken}
	}
	for oi, op := range ops {
		ok := true
		switch op.Op {
		case "drop":
			if ok = in(op.I); ok {
				frames = append(frames[:op.I], frames[op.I+1:]...)
			}
		case "dup":
			if ok = in(op.I); ok {
				insert(op.J, clone(frames[op.I]))
			}
		case "swap":
			if ok = in(op.I) && in(op.J); ok {
				frames[op.I], frames[op.J] = frames[op.J], frames[op.I]
			}
		case "move":
			if ok = in(op.I); ok {
				f := frames[op.I]
				frames = append(frames[:op.I], frames[op.I+1:]...)
				insert(op.J, f)
			}
		case "truncate":
			if op.I >= 0 && op.I < len(frames) {
				frames = frames[:op.I]
			}
		case "flip_payload":
			ok = editEntry(op.I, func(e *ReplicateEntry) {
				p := append([]byte(nil), e.Payload...)
				if len(p) == 0 {
					p = []byte{byte(op.K)}
				} else {
					p[op.K%len(p)] ^= 1 << (uint(op.J) % 8)
				}
				e.Payload = p
			})
		case "set_payload":
			ok = editEntry(op.I, func(e *ReplicateEntry) { b, _ := hex.DecodeString(op.V); e.Payload = b })
		case "set_seq":
			ok = editEntry(op.I, func(e *ReplicateEntry) { e.Sequence = op.N })
		case "set_ts":
			ok = editEntry(op.I, func(e *ReplicateEntry) { e.TimestampUS = op.N })
		case "tag":
			ok = editEntry(op.I, func(e *ReplicateEntry) { e.Tag = op.V })
		case "tag_upper":
			ok = editEntry(op.I, func(e *ReplicateEntry) { e.Tag = strings.ToUpper(e.Tag) })
		case "tag_from":
			var t string
			if in(op.J) && frames[op.J].Type == MsgReplicateEntry && frames[op.J].Broken == "" {
				if e, err := ParseEntry(frames[op.J].Raw); err == nil {
					t = e.Tag
				} else {
					ok = false
				}
			} else {
				ok = false
			}
			if ok {
				ok = editEntry(op.I, func(e *ReplicateEntry) { e.Tag = t })
			}
		case "tag_other_session":
			ok = editEntry(op.I, func(e *ReplicateEntry) {
				t := hex.EncodeToString(security.ComputeReplicationEntryTag(otherKey, e.Sequence, e.Payload))
				e.Tag = t
				otherTags[t] = verifEntryDesc{Seq: e.Sequence, Payload: hex.EncodeToString(e.Payload)}
			})
		case "raw_flip":
			if ok = in(op.I) && frames[op.I].Broken == "" && len(frames[op.I].Raw) > 0; ok {
				r := append([]byte(nil), frames[op.I].Raw...)
				r[op.K%len(r)] ^= 1 << (uint(op.J) % 8)
				frames[op.I] = verifFrame{Type: frames[op.I].Type, Raw: r}
			}
		case "raw_truncate":
			if ok = in(op.I) && frames[op.I].Broken == ""; ok {
				r := frames[op.I].Raw
				frames[op.I] = verifFrame{Type: frames[op.I].Type, Raw: append([]byte(nil), r[:len(r)/2]...)}
			}
		case "set_type":
			if ok = in(op.I) && frames[op.I].Broken == ""; ok {
				frames[op.I] = verifFrame{Type: byte(op.K), Raw: frames[op.I].Raw}
			}
		case "insert_raw":
			insert(op.J, verifFrame{Type: byte(op.K), Raw: []byte(op.V)})
		case "insert_broken":
			insert(op.J, verifFrame{Broken: op.V})
		case "cp_set":
			ok = editCp(op.I, func(c *ReplicateCheckpoint) {
				switch op.Field {
				case "cluster":
					c.ClusterName = op.V
				case "sender":
					c.SenderNodeID = op.V
				case "nonce":
					c.Nonce = op.V
				case "hash":
					c.CumulativePayloadHashHex = op.V
				case "hmac":
					c.HMAC = op.V
				case "last_seq":
					c.LastSequence = op.N
				case "timestamp":
					c.Timestamp = int64(op.N)
				case "hash_upper":
					c.CumulativePayloadHashHex = strings.ToUpper(c.CumulativePayloadHashHex)
				}
			})
		case "cp_from":
			var src *ReplicateCheckpoint
			if in(op.J) && frames[op.J].Type == MsgReplicateCheckpoint && frames[op.J].Broken == "" {
				if c, err := ParseCheckpoint(frames[op.J].Raw); err == nil {
					src = c
				}
			}
			if ok = src != nil; ok {
				ok = editCp(op.I, func(c *ReplicateCheckpoint) {
					switch op.Field {
					case "hash":
						c.CumulativePayloadHashHex = src.CumulativePayloadHashHex
					case "hmac":
						c.HMAC = src.HMAC
					case "nonce":
						c.Nonce = src.Nonce
					case "last_seq":
						c.LastSequence = src.LastSequence
					case "timestamp":
						c.Timestamp = src.Timestamp
					}
				})
			}
		default:
			ok = false
		}
		if !ok {
			skipped = append(skipped, oi)
		}
	}
	return frames, skipped
}

// ---------------------------------------------------------------------------------------
// phase 3 helpers
// ---------------------------------------------------------------------------------------

type verifApply struct {
	mu       sync.Mutex
	r        *Receiver
	outcomes []int
	n        int
	atts     []verifAtt
	cur      int // outcome of the call in progress
}

func (a *verifApply) begin(payload []byte) int {
	a.mu.Lock()
	defer a.mu.Unlock()
	o := 0
	if a.n < len(a.outcomes) {
		o = a.outcomes[a.n]
	}
	a.n++
	a.cur = o
	a.atts = append(a.atts, verifAtt{Pre: a.r.lastSeq.Load(), Payload: hex.EncodeToString(payload), OK: o == 0 || o == 1})
	return o
}

type verifLocalWAL struct{ a *verifApply }

func (w verifLocalWAL) AppendRaw(payload []byte) error {
	switch w.a.begin(payload) {
	case 1:
		return fmt.Errorf("verif: %w", wal.ErrWALDropped)
	case 2:
		return errors.New("verif: local wal write failed")
	}
	return nil
}

var verifReasons = map[string]string{
	"Connection closed":     "closed",
	"Failed to parse entry": "parse",
	"Replication entry missing MAC tag; dropping connection":             "tag_missing",
	"Replication entry tag length mismatch; dropping connection":         "tag_len",
	"Replication entry tag malformed; dropping connection":               "tag_hex",
	"Replication entry MAC tag verification failed; dropping connection": "tag_mac",
	"Replication entry sequence did not advance; dropping connection":    "seq",
	"Replication checkpoint parse failed; dropping connection":           "cp_parse",
	"Replication checkpoint cluster name mismatch; dropping connection":  "cp_cluster",
	"Replication checkpoint sequence mismatch; dropping connection":      "cp_seq",
	"Replication checkpoint hash length mismatch; dropping connection":   "cp_hash_len",
	"Replication checkpoint hash malformed; dropping connection":         "cp_hash_hex",
	"Replication checkpoint hash mismatch; dropping connection":          "cp_hash",
	"Replication checkpoint HMAC validation failed; dropping connection": "cp_mac",
	"Failed to parse error message from writer; dropping connection":     "err_parse",
	"Error from writer; dropping connection":                             "err_frame",
	"Unexpected message type; dropping connection":                       "other",
}

type verifSyncBuf struct {
	mu sync.Mutex
	b  bytes.Buffer
}

func (s *verifSyncBuf) Write(p []byte) (int, error) {
	s.mu.Lock()
	defer s.mu.Unlock()
	return s.b.Write(p)
}
func (s *verifSyncBuf) Lines() []map[string]interface{} {
	s.mu.Lock()
	defer s.mu.Unlock()
	var out []map[string]interface{}
	for _, l := range strings.Split(s.b.String(), "\n") {
		if strings.TrimSpace(l) == "" {
			continue
		}
		var m map[string]interface{}
		dec := json.NewDecoder(strings.NewReader(l))
		dec.UseNumber()
		if dec.Decode(&m) == nil {
			out = append(out, m)
		}
	}
	return out
}

// ---------------------------------------------------------------------------------------
// one case
// ---------------------------------------------------------------------------------------

func runVerifCase(t *testing.T, c *verifCase, dir string) (res verifResult) {
	res = verifResult{ID: c.ID, BlockedAt: -1, OtherTags: map[string]verifEntryDesc{}}
	stepWait := 30 * time.Second
	probe := c.StepMS > 0
	if probe {
		stepWait = time.Duration(c.StepMS) * time.Millisecond
	}
	ctx, cancel := context.WithCancel(context.Background())
	defer cancel()

	if c.Procs1 {
		old := runtime.GOMAXPROCS(1)
		defer runtime.GOMAXPROCS(old)
	}
	// ---- phase 1 ---------------------------------------------------------------------
	ctl := newVerifCtl(len(c.Writers), c.Atomic)
	verifCur.Store(ctl)
	hook := func(name string) { verifPoint(name) }
	wal.VerifPointHook.Store(&hook)
	defer func() { verifCur.Store(nil); wal.VerifPointHook.Store(nil) }()

	slog := &verifSyncBuf{}
	sender := NewSender(&SenderConfig{BufferSize: c.Cap, WriteTimeout: 5 * time.Second,
		Logger: zerolog.New(slog).Level(zerolog.WarnLevel), SharedSecret: verifSecret, ClusterName: verifCluster,
		LocalNodeID: verifNode, CheckpointInterval: c.Interval})
	if err := sender.Start(ctx); err != nil {
		res.Error = "sender start: " + err.Error()
		return
	}
	// the distribution goroutine parks at the top of its loop before anything is queued
	if _, ok := ctl.await(verifDist, 5*time.Second); !ok {
		ctl.freeRun()
		sender.Stop()
		res.Error = "distribution loop did not reach its schedule point"
		return
	}
	serverConn, clientConn := net.Pipe()
	if err := sender.AcceptReader(serverConn, "reader-1", verifNonce, 0); err != nil {
		ctl.freeRun()
		sender.Stop()
		res.Error = "accept reader: " + err.Error()
		return
	}
	var frames []verifFrame
	var fmu sync.Mutex
	sentinel := make(chan struct{})
	collDone := make(chan struct{})
	go func() {
		defer close(collDone)
		recording := true
		for {
			ty, payload, err := ReadMessage(clientConn)
			if err != nil {
				return
			}
			if !recording {
				continue
			}
			if ty == verifSentinel {
				recording = false
				close(sentinel)
				continue
			}
			fmu.Lock()
			frames = append(frames, verifFrame{Type: ty, Raw: payload})
			fmu.Unlock()
		}
	}()

	// which sequence did the implementation give to which writer (read back from the entry the
	// writer's own goroutine handed to Sender.Replicate)
	assigned := make([]uint64, len(c.Writers))
	noteAssigned := func(seq uint64) {
		ctl.mu.Lock()
		if i, ok := ctl.gids[verifGID()]; ok {
			assigned[i] = seq
		}
		ctl.mu.Unlock()
	}
	var w *wal.Writer
	for _, wr := range c.Writers {
		if wr.Kind != "direct" {
			var err error
			w, err = wal.NewWriter(&wal.WriterConfig{WALDir: filepath.Join(dir, fmt.Sprintf("wal-%d", c.ID)), SyncMode: wal.SyncModeAsync,
				BufferSize: 1000, Logger: zerolog.Nop()})
			if err != nil {
				ctl.freeRun()
				sender.Stop()
				res.Error = "wal writer: " + err.Error()
				return
			}
			// exactly the wiring of coordinator.Start (checked textually by tools/props/C24.py)
			w.SetReplicationHook(func(entry *wal.ReplicationEntry) {
				e := &ReplicateEntry{
					Sequence:    entry.Sequence,
					TimestampUS: entry.TimestampUS,
					Payload:     entry.Payload,
				}
				sender.Replicate(e)
				noteAssigned(e.Sequence)
			})
			break
		}
	}

	started := make([]bool, len(c.Writers))
	finished := make([]bool, len(c.Writers))
	startWriter := func(i int) {
		wr := c.Writers[i]
		payload, _ := hex.DecodeString(wr.Payload)
		ready := make(chan struct{})
		go func() {
			ctl.mu.Lock()
			ctl.gids[verifGID()] = i
			ctl.mu.Unlock()
			close(ready)
			switch wr.Kind {
			case "direct":
				e := &ReplicateEntry{TimestampUS: 1, Payload: payload}
				sender.Replicate(e)
				noteAssigned(e.Sequence)
			case "wal":
				// AppendRaw is documented zero-copy: its callers (wal.Append, Receiver.applyEntry) hand over
				// a slice nobody reuses, so the harness does not scribble here
				_ = w.AppendRaw(payload)
			case "walmeta":
				// value semantics: the ingest path passes record.RawPayload, which the caller may reuse as
				// soon as the call returns; the harness owns the buffer and overwrites it afterwards
				_ = w.AppendRawWithMeta(wr.DB, payload)
				for k := range payload {
					payload[k] = 0xEE
				}
			}
			ctl.events <- verifEvent{i, "done"}
		}()
		<-ready
	}
	abort := ""
	for si, th := range c.Sched {
		if th == verifDist {
			if len(sender.entryChan) == 0 {
				abort = fmt.Sprintf("step %d: distribution step with an empty channel", si)
				break
			}
			ctl.release[verifDist] <- struct{}{}
			ev, ok := ctl.await(verifDist, stepWait)
			if !ok {
				res.BlockedAt = si
				break
			}
			res.Events = append(res.Events, ev.name)
			continue
		}
		if th < 0 || th >= len(c.Writers) || finished[th] {
			abort = fmt.Sprintf("step %d: thread %d cannot step", si, th)
			break
		}
		if !started[th] {
			started[th] = true
			startWriter(th)
		} else {
			ctl.release[th] <- struct{}{}
		}
		ev, ok := ctl.await(th, stepWait)
		if !ok && probe {
			// slow or blocked?  blocked = a goroutine sits in a wait state inside Sender.Replicate
			for try := 0; try < 40 && !ok; try++ {
				if res.BlockedIn = verifBlockedInReplicate(); len(res.BlockedIn) > 0 {
					break
				}
				ev, ok = ctl.await(th, 500*time.Millisecond)
			}
		}
		if !ok {
			res.BlockedAt = si
			break
		}
		if ev.name == "done" {
			finished[th] = true
		}
		res.Events = append(res.Events, ev.name)
	}
	if abort == "" && res.BlockedAt < 0 {
		// everything the distribution loop wrote so far precedes this sentinel on the pipe
		sender.mu.RLock()
		rc := sender.readers["reader-1"]
		sender.mu.RUnlock()
		if rc == nil {
			abort = "reader connection was removed by the sender"
		} else {
			rc.writeMu.Lock()
			rc.conn.SetWriteDeadline(time.Now().Add(5 * time.Second))
			err := WriteMessage(rc.conn, verifSentinel, map[string]int{})
			rc.writeMu.Unlock()
			if err != nil {
				abort = "sentinel write: " + err.Error()
			} else {
				select {
				case <-sentinel:
				case <-time.After(5 * time.Second):
					abort = "sentinel not received"
				}
			}
		}
	}
	if abort == "" && res.BlockedAt < 0 {
		for len(sender.entryChan) > 0 {
			e := <-sender.entryChan
			res.Chan = append(res.Chan, verifEntryDesc{Seq: e.Sequence, Payload: hex.EncodeToString(e.Payload)})
		}
	}
	res.NextSeq = sender.CurrentSequence()
	ctl.mu.Lock()
	res.Assigned = append([]uint64(nil), assigned...)
	ctl.mu.Unlock()
	res.DropCount = sender.totalEntriesDropped.Load()
	if w != nil {
		res.WalSeq = w.CurrentSequence()
	}
	ctl.freeRun()
	sender.Stop()
	clientConn.Close()
	serverConn.Close()
	<-collDone
	if w != nil {
		w.Close()
	}
	for _, l := range slog.Lines() {
		if l["level"] == "warn" {
			if n, ok := l["sequence"].(json.Number); ok {
				v, _ := strconv.ParseUint(n.String(), 10, 64)
				res.Dropped = append(res.Dropped, v)
			}
		}
	}
	fmu.Lock()
	phase1 := append([]verifFrame(nil), frames...)
	fmu.Unlock()
	for _, f := range phase1 {
		res.Frames = append(res.Frames, describeFrame(f))
	}
	if abort != "" {
		res.Error = abort
		return
	}
	if res.BlockedAt >= 0 {
		return
	}

	// ---- phase 2 ---------------------------------------------------------------------
	otherKey, _ := security.DeriveReplicationSessionKey(verifSecret, verifOtherNonce)
	wire := make([]verifFrame, len(phase1))
	for i, f := range phase1 {
		wire[i] = verifFrame{Type: f.Type, Raw: append([]byte(nil), f.Raw...)}
	}
	wire, res.Skipped = applyEdits(wire, c.Edits, otherKey, res.OtherTags)
	for _, f := range wire {
		res.Wire = append(res.Wire, describeFrame(f))
	}

	// ---- phase 3 ---------------------------------------------------------------------
	rsecret, rcluster, rnonce := verifSecret, verifCluster, verifNonce
	if c.Recv.Secret == "other" {
		rsecret = verifOtherSecret
	}
	if c.Recv.Cluster == "other" {
		rcluster = verifOtherClu
	}
	if c.Recv.Key == "other" {
		rnonce = verifOtherNonce
	}
	// the session key both ends derive from the handshake (handshake itself: C26 / not modelled here)
	rkey, err := security.DeriveReplicationSessionKey(verifSecret, rnonce)
	if err != nil {
		res.Error = "derive key: " + err.Error()
		return
	}
	rlog := &verifSyncBuf{}
	app := &verifApply{outcomes: c.Recv.Outcomes}
	rcfg := &ReceiverConfig{ReaderID: "reader-1", ReconnectInterval: time.Hour, AckInterval: time.Hour,
		Logger: zerolog.New(rlog).Level(zerolog.DebugLevel), SharedSecret: rsecret, ClusterName: rcluster}
	rcfg.IngestHandler = IngestHandlerFunc(func(_ context.Context, payload []byte) error {
		o := 0
		if c.Recv.LocalWAL {
			app.mu.Lock()
			o = app.cur
			app.mu.Unlock()
		} else {
			o = app.begin(payload)
		}
		if o == 3 || (o == 2 && !c.Recv.LocalWAL) {
			return errors.New("verif: ingest failed")
		}
		return nil
	})
	if c.Recv.LocalWAL {
		rcfg.LocalWAL = verifLocalWAL{app}
	}
	r := NewReceiver(rcfg)
	app.r = r
	r.ctx, r.cancelFunc = context.WithCancel(ctx)
	r.running.Store(true)
	sendConn, recvConn := net.Pipe()
	r.mu.Lock()
	r.conn = recvConn
	r.sessionKey = rkey
	r.mu.Unlock()
	r.lastSeq.Store(c.Recv.Last0)
	security.VerifClockSkewSec.Store(c.Recv.Skew)
	defer security.VerifClockSkewSec.Store(0)
	res.Now = time.Now().Unix() + c.Recv.Skew
	done := make(chan struct{})
	go func() {
		r.receiveLoop()
		close(done)
		sendConn.Close()
		recvConn.Close()
	}()
	for _, f := range wire {
		sendConn.SetWriteDeadline(time.Now().Add(10 * time.Second))
		if _, err := sendConn.Write(frameBytes(f)); err != nil {
			break
		}
		res.Used++
	}
	sendConn.Close()
	select {
	case <-done:
	case <-time.After(10 * time.Second):
		res.Error = "receiveLoop did not return"
		r.running.Store(false)
		r.cancelFunc()
		recvConn.Close()
		return
	}
	r.cancelFunc()
	r.wg.Wait()
	app.mu.Lock()
	res.Atts = append([]verifAtt(nil), app.atts...)
	app.mu.Unlock()
	res.Last = r.lastSeq.Load()
	res.Errors = r.totalErrors.Load()
	res.AppliedTot = r.totalEntriesApplied.Load()
	lines := rlog.Lines()
	for i := len(lines) - 1; i >= 0; i-- {
		msg, _ := lines[i]["message"].(string)
		if msg == "Failed to apply entry" || msg == "Replication checkpoint verified" || strings.HasPrefix(msg, "Replication: follower LocalWAL dropped") {
			continue
		}
		res.ReasonMsg = msg
		if code, ok := verifReasons[msg]; ok {
			res.Reason = code
		} else if lines[i]["level"] == "debug" {
			res.Reason = "closed_unknown"
		} else {
			res.Reason = "drop_unknown"
		}
		break
	}
	return
}

func TestVerifRepl(t *testing.T) {
	raw, err := os.ReadFile(os.Getenv("VERIF_CASES"))
	if err != nil {
		t.Fatal(err)
	}
	var cases []verifCase
	if err := json.Unmarshal(raw, &cases); err != nil {
		t.Fatal(err)
	}
	dir := t.TempDir()
	results := make([]verifResult, 0, len(cases))
	for i := range cases {
		results = append(results, runVerifCase(t, &cases[i], dir))
	}
	out, err := json.Marshal(results)
	if err != nil {
		t.Fatal(err)
	}
	if err := os.WriteFile(os.Getenv("VERIF_OUT"), out, 0o644); err != nil {
		t.Fatal(err)
	}
}
