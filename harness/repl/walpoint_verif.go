//go:build verif

// C24: schedule point used by the overlay-rewritten wal.go (a call verifPoint("wal-after-assign")
// is inserted between the sequence assignment under w.mu and the replication hook call of
// AppendRaw / AppendRawWithMeta).  The C24 harness in package replication installs the hook.
package wal

import "sync/atomic"

// VerifPointHook is installed by the C24 harness; nil = schedule points are no-ops.
var VerifPointHook atomic.Pointer[func(name string)]

func verifPoint(name string) {
	if f := VerifPointHook.Load(); f != nil {
		(*f)(name)
	}
}
