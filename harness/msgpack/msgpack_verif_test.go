//go:build verif

// C02 correspondence harness: runs the REAL MessagePackDecoder.Decode on the byte strings in
// $VERIF_CASES twice -- typed columnar fast path switched on and off with
// SetTypedDecodeEnabled -- under a controlled clock (time.Now() in msgpack.go and
// msgpack_typed.go is rewritten to verifNow() by the overlay generated from the current
// sources).  Columnar records of the generic path are pushed through the real
// ArrowBuffer.convertColumnsToTyped (the typing chokepoint ArrowBuffer.Write uses), typed
// records are reported as decoded.  Observations go to $VERIF_OUT as canonical JSON.
package ingest

import (
	"encoding/hex"
	"encoding/json"
	"fmt"
	"math"
	"os"
	"sort"
	"strconv"
	"testing"
	"time"

	"github.com/basekick-labs/arc/pkg/models"
	"github.com/rs/zerolog"
)

var verifNowMicros int64

// the argument only keeps the "time" import of the rewritten files in use
func verifNow(_ ...time.Duration) time.Time { return time.UnixMicro(verifNowMicros) }

type verifMPCase struct {
	ID     int      `json:"id"`
	Hex    string   `json:"hex"`
	NowOn  int64    `json:"now_on"`
	NowOff int64    `json:"now_off"`
	Strs   []string `json:"strs"` // hex strings whose SanitizeUTF8 image is wanted (oracle table)
}

type verifMPCol struct {
	Name  string   `json:"name"` // hex
	T     string   `json:"t"`    // i64 | f64 | str | bool | other:<type>
	V     []string `json:"v"`    // decimal / float64 bits decimal / hex / 0|1
	Valid []int    `json:"valid"`
}

type verifMPRec struct {
	K       string          `json:"k"` // typed | col | row | other
	M       string          `json:"m"` // hex
	N       int             `json:"n"`
	ConvErr string          `json:"conv_err,omitempty"`
	Cols    []verifMPCol    `json:"cols,omitempty"`
	Sec     int64           `json:"sec,omitempty"`
	Nsec    int             `json:"nsec,omitempty"`
	Fields  [][2]any        `json:"fields,omitempty"`
	Tags    [][2]string     `json:"tags,omitempty"`
	Raw     bool            `json:"raw"` // RawPayload carried (zero-copy WAL input)
	Extra   json.RawMessage `json:"extra,omitempty"`
}

type verifMPOutcome struct {
	Err   string       `json:"err"` // "" | decode | panic
	Msg   string       `json:"msg,omitempty"`
	Typed bool         `json:"typed"` // the fast path produced the result
	Recs  []verifMPRec `json:"recs"`
}

type verifMPResult struct {
	ID  int            `json:"id"`
	On  verifMPOutcome `json:"on"`
	Off verifMPOutcome `json:"off"`
	San [][2]string    `json:"san"`
}

func verifHex(s string) string { return hex.EncodeToString([]byte(s)) }

// verifBox renders a boxed generic value (row-format fields) canonically.
func verifBox(v interface{}) any {
	switch x := v.(type) {
	case nil:
		return []any{"nil"}
	case bool:
		if x {
			return []any{"bool", "1"}
		}
		return []any{"bool", "0"}
	case int8:
		return []any{"i8", strconv.FormatInt(int64(x), 10)}
	case int16:
		return []any{"i16", strconv.FormatInt(int64(x), 10)}
	case int32:
		return []any{"i32", strconv.FormatInt(int64(x), 10)}
	case int64:
		return []any{"i64", strconv.FormatInt(x, 10)}
	case uint8:
		return []any{"u8", strconv.FormatUint(uint64(x), 10)}
	case uint16:
		return []any{"u16", strconv.FormatUint(uint64(x), 10)}
	case uint32:
		return []any{"u32", strconv.FormatUint(uint64(x), 10)}
	case uint64:
		return []any{"u64", strconv.FormatUint(x, 10)}
	case float32:
		return []any{"f32", strconv.FormatUint(uint64(math.Float32bits(x)), 10)}
	case float64:
		return []any{"f64", strconv.FormatUint(math.Float64bits(x), 10)}
	case string:
		return []any{"str", verifHex(x)}
	case []byte:
		return []any{"bin", hex.EncodeToString(x)}
	case []interface{}:
		out := make([]any, 0, len(x))
		for _, e := range x {
			out = append(out, verifBox(e))
		}
		return []any{"arr", out}
	case map[string]interface{}:
		keys := make([]string, 0, len(x))
		for k := range x {
			keys = append(keys, k)
		}
		sort.Strings(keys)
		out := make([]any, 0, len(x))
		for _, k := range keys {
			out = append(out, []any{verifHex(k), verifBox(x[k])})
		}
		return []any{"map", out}
	default:
		return []any{"other"}
	}
}

func verifBatch(rec *verifMPRec, data map[string]interface{}, validity map[string][]bool) {
	names := make([]string, 0, len(data))
	for k := range data {
		names = append(names, k)
	}
	sort.Strings(names)
	for _, name := range names {
		c := verifMPCol{Name: verifHex(name)}
		switch arr := data[name].(type) {
		case []int64:
			c.T = "i64"
			for _, x := range arr {
				c.V = append(c.V, strconv.FormatInt(x, 10))
			}
		case []float64:
			c.T = "f64"
			for _, x := range arr {
				c.V = append(c.V, strconv.FormatUint(math.Float64bits(x), 10))
			}
		case []string:
			c.T = "str"
			for _, x := range arr {
				c.V = append(c.V, verifHex(x))
			}
		case []bool:
			c.T = "bool"
			for _, x := range arr {
				if x {
					c.V = append(c.V, "1")
				} else {
					c.V = append(c.V, "0")
				}
			}
		default:
			c.T = fmt.Sprintf("other:%T", data[name])
		}
		if v, ok := validity[name]; ok && v != nil {
			c.Valid = make([]int, len(v))
			for i, b := range v {
				if b {
					c.Valid[i] = 1
				}
			}
		}
		rec.Cols = append(rec.Cols, c)
	}
	// validity entries for columns that do not exist would be a shape difference
	for k := range validity {
		if _, ok := data[k]; !ok {
			rec.Extra = json.RawMessage(strconv.Quote("validity-without-column:" + verifHex(k)))
		}
	}
}

func verifRunOne(data []byte, typedOn bool, now int64) (out verifMPOutcome) {
	defer func() {
		if r := recover(); r != nil {
			out = verifMPOutcome{Err: "panic", Msg: fmt.Sprint(r)}
		}
	}()
	verifNowMicros = now
	dec := NewMessagePackDecoder(zerolog.Nop())
	dec.SetTypedDecodeEnabled(typedOn)
	buf := &ArrowBuffer{}
	in := make([]byte, len(data))
	copy(in, data)
	res, err := dec.Decode(in)
	if err != nil {
		return verifMPOutcome{Err: "decode", Msg: err.Error()}
	}
	list, ok := res.([]interface{})
	if !ok {
		return verifMPOutcome{Err: "decode", Msg: fmt.Sprintf("unexpected result type %T", res)}
	}
	out.Recs = []verifMPRec{}
	for _, r := range list {
		var rec verifMPRec
		switch x := r.(type) {
		case *TypedColumnarRecord:
			out.Typed = true
			rec.K = "col"
			rec.M = verifHex(x.Measurement)
			rec.N = x.NumRecords
			rec.Raw = len(x.RawPayload) > 0
			verifBatch(&rec, x.Batch.Data, x.Batch.Validity)
			if x.Batch.Signature != getColumnSignature(x.Batch.Data) {
				rec.Extra = json.RawMessage(`"signature-mismatch"`)
			}
		case *models.ColumnarRecord:
			rec.K = "col"
			rec.M = verifHex(x.Measurement)
			rec.Raw = len(x.RawPayload) > 0
			func() {
				defer func() {
					if p := recover(); p != nil {
						rec.ConvErr = "panic: " + fmt.Sprint(p)
					}
				}()
				batch, n, cerr := buf.convertColumnsToTyped(x.Measurement, x.Columns)
				if cerr != nil {
					rec.ConvErr = cerr.Error()
					return
				}
				rec.N = n
				verifBatch(&rec, batch.Data, batch.Validity)
				if batch.Signature != getColumnSignature(batch.Data) {
					rec.Extra = json.RawMessage(`"signature-mismatch"`)
				}
			}()
		case *models.Record:
			rec.K = "row"
			rec.M = verifHex(x.Measurement)
			rec.Sec = x.Time.Unix()
			rec.Nsec = x.Time.Nanosecond()
			fk := make([]string, 0, len(x.Fields))
			for k := range x.Fields {
				fk = append(fk, k)
			}
			sort.Strings(fk)
			rec.Fields = [][2]any{}
			for _, k := range fk {
				rec.Fields = append(rec.Fields, [2]any{verifHex(k), verifBox(x.Fields[k])})
			}
			tk := make([]string, 0, len(x.Tags))
			for k := range x.Tags {
				tk = append(tk, k)
			}
			sort.Strings(tk)
			rec.Tags = [][2]string{}
			for _, k := range tk {
				rec.Tags = append(rec.Tags, [2]string{verifHex(k), verifHex(x.Tags[k])})
			}
		default:
			rec.K = fmt.Sprintf("other:%T", r)
		}
		out.Recs = append(out.Recs, rec)
	}
	return out
}

func TestVerifMsgPack(t *testing.T) {
	raw, err := os.ReadFile(os.Getenv("VERIF_CASES"))
	if err != nil {
		t.Fatal(err)
	}
	var cases []verifMPCase
	if err := json.Unmarshal(raw, &cases); err != nil {
		t.Fatal(err)
	}
	results := make([]verifMPResult, 0, len(cases))
	for _, c := range cases {
		data, err := hex.DecodeString(c.Hex)
		if err != nil {
			t.Fatalf("case %d: bad hex: %v", c.ID, err)
		}
		r := verifMPResult{ID: c.ID, San: [][2]string{}}
		r.On = verifRunOne(data, true, c.NowOn)
		r.Off = verifRunOne(data, false, c.NowOff)
		for _, hs := range c.Strs {
			b, err := hex.DecodeString(hs)
			if err != nil {
				t.Fatalf("case %d: bad hex in strs: %v", c.ID, err)
			}
			s, _ := SanitizeUTF8(string(b))
			r.San = append(r.San, [2]string{hs, verifHex(s)})
		}
		results = append(results, r)
	}
	out, err := json.Marshal(results)
	if err != nil {
		t.Fatal(err)
	}
	if err := os.WriteFile(os.Getenv("VERIF_OUT"), out, 0o644); err != nil {
		t.Fatal(err)
	}
}
