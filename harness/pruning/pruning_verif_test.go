//go:build verif

// C18 correspondence harness, pruner level: runs the REAL ExtractTimeRange and
// GeneratePartitionPaths on the statements in $VERIF_CASES under a controlled clock and writes
// the extracted range and the generated hour/day paths to $VERIF_OUT.
package pruning

import (
	"context"
	"encoding/json"
	"os"
	"sort"
	"strings"
	"testing"

	"github.com/rs/zerolog"
)

type verifPruneCase struct {
	SQL string `json:"sql"`
	Now int64  `json:"now"` // microseconds
	// when RelUnit is set the case is a direct call of evaluateRelativeTime(RelAmount, RelUnit, RelAdd)
	RelAmount string `json:"rel_amount"`
	RelUnit   string `json:"rel_unit"`
	RelAdd    bool   `json:"rel_add"`
}

type verifPruneOut struct {
	Nil     bool     `json:"nil"`      // ExtractTimeRange returned nil
	Start   int64    `json:"start"`    // microseconds
	End     int64    `json:"end"`      // microseconds
	SubUs   bool     `json:"sub_us"`   // a bound is not a whole number of microseconds
	GenNil  bool     `json:"gen_nil"`  // GeneratePartitionPaths returned nil
	Hours   []string `json:"hours"`    // YYYY/MM/DD/HH, sorted
	Days    []string `json:"days"`     // YYYY/MM/DD, sorted
	Other   []string `json:"other"`    // paths of an unexpected shape
	Rel     int64    `json:"rel"`      // evaluateRelativeTime result (microseconds)
	RelErr  string   `json:"rel_err"`
}

func TestVerifPruner(t *testing.T) {
	raw, err := os.ReadFile(os.Getenv("VERIF_CASES"))
	if err != nil {
		t.Fatal(err)
	}
	var cases []verifPruneCase
	if err := json.Unmarshal(raw, &cases); err != nil {
		t.Fatal(err)
	}
	p := NewPartitionPruner(zerolog.Nop())
	outs := make([]verifPruneOut, len(cases))
	const base, db, meas = "/vbase", "vdb", "vm"
	prefix := base + "/" + db + "/" + meas + "/"
	for i, c := range cases {
		VerifClockMicros = c.Now
		o := &outs[i]
		o.Hours, o.Days, o.Other = []string{}, []string{}, []string{}
		if c.RelUnit != "" {
			t, err := evaluateRelativeTime(c.RelAmount, c.RelUnit, c.RelAdd)
			if err != nil {
				o.RelErr = err.Error()
			} else {
				o.Rel = t.UnixMicro()
			}
			o.Nil, o.GenNil = true, true
			continue
		}
		tr := p.ExtractTimeRange(c.SQL)
		if tr == nil {
			o.Nil, o.GenNil = true, true
			continue
		}
		o.Start, o.End = tr.Start.UnixMicro(), tr.End.UnixMicro()
		o.SubUs = tr.Start.Nanosecond()%1000 != 0 || tr.End.Nanosecond()%1000 != 0
		paths := p.GeneratePartitionPaths(context.Background(), base, db, meas, tr)
		if paths == nil {
			o.GenNil = true
			continue
		}
		for _, pa := range paths {
			if !strings.HasPrefix(pa, prefix) || !strings.HasSuffix(pa, "/*.parquet") {
				o.Other = append(o.Other, pa)
				continue
			}
			mid := strings.TrimSuffix(strings.TrimPrefix(pa, prefix), "/*.parquet")
			switch strings.Count(mid, "/") {
			case 3:
				o.Hours = append(o.Hours, mid)
			case 2:
				o.Days = append(o.Days, mid)
			default:
				o.Other = append(o.Other, pa)
			}
		}
		sort.Strings(o.Hours)
		sort.Strings(o.Days)
	}
	VerifClockMicros = 0
	b, err := json.Marshal(outs)
	if err != nil {
		t.Fatal(err)
	}
	if err := os.WriteFile(os.Getenv("VERIF_OUT"), b, 0o644); err != nil {
		t.Fatal(err)
	}
}
