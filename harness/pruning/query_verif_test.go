//go:build verif

// C18 correspondence harness, query level: builds a REAL hour/day partition layout of Parquet
// files under t.TempDir(), then runs every statement through the production transformation
// (QueryHandler.convertSQLToStoragePaths -> buildReadParquetExpr -> PartitionPruner) and executes
// the resulting SQL on a real DuckDB (internal/database) twice: pruning enabled and disabled.
// The time columns are TIMESTAMP WITH TIME ZONE, as in production (arrow timestamp[us, UTC]).
// A statement may carry a controlled clock: the pruner then reads it through verifNow() and the
// NOW()/CURRENT_TIMESTAMP of the executed SQL are replaced by the same instant.
// Observations (row ids) go to $VERIF_OUT.
package api

import (
	"context"
	"encoding/json"
	"fmt"
	"os"
	"path/filepath"
	"regexp"
	"strings"
	"testing"
	"time"

	"github.com/basekick-labs/arc/internal/database"
	"github.com/basekick-labs/arc/internal/pruning"
	"github.com/basekick-labs/arc/internal/storage"
	"github.com/rs/zerolog"
)

type verifPqRow struct {
	ID    int64  `json:"id"`
	Time  int64  `json:"time"`  // microseconds
	ETime int64  `json:"etime"` // event_time
	STime int64  `json:"stime"` // sample_timestamp
	TS    int64  `json:"ts"`    // a column named timestamp
	F     []bool `json:"f"`     // f0..f3
}

type verifPqFile struct {
	Dir  string       `json:"dir"` // YYYY/MM/DD/HH or YYYY/MM/DD
	Rows []verifPqRow `json:"rows"`
}

type verifPqQuery struct {
	SQL string `json:"sql"`
	Now int64  `json:"now"` // controlled clock (microseconds); 0 = wall clock
}

type verifPqIn struct {
	Files   []verifPqFile  `json:"files"`
	Queries []verifPqQuery `json:"queries"`
	Prims   []string       `json:"prims"` // statements returning BIGINT columns (validation of model primitives)
}

// verifPqNow matches DuckDB's clock functions in the statement that is EXECUTED; under a
// controlled clock they are replaced by the instant the pruner saw (pruning.VerifClockMicros),
// so that both sides of the comparison use the same "now".
var verifPqNow = regexp.MustCompile(`(?i)\bNOW\s*\(\s*\)|\bCURRENT_TIMESTAMP\b`)

func verifPqClock(sql string, now int64) string {
	if now == 0 {
		return sql
	}
	return verifPqNow.ReplaceAllString(sql, fmt.Sprintf("(make_timestamp(%d)::TIMESTAMPTZ)", now))
}

type verifPqOut struct {
	NowUs     int64   `json:"now_us"`
	Pruned    []int64 `json:"pruned"`
	Unpruned  []int64 `json:"unpruned"`
	ErrP      string  `json:"err_p,omitempty"`
	ErrU      string  `json:"err_u,omitempty"`
	SQLPruned string  `json:"sql_pruned,omitempty"`
	WasPruned bool    `json:"was_pruned"`
	Ms        int64   `json:"ms"`
}

type verifPqResult struct {
	Queries []verifPqOut `json:"queries"`
	Prims   [][][]string `json:"prims"`
	PrimErr []string     `json:"prim_err"`
}

func verifPqIDs(db *database.DuckDB, q string) ([]int64, error) {
	rows, err := db.Query(q)
	if err != nil {
		return nil, err
	}
	defer rows.Close()
	ids := []int64{}
	for rows.Next() {
		var id int64
		if err := rows.Scan(&id); err != nil {
			return nil, err
		}
		ids = append(ids, id)
	}
	return ids, rows.Err()
}

func TestVerifPruningQuery(t *testing.T) {
	raw, err := os.ReadFile(os.Getenv("VERIF_CASES"))
	if err != nil {
		t.Fatal(err)
	}
	var in verifPqIn
	if err := json.Unmarshal(raw, &in); err != nil {
		t.Fatal(err)
	}
	outs := make([]verifPqOut, len(in.Queries))
	res := verifPqResult{Prims: make([][][]string, len(in.Prims)), PrimErr: make([]string, len(in.Prims))}
	if len(in.Queries) > 0 || len(in.Prims) > 0 {
		dir := t.TempDir()
		base := filepath.Join(dir, "data")
		logger := zerolog.New(os.Stderr).Level(zerolog.Disabled)
		db, err := database.New(&database.Config{MemoryLimit: "512MB", ThreadCount: 2, MaxConnections: 2, LocalStorageRoot: dir}, logger)
		if err != nil {
			t.Fatalf("database.New: %v", err)
		}
		defer db.Close()
		backend, err := storage.NewLocalBackend(base, logger)
		if err != nil {
			t.Fatalf("NewLocalBackend: %v", err)
		}
		for i, f := range in.Files {
			d := filepath.Join(base, "vdb", "vm", filepath.FromSlash(f.Dir))
			if err := os.MkdirAll(d, 0o755); err != nil {
				t.Fatal(err)
			}
			vals := make([]string, 0, len(f.Rows))
			for _, r := range f.Rows {
				fl := make([]string, 4)
				for k := 0; k < 4; k++ {
					fl[k] = "false"
					if k < len(r.F) && r.F[k] {
						fl[k] = "true"
					}
				}
				vals = append(vals, fmt.Sprintf("(%d, make_timestamp(%d)::TIMESTAMPTZ, make_timestamp(%d)::TIMESTAMPTZ, make_timestamp(%d)::TIMESTAMPTZ, make_timestamp(%d)::TIMESTAMPTZ, %s)",
					r.ID, r.Time, r.ETime, r.STime, r.TS, strings.Join(fl, ", ")))
			}
			q := fmt.Sprintf("COPY (SELECT * FROM (VALUES %s) v(id, \"time\", event_time, sample_timestamp, \"timestamp\", f0, f1, f2, f3)) TO '%s' (FORMAT PARQUET)",
				strings.Join(vals, ", "), filepath.Join(d, fmt.Sprintf("vm_%04d.parquet", i)))
			if _, err := db.Exec(q); err != nil {
				t.Fatalf("writing %s: %v", f.Dir, err)
			}
		}
		for i, q := range in.Prims {
			rows, err := db.Query(q)
			if err != nil {
				res.PrimErr[i] = err.Error()
				continue
			}
			cols, _ := rows.Columns()
			out := [][]string{}
			for rows.Next() {
				vals := make([]int64, len(cols))
				ptrs := make([]interface{}, len(cols))
				for k := range vals {
					ptrs[k] = &vals[k]
				}
				if err := rows.Scan(ptrs...); err != nil {
					res.PrimErr[i] = err.Error()
					break
				}
				r := make([]string, len(cols))
				for k := range vals {
					r[k] = fmt.Sprint(vals[k])
				}
				out = append(out, r)
			}
			rows.Close()
			res.Prims[i] = out
		}
		h := NewQueryHandler(db, backend, logger, 0, 0)
		ctx := context.Background()
		for i, qq := range in.Queries {
			q := qq.SQL
			o := &outs[i]
			t0 := time.Now()
			h.pruner.VerifSetEnabled(true)
			h.pruner.InvalidateAllCaches()
			pruning.VerifClockMicros = qq.Now
			o.NowUs = qq.Now
			if qq.Now == 0 {
				o.NowUs = time.Now().UnixMicro()
			}
			sqlP := verifPqClock(h.convertSQLToStoragePaths(ctx, q), qq.Now)
			o.WasPruned = !strings.Contains(sqlP, "/**/*.parquet")
			if len(sqlP) > 600 {
				o.SQLPruned = sqlP[:600]
			} else {
				o.SQLPruned = sqlP
			}
			ids, err := verifPqIDs(db, sqlP)
			if err != nil {
				o.ErrP = err.Error()
			}
			o.Pruned = ids
			h.pruner.VerifSetEnabled(false)
			sqlU := verifPqClock(h.convertSQLToStoragePaths(ctx, q), qq.Now)
			ids, err = verifPqIDs(db, sqlU)
			if err != nil {
				o.ErrU = err.Error()
			}
			o.Unpruned = ids
			h.pruner.VerifSetEnabled(true)
			o.Ms = time.Since(t0).Milliseconds()
		}
		pruning.VerifClockMicros = 0
	}
	res.Queries = outs
	b, err := json.Marshal(res)
	if err != nil {
		t.Fatal(err)
	}
	if err := os.WriteFile(os.Getenv("VERIF_OUT"), b, 0o644); err != nil {
		t.Fatal(err)
	}
}
