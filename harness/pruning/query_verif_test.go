//go:build verif

// C18 correspondence harness, query level: builds a REAL hour/day partition layout of Parquet
// files under t.TempDir(), then runs every statement through the production transformation
// (QueryHandler.convertSQLToStoragePaths -> buildReadParquetExpr -> PartitionPruner) and executes
// the resulting SQL on a real DuckDB (internal/database) twice: pruning enabled and disabled.
// The time columns are TIMESTAMP WITH TIME ZONE, as in production (arrow timestamp[us, UTC]).
// Observations (row ids) go to $VERIF_OUT.
package api

import (
	"context"
	"encoding/json"
	"fmt"
	"os"
	"path/filepath"
	"strings"
	"testing"
	"time"

	"github.com/basekick-labs/arc/internal/database"
	"github.com/basekick-labs/arc/internal/storage"
	"github.com/rs/zerolog"
)

type verifPqRow struct {
	ID    int64  `json:"id"`
	Time  int64  `json:"time"`  // microseconds
	ETime int64  `json:"etime"` // event_time
	STime int64  `json:"stime"` // sample_timestamp
	TS    int64  `json:"ts"`    // a column named timestamp
	F     []bool `json:"f"`     // f0..f3
}

type verifPqFile struct {
	Dir  string       `json:"dir"` // YYYY/MM/DD/HH or YYYY/MM/DD
	Rows []verifPqRow `json:"rows"`
}

type verifPqIn struct {
	Files   []verifPqFile `json:"files"`
	Queries []string      `json:"queries"`
}

type verifPqOut struct {
	NowUs     int64   `json:"now_us"`
	Pruned    []int64 `json:"pruned"`
	Unpruned  []int64 `json:"unpruned"`
	ErrP      string  `json:"err_p,omitempty"`
	ErrU      string  `json:"err_u,omitempty"`
	SQLPruned string  `json:"sql_pruned,omitempty"`
	WasPruned bool    `json:"was_pruned"`
	Ms        int64   `json:"ms"`
}

func verifPqIDs(db *database.DuckDB, q string) ([]int64, error) {
	rows, err := db.Query(q)
	if err != nil {
		return nil, err
	}
	defer rows.Close()
	ids := []int64{}
	for rows.Next() {
		var id int64
		if err := rows.Scan(&id); err != nil {
			return nil, err
		}
		ids = append(ids, id)
	}
	return ids, rows.Err()
}

func TestVerifPruningQuery(t *testing.T) {
	raw, err := os.ReadFile(os.Getenv("VERIF_CASES"))
	if err != nil {
		t.Fatal(err)
	}
	var in verifPqIn
	if err := json.Unmarshal(raw, &in); err != nil {
		t.Fatal(err)
	}
	outs := make([]verifPqOut, len(in.Queries))
	if len(in.Queries) > 0 {
		dir := t.TempDir()
		base := filepath.Join(dir, "data")
		logger := zerolog.New(os.Stderr).Level(zerolog.Disabled)
		db, err := database.New(&database.Config{MemoryLimit: "512MB", ThreadCount: 2, MaxConnections: 2, LocalStorageRoot: dir}, logger)
		if err != nil {
			t.Fatalf("database.New: %v", err)
		}
		defer db.Close()
		backend, err := storage.NewLocalBackend(base, logger)
		if err != nil {
			t.Fatalf("NewLocalBackend: %v", err)
		}
		for i, f := range in.Files {
			d := filepath.Join(base, "vdb", "vm", filepath.FromSlash(f.Dir))
			if err := os.MkdirAll(d, 0o755); err != nil {
				t.Fatal(err)
			}
			vals := make([]string, 0, len(f.Rows))
			for _, r := range f.Rows {
				fl := make([]string, 4)
				for k := 0; k < 4; k++ {
					fl[k] = "false"
					if k < len(r.F) && r.F[k] {
						fl[k] = "true"
					}
				}
				vals = append(vals, fmt.Sprintf("(%d, make_timestamp(%d)::TIMESTAMPTZ, make_timestamp(%d)::TIMESTAMPTZ, make_timestamp(%d)::TIMESTAMPTZ, make_timestamp(%d)::TIMESTAMPTZ, %s)",
					r.ID, r.Time, r.ETime, r.STime, r.TS, strings.Join(fl, ", ")))
			}
			q := fmt.Sprintf("COPY (SELECT * FROM (VALUES %s) v(id, \"time\", event_time, sample_timestamp, \"timestamp\", f0, f1, f2, f3)) TO '%s' (FORMAT PARQUET)",
				strings.Join(vals, ", "), filepath.Join(d, fmt.Sprintf("vm_%04d.parquet", i)))
			if _, err := db.Exec(q); err != nil {
				t.Fatalf("writing %s: %v", f.Dir, err)
			}
		}
		h := NewQueryHandler(db, backend, logger, 0, 0)
		ctx := context.Background()
		for i, q := range in.Queries {
			o := &outs[i]
			t0 := time.Now()
			h.pruner.VerifSetEnabled(true)
			h.pruner.InvalidateAllCaches()
			o.NowUs = time.Now().UnixMicro()
			sqlP := h.convertSQLToStoragePaths(ctx, q)
			o.WasPruned = !strings.Contains(sqlP, "/**/*.parquet")
			if len(sqlP) > 600 {
				o.SQLPruned = sqlP[:600]
			} else {
				o.SQLPruned = sqlP
			}
			ids, err := verifPqIDs(db, sqlP)
			if err != nil {
				o.ErrP = err.Error()
			}
			o.Pruned = ids
			h.pruner.VerifSetEnabled(false)
			sqlU := h.convertSQLToStoragePaths(ctx, q)
			ids, err = verifPqIDs(db, sqlU)
			if err != nil {
				o.ErrU = err.Error()
			}
			o.Unpruned = ids
			h.pruner.VerifSetEnabled(true)
			o.Ms = time.Since(t0).Milliseconds()
		}
	}
	b, err := json.Marshal(outs)
	if err != nil {
		t.Fatal(err)
	}
	if err := os.WriteFile(os.Getenv("VERIF_OUT"), b, 0o644); err != nil {
		t.Fatal(err)
	}
}
