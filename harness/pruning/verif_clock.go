//go:build verif

// Injected into package pruning by the C18 check (go test -overlay; nothing is written to
// /repo).  partition_pruner.go is compiled from a generated copy of the CURRENT source in which
// the two `time.Now().UTC()` calls of evaluateRelativeTime / ExtractTimeRange read this clock.
package pruning

import "time"

// VerifClockMicros: 0 = wall clock, otherwise the instant (microseconds since the epoch) the
// pruner sees as "now".
var VerifClockMicros int64

func verifNow() time.Time {
	if VerifClockMicros == 0 {
		return time.Now().UTC()
	}
	return time.UnixMicro(VerifClockMicros).UTC()
}

// VerifSetEnabled switches pruning off/on (the `enabled` flag has no production setter).
func (p *PartitionPruner) VerifSetEnabled(b bool) { p.enabled = b }
