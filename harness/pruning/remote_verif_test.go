//go:build verif

// C18 correspondence harness, remote storage: drives the REAL OptimizeTablePath /
// filterExistingRemotePaths on an s3:// table path against a fake storage backend that
// implements storage.DirectoryLister, with injected ListDirectories / List failures.
// Cases from $VERIF_CASES, kept directories to $VERIF_OUT.
package pruning

import (
	"context"
	"encoding/json"
	"errors"
	"os"
	"sort"
	"strings"
	"testing"

	"github.com/basekick-labs/arc/internal/storage"
	"github.com/rs/zerolog"
)

type verifRemoteCase struct {
	SQL       string   `json:"sql"`
	Now       int64    `json:"now"`
	Hours     []string `json:"hours"`      // YYYY/MM/DD/HH directories that hold files
	Days      []string `json:"days"`       // YYYY/MM/DD directories that hold daily files directly
	FailDay   []string `json:"fail_day"`   // YYYY/MM/DD : ListDirectories(<day>/) fails
	FailMonth []string `json:"fail_month"` // YYYY/MM    : ListDirectories(<month>/) fails
	FailList  []string `json:"fail_list"`  // YYYY/MM/DD : List(<day>/) fails
	FullNames bool     `json:"full_names"` // ListDirectories returns full prefixes with a trailing slash
}

type verifRemoteOut struct {
	Optimized bool     `json:"optimized"`
	Hours     []string `json:"hours"` // in result order
	Days      []string `json:"days"`  // sorted (GeneratePartitionPaths emits them in map order)
	Other     []string `json:"other"`
	ListCalls int      `json:"list_calls"`
}

// verifRemoteBackend: only the two listing calls are ever used by the pruner; every other method
// of storage.Backend comes from the embedded nil interface.
type verifRemoteBackend struct {
	storage.Backend
	c     *verifRemoteCase
	calls int
}

const verifRemoteRoot = "vdb/vm/"

func verifHas(l []string, x string) bool {
	for _, y := range l {
		if y == x {
			return true
		}
	}
	return false
}

func (b *verifRemoteBackend) ListDirectories(ctx context.Context, prefix string) ([]string, error) {
	b.calls++
	key := strings.TrimSuffix(strings.TrimPrefix(prefix, verifRemoteRoot), "/")
	if verifHas(b.c.FailDay, key) || verifHas(b.c.FailMonth, key) {
		return nil, errors.New("verif: injected ListDirectories failure")
	}
	seen := map[string]bool{}
	out := []string{}
	for _, d := range append(append([]string{}, b.c.Hours...), b.c.Days...) {
		if !strings.HasPrefix(d, key+"/") {
			continue
		}
		child := strings.SplitN(strings.TrimPrefix(d, key+"/"), "/", 2)[0]
		if seen[child] {
			continue
		}
		seen[child] = true
		if b.c.FullNames {
			out = append(out, prefix+child+"/")
		} else {
			out = append(out, child)
		}
	}
	return out, nil
}

func (b *verifRemoteBackend) List(ctx context.Context, prefix string) ([]string, error) {
	b.calls++
	key := strings.TrimSuffix(strings.TrimPrefix(prefix, verifRemoteRoot), "/")
	if verifHas(b.c.FailList, key) {
		return nil, errors.New("verif: injected List failure")
	}
	out := []string{}
	for _, h := range b.c.Hours {
		if strings.HasPrefix(h, key+"/") {
			out = append(out, verifRemoteRoot+h+"/vm_0001.parquet")
		}
	}
	if verifHas(b.c.Days, key) {
		out = append(out, prefix+"vm_daily.parquet")
	}
	return out, nil
}

func TestVerifRemote(t *testing.T) {
	casesPath, outPath := os.Getenv("VERIF_REMOTE_CASES"), os.Getenv("VERIF_REMOTE_OUT")
	if casesPath == "" { // stand-alone run
		casesPath, outPath = os.Getenv("VERIF_CASES"), os.Getenv("VERIF_OUT")
	}
	raw, err := os.ReadFile(casesPath)
	if err != nil {
		t.Fatal(err)
	}
	var cases []verifRemoteCase
	if err := json.Unmarshal(raw, &cases); err != nil {
		t.Fatal(err)
	}
	outs := make([]verifRemoteOut, len(cases))
	const prefix = "s3://vbkt/" + verifRemoteRoot
	for i := range cases {
		c := &cases[i]
		o := &outs[i]
		o.Hours, o.Days, o.Other = []string{}, []string{}, []string{}
		VerifClockMicros = c.Now
		p := NewPartitionPruner(zerolog.Nop()) // fresh caches per case
		be := &verifRemoteBackend{c: c}
		p.SetStorageBackend(be)
		res, optimized := p.OptimizeTablePath(context.Background(), "s3://vbkt/vdb/vm/**/*.parquet", c.SQL)
		o.Optimized = optimized
		o.ListCalls = be.calls
		if !optimized {
			continue
		}
		var paths []string
		switch v := res.(type) {
		case string:
			paths = []string{v}
		case []string:
			paths = v
		}
		for _, pa := range paths {
			if !strings.HasPrefix(pa, prefix) || !strings.HasSuffix(pa, "/*.parquet") {
				o.Other = append(o.Other, pa)
				continue
			}
			mid := strings.TrimSuffix(strings.TrimPrefix(pa, prefix), "/*.parquet")
			switch strings.Count(mid, "/") {
			case 3:
				o.Hours = append(o.Hours, mid)
			case 2:
				o.Days = append(o.Days, mid)
			default:
				o.Other = append(o.Other, pa)
			}
		}
		sort.Strings(o.Days)
	}
	VerifClockMicros = 0
	b, err := json.Marshal(outs)
	if err != nil {
		t.Fatal(err)
	}
	if err := os.WriteFile(outPath, b, 0o644); err != nil {
		t.Fatal(err)
	}
}
