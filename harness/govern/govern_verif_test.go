//go:build verif

// C28 correspondence harness: drives the REAL slidingWindowCounter, quotaTracker and Manager
// of package governance under a controlled clock (time.Now() in sliding_window.go,
// quota_tracker.go and manager.go is rewritten to verifNow() by the overlay generated from
// the current sources) on the cases in $VERIF_CASES and writes what it observed to
// $VERIF_OUT.  The request composition of internal/api/query.go:executeQuery
// (CheckRateLimit, return on rejection, then CheckQuota) is re-composed here.
package governance

import (
	"context"
	"database/sql"
	"encoding/json"
	"os"
	"runtime"
	"sync"
	"sync/atomic"
	"testing"
	"time"

	"github.com/basekick-labs/arc/internal/config"
	"github.com/basekick-labs/arc/internal/metrics"
	_ "github.com/mattn/go-sqlite3"
	"github.com/rs/zerolog"
)

var verifClockNS atomic.Int64

// The controlled clock hands the code times that carry a LOCATION, as the real time.Now() does
// (process-local zone): per case either time.Local - which the harness sets to a fixed non-UTC
// zone - or an explicit fixed zone.  The instants are the same; only code that derives
// boundaries from the calendar fields of the location (instead of Truncate) is affected.
var verifZone atomic.Pointer[time.Location]

func verifNow() time.Time {
	t := time.Unix(0, verifClockNS.Load()) // time.Local
	if z := verifZone.Load(); z != nil {
		return t.In(z)
	}
	return t
}

func verifSetZone(off *int) {
	if off == nil {
		verifZone.Store(nil)
		return
	}
	if *off == 0 {
		verifZone.Store(time.UTC)
		return
	}
	verifZone.Store(time.FixedZone("verif", *off))
}

type verifSwOp struct {
	K string `json:"k"` // a = Allow, p = Remaining, l = UpdateLimit
	T int64  `json:"t"`
	L int    `json:"l"`
}

type verifSwCase struct {
	Zone *int       `json:"zone,omitempty"` // seconds east of UTC; absent = time.Local
	W   int64       `json:"w"`
	N   int         `json:"n"`
	Lim int         `json:"lim"`
	T0  int64       `json:"t0"`
	Ops []verifSwOp `json:"ops"`
	Obs []int64     `json:"obs"`
}

type verifQtOp struct {
	K  string `json:"k"` // a = AllowQuery, u = GetUsage, l = UpdateLimits
	T  int64  `json:"t"`
	MH int    `json:"mh"`
	MD int    `json:"md"`
}

type verifQtCase struct {
	Zone *int       `json:"zone,omitempty"`
	MH  int         `json:"mh"`
	MD  int         `json:"md"`
	T0  int64       `json:"t0"`
	Ops []verifQtOp `json:"ops"`
	Obs [][]int64   `json:"obs"` // [code, hour used, day used, hour reset, day reset]
}

type verifPolicy struct {
	Min int `json:"min"`
	Hr  int `json:"hr"`
	QH  int `json:"qh"`
	QD  int `json:"qd"`
}

type verifItem struct {
	K   string       `json:"k"` // rate | quota | set | del | usage | burst
	Tok int64        `json:"tok"`
	Rid int64        `json:"rid"`
	T   int64        `json:"t"`
	P   *verifPolicy `json:"p,omitempty"`
	N   int          `json:"n,omitempty"`
	G   int          `json:"g,omitempty"`
	O   []int64      `json:"o"`
	Raw []int64      `json:"raw"`
}

type verifMgrCase struct {
	Zone  *int        `json:"zone,omitempty"`
	Def   verifPolicy `json:"def"`
	Items []verifItem `json:"items"`
}

// verifFirst: Trials times, G goroutines released together each issue ONE whole request for a
// token that has no limiter / tracker yet (limit Lim per minute, per hour and as hourly/daily
// quota), at one clock value.  Whatever the interleaving, exactly min(G, Lim) may pass each check.
type verifFirst struct {
	Trials int   `json:"trials"`
	G      int   `json:"g"`
	Lim    int   `json:"lim"`
	T      int64 `json:"t"`
	Procs  int   `json:"procs"`
	MaxRA  int64 `json:"max_ra"`
	MaxQA  int64 `json:"max_qa"`
	MinRA  int64 `json:"min_ra"`
	MinQA  int64 `json:"min_qa"`
	Exceed int   `json:"exceed"` // trials in which more than Lim passed a check
	// [trial, rate-allowed, quota-allowed, raw hour count, raw day count] of the worst trial
	Worst []int64 `json:"worst"`
}

type verifCases struct {
	Sw    []verifSwCase  `json:"sw"`
	Qt    []verifQtCase  `json:"qt"`
	Mgr   []verifMgrCase `json:"mgr"`
	First []verifFirst   `json:"first"`
	// geometry the Manager actually gives its two limiters (read back from live objects)
	MinGeom []int64 `json:"min_geom,omitempty"`
	HrGeom  []int64 `json:"hr_geom,omitempty"`
}

func verifQuotaCode(ok bool, reason string) int64 {
	switch {
	case ok:
		return 0
	case reason == "Hourly query quota exceeded":
		return 1
	case reason == "Daily query quota exceeded":
		return 2
	}
	return 9
}

func verifRaw(m *Manager, tok int64) []int64 {
	m.quotaTrackersMu.RLock()
	q, ok := m.quotaTrackers[tok]
	m.quotaTrackersMu.RUnlock()
	if !ok {
		return []int64{-1, -1}
	}
	q.mu.Lock()
	defer q.mu.Unlock()
	return []int64{int64(q.queriesThisHour), int64(q.queriesThisDay)}
}

func verifManager(t *testing.T, def verifPolicy) *Manager {
	db, err := sql.Open("sqlite3", ":memory:")
	if err != nil {
		t.Fatal(err)
	}
	db.SetMaxOpenConns(1)
	t.Cleanup(func() { db.Close() })
	m, err := NewManager(&ManagerConfig{DB: db, Logger: zerolog.Nop(), Config: &config.GovernanceConfig{
		Enabled: true, DefaultRateLimitPerMin: def.Min, DefaultRateLimitPerHour: def.Hr,
		DefaultMaxQueriesPerHour: def.QH, DefaultMaxQueriesPerDay: def.QD}})
	if err != nil {
		t.Fatal(err)
	}
	return m
}

func TestVerifGovern(t *testing.T) {
	raw, err := os.ReadFile(os.Getenv("VERIF_CASES"))
	if err != nil {
		t.Fatal(err)
	}
	var cs verifCases
	if err := json.Unmarshal(raw, &cs); err != nil {
		t.Fatal(err)
	}
	metrics.Init(zerolog.Nop())
	ctx := context.Background()
	// the process-local zone is NOT UTC (as on most deployments): UTC-11, whose midnight is
	// 11:00 UTC
	time.Local = time.FixedZone("verif-local", -11*3600)

	for ci := range cs.Sw {
		c := &cs.Sw[ci]
		verifSetZone(c.Zone)
		verifClockNS.Store(c.T0)
		s := newSlidingWindowCounter(time.Duration(c.W), c.N, c.Lim)
		c.Obs = []int64{}
		for _, op := range c.Ops {
			switch op.K {
			case "a":
				verifClockNS.Store(op.T)
				if s.Allow() {
					c.Obs = append(c.Obs, 1)
				} else {
					c.Obs = append(c.Obs, 0)
				}
			case "p":
				verifClockNS.Store(op.T)
				c.Obs = append(c.Obs, int64(s.Remaining()))
			case "l":
				s.UpdateLimit(op.L)
				c.Obs = append(c.Obs, -1)
			default:
				t.Fatalf("sw case %d: unknown op %q", ci, op.K)
			}
		}
	}

	for ci := range cs.Qt {
		c := &cs.Qt[ci]
		verifSetZone(c.Zone)
		verifClockNS.Store(c.T0)
		q := newQuotaTracker(c.MH, c.MD)
		c.Obs = [][]int64{}
		for _, op := range c.Ops {
			code := int64(-1)
			switch op.K {
			case "a":
				verifClockNS.Store(op.T)
				code = verifQuotaCode(q.AllowQuery())
			case "u":
				verifClockNS.Store(op.T)
				q.GetUsage()
			case "l":
				q.UpdateLimits(op.MH, op.MD)
			default:
				t.Fatalf("qt case %d: unknown op %q", ci, op.K)
			}
			c.Obs = append(c.Obs, []int64{code, int64(q.queriesThisHour), int64(q.queriesThisDay),
				q.hourResetAt.UnixNano(), q.dayResetAt.UnixNano()})
		}
	}

	for ci := range cs.Mgr {
		c := &cs.Mgr[ci]
		verifSetZone(c.Zone)
		m := verifManager(t, c.Def)
		hasPolicy := map[int64]bool{}
		type rk struct{ tok, rid int64 }
		passed := map[rk]bool{}
		for ii := range c.Items {
			it := &c.Items[ii]
			switch it.K {
			case "rate":
				verifClockNS.Store(it.T)
				r := m.CheckRateLimit(it.Tok)
				if r.Allowed {
					passed[rk{it.Tok, it.Rid}] = true
					it.O = []int64{1, 1}
				} else {
					it.O = []int64{1, 0}
				}
			case "quota":
				// executeQuery reaches CheckQuota only when CheckRateLimit allowed the request
				if !passed[rk{it.Tok, it.Rid}] {
					it.O = []int64{3}
					break
				}
				delete(passed, rk{it.Tok, it.Rid})
				verifClockNS.Store(it.T)
				r := m.CheckQuota(it.Tok)
				it.O = []int64{2, verifQuotaCode(r.Allowed, r.Reason)}
			case "set":
				p := &Policy{TokenID: it.Tok, RateLimitPerMinute: it.P.Min, RateLimitPerHour: it.P.Hr,
					MaxQueriesPerHour: it.P.QH, MaxQueriesPerDay: it.P.QD}
				var err error
				if hasPolicy[it.Tok] {
					_, err = m.UpdatePolicy(ctx, p)
				} else {
					_, err = m.CreatePolicy(ctx, p)
				}
				if err != nil {
					t.Fatalf("mgr case %d item %d: %v", ci, ii, err)
				}
				hasPolicy[it.Tok] = true
				it.O = []int64{0}
			case "del":
				if err := m.DeletePolicy(ctx, it.Tok); err != nil {
					t.Fatalf("mgr case %d item %d: %v", ci, ii, err)
				}
				hasPolicy[it.Tok] = false
				it.O = []int64{0}
			case "usage":
				verifClockNS.Store(it.T)
				u := m.GetTokenUsage(it.Tok)
				it.O = []int64{4, int64(u.QueriesThisHour), int64(u.QueriesThisDay),
					int64(u.RateLimitRemainingPerMin), int64(u.RateLimitRemainingPerHour)}
			case "burst":
				// n whole requests issued from g goroutines at one clock value
				verifClockNS.Store(it.T)
				var ra, qa atomic.Int64
				var wg sync.WaitGroup
				g := it.G
				if g < 1 {
					g = 1
				}
				next := atomic.Int64{}
				for w := 0; w < g; w++ {
					wg.Add(1)
					go func() {
						defer wg.Done()
						for next.Add(1) <= int64(it.N) {
							if r := m.CheckRateLimit(it.Tok); !r.Allowed {
								continue
							}
							ra.Add(1)
							if r := m.CheckQuota(it.Tok); r.Allowed {
								qa.Add(1)
							}
						}
					}()
				}
				wg.Wait()
				it.O = []int64{ra.Load(), qa.Load()}
			default:
				t.Fatalf("mgr case %d: unknown item %q", ci, it.K)
			}
			it.Raw = verifRaw(m, it.Tok)
		}
	}

	verifSetZone(nil)
	for fi := range cs.First {
		f := &cs.First[fi]
		if runtime.GOMAXPROCS(0) < 2 {
			runtime.GOMAXPROCS(4)
		}
		f.Procs = runtime.GOMAXPROCS(0)
		verifClockNS.Store(f.T)
		m := verifManager(t, verifPolicy{Min: f.Lim, Hr: f.Lim, QH: f.Lim, QD: f.Lim})
		var cur, ra, qa atomic.Int64
		var done sync.WaitGroup
		var exit sync.WaitGroup
		for w := 0; w < f.G; w++ {
			exit.Add(1)
			go func() {
				defer exit.Done()
				for trial := int64(1); trial <= int64(f.Trials); trial++ {
					for cur.Load() != trial { // spin barrier: all workers start a trial together
						runtime.Gosched()
					}
					tok := 1000 + trial
					if r := m.CheckRateLimit(tok); r.Allowed {
						ra.Add(1)
						if q := m.CheckQuota(tok); q.Allowed {
							qa.Add(1)
						}
					}
					done.Done()
				}
			}()
		}
		f.MinRA, f.MinQA = int64(f.G), int64(f.G)
		for trial := int64(1); trial <= int64(f.Trials); trial++ {
			ra.Store(0)
			qa.Store(0)
			done.Add(f.G)
			cur.Store(trial)
			done.Wait()
			a, b := ra.Load(), qa.Load()
			if a > int64(f.Lim) || b > int64(f.Lim) {
				f.Exceed++
			}
			if a < f.MinRA {
				f.MinRA = a
			}
			if b < f.MinQA {
				f.MinQA = b
			}
			if f.Worst == nil || a+b > f.Worst[1]+f.Worst[2] {
				raw := verifRaw(m, 1000+trial)
				f.Worst = []int64{trial, a, b, raw[0], raw[1]}
			}
			if a > f.MaxRA {
				f.MaxRA = a
			}
			if b > f.MaxQA {
				f.MaxQA = b
			}
		}
		exit.Wait()
	}

	// geometry of the limiters the Manager really constructs (cross-check of Params_Govern)
	{
		verifClockNS.Store(0)
		m := verifManager(t, verifPolicy{Min: 1, Hr: 1})
		m.CheckRateLimit(1)
		if l, ok := m.minuteLimiters[1]; ok {
			cs.MinGeom = []int64{int64(l.windowSize), int64(l.slotCount), int64(l.slotDuration), int64(len(l.slots))}
		}
		if l, ok := m.hourLimiters[1]; ok {
			cs.HrGeom = []int64{int64(l.windowSize), int64(l.slotCount), int64(l.slotDuration), int64(len(l.slots))}
		}
	}

	out, _ := json.Marshal(cs)
	if err := os.WriteFile(os.Getenv("VERIF_OUT"), out, 0o644); err != nil {
		t.Fatal(err)
	}
}
