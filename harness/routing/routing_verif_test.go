//go:build verif

// C30 correspondence harness (package api, injected with go test -overlay).
//
// It drives the REAL routing code of the current tree
//   - cluster.NodeRole.GetCapabilities                         (section "caps")
//   - api.decideForward and its four exported wrappers through a real fiber context whose
//     request was parsed from raw bytes on the wire                 (section "decide")
//   - the real write / query handlers (MsgPackHandler.writeMsgPack, QueryHandler.executeQuery)
//     with a real cluster.Router over a real cluster.Registry; peers are recording stubs
//     reached through the router's own http client                  (section "sweep")
//   - every write / query / import endpoint as registered by the handlers' own RegisterRoutes,
//     with real handlers (real ArrowBuffer, real DuckDB, local storage in t.TempDir()) on a node
//     whose role cannot serve the request                           (section "endpoints")
//   - clusters in which EVERY node is a real handler + router + registry view, connected by an
//     in-memory network: the observable is the trace of nodes a request visits (section "e2e")
//
// Input: $VERIF_CASES (JSON), output: $VERIF_OUT (JSON).  Nothing is written outside t.TempDir().
package api

import (
	"bufio"
	"bytes"
	"context"
	"encoding/base64"
	"encoding/json"
	"fmt"
	"io"
	"mime/multipart"
	"net"
	"net/http"
	"net/http/httptest"
	"os"
	"reflect"
	"strings"
	"sync"
	"testing"
	"time"

	"github.com/basekick-labs/arc/internal/cluster"
	"github.com/basekick-labs/arc/internal/config"
	"github.com/basekick-labs/arc/internal/database"
	"github.com/basekick-labs/arc/internal/ingest"
	"github.com/basekick-labs/arc/internal/storage"
	"github.com/gofiber/fiber/v2"
	"github.com/rs/zerolog"
	"github.com/valyala/fasthttp/fasthttputil"
)

// ---- protocol -------------------------------------------------------------------------

type vfType struct {
	Role  string `json:"role"`
	WS    string `json:"ws"`
	State string `json:"state"`
}

type vfLocal struct {
	Router   bool   `json:"router"`    // false: h.router == nil
	HasLocal bool   `json:"has_local"` // false: RouterConfig.LocalNode == nil
	ID       string `json:"id"`        // base64
	Role     string `json:"role"`
	WS       string `json:"ws"` // writer state of the local node
}

type vfDecide struct {
	Local int    `json:"local"`
	Kind  int    `json:"kind"` // 0 write, 1 query
	Raw   string `json:"raw"`  // base64 of the raw header LINES to put on the wire (may be empty)
}

type vfEndpoint struct {
	Method string `json:"method"`
	Path   string `json:"path"` // concrete path to request
	Route  string `json:"route"`
	Kind   int    `json:"kind"`
	Body   string `json:"body"` // "empty" | "lp-multipart" | "json-sql" | ...
}

type vfViewEntry struct {
	Node  int    `json:"node"` // index of the actual node this entry points to (-1: nobody listens)
	ID    string `json:"id"`   // base64; id recorded in the registry entry
	Role  string `json:"role"`
	WS    string `json:"ws"`
	State string `json:"state"`
}

type vfE2ENode struct {
	ID       string        `json:"id"` // base64
	Router   bool          `json:"router"`
	HasLocal bool          `json:"has_local"`
	Role     string        `json:"role"`
	WS       string        `json:"ws"` // writer state of the node's own LocalNode
	Strategy string        `json:"strategy"`
	View     []vfViewEntry `json:"view"`
}

type vfE2E struct {
	Nodes  []vfE2ENode `json:"nodes"`
	Entry  int         `json:"entry"`
	Kind   int         `json:"kind"`
	Header *string     `json:"header"` // base64 or null
	Route  string      `json:"route"`  // optional concrete path override
}

type vfIn struct {
	Roles     []string     `json:"roles"`
	Types     []vfType     `json:"types"`
	Locals    []vfLocal    `json:"locals"`
	Sweep     [][]int      `json:"sweep"` // [local, kind, hdr(0 absent,1 present), strategy(0 rr,1 lc), t1, t2, ...]
	Trials    int          `json:"trials"`
	Decide    []vfDecide   `json:"decide"`
	Endpoints []vfEndpoint `json:"endpoints"`
	E2E       []vfE2E      `json:"e2e"`
	Wired     []string     `json:"wired"` // handler types on which cmd/arc/main.go calls SetRouter
	WSStandby string       `json:"ws_standby"`
	WSPrimary string       `json:"ws_primary"`
}

type vfHit struct {
	Node   int    `json:"node"`
	Hdr    string `json:"hdr"` // base64 of c.Get(ForwardedByHeader) as seen by the node
	Status int    `json:"status"`
	Class  int    `json:"class"`
}

type vfObs struct {
	Class  int    `json:"class"`
	Status int    `json:"status"`
	Target int    `json:"target"` // sweep: index (1-based position in the case) of the peer hit, 0 none
	Marker string `json:"marker"` // base64 marker seen by the peer
	Note   string `json:"note,omitempty"`
}

type vfDecideObs struct {
	Seen     string `json:"seen"` // base64 of c.Get(ForwardedByHeader)
	Decision int    `json:"decision"`
	W        int    `json:"w"`  // WriteForwardDecision / QueryForwardDecision (by kind)
	Should   bool   `json:"sh"` // ShouldForwardWrite / ShouldForwardQuery (by kind)
	Status   int    `json:"status"`
}

type vfEndpointObs struct {
	Route string  `json:"route"`
	Obs   []vfObs `json:"obs"` // one per scenario, see runEndpoints
	Body  string  `json:"body"`
}

type vfE2EObs struct {
	Hits  []vfHit  `json:"hits"`
	Dials []string `json:"dials"` // base64 ids of dialled targets, consecutive retries collapsed
	Class int      `json:"class"` // class of the response at the LAST node visited
	Final int      `json:"final"` // status seen by the client
}

type vfOut struct {
	Caps      map[string][]bool `json:"caps"`
	Sweep     [][]vfObs         `json:"sweep"`
	Decide    []vfDecideObs     `json:"decide"`
	Endpoints []vfEndpointObs   `json:"endpoints"`
	E2E       []vfE2EObs        `json:"e2e"`
	TimingMS  map[string]int64  `json:"timing_ms"`
}

// response classes
const (
	vfLocalC    = 0 // request processed by this node's own pipeline
	vfLoop      = 1 // 508 RespondAlreadyForwarded
	vfNoWriter  = 2
	vfNoReader  = 3
	vfForwarded = 4 // sweep only: a peer stub answered
	vfRouteFail = 5
	vfPanic     = 6
	vfHopLimit  = 7
)

const vfHopMax = 6 // a 7th visit is cut off by the harness

func vfB64(s string) string { return base64.StdEncoding.EncodeToString([]byte(s)) }
func vfUnB64(t *testing.T, s string) string {
	b, err := base64.StdEncoding.DecodeString(s)
	if err != nil {
		t.Fatalf("bad base64 %q", s)
	}
	return string(b)
}

// ---- in-memory network ----------------------------------------------------------------

type vfNet struct {
	mu        sync.Mutex
	listeners map[string]*fasthttputil.InmemoryListener
	dials     []string
}

func newVfNet() *vfNet { return &vfNet{listeners: map[string]*fasthttputil.InmemoryListener{}} }

func (n *vfNet) transport() *http.Transport {
	return &http.Transport{
		DisableKeepAlives: true,
		DialContext: func(ctx context.Context, network, addr string) (net.Conn, error) {
			n.mu.Lock()
			n.dials = append(n.dials, addr)
			ln := n.listeners[addr]
			n.mu.Unlock()
			if ln == nil {
				return nil, fmt.Errorf("verif: nobody listens on %s", addr)
			}
			return ln.Dial()
		},
	}
}

func (n *vfNet) listen(addr string) *fasthttputil.InmemoryListener {
	ln := fasthttputil.NewInmemoryListener()
	n.mu.Lock()
	n.listeners[addr] = ln
	n.mu.Unlock()
	return ln
}

func (n *vfNet) takeDials() []string {
	n.mu.Lock()
	defer n.mu.Unlock()
	d := n.dials
	n.dials = nil
	return d
}

func vfRecover(c *fiber.Ctx) (err error) {
	defer func() {
		if r := recover(); r != nil {
			err = c.Status(597).SendString(fmt.Sprintf("VERIF-PANIC: %v", r))
		}
	}()
	return c.Next()
}

func vfClassify(status int, body string) int {
	switch {
	case status == 597:
		return vfPanic
	case status == 596:
		return vfHopLimit
	case status == 299 && strings.HasPrefix(body, "PEER|"):
		return vfForwarded
	case status == fiber.StatusLoopDetected && strings.Contains(body, "already forwarded"):
		return vfLoop
	case status == fiber.StatusServiceUnavailable && strings.Contains(body, "No writer node available"):
		return vfNoWriter
	case status == fiber.StatusServiceUnavailable && strings.Contains(body, "No reader node available"):
		return vfNoReader
	case status == fiber.StatusBadGateway && (strings.Contains(body, "Failed to route request") || strings.Contains(body, "Routing error")):
		return vfRouteFail
	}
	return vfLocalC
}

func vfNode(id, role, ws, state, addr string) *cluster.Node {
	n := cluster.NewNode(id, "verif-"+id, cluster.NodeRole(role), "verif-cluster")
	n.State = cluster.NodeState(state)
	n.WriterSt = cluster.WriterState(ws)
	n.APIAddress = addr
	return n
}

func vfStrategy(s string) cluster.LoadBalanceStrategy {
	switch s {
	case "lc":
		return cluster.LoadBalanceLeastConnections
	case "random":
		return cluster.LoadBalanceRandom
	}
	return cluster.LoadBalanceRoundRobin
}

// ---- entry point ----------------------------------------------------------------------

func TestVerifRouting(t *testing.T) {
	raw, err := os.ReadFile(os.Getenv("VERIF_CASES"))
	if err != nil {
		t.Fatal(err)
	}
	var in vfIn
	if err := json.Unmarshal(raw, &in); err != nil {
		t.Fatal(err)
	}
	out := vfOut{Caps: map[string][]bool{}, TimingMS: map[string]int64{}}
	tick := time.Now()
	lap := func(name string) {
		out.TimingMS[name] = time.Since(tick).Milliseconds()
		tick = time.Now()
	}
	for _, r := range in.Roles {
		c := cluster.NodeRole(r).GetCapabilities()
		out.Caps[r] = []bool{c.CanIngest, c.CanQuery, c.CanCompact, c.CanCoordinate}
	}
	if len(in.Sweep) > 0 {
		out.Sweep = runSweep(t, &in)
		lap("sweep")
	}
	if len(in.Decide) > 0 {
		out.Decide = runDecide(t, &in)
		lap("decide")
	}
	if len(in.Endpoints) > 0 {
		out.Endpoints = runEndpoints(t, &in)
		lap("endpoints")
	}
	if len(in.E2E) > 0 {
		cl := newVfCluster()
		for i := range in.E2E {
			out.E2E = append(out.E2E, cl.run(t, &in.E2E[i]))
		}
		cl.close()
		lap("e2e")
	}
	b, _ := json.Marshal(out)
	if err := os.WriteFile(os.Getenv("VERIF_OUT"), b, 0o644); err != nil {
		t.Fatal(err)
	}
}

// ---- sweep: real handler + real Router + real Registry, stub peers ---------------------

func vfRouterFor(t *testing.T, l vfLocal, strategy string, netw *vfNet, reg func(local *cluster.Node) *cluster.Registry) *cluster.Router {
	if !l.Router {
		return nil
	}
	var local *cluster.Node
	if l.HasLocal {
		local = vfNode(vfUnB64(t, l.ID), l.Role, l.WS, "healthy", "local.verif:80")
	}
	return cluster.NewRouter(&cluster.RouterConfig{
		Timeout:   2 * time.Second,
		Strategy:  vfStrategy(strategy),
		Registry:  reg(local),
		LocalNode: local,
		Logger:    zerolog.Nop(),
		Transport: netw.transport(),
	})
}

func runSweep(t *testing.T, in *vfIn) [][]vfObs {
	netw := newVfNet()
	// stub peers p1..p4: record what they receive, answer 299 "PEER|<idx>|<b64 marker>"
	const maxPeers = 4
	for i := 1; i <= maxPeers; i++ {
		idx := i
		peer := fiber.New(fiber.Config{DisableStartupMessage: true})
		peer.All("/*", func(c *fiber.Ctx) error {
			return c.Status(299).SendString(fmt.Sprintf("PEER|%d|%s", idx, vfB64(c.Get(ForwardedByHeader))))
		})
		ln := netw.listen(fmt.Sprintf("p%d.verif:80", idx))
		go peer.Listener(ln)  //nolint:errcheck
		defer peer.Shutdown() //nolint:errcheck
	}
	mp := &MsgPackHandler{logger: zerolog.Nop(), maxPayloadSize: 1 << 20}
	qh := &QueryHandler{logger: zerolog.Nop()}
	app := fiber.New(fiber.Config{DisableStartupMessage: true})
	app.Use(vfRecover)
	mp.RegisterRoutes(app)
	qh.RegisterRoutes(app)
	trials := in.Trials
	if trials <= 0 {
		trials = 1
	}
	res := make([][]vfObs, 0, len(in.Sweep))
	for _, sc := range in.Sweep {
		l := in.Locals[sc[0]]
		kind, hdr, strat := sc[1], sc[2], sc[3]
		peers := sc[4:]
		strategy := "rr"
		if strat == 1 {
			strategy = "lc"
		}
		router := vfRouterFor(t, l, strategy, netw, func(local *cluster.Node) *cluster.Registry {
			reg := cluster.NewRegistry(&cluster.RegistryConfig{LocalNode: local, Logger: zerolog.Nop()})
			for pi, tc := range peers {
				ty := in.Types[tc]
				id := fmt.Sprintf("p%d", pi+1)
				if err := reg.Register(vfNode(id, ty.Role, ty.WS, ty.State, id+".verif:80")); err != nil {
					t.Fatal(err)
				}
			}
			return reg
		})
		mp.SetRouter(router)
		qh.SetRouter(router)
		var obs []vfObs
		for tr := 0; tr < trials; tr++ {
			path := "/api/v1/write/msgpack"
			if kind == 1 {
				path = "/api/v1/query"
			}
			req := httptest.NewRequest("POST", path, nil)
			if hdr == 1 {
				req.Header.Set(ForwardedByHeader, "spoofed-by-client")
			}
			resp, err := app.Test(req, 10000)
			if err != nil {
				t.Fatalf("sweep case %v: %v", sc, err)
			}
			body, _ := io.ReadAll(resp.Body)
			resp.Body.Close()
			o := vfObs{Class: vfClassify(resp.StatusCode, string(body)), Status: resp.StatusCode}
			if o.Class == vfForwarded {
				parts := strings.SplitN(string(body), "|", 3)
				fmt.Sscanf(parts[1], "%d", &o.Target)
				o.Marker = parts[2]
			}
			if o.Class == vfPanic {
				o.Note = string(body)
			}
			obs = append(obs, o)
			netw.takeDials()
		}
		res = append(res, obs)
	}
	return res
}

// ---- decide: decideForward + wrappers on a context parsed from raw wire bytes ----------

func runDecide(t *testing.T, in *vfIn) []vfDecideObs {
	netw := newVfNet()
	var cur *cluster.Router
	var curKind int
	var last vfDecideObs
	app := fiber.New(fiber.Config{DisableStartupMessage: true})
	app.Use(vfRecover)
	app.Post("/verif-decide", func(c *fiber.Ctx) error {
		isWrite := curKind == 0
		last.Seen = vfB64(c.Get(ForwardedByHeader))
		last.Decision = int(decideForward(cur, c, isWrite))
		if isWrite {
			last.W = int(WriteForwardDecision(cur, c))
			last.Should = ShouldForwardWrite(cur, c)
		} else {
			last.W = int(QueryForwardDecision(cur, c))
			last.Should = ShouldForwardQuery(cur, c)
		}
		return c.SendStatus(200)
	})
	ln := fasthttputil.NewInmemoryListener()
	go app.Listener(ln)  //nolint:errcheck
	defer app.Shutdown() //nolint:errcheck
	var res []vfDecideObs
	for _, d := range in.Decide {
		cur = vfRouterFor(t, in.Locals[d.Local], "rr", netw, func(local *cluster.Node) *cluster.Registry {
			return cluster.NewRegistry(&cluster.RegistryConfig{LocalNode: local, Logger: zerolog.Nop()})
		})
		curKind = d.Kind
		last = vfDecideObs{Decision: -1, W: -1}
		conn, err := ln.Dial()
		if err != nil {
			t.Fatal(err)
		}
		wire := "POST /verif-decide HTTP/1.1\r\nHost: entry.verif\r\n" + vfUnB64(t, d.Raw) + "Content-Length: 0\r\nConnection: close\r\n\r\n"
		conn.SetDeadline(time.Now().Add(5 * time.Second)) //nolint:errcheck
		if _, err := conn.Write([]byte(wire)); err != nil {
			t.Fatal(err)
		}
		resp, err := http.ReadResponse(bufio.NewReader(conn), nil)
		if err != nil {
			last.Status = -1
		} else {
			io.Copy(io.Discard, resp.Body) //nolint:errcheck
			resp.Body.Close()
			last.Status = resp.StatusCode
		}
		conn.Close()
		res = append(res, last)
	}
	return res
}

// ---- endpoints: the handlers' own RegisterRoutes with real back ends -------------------

type vfRealNode struct {
	app    *fiber.App
	mp     *MsgPackHandler
	lp     *LineProtocolHandler
	tle    *TLEHandler
	qh     *QueryHandler
	imp    *ImportHandler
	buffer *ingest.ArrowBuffer
}

func vfBuildRealNode(t *testing.T) *vfRealNode {
	dir := t.TempDir()
	logger := zerolog.Nop()
	backend, err := storage.NewLocalBackend(dir, logger)
	if err != nil {
		t.Fatal(err)
	}
	db, err := database.New(&database.Config{MemoryLimit: "256MB", ThreadCount: 2, MaxConnections: 2, LocalStorageRoot: dir}, logger)
	if err != nil {
		t.Fatal(err)
	}
	t.Cleanup(func() { db.Close() })
	buf := ingest.NewArrowBuffer(&config.IngestConfig{MaxBufferSize: 1000000, MaxBufferAgeMS: 600000, FlushWorkers: 1, ShardCount: 1}, backend, logger)
	t.Cleanup(func() { buf.Close() })
	n := &vfRealNode{buffer: buf}
	n.mp = NewMsgPackHandler(logger, buf, 1<<20)
	n.lp = NewLineProtocolHandler(buf, logger)
	n.tle = NewTLEHandler(buf, logger)
	n.qh = NewQueryHandler(db, backend, logger, 30, 0)
	n.imp = NewImportHandler(logger)
	n.imp.SetArrowBuffer(buf)
	n.app = fiber.New(fiber.Config{DisableStartupMessage: true, BodyLimit: 8 << 20})
	n.app.Use(vfRecover)
	// exactly the registration calls of cmd/arc/main.go for these five handlers
	n.mp.RegisterRoutes(n.app)
	n.lp.RegisterRoutes(n.app)
	n.tle.RegisterRoutes(n.app)
	n.imp.RegisterRoutes(n.app)
	n.qh.RegisterRoutes(n.app)
	return n
}

// setRouter reproduces the wiring block of cmd/arc/main.go: a handler gets the router iff
// main.go calls SetRouter on a handler of its type (list computed from the CURRENT main.go by
// tools/props/C30.py) and the type has such a method at all.
func (n *vfRealNode) setRouter(r *cluster.Router, wired map[string]bool) {
	hs := map[string]interface{}{"MsgPackHandler": n.mp, "LineProtocolHandler": n.lp, "TLEHandler": n.tle,
		"QueryHandler": n.qh, "ImportHandler": n.imp}
	for name, h := range hs {
		m := reflect.ValueOf(h).MethodByName("SetRouter")
		if m.IsValid() && wired[name] {
			m.Call([]reflect.Value{reflect.ValueOf(r)})
		}
	}
}

func vfEndpointRequest(t *testing.T, e vfEndpoint, spoof bool) *http.Request {
	var body io.Reader
	ctype := ""
	switch e.Body {
	case "lp-multipart", "csv-multipart", "tle-multipart", "parquet-multipart":
		var b bytes.Buffer
		w := multipart.NewWriter(&b)
		fw, _ := w.CreateFormFile("file", "verif.dat")
		switch e.Body {
		case "lp-multipart":
			fw.Write([]byte("verifcpu,host=a v=1 1700000000000000000\nverifcpu,host=b v=2 1700000001000000000\n")) //nolint:errcheck
		case "csv-multipart":
			fw.Write([]byte("time,host,v\n2023-11-14T22:13:20Z,a,1\n2023-11-14T22:13:21Z,b,2\n")) //nolint:errcheck
		case "tle-multipart":
			fw.Write([]byte("ISS (ZARYA)\n1 25544U 98067A   08264.51782528 -.00002182  00000-0 -11606-4 0  2927\n2 25544  51.6416 247.4627 0006703 130.5360 325.0288 15.72125391563537\n")) //nolint:errcheck
		default:
			fw.Write([]byte("PAR1-not-really")) //nolint:errcheck
		}
		w.Close()
		body = &b
		ctype = w.FormDataContentType()
	case "json-sql":
		body = strings.NewReader(`{"sql":"SELECT 1 AS verif_one"}`)
		ctype = "application/json"
	case "lp":
		body = strings.NewReader("verifcpu,host=a v=1 1700000000000000000\n")
		ctype = "text/plain"
	case "tle":
		body = strings.NewReader("ISS (ZARYA)\n1 25544U 98067A   08264.51782528 -.00002182  00000-0 -11606-4 0  2927\n2 25544  51.6416 247.4627 0006703 130.5360 325.0288 15.72125391563537\n")
		ctype = "text/plain"
	case "msgpack":
		// {"m":"verifcpu","columns":{"time":[1700000000000],"v":[1.5]}}
		body = bytes.NewReader([]byte{0x82, 0xa1, 'm', 0xa8, 'v', 'e', 'r', 'i', 'f', 'c', 'p', 'u', 0xa7, 'c', 'o', 'l', 'u', 'm', 'n', 's',
			0x82, 0xa4, 't', 'i', 'm', 'e', 0x91, 0xcf, 0x00, 0x00, 0x01, 0x8b, 0xcf, 0xe5, 0x68, 0x00, 0xa1, 'v', 0x91, 0xcb, 0x3f, 0xf8, 0, 0, 0, 0, 0, 0})
		ctype = "application/msgpack"
	}
	req := httptest.NewRequest(e.Method, e.Path, body)
	if ctype != "" {
		req.Header.Set("Content-Type", ctype)
	}
	req.Header.Set("x-arc-database", "verifdb")
	if spoof {
		req.Header.Set(ForwardedByHeader, "spoofed-by-client")
	}
	return req
}

// Scenarios per endpoint (kind k): the local node has the role that CANNOT serve k
// (reader for writes, compactor for queries) and one healthy capable peer is registered:
//
//	0: no marker         -> a consulting handler forwards to the peer
//	1: client marker     -> a consulting handler answers 508
//	2: no marker, the local node CAN serve (writer) -> local
//	3: no router at all  -> local
//	4: client marker, the local node is a writer in STANDBY writer state -> local
//	5: client marker, the local node is a writer in PRIMARY writer state -> local
func runEndpoints(t *testing.T, in *vfIn) []vfEndpointObs {
	netw := newVfNet()
	peer := fiber.New(fiber.Config{DisableStartupMessage: true})
	peer.All("/*", func(c *fiber.Ctx) error {
		return c.Status(299).SendString(fmt.Sprintf("PEER|1|%s", vfB64(c.Get(ForwardedByHeader))))
	})
	go peer.Listener(netw.listen("p1.verif:80")) //nolint:errcheck
	defer peer.Shutdown()                        //nolint:errcheck
	node := vfBuildRealNode(t)
	wired := map[string]bool{}
	for _, w := range in.Wired {
		wired[w] = true
	}
	mk := func(role, ws string) *cluster.Router {
		local := vfNode("L", role, ws, "healthy", "local.verif:80")
		reg := cluster.NewRegistry(&cluster.RegistryConfig{LocalNode: local, Logger: zerolog.Nop()})
		reg.Register(vfNode("p1", "writer", "", "healthy", "p1.verif:80")) //nolint:errcheck
		return cluster.NewRouter(&cluster.RouterConfig{Timeout: 2 * time.Second, Registry: reg, LocalNode: local,
			Logger: zerolog.Nop(), Transport: netw.transport()})
	}
	var res []vfEndpointObs
	for _, e := range in.Endpoints {
		incapable := "reader"
		if e.Kind == 1 {
			incapable = "compactor"
		}
		eo := vfEndpointObs{Route: e.Route}
		for sc := 0; sc < 6; sc++ {
			switch sc {
			case 0, 1:
				node.setRouter(mk(incapable, ""), wired)
			case 2:
				node.setRouter(mk("writer", ""), wired)
			case 3:
				node.setRouter(nil, wired)
			case 4:
				node.setRouter(mk("writer", in.WSStandby), wired)
			case 5:
				node.setRouter(mk("writer", in.WSPrimary), wired)
			}
			spoof := sc == 1 || sc >= 4
			// fiber's app.Test occasionally mangles a streamed response (Arrow IPC body stream
			// writer on the in-memory test connection); an unreadable response is retried
			var resp *http.Response
			var err error
			for attempt := 0; attempt < 4; attempt++ {
				resp, err = node.app.Test(vfEndpointRequest(t, e, spoof), 30000)
				if err == nil {
					break
				}
			}
			if err != nil {
				t.Fatalf("endpoint %s scenario %d: %v", e.Route, sc, err)
			}
			body, _ := io.ReadAll(resp.Body)
			resp.Body.Close()
			o := vfObs{Class: vfClassify(resp.StatusCode, string(body)), Status: resp.StatusCode}
			if o.Class == vfForwarded {
				parts := strings.SplitN(string(body), "|", 3)
				fmt.Sscanf(parts[1], "%d", &o.Target)
				o.Marker = parts[2]
			} else {
				o.Note = string(body)
				if len(o.Note) > 200 {
					o.Note = o.Note[:200]
				}
			}
			eo.Obs = append(eo.Obs, o)
		}
		res = append(res, eo)
	}
	return res
}

// ---- e2e: every node is real ------------------------------------------------------------

const vfMaxNodes = 4

// vfCluster keeps four node slots alive (fiber app + real handlers + listener); a case only
// swaps the routers (LocalNode, registry view) of the slots it uses.
type vfCluster struct {
	netw *vfNet
	mu   sync.Mutex
	hits []vfHit
	apps []*fiber.App
	mps  []*MsgPackHandler
	lps  []*LineProtocolHandler
	qhs  []*QueryHandler
}

func vfAddr(i int) string { return fmt.Sprintf("n%d.verif:80", i) }

func newVfCluster() *vfCluster {
	cl := &vfCluster{netw: newVfNet()}
	for i := 0; i < vfMaxNodes; i++ {
		idx := i
		mp := &MsgPackHandler{logger: zerolog.Nop(), maxPayloadSize: 1 << 20}
		lp := NewLineProtocolHandler(nil, zerolog.Nop())
		qh := &QueryHandler{logger: zerolog.Nop()}
		app := fiber.New(fiber.Config{DisableStartupMessage: true})
		app.Use(func(fc *fiber.Ctx) error {
			cl.mu.Lock()
			n := len(cl.hits)
			cl.hits = append(cl.hits, vfHit{Node: idx, Hdr: vfB64(fc.Get(ForwardedByHeader))})
			cl.mu.Unlock()
			if n >= vfHopMax {
				cl.mu.Lock()
				cl.hits[n].Status, cl.hits[n].Class = 596, vfHopLimit
				cl.mu.Unlock()
				return fc.Status(596).SendString("VERIF-HOPLIMIT")
			}
			err := vfRecover(fc)
			st := fc.Response().StatusCode()
			cl.mu.Lock()
			cl.hits[n].Status = st
			cl.hits[n].Class = vfClassify(st, string(fc.Response().Body()))
			cl.mu.Unlock()
			return err
		})
		mp.RegisterRoutes(app)
		lp.RegisterRoutes(app)
		qh.RegisterRoutes(app)
		go app.Listener(cl.netw.listen(vfAddr(i))) //nolint:errcheck
		cl.apps, cl.mps, cl.lps, cl.qhs = append(cl.apps, app), append(cl.mps, mp), append(cl.lps, lp), append(cl.qhs, qh)
	}
	return cl
}

func (cl *vfCluster) close() {
	for _, a := range cl.apps {
		go a.Shutdown() //nolint:errcheck
	}
}

func (cl *vfCluster) run(t *testing.T, c *vfE2E) vfE2EObs {
	if len(c.Nodes) > vfMaxNodes {
		t.Fatalf("e2e case with %d nodes", len(c.Nodes))
	}
	addrID := map[string]string{}
	for i := range c.Nodes {
		nd := c.Nodes[i]
		id := vfUnB64(t, nd.ID)
		addrID[vfAddr(i)] = nd.ID
		var router *cluster.Router
		if nd.Router {
			var local *cluster.Node
			if nd.HasLocal {
				local = vfNode(id, nd.Role, nd.WS, "healthy", vfAddr(i))
			}
			reg := cluster.NewRegistry(&cluster.RegistryConfig{LocalNode: local, Logger: zerolog.Nop()})
			for vi, ve := range nd.View {
				a := fmt.Sprintf("nobody%d-%d.verif:80", i, vi)
				if ve.Node >= 0 && ve.Node < len(c.Nodes) {
					a = vfAddr(ve.Node)
				} else {
					addrID[a] = ve.ID
				}
				reg.Register(vfNode(vfUnB64(t, ve.ID), ve.Role, ve.WS, ve.State, a)) //nolint:errcheck
			}
			router = cluster.NewRouter(&cluster.RouterConfig{Timeout: 2 * time.Second, Retries: 1, Strategy: vfStrategy(nd.Strategy),
				Registry: reg, LocalNode: local, Logger: zerolog.Nop(), Transport: cl.netw.transport()})
		}
		cl.mps[i].SetRouter(router)
		cl.lps[i].SetRouter(router)
		cl.qhs[i].SetRouter(router)
	}
	cl.mu.Lock()
	cl.hits = nil
	cl.mu.Unlock()
	cl.netw.takeDials()
	path := "/api/v1/write/msgpack"
	if c.Kind == 1 {
		path = "/api/v1/query"
	}
	if c.Route != "" {
		path = c.Route
	}
	// the client talks to the entry node over the same in-memory network, raw bytes on the wire
	cl.netw.mu.Lock()
	ln := cl.netw.listeners[vfAddr(c.Entry)]
	cl.netw.mu.Unlock()
	conn, err := ln.Dial()
	if err != nil {
		t.Fatal(err)
	}
	hdr := ""
	if c.Header != nil {
		hdr = ForwardedByHeader + ":" + vfUnB64(t, *c.Header) + "\r\n"
	}
	conn.SetDeadline(time.Now().Add(20 * time.Second)) //nolint:errcheck
	fmt.Fprintf(conn, "POST %s HTTP/1.1\r\nHost: entry.verif\r\n%sContent-Length: 0\r\nConnection: close\r\n\r\n", path, hdr)
	o := vfE2EObs{Final: -1}
	if resp, err := http.ReadResponse(bufio.NewReader(conn), nil); err == nil {
		io.Copy(io.Discard, resp.Body) //nolint:errcheck
		resp.Body.Close()
		o.Final = resp.StatusCode
	}
	conn.Close()
	cl.mu.Lock()
	o.Hits = append(o.Hits, cl.hits...)
	cl.mu.Unlock()
	prev := ""
	for _, d := range cl.netw.takeDials() {
		if d == prev {
			continue
		}
		prev = d
		o.Dials = append(o.Dials, addrID[d])
	}
	if len(o.Hits) > 0 {
		o.Class = o.Hits[len(o.Hits)-1].Class
	} else {
		o.Class = -1
	}
	return o
}
