//go:build verif

// C01 correspondence harness: drives the REAL LineProtocolParser.ParseBatchWithPrecision and
// BatchToColumnar of package ingest on the request bodies in $VERIF_CASES and writes a
// canonical rendering of what they returned to $VERIF_OUT.  Nothing in the parser is
// rewritten: "server-assigned time" is recognised by parsing every body twice at two
// different instants, and the strconv.ParseFloat oracle table is computed on every
// substring of a line the parser could hand to ParseFloat.
package ingest

import (
	"bytes"
	"encoding/hex"
	"encoding/json"
	"math"
	"os"
	"sort"
	"strconv"
	"testing"
	"time"

	"github.com/basekick-labs/arc/pkg/models"
)

type verifLPCase struct {
	ID   int    `json:"id"`
	Data string `json:"data"` // hex
	Prec string `json:"prec"`
}

// a typed value: [type, payload]; types: b(ool) i(nt64) u(int64) f(loat bits) s(tring hex) now
type verifLPVal []string

type verifLPRecord struct {
	M      string      `json:"m"`
	Tags   [][2]string `json:"tags"`
	Fields [][]string  `json:"fields"` // [key, type, payload]
	TS     string      `json:"ts"`     // decimal or "now"
}

type verifLPColumn struct {
	Name  string     `json:"name"`
	Cells []verifLPVal `json:"cells"` // nil entry = Go nil
}

type verifLPColumnar struct {
	M       string          `json:"m"`
	Cols    []verifLPColumn `json:"cols"`
	TagCols []string        `json:"tagcols"`
	Flag    bool            `json:"columnar_flag"`
}

type verifLPOut struct {
	ID       int               `json:"id"`
	Records  []verifLPRecord   `json:"records"`
	Columnar []verifLPColumnar `json:"columnar"`
	Floats   [][2]string       `json:"floats"` // [raw hex, bits] for every candidate ParseFloat accepts
	Stable   bool              `json:"stable"` // both parses returned the same records (timestamps aside)
	Panic    string            `json:"panic,omitempty"`
}

func verifHex(s string) string { return hex.EncodeToString([]byte(s)) }

func verifVal(v interface{}) verifLPVal {
	switch x := v.(type) {
	case nil:
		return nil
	case bool:
		if x {
			return verifLPVal{"b", "t"}
		}
		return verifLPVal{"b", "f"}
	case int64:
		return verifLPVal{"i", strconv.FormatInt(x, 10)}
	case uint64:
		return verifLPVal{"u", strconv.FormatUint(x, 10)}
	case float64:
		return verifLPVal{"f", strconv.FormatUint(math.Float64bits(x), 10)}
	case string:
		return verifLPVal{"s", verifHex(x)}
	default:
		return verifLPVal{"?", ""}
	}
}

func verifNowMicro() int64 { return time.Now().UnixMicro() }

// verifTick waits until the microsecond clock has moved past t.
func verifTick(t int64) int64 {
	for i := 0; ; i++ {
		n := verifNowMicro()
		if n > t {
			return n
		}
		if i > 1000 {
			time.Sleep(50 * time.Microsecond)
		}
	}
}

func verifRender(recs []*models.Record, now []bool) []verifLPRecord {
	out := make([]verifLPRecord, 0, len(recs))
	for i, r := range recs {
		o := verifLPRecord{M: verifHex(r.Measurement), Tags: [][2]string{}, Fields: [][]string{}}
		keys := make([]string, 0, len(r.Tags))
		for k := range r.Tags {
			keys = append(keys, k)
		}
		sort.Strings(keys)
		for _, k := range keys {
			o.Tags = append(o.Tags, [2]string{verifHex(k), verifHex(r.Tags[k])})
		}
		keys = keys[:0]
		for k := range r.Fields {
			keys = append(keys, k)
		}
		sort.Strings(keys)
		for _, k := range keys {
			v := verifVal(r.Fields[k])
			if v == nil {
				v = verifLPVal{"nil", ""}
			}
			o.Fields = append(o.Fields, []string{verifHex(k), v[0], v[1]})
		}
		if now[i] {
			o.TS = "now"
		} else {
			o.TS = strconv.FormatInt(r.Timestamp, 10)
		}
		out = append(out, o)
	}
	return out
}

func verifFloatTable(data []byte) [][2]string {
	seen := map[string]bool{}
	out := [][2]string{}
	for _, line := range bytes.Split(data, []byte{'\n'}) {
		for i := 0; i < len(line); i++ {
			if line[i] != '=' {
				continue
			}
			for j := i + 1; j <= len(line); j++ {
				if j < len(line) && line[j] != ',' && line[j] != ' ' {
					continue
				}
				cand := string(bytes.TrimSpace(line[i+1 : j]))
				if cand == "" || seen[cand] {
					continue
				}
				seen[cand] = true
				if f, err := strconv.ParseFloat(cand, 64); err == nil {
					out = append(out, [2]string{verifHex(cand), strconv.FormatUint(math.Float64bits(f), 10)})
				}
			}
		}
	}
	return out
}

func verifLPOne(c verifLPCase) (o verifLPOut) {
	o.ID = c.ID
	defer func() {
		if r := recover(); r != nil {
			o.Panic = "panic"
		}
	}()
	data, err := hex.DecodeString(c.Data)
	if err != nil {
		o.Panic = "bad-hex"
		return
	}
	p := NewLineProtocolParser()
	d1 := append([]byte(nil), data...)
	a0 := verifTick(verifNowMicro())
	r1 := p.ParseBatchWithPrecision(d1, c.Prec)
	a1 := verifNowMicro()
	b0 := verifTick(a1)
	d2 := append([]byte(nil), data...)
	r2 := p.ParseBatchWithPrecision(d2, c.Prec)
	b1 := verifNowMicro()
	o.Stable = len(r1) == len(r2) && bytes.Equal(d1, data) && bytes.Equal(d2, data)
	now := make([]bool, len(r2))
	if o.Stable {
		for i := range r2 {
			t1, t2 := r1[i].Timestamp, r2[i].Timestamp
			now[i] = t1 >= a0 && t1 <= a1 && t2 >= b0 && t2 <= b1
		}
	}
	o.Records = verifRender(r2, now)
	if o.Stable {
		x, _ := json.Marshal(verifRender(r1, now))
		y, _ := json.Marshal(o.Records)
		if !bytes.Equal(x, y) {
			// timestamps of non-"now" records are rendered by value, so any difference shows here
			o.Stable = false
		}
	}
	o.Floats = verifFloatTable(data)

	// BatchToColumnar on the records of the second parse
	cols := BatchToColumnar(r2)
	perMeas := map[string][]int{}
	for i, r := range r2 {
		perMeas[r.Measurement] = append(perMeas[r.Measurement], i)
	}
	names := make([]string, 0, len(cols))
	for m := range cols {
		names = append(names, m)
	}
	sort.Strings(names)
	o.Columnar = []verifLPColumnar{}
	for _, m := range names {
		cr := cols[m]
		oc := verifLPColumnar{M: verifHex(m), Flag: cr.Columnar && cr.Measurement == m, Cols: []verifLPColumn{}, TagCols: []string{}}
		cn := make([]string, 0, len(cr.Columns))
		for k := range cr.Columns {
			cn = append(cn, k)
		}
		sort.Strings(cn)
		for _, k := range cn {
			col := verifLPColumn{Name: verifHex(k), Cells: []verifLPVal{}}
			for i, v := range cr.Columns[k] {
				cell := verifVal(v)
				if x, ok := v.(int64); ok && i < len(perMeas[m]) {
					ri := perMeas[m][i]
					if now[ri] && x == r2[ri].Timestamp {
						cell = verifLPVal{"now", ""}
					}
				}
				col.Cells = append(col.Cells, cell)
			}
			oc.Cols = append(oc.Cols, col)
		}
		tc := append([]string(nil), cr.TagColumns...)
		sort.Strings(tc)
		for _, k := range tc {
			oc.TagCols = append(oc.TagCols, verifHex(k))
		}
		o.Columnar = append(o.Columnar, oc)
	}
	return
}

func TestVerifLP(t *testing.T) {
	raw, err := os.ReadFile(os.Getenv("VERIF_CASES"))
	if err != nil {
		t.Fatal(err)
	}
	var cases []verifLPCase
	if err := json.Unmarshal(raw, &cases); err != nil {
		t.Fatal(err)
	}
	outs := make([]verifLPOut, 0, len(cases))
	for _, c := range cases {
		outs = append(outs, verifLPOne(c))
	}
	buf, err := json.Marshal(outs)
	if err != nil {
		t.Fatal(err)
	}
	if err := os.WriteFile(os.Getenv("VERIF_OUT"), buf, 0o644); err != nil {
		t.Fatal(err)
	}
}
