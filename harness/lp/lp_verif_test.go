//go:build verif

// C01 correspondence harness: drives the REAL LineProtocolParser.ParseBatchWithPrecision and
// BatchToColumnar of package ingest on the request bodies in $VERIF_CASES and writes a
// canonical rendering of what they returned to $VERIF_OUT.  Nothing in the parser is
// rewritten: "server-assigned time" is recognised by parsing every body twice at two
// different instants, and the strconv.ParseFloat oracle table is computed on every
// substring of a line the parser could hand to ParseFloat.
package ingest

import (
	"bytes"
	"context"
	"encoding/hex"
	"encoding/json"
	"fmt"
	"math"
	"os"
	"path/filepath"
	"regexp"
	"sort"
	"strconv"
	"strings"
	"testing"
	"time"

	"github.com/apache/arrow-go/v18/arrow"
	"github.com/apache/arrow-go/v18/arrow/array"
	"github.com/apache/arrow-go/v18/arrow/memory"
	"github.com/apache/arrow-go/v18/parquet"
	"github.com/apache/arrow-go/v18/parquet/pqarrow"
	"github.com/basekick-labs/arc/internal/config"
	"github.com/basekick-labs/arc/internal/storage"
	"github.com/basekick-labs/arc/pkg/models"
	"github.com/rs/zerolog"
)

type verifLPCase struct {
	ID   int    `json:"id"`
	Data string `json:"data"` // hex
	Prec string `json:"prec"`
	// Store: also push BatchToColumnar's output through a real ArrowBuffer
	// (WriteColumnarRecord, FlushAll) and read the Parquet files back.
	Store bool `json:"store,omitempty"`
}

// what one measurement of one body left in storage
type verifLPStored struct {
	M        string       `json:"m"`
	Accepted bool         `json:"accepted"` // WriteColumnarRecord returned nil
	Rows     [][][]string `json:"rows"`     // row = [[column hex, type, payload]...] sorted by column; types: null t(ime) now i f s b
}

// a typed value: [type, payload]; types: b(ool) i(nt64) u(int64) f(loat bits) s(tring hex) now
type verifLPVal []string

type verifLPRecord struct {
	M      string      `json:"m"`
	Tags   [][2]string `json:"tags"`
	Fields [][]string  `json:"fields"` // [key, type, payload]
	TS     string      `json:"ts"`     // decimal or "now"
}

type verifLPColumn struct {
	Name  string     `json:"name"`
	Cells []verifLPVal `json:"cells"` // nil entry = Go nil
}

type verifLPColumnar struct {
	M       string          `json:"m"`
	Cols    []verifLPColumn `json:"cols"`
	TagCols []string        `json:"tagcols"`
	Flag    bool            `json:"columnar_flag"`
}

type verifLPOut struct {
	ID       int               `json:"id"`
	Records  []verifLPRecord   `json:"records"`
	Columnar []verifLPColumnar `json:"columnar"`
	Floats   [][2]string       `json:"floats"` // [raw hex, bits] for every candidate ParseFloat accepts
	Stable   bool              `json:"stable"` // both parses returned the same records (timestamps aside)
	Panic    string            `json:"panic,omitempty"`
	Stored   []verifLPStored   `json:"stored,omitempty"`
	StoreSkip string           `json:"store_skip,omitempty"` // why the storage stage was not run
}

func verifHex(s string) string { return hex.EncodeToString([]byte(s)) }

func verifVal(v interface{}) verifLPVal {
	switch x := v.(type) {
	case nil:
		return nil
	case bool:
		if x {
			return verifLPVal{"b", "t"}
		}
		return verifLPVal{"b", "f"}
	case int64:
		return verifLPVal{"i", strconv.FormatInt(x, 10)}
	case uint64:
		return verifLPVal{"u", strconv.FormatUint(x, 10)}
	case float64:
		return verifLPVal{"f", strconv.FormatUint(math.Float64bits(x), 10)}
	case string:
		return verifLPVal{"s", verifHex(x)}
	default:
		return verifLPVal{"?", ""}
	}
}

func verifNowMicro() int64 { return time.Now().UnixMicro() }

// verifTick waits until the microsecond clock has moved past t.
func verifTick(t int64) int64 {
	for i := 0; ; i++ {
		n := verifNowMicro()
		if n > t {
			return n
		}
		if i > 1000 {
			time.Sleep(50 * time.Microsecond)
		}
	}
}

func verifRender(recs []*models.Record, now []bool) []verifLPRecord {
	out := make([]verifLPRecord, 0, len(recs))
	for i, r := range recs {
		o := verifLPRecord{M: verifHex(r.Measurement), Tags: [][2]string{}, Fields: [][]string{}}
		keys := make([]string, 0, len(r.Tags))
		for k := range r.Tags {
			keys = append(keys, k)
		}
		sort.Strings(keys)
		for _, k := range keys {
			o.Tags = append(o.Tags, [2]string{verifHex(k), verifHex(r.Tags[k])})
		}
		keys = keys[:0]
		for k := range r.Fields {
			keys = append(keys, k)
		}
		sort.Strings(keys)
		for _, k := range keys {
			v := verifVal(r.Fields[k])
			if v == nil {
				v = verifLPVal{"nil", ""}
			}
			o.Fields = append(o.Fields, []string{verifHex(k), v[0], v[1]})
		}
		if now[i] {
			o.TS = "now"
		} else {
			o.TS = strconv.FormatInt(r.Timestamp, 10)
		}
		out = append(out, o)
	}
	return out
}

func verifFloatTable(data []byte) [][2]string {
	seen := map[string]bool{}
	out := [][2]string{}
	for _, line := range bytes.Split(data, []byte{'\n'}) {
		for i := 0; i < len(line); i++ {
			if line[i] != '=' {
				continue
			}
			for j := i + 1; j <= len(line); j++ {
				if j < len(line) && line[j] != ',' && line[j] != ' ' {
					continue
				}
				cand := string(bytes.TrimSpace(line[i+1 : j]))
				if cand == "" || seen[cand] {
					continue
				}
				seen[cand] = true
				if f, err := strconv.ParseFloat(cand, 64); err == nil {
					out = append(out, [2]string{verifHex(cand), strconv.FormatUint(math.Float64bits(f), 10)})
				}
			}
		}
	}
	return out
}

func verifLPOne(c verifLPCase) (o verifLPOut) {
	o.ID = c.ID
	defer func() {
		if r := recover(); r != nil {
			o.Panic = "panic"
		}
	}()
	data, err := hex.DecodeString(c.Data)
	if err != nil {
		o.Panic = "bad-hex"
		return
	}
	p := NewLineProtocolParser()
	d1 := append([]byte(nil), data...)
	a0 := verifTick(verifNowMicro())
	r1 := p.ParseBatchWithPrecision(d1, c.Prec)
	a1 := verifNowMicro()
	b0 := verifTick(a1)
	d2 := append([]byte(nil), data...)
	r2 := p.ParseBatchWithPrecision(d2, c.Prec)
	b1 := verifNowMicro()
	o.Stable = len(r1) == len(r2) && bytes.Equal(d1, data) && bytes.Equal(d2, data)
	now := make([]bool, len(r2))
	if o.Stable {
		for i := range r2 {
			t1, t2 := r1[i].Timestamp, r2[i].Timestamp
			now[i] = t1 >= a0 && t1 <= a1 && t2 >= b0 && t2 <= b1
		}
	}
	o.Records = verifRender(r2, now)
	if o.Stable {
		x, _ := json.Marshal(verifRender(r1, now))
		y, _ := json.Marshal(o.Records)
		if !bytes.Equal(x, y) {
			// timestamps of non-"now" records are rendered by value, so any difference shows here
			o.Stable = false
		}
	}
	o.Floats = verifFloatTable(data)

	// BatchToColumnar on the records of the second parse
	cols := BatchToColumnar(r2)
	perMeas := map[string][]int{}
	for i, r := range r2 {
		perMeas[r.Measurement] = append(perMeas[r.Measurement], i)
	}
	names := make([]string, 0, len(cols))
	for m := range cols {
		names = append(names, m)
	}
	sort.Strings(names)
	o.Columnar = []verifLPColumnar{}
	for _, m := range names {
		cr := cols[m]
		oc := verifLPColumnar{M: verifHex(m), Flag: cr.Columnar && cr.Measurement == m, Cols: []verifLPColumn{}, TagCols: []string{}}
		cn := make([]string, 0, len(cr.Columns))
		for k := range cr.Columns {
			cn = append(cn, k)
		}
		sort.Strings(cn)
		for _, k := range cn {
			col := verifLPColumn{Name: verifHex(k), Cells: []verifLPVal{}}
			for i, v := range cr.Columns[k] {
				cell := verifVal(v)
				if x, ok := v.(int64); ok && i < len(perMeas[m]) {
					ri := perMeas[m][i]
					if now[ri] && x == r2[ri].Timestamp {
						cell = verifLPVal{"now", ""}
					}
				}
				col.Cells = append(col.Cells, cell)
			}
			oc.Cols = append(oc.Cols, col)
		}
		tc := append([]string(nil), cr.TagColumns...)
		sort.Strings(tc)
		for _, k := range tc {
			oc.TagCols = append(oc.TagCols, verifHex(k))
		}
		o.Columnar = append(o.Columnar, oc)
	}
	if c.Store {
		verifLPStore(c.ID, r2, now, cols, names, &o)
	}
	return
}

// ---------------------------------------------------------------------------------------
// second observable: what is in the Parquet files after WriteColumnarRecord + FlushAll
// ---------------------------------------------------------------------------------------

var (
	verifLPBuf     *ArrowBuffer
	verifLPRoot    string
	verifLPNameOK  = regexp.MustCompile(`^[a-zA-Z][a-zA-Z0-9_-]*$`) // api.isValidMeasurementName: handleWrite buffers nothing otherwise
)

func verifLPStore(id int, recs []*models.Record, now []bool, cols map[string]*models.ColumnarRecord, names []string, o *verifLPOut) {
	if verifLPBuf == nil {
		o.StoreSkip = "no-buffer"
		return
	}
	if len(names) == 0 {
		o.StoreSkip = "no-records"
		return
	}
	for _, m := range names {
		if len(m) > 128 || !verifLPNameOK.MatchString(m) {
			o.StoreSkip = "measurement-name-rejected-by-handler"
			return
		}
	}
	db := fmt.Sprintf("verifdb%d", id)
	nowTS := map[string]map[int64]bool{}
	for i, r := range recs {
		if now[i] {
			if nowTS[r.Measurement] == nil {
				nowTS[r.Measurement] = map[int64]bool{}
			}
			nowTS[r.Measurement][r.Timestamp] = true
		}
	}
	ctx := context.Background()
	acc := map[string]bool{}
	for _, m := range names {
		acc[m] = verifLPBuf.WriteColumnarRecord(ctx, db, cols[m]) == nil
	}
	if err := verifLPBuf.FlushAll(ctx); err != nil {
		o.StoreSkip = "flush-error: " + err.Error()
		return
	}
	rows := map[string][][][]string{}
	werr := filepath.Walk(filepath.Join(verifLPRoot, db), func(p string, info os.FileInfo, err error) error {
		if err != nil {
			if os.IsNotExist(err) {
				return nil
			}
			return err
		}
		if info.IsDir() || !strings.HasSuffix(p, ".parquet") {
			return nil
		}
		rel, _ := filepath.Rel(filepath.Join(verifLPRoot, db), p)
		m := strings.Split(filepath.ToSlash(rel), "/")[0]
		data, err := os.ReadFile(p)
		if err != nil {
			return err
		}
		rs, err := verifLPDecode(data, nowTS[m])
		if err != nil {
			return fmt.Errorf("%s: %w", rel, err)
		}
		rows[m] = append(rows[m], rs...)
		return nil
	})
	if werr != nil {
		o.StoreSkip = "readback-error: " + werr.Error()
		return
	}
	o.Stored = []verifLPStored{}
	for _, m := range names {
		rs := rows[m]
		if rs == nil {
			rs = [][][]string{}
		}
		sort.Slice(rs, func(i, j int) bool {
			a, _ := json.Marshal(rs[i])
			b, _ := json.Marshal(rs[j])
			return string(a) < string(b)
		})
		o.Stored = append(o.Stored, verifLPStored{M: verifHex(m), Accepted: acc[m], Rows: rs})
		delete(rows, m)
	}
	for m := range rows { // a file under a measurement that was never written
		o.Stored = append(o.Stored, verifLPStored{M: verifHex(m), Accepted: false, Rows: rows[m]})
	}
}

// verifLPDecode reads one Parquet file with the Arrow reader (independent of the writer code).
func verifLPDecode(data []byte, nowTS map[int64]bool) ([][][]string, error) {
	tbl, err := pqarrow.ReadTable(context.Background(), bytes.NewReader(data), parquet.NewReaderProperties(memory.DefaultAllocator),
		pqarrow.ArrowReadProperties{}, memory.DefaultAllocator)
	if err != nil {
		return nil, err
	}
	defer tbl.Release()
	n := int(tbl.NumRows())
	rows := make([][][]string, n)
	type kc struct {
		name  string
		cells [][]string
	}
	var all []kc
	for ci := 0; ci < int(tbl.NumCols()); ci++ {
		col := tbl.Column(ci)
		k := kc{name: col.Name()}
		for _, chunk := range col.Data().Chunks() {
			for i := 0; i < chunk.Len(); i++ {
				if chunk.IsNull(i) {
					k.cells = append(k.cells, []string{"null", ""})
					continue
				}
				switch a := chunk.(type) {
				case *array.Timestamp:
					if tt, ok := a.DataType().(*arrow.TimestampType); !ok || tt.Unit != arrow.Microsecond {
						return nil, fmt.Errorf("column %s: timestamp unit is not microseconds", col.Name())
					}
					v := int64(a.Value(i))
					if nowTS[v] {
						k.cells = append(k.cells, []string{"now", ""})
					} else {
						k.cells = append(k.cells, []string{"t", strconv.FormatInt(v, 10)})
					}
				case *array.Int64:
					k.cells = append(k.cells, []string{"i", strconv.FormatInt(a.Value(i), 10)})
				case *array.Float64:
					k.cells = append(k.cells, []string{"f", strconv.FormatUint(math.Float64bits(a.Value(i)), 10)})
				case *array.String:
					k.cells = append(k.cells, []string{"s", verifHex(a.Value(i))})
				case *array.Boolean:
					if a.Value(i) {
						k.cells = append(k.cells, []string{"b", "t"})
					} else {
						k.cells = append(k.cells, []string{"b", "f"})
					}
				default:
					return nil, fmt.Errorf("column %s: arrow type %s not expected from line protocol", col.Name(), chunk.DataType())
				}
			}
		}
		if len(k.cells) != n {
			return nil, fmt.Errorf("column %s: %d cells for %d rows", col.Name(), len(k.cells), n)
		}
		all = append(all, k)
	}
	sort.Slice(all, func(i, j int) bool { return all[i].name < all[j].name })
	for i := 0; i < n; i++ {
		for _, k := range all {
			rows[i] = append(rows[i], []string{verifHex(k.name), k.cells[i][0], k.cells[i][1]})
		}
	}
	return rows, nil
}

func TestVerifLP(t *testing.T) {
	raw, err := os.ReadFile(os.Getenv("VERIF_CASES"))
	if err != nil {
		t.Fatal(err)
	}
	var cases []verifLPCase
	if err := json.Unmarshal(raw, &cases); err != nil {
		t.Fatal(err)
	}
	for _, c := range cases {
		if c.Store {
			verifLPRoot = t.TempDir()
			st, err := storage.NewLocalBackend(verifLPRoot, zerolog.Nop())
			if err != nil {
				t.Fatal(err)
			}
			defer st.Close()
			verifLPBuf = NewArrowBuffer(&config.IngestConfig{MaxBufferSize: 1000000, MaxBufferAgeMS: 3600000, FlushWorkers: 2,
				FlushQueueSize: 16, ShardCount: 4, Compression: "snappy", FlushTimeoutSeconds: 120}, st, zerolog.Nop())
			defer verifLPBuf.Close()
			break
		}
	}
	outs := make([]verifLPOut, 0, len(cases))
	for _, c := range cases {
		outs = append(outs, verifLPOne(c))
	}
	buf, err := json.Marshal(outs)
	if err != nil {
		t.Fatal(err)
	}
	if err := os.WriteFile(os.Getenv("VERIF_OUT"), buf, 0o644); err != nil {
		t.Fatal(err)
	}
}
