//go:build verif

// C31 correspondence harness.  Runs the REAL in-package import functions
//
//	(*ImportHandler).importCSV / importParquet -> ArrowBuffer.WriteTypedColumnarDirect -> FlushAll
//
// with a real ArrowBuffer on a temporary local backend, then reads the stored Parquet files
// back.  Next to the observation it returns what the model needs as ORACLES, all computed here
// independently of the code under test: the records encoding/csv produces for the upload (same
// reader settings), strconv.ParseFloat bits, int64->float64 bits, the float epoch path and the
// textual timestamp parse of every distinct cell.
package api

import (
	"bytes"
	"context"
	"encoding/base64"
	"encoding/csv"
	"encoding/json"
	"fmt"
	"io"
	"io/fs"
	"math"
	"mime/multipart"
	"net/url"
	"os"
	"path/filepath"
	"strconv"
	"strings"
	"sync"
	"sync/atomic"
	"testing"
	"time"
	"unicode/utf8"

	"github.com/apache/arrow-go/v18/arrow"
	"github.com/apache/arrow-go/v18/arrow/array"
	"github.com/apache/arrow-go/v18/arrow/decimal128"
	"github.com/apache/arrow-go/v18/arrow/memory"
	"github.com/apache/arrow-go/v18/parquet"
	"github.com/apache/arrow-go/v18/parquet/file"
	"github.com/apache/arrow-go/v18/parquet/pqarrow"
	"github.com/basekick-labs/arc/internal/config"
	"github.com/basekick-labs/arc/internal/ingest"
	"github.com/basekick-labs/arc/internal/storage"
	"github.com/gofiber/fiber/v2"
	"github.com/rs/zerolog"
	"github.com/valyala/fasthttp"
)

type verifImpCase struct {
	ID         int    `json:"id"`
	Kind       string `json:"kind"` // csv | parquet
	Data       string `json:"data"` // base64 of the uploaded CSV
	TimeColumn string `json:"time_column"`
	TimeFormat string `json:"time_format"`
	Delimiter  string `json:"delimiter"`
	SkipRows   int    `json:"skip_rows"`
	// "" = importCSV / importParquet called in-package; "handler" = the real HTTP handler on a
	// reused fasthttp.RequestCtx whose buffers are overwritten by a following request while the
	// import's flush is still queued (value semantics of the strings the buffer keeps)
	Via string `json:"via"`
	// parquet: column descriptions from which the harness builds the file
	PQ []verifPQCol `json:"pq"`
}

// one column of a generated Parquet file: type name and per-row values (decimal strings for
// integers, bit patterns for floats, base64 for strings), null = JSON null
type verifPQCol struct {
	Name   string    `json:"name"` // base64
	Type   string    `json:"type"` // int8..int64, uint8..uint64, float32, float64, bool, string, binary, ts_s, ts_ms, ts_us, ts_ns, decimal
	Values []*string `json:"values"`
}

type verifImpCell struct {
	T string `json:"t"` // i f b s n(ull)
	V string `json:"v"` // decimal / bits / 0|1 / base64
}

type verifImpRow struct {
	Time  string                  `json:"time"`
	Cells map[string]verifImpCell `json:"cells"` // by base64(column name)
}

type verifImpAnnot struct {
	PF   *string `json:"pf"`   // bits of ParseFloat
	FL   *string `json:"fl"`   // micros by the float epoch path of this request
	Text *string `json:"text"` // micros by the textual layouts
	I2F  *string `json:"i2f"`  // bits of float64(ParseInt)
	Int  *string `json:"int"`  // ParseInt value
}

type verifImpObs struct {
	ID         int                      `json:"id"`
	Status     int                      `json:"status"` // 200 or the importError status
	Class      int                      `json:"class"`  // 0 ok, 1.. reject classes (see Model.v), 99 other
	Msg        string                   `json:"msg"`
	RowsRep    int64                    `json:"rows_reported"`
	Records    [][]string               `json:"records"` // base64 cells
	CsvErr     bool                     `json:"csv_err"`
	DelimRunes int                      `json:"delim_runes"`
	Table      map[string]verifImpAnnot `json:"table"`     // by base64(cell text)
	FloatTab   map[string]*string       `json:"float_tab"` // parquet float time values: float64 bits -> micros (null: NaN/Inf)
	Stored     []verifImpRow            `json:"stored"`
	Files      int                      `json:"files"`
	// handler mode: rows found in the measurement of the FOLLOWING request beyond its own single row
	Foreign int    `json:"foreign"`
	Panic   string `json:"panic,omitempty"`
}

func verifB64(s string) string { return base64.StdEncoding.EncodeToString([]byte(s)) }

func verifStrp(s string) *string { return &s }

// ASCII-only TrimSpace (the model's domain)
func verifTrimASCII(s string) string {
	return strings.Trim(s, " \t\n\v\f\r")
}

var verifLayouts = []string{time.RFC3339Nano, time.RFC3339, "2006-01-02 15:04:05.999999999", "2006-01-02 15:04:05", "2006-01-02T15:04:05", "2006-01-02"}

func verifFloatEpoch(f float64, format string) int64 {
	switch format {
	case "epoch_s":
		return int64(f * 1e6)
	case "epoch_ms":
		return int64(f * 1e3)
	case "epoch_us":
		return int64(f)
	case "epoch_ns":
		return int64(f / 1e3)
	}
	a := math.Abs(f)
	switch {
	case a < 1e10:
		return int64(f * 1e6)
	case a < 1e13:
		return int64(f * 1e3)
	case a < 1e16:
		return int64(f)
	}
	return int64(f / 1e3)
}

// floatTimeToMicros, re-implemented: "" = magnitude detection, a unit = that unit, anything
// else = the value taken as microseconds
func verifFloatEpochPQ(f float64, format string) int64 {
	switch format {
	case "", "epoch_s", "epoch_ms", "epoch_us", "epoch_ns":
		return verifFloatEpoch(f, format)
	}
	return int64(f)
}

func verifAnnotate(tab map[string]verifImpAnnot, s, format string) {
	k := verifB64(s)
	if _, ok := tab[k]; ok {
		return
	}
	var a verifImpAnnot
	if f, err := strconv.ParseFloat(s, 64); err == nil {
		a.PF = verifStrp(strconv.FormatUint(math.Float64bits(f), 10))
		if !math.IsNaN(f) && !math.IsInf(f, 0) {
			a.FL = verifStrp(strconv.FormatInt(verifFloatEpoch(f, format), 10))
		}
	}
	if n, err := strconv.ParseInt(s, 10, 64); err == nil {
		a.Int = verifStrp(strconv.FormatInt(n, 10))
		a.I2F = verifStrp(strconv.FormatUint(math.Float64bits(float64(n)), 10))
	}
	for _, l := range verifLayouts {
		if t, err := time.Parse(l, s); err == nil {
			a.Text = verifStrp(strconv.FormatInt(t.UTC().UnixMicro(), 10))
			break
		}
	}
	tab[k] = a
}

func verifImpClass(msg string) int {
	switch {
	case strings.HasPrefix(msg, "delimiter must be"):
		return 1
	case strings.HasPrefix(msg, "file is empty"):
		return 2
	case strings.HasPrefix(msg, "failed to skip rows"), strings.HasPrefix(msg, "failed to read CSV header"), strings.HasPrefix(msg, "failed to parse CSV at row"):
		return 3
	case strings.HasPrefix(msg, "column name cannot be empty"):
		return 4
	case strings.HasPrefix(msg, "column name ") && strings.Contains(msg, "is not importable"):
		return 14
	case strings.HasPrefix(msg, "duplicate column name"):
		return 5
	case strings.HasPrefix(msg, "time column"):
		return 6
	case strings.HasPrefix(msg, "cannot rename time column"):
		return 7
	case strings.HasPrefix(msg, "file contains no rows"):
		return 8
	case strings.HasPrefix(msg, "failed to parse time column"):
		return 9
	case strings.HasPrefix(msg, "unsupported parquet column"):
		return 12
	case strings.HasPrefix(msg, "failed to read parquet"), strings.HasPrefix(msg, "failed to open parquet"):
		return 13
	}
	return 99
}

// read every stored Parquet file of one measurement back
func verifReadStored(t *testing.T, dir string) ([]verifImpRow, int) {
	rows := []verifImpRow{}
	files := 0
	if _, err := os.Stat(dir); err != nil {
		return rows, 0
	}
	_ = filepath.WalkDir(dir, func(p string, d fs.DirEntry, err error) error {
		if err != nil || d.IsDir() {
			return nil
		}
		files++
		if !strings.HasSuffix(p, ".parquet") {
			return nil
		}
		raw, err := os.ReadFile(p)
		if err != nil {
			t.Fatalf("read %s: %v", p, err)
		}
		pf, err := file.NewParquetReader(bytes.NewReader(raw))
		if err != nil {
			t.Fatalf("parquet %s: %v", p, err)
		}
		defer pf.Close()
		rd, err := pqarrow.NewFileReader(pf, pqarrow.ArrowReadProperties{}, memory.DefaultAllocator)
		if err != nil {
			t.Fatalf("pqarrow %s: %v", p, err)
		}
		tbl, err := rd.ReadTable(context.Background())
		if err != nil {
			t.Fatalf("table %s: %v", p, err)
		}
		defer tbl.Release()
		n := int(tbl.NumRows())
		out := make([]verifImpRow, n)
		for i := range out {
			out[i].Cells = map[string]verifImpCell{}
		}
		for ci := 0; ci < int(tbl.NumCols()); ci++ {
			name := tbl.Schema().Field(ci).Name
			idx := 0
			for _, ch := range tbl.Column(ci).Data().Chunks() {
				for i := 0; i < ch.Len(); i++ {
					var cell verifImpCell
					switch a := ch.(type) {
					case *array.Timestamp:
						unit := a.DataType().(*arrow.TimestampType).Unit
						if unit != arrow.Microsecond {
							t.Fatalf("stored timestamp unit %v", unit)
						}
						cell = verifImpCell{T: "i", V: strconv.FormatInt(int64(a.Value(i)), 10)}
					case *array.Int64:
						cell = verifImpCell{T: "i", V: strconv.FormatInt(a.Value(i), 10)}
					case *array.Float64:
						cell = verifImpCell{T: "f", V: strconv.FormatUint(math.Float64bits(a.Value(i)), 10)}
					case *array.Boolean:
						v := "0"
						if a.Value(i) {
							v = "1"
						}
						cell = verifImpCell{T: "b", V: v}
					case *array.String:
						cell = verifImpCell{T: "s", V: verifB64(a.Value(i))}
					case *array.Binary:
						cell = verifImpCell{T: "s", V: verifB64(string(a.Value(i)))}
					default:
						cell = verifImpCell{T: "?", V: ch.DataType().String()}
					}
					if ch.IsNull(i) {
						cell = verifImpCell{T: "n"}
					}
					if name == "time" {
						out[idx].Time = cell.V
						if cell.T != "i" {
							out[idx].Time = "bad:" + cell.T
						}
					} else {
						out[idx].Cells[verifB64(name)] = cell
					}
					idx++
				}
			}
		}
		rows = append(rows, out...)
		return nil
	})
	return rows, files
}

func verifBuildParquet(t *testing.T, cols []verifPQCol) []byte {
	mem := memory.DefaultAllocator
	fields := []arrow.Field{}
	arrs := []arrow.Array{}
	for _, c := range cols {
		nameB, _ := base64.StdEncoding.DecodeString(c.Name)
		var dt arrow.DataType
		var bld array.Builder
		switch c.Type {
		case "int8":
			dt = arrow.PrimitiveTypes.Int8
		case "int16":
			dt = arrow.PrimitiveTypes.Int16
		case "int32":
			dt = arrow.PrimitiveTypes.Int32
		case "int64":
			dt = arrow.PrimitiveTypes.Int64
		case "uint8":
			dt = arrow.PrimitiveTypes.Uint8
		case "uint16":
			dt = arrow.PrimitiveTypes.Uint16
		case "uint32":
			dt = arrow.PrimitiveTypes.Uint32
		case "uint64":
			dt = arrow.PrimitiveTypes.Uint64
		case "float32":
			dt = arrow.PrimitiveTypes.Float32
		case "float64":
			dt = arrow.PrimitiveTypes.Float64
		case "bool":
			dt = arrow.FixedWidthTypes.Boolean
		case "string":
			dt = arrow.BinaryTypes.String
		case "binary":
			dt = arrow.BinaryTypes.Binary
		case "ts_s":
			dt = &arrow.TimestampType{Unit: arrow.Second, TimeZone: "UTC"}
		case "ts_ms":
			dt = &arrow.TimestampType{Unit: arrow.Millisecond, TimeZone: "UTC"}
		case "ts_us":
			dt = &arrow.TimestampType{Unit: arrow.Microsecond, TimeZone: "UTC"}
		case "ts_ns":
			dt = &arrow.TimestampType{Unit: arrow.Nanosecond, TimeZone: "UTC"}
		case "decimal":
			dt = &arrow.Decimal128Type{Precision: 20, Scale: 2}
		case "date32":
			dt = arrow.FixedWidthTypes.Date32
		default:
			t.Fatalf("pq type %q", c.Type)
		}
		bld = array.NewBuilder(mem, dt)
		for _, v := range c.Values {
			if v == nil {
				bld.AppendNull()
				continue
			}
			switch b := bld.(type) {
			case *array.Int8Builder:
				n, _ := strconv.ParseInt(*v, 10, 64)
				b.Append(int8(n))
			case *array.Int16Builder:
				n, _ := strconv.ParseInt(*v, 10, 64)
				b.Append(int16(n))
			case *array.Int32Builder:
				n, _ := strconv.ParseInt(*v, 10, 64)
				b.Append(int32(n))
			case *array.Int64Builder:
				n, _ := strconv.ParseInt(*v, 10, 64)
				b.Append(n)
			case *array.Uint8Builder:
				n, _ := strconv.ParseUint(*v, 10, 64)
				b.Append(uint8(n))
			case *array.Uint16Builder:
				n, _ := strconv.ParseUint(*v, 10, 64)
				b.Append(uint16(n))
			case *array.Uint32Builder:
				n, _ := strconv.ParseUint(*v, 10, 64)
				b.Append(uint32(n))
			case *array.Uint64Builder:
				n, _ := strconv.ParseUint(*v, 10, 64)
				b.Append(n)
			case *array.Float32Builder:
				n, _ := strconv.ParseUint(*v, 10, 64)
				b.Append(math.Float32frombits(uint32(n)))
			case *array.Float64Builder:
				n, _ := strconv.ParseUint(*v, 10, 64)
				b.Append(math.Float64frombits(n))
			case *array.BooleanBuilder:
				b.Append(*v == "1")
			case *array.StringBuilder:
				s, _ := base64.StdEncoding.DecodeString(*v)
				b.Append(string(s))
			case *array.BinaryBuilder:
				s, _ := base64.StdEncoding.DecodeString(*v)
				b.Append(s)
			case *array.TimestampBuilder:
				n, _ := strconv.ParseInt(*v, 10, 64)
				b.Append(arrow.Timestamp(n))
			case *array.Decimal128Builder:
				n, _ := strconv.ParseInt(*v, 10, 64)
				b.Append(decimal128.FromI64(n))
			case *array.Date32Builder:
				n, _ := strconv.ParseInt(*v, 10, 64)
				b.Append(arrow.Date32(n))
			default:
				t.Fatalf("builder %T", bld)
			}
		}
		arr := bld.NewArray()
		fields = append(fields, arrow.Field{Name: string(nameB), Type: dt, Nullable: true})
		arrs = append(arrs, arr)
	}
	schema := arrow.NewSchema(fields, nil)
	colsA := make([]arrow.Column, len(arrs))
	for i, a := range arrs {
		colsA[i] = *arrow.NewColumn(fields[i], arrow.NewChunked(fields[i].Type, []arrow.Array{a}))
	}
	tbl := array.NewTable(schema, colsA, -1)
	defer tbl.Release()
	var buf bytes.Buffer
	if err := pqarrow.WriteTable(tbl, &buf, 1<<20, parquet.NewWriterProperties(), pqarrow.NewArrowWriterProperties(pqarrow.WithStoreSchema())); err != nil {
		t.Fatalf("write parquet: %v", err)
	}
	return buf.Bytes()
}

// verifGateBackend is a real local backend whose writes can be held: while armed, every Write
// waits for the gate, so flush tasks pile up in the ArrowBuffer's queue behind a busy worker.
type verifGateBackend struct {
	*storage.LocalBackend
	mu       sync.Mutex
	gate     chan struct{}
	entered  chan struct{}
	once     *sync.Once
	inflight atomic.Int32
}

func (g *verifGateBackend) arm() {
	g.mu.Lock()
	g.gate, g.entered, g.once = make(chan struct{}), make(chan struct{}), &sync.Once{}
	g.mu.Unlock()
}

func (g *verifGateBackend) open() {
	g.mu.Lock()
	if g.gate != nil {
		close(g.gate)
		g.gate = nil
	}
	g.mu.Unlock()
}

func (g *verifGateBackend) Write(ctx context.Context, path string, data []byte) error {
	g.inflight.Add(1)
	defer g.inflight.Add(-1)
	g.mu.Lock()
	gate, entered, once := g.gate, g.entered, g.once
	g.mu.Unlock()
	if gate != nil {
		once.Do(func() { close(entered) })
		<-gate
	}
	return g.LocalBackend.Write(ctx, path, data)
}

// verifServeImport serves one import on fctx the way the fasthttp server serves one request of a
// keep-alive connection: the RequestCtx (and its URI / header / argument buffers) is reset and
// reused, not reallocated.  Returns status and the "error" text of the JSON body.
func verifServeImport(t *testing.T, app *fiber.App, h *ImportHandler, fctx *fasthttp.RequestCtx, kind, db, measurement string, c *verifImpCase, data []byte) (int, string, int64) {
	var body bytes.Buffer
	mw := multipart.NewWriter(&body)
	fw, err := mw.CreateFormFile("file", "upload.dat")
	if err != nil {
		t.Fatal(err)
	}
	_, _ = fw.Write(data)
	_ = mw.Close()
	q := url.Values{}
	q.Set("db", db)
	q.Set("measurement", measurement)
	if c != nil {
		q.Set("time_column", c.TimeColumn)
		q.Set("time_format", c.TimeFormat)
		if kind == "csv" {
			q.Set("delimiter", c.Delimiter)
			q.Set("skip_rows", strconv.Itoa(c.SkipRows))
		}
	}
	fctx.Request.Reset()
	fctx.Response.Reset()
	fctx.Request.Header.SetMethod(fiber.MethodPost)
	fctx.Request.SetRequestURI("/api/v1/import/" + kind + "?" + q.Encode())
	fctx.Request.Header.SetContentType(mw.FormDataContentType())
	fctx.Request.SetBody(body.Bytes())
	fc := app.AcquireCtx(fctx)
	var herr error
	if kind == "parquet" {
		herr = h.handleParquetImport(fc)
	} else {
		herr = h.handleCSVImport(fc)
	}
	status := fc.Response().StatusCode()
	var parsed struct {
		Error  string `json:"error"`
		Result struct {
			Rows int64 `json:"rows_imported"`
		} `json:"result"`
	}
	_ = json.Unmarshal(fc.Response().Body(), &parsed)
	app.ReleaseCtx(fc)
	if herr != nil {
		t.Fatalf("import handler returned %v", herr)
	}
	return status, parsed.Error, parsed.Result.Rows
}

func TestVerifImport(t *testing.T) {
	raw, err := os.ReadFile(os.Getenv("VERIF_CASES"))
	if err != nil {
		t.Fatal(err)
	}
	var cases []verifImpCase
	if err := json.Unmarshal(raw, &cases); err != nil {
		t.Fatal(err)
	}
	root := t.TempDir()
	logger := zerolog.Nop()
	backend, err := storage.NewLocalBackend(root, logger)
	if err != nil {
		t.Fatal(err)
	}
	buf := ingest.NewArrowBuffer(&config.IngestConfig{MaxBufferSize: 10000000, MaxBufferAgeMS: 36000000, Compression: "snappy",
		FlushWorkers: 4, FlushQueueSize: 64, ShardCount: 4}, backend, logger)
	defer buf.Close()
	h := NewImportHandler(logger)
	h.SetArrowBuffer(buf)

	// handler mode: every import is handed to the single flush worker (max_buffer_size = 1), which
	// is held inside the gated backend while the connection serves the next request
	root2 := t.TempDir()
	local2, err := storage.NewLocalBackend(root2, logger)
	if err != nil {
		t.Fatal(err)
	}
	gated := &verifGateBackend{LocalBackend: local2}
	buf2 := ingest.NewArrowBuffer(&config.IngestConfig{MaxBufferSize: 1, MaxBufferAgeMS: 36000000, Compression: "snappy",
		FlushWorkers: 1, FlushQueueSize: 4096, ShardCount: 2}, gated, logger)
	defer buf2.Close()
	h2 := NewImportHandler(logger)
	h2.SetArrowBuffer(buf2)
	app2 := fiber.New(fiber.Config{DisableStartupMessage: true, BodyLimit: 64 << 20})
	fctxBlock := &fasthttp.RequestCtx{}
	fctxBlock.Init(&fasthttp.Request{}, nil, nil)
	fctxConn := &fasthttp.RequestCtx{} // ONE keep-alive connection for all handler-mode cases
	fctxConn.Init(&fasthttp.Request{}, nil, nil)
	oneRow := []byte("time,v\n1700000000,1\n")
	// every row handed to the buffer has been written by a flush (queue empty, no write in flight)
	drained := func() bool {
		st := buf2.GetStats()
		return st["flush_queue_depth"].(int64) == 0 && gated.inflight.Load() == 0 &&
			st["total_records_written"].(int64) == st["total_records_buffered"].(int64)
	}
	drain := func() {
		deadline := time.Now().Add(60 * time.Second)
		for time.Now().Before(deadline) {
			if drained() {
				time.Sleep(2 * time.Millisecond)
				if drained() {
					return
				}
			}
			time.Sleep(time.Millisecond)
		}
		t.Fatalf("flush queue did not drain: %v", buf2.GetStats())
	}

	res := make([]verifImpObs, 0, len(cases))
	for i, c := range cases {
		obs := verifImpObs{ID: c.ID, Records: [][]string{}, Table: map[string]verifImpAnnot{}, Stored: []verifImpRow{}}
		data, _ := base64.StdEncoding.DecodeString(c.Data)
		measurement := fmt.Sprintf("m%d", i)

		if c.Kind == "parquet" {
			data = verifBuildParquet(t, c.PQ)
			obs.FloatTab = map[string]*string{}
			for _, col := range c.PQ {
				for _, v := range col.Values {
					if v == nil {
						continue
					}
					switch col.Type {
					case "string", "binary":
						sb, _ := base64.StdEncoding.DecodeString(*v)
						verifAnnotate(obs.Table, string(sb), c.TimeFormat)
						verifAnnotate(obs.Table, verifTrimASCII(string(sb)), c.TimeFormat)
					case "float64", "float32":
						n, _ := strconv.ParseUint(*v, 10, 64)
						f := math.Float64frombits(n)
						if col.Type == "float32" {
							f = float64(math.Float32frombits(uint32(n)))
						}
						key := strconv.FormatUint(math.Float64bits(f), 10)
						if math.IsNaN(f) || math.IsInf(f, 0) {
							obs.FloatTab[key] = nil
						} else {
							obs.FloatTab[key] = verifStrp(strconv.FormatInt(verifFloatEpochPQ(f, c.TimeFormat), 10))
						}
					}
				}
			}
		} else {
			// ---- independent parse of the upload (oracle: encoding/csv with the same settings)
			obs.DelimRunes = utf8.RuneCountInString(c.Delimiter)
			if c.Delimiter == "" {
				obs.DelimRunes = 1
			}
			if obs.DelimRunes == 1 {
				rd := csv.NewReader(bytes.NewReader(data))
				rd.FieldsPerRecord = -1
				rd.LazyQuotes = true
				if c.Delimiter != "" {
					rd.Comma = []rune(c.Delimiter)[0]
				}
				for {
					rec, err := rd.Read()
					if err == io.EOF {
						break
					}
					if err != nil {
						obs.CsvErr = true
						break
					}
					enc := make([]string, len(rec))
					for j, s := range rec {
						enc[j] = verifB64(s)
						verifAnnotate(obs.Table, s, c.TimeFormat)
						verifAnnotate(obs.Table, verifTrimASCII(s), c.TimeFormat)
					}
					obs.Records = append(obs.Records, enc)
				}
			}
		}

		// ---- the real import
		var result *ImportResult
		var ierr *importError
		func() {
			defer func() {
				if r := recover(); r != nil {
					obs.Panic = fmt.Sprint(r)
				}
			}()
			if c.Via == "handler" {
				return
			}
			if c.Kind == "parquet" {
				result, ierr = h.importParquet(context.Background(), "vdb", measurement, data, importOptions{format: "parquet", timeColumn: c.TimeColumn, timeFormat: c.TimeFormat})
			} else {
				result, ierr = h.importCSV(context.Background(), "vdb", measurement, bytes.NewReader(data), importOptions{format: "csv", timeColumn: c.TimeColumn,
					timeFormat: c.TimeFormat, delimiter: c.Delimiter, skipRows: c.SkipRows}, int64(len(data)))
			}
		}()
		if c.Via == "handler" {
			kind := "csv"
			if c.Kind == "parquet" {
				kind = "parquet"
			}
			own := fmt.Sprintf("hm%06d", i)   // same length as the follower's name
			other := fmt.Sprintf("zq%06d", i) // a different measurement of the same length
			// 1. keep the only flush worker busy
			gated.arm()
			if st, msg, _ := verifServeImport(t, app2, h2, fctxBlock, "csv", "vdb", "zzblock", nil, oneRow); st != 200 {
				t.Fatalf("blocker import: %d %s", st, msg)
			}
			select {
			case <-gated.entered:
			case <-time.After(20 * time.Second):
				t.Fatal("flush worker never reached the storage write")
			}
			// 2. the import under test: accepted or rejected by the real handler; its flush is queued
			st, msg, rows := verifServeImport(t, app2, h2, fctxConn, kind, "vdb", own, &cases[i], data)
			// 3. the SAME connection serves another import (other database / measurement of the same
			//    lengths): it overwrites the request buffers the first import's strings came from
			if st2, msg2, _ := verifServeImport(t, app2, h2, fctxConn, "csv", "wdb", other, nil, oneRow); st2 != 200 {
				t.Fatalf("follower import: %d %s", st2, msg2)
			}
			// 4. release the worker and wait for the queue
			gated.open()
			drain()
			_ = buf2.FlushAll(context.Background())
			drain()
			obs.Status = st
			if st == 200 {
				obs.Class, obs.RowsRep = 0, rows
			} else {
				obs.Msg, obs.Class = msg, verifImpClass(msg)
			}
			obs.Stored, obs.Files = verifReadStored(t, filepath.Join(root2, "vdb", own))
			foreign, _ := verifReadStored(t, filepath.Join(root2, "wdb", other))
			obs.Foreign = len(foreign) - 1
			if extra, _ := verifReadStored(t, filepath.Join(root2, "vdb", other)); len(extra) > 0 {
				obs.Foreign += len(extra)
			}
			if extra, _ := verifReadStored(t, filepath.Join(root2, "wdb", own)); len(extra) > 0 {
				obs.Foreign += len(extra)
			}
			res = append(res, obs)
			continue
		}
		switch {
		case obs.Panic != "":
			obs.Status, obs.Class = 500, 98
		case ierr != nil:
			obs.Status, obs.Msg, obs.Class = ierr.StatusCode, ierr.Error(), verifImpClass(ierr.Message)
		default:
			obs.Status, obs.Class, obs.RowsRep = 200, 0, result.RowsImported
		}
		_ = buf.FlushAll(context.Background())
		obs.Stored, obs.Files = verifReadStored(t, filepath.Join(root, "vdb", measurement))
		res = append(res, obs)
	}
	out, _ := json.Marshal(res)
	if err := os.WriteFile(os.Getenv("VERIF_OUT"), out, 0o644); err != nil {
		t.Fatal(err)
	}
}
