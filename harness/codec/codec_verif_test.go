//go:build verif && duckdb_arrow

// C19 correspondence harness (package api, production Arrow path).
//
// Part 1 (model tie): builds Arrow arrays from the generated values in $VERIF_CASES and runs
// the REAL cell / column / response encoders on them (writeJSONString, writeJSONStringArray,
// writeArrowValue, encodeColumn, arrowTypeName, streamArrowJSON, drainArrowBatches,
// streamMsgPackFromBatches); the produced bytes go to $VERIF_OUT as hex and are compared
// with the Gallina model inside Coq.
//
// Part 2 (supporting exploration of the oracle half): runs generated SELECT statements on a
// real DuckDB through the same writers (function level with a governance row limit, and
// over HTTP through the registered fiber routes for JSON, MessagePack and Arrow IPC) and
// returns the raw bodies, the Arrow IPC stream decoded with the Arrow IPC reader, and the
// database/sql values of the same statement.  Decoding of JSON / MessagePack bodies and all
// comparisons happen in tools/props/C19.py.
package api

import (
	"bufio"
	"bytes"
	"context"
	"encoding/hex"
	"encoding/json"
	"fmt"
	"io"
	"math"
	"math/big"
	"net/http/httptest"
	"os"
	"strconv"
	"strings"
	"testing"
	"time"

	"github.com/Basekick-Labs/msgpack/v6"
	"github.com/apache/arrow-go/v18/arrow"
	"github.com/apache/arrow-go/v18/arrow/array"
	"github.com/apache/arrow-go/v18/arrow/ipc"
	"github.com/apache/arrow-go/v18/arrow/memory"
	"github.com/gofiber/fiber/v2"
	"github.com/rs/zerolog"

	"github.com/basekick-labs/arc/internal/database"
	"github.com/basekick-labs/arc/internal/storage"
)

type verifCol struct {
	Name    string      `json:"name"` // hex
	Type    string      `json:"type"`
	Batches [][]*string `json:"batches,omitempty"` // native types: one string per cell (nil = NULL)
	JSON    []string    `json:"json,omitempty"`    // other types: one Arrow-JSON array text per batch
}

type verifCase struct {
	ID    int        `json:"id"`
	Kind  string     `json:"kind"` // jstr | jarr | col | result | e2e
	S     string     `json:"s,omitempty"`
	Arr   []string   `json:"arr,omitempty"`
	Cols  []verifCol `json:"cols,omitempty"`
	Limit int        `json:"limit,omitempty"`
	SQL   string     `json:"sql,omitempty"`
	HTTP  bool       `json:"http,omitempty"`
}

type verifOut struct {
	ID       int        `json:"id"`
	Err      string     `json:"err,omitempty"`
	Out      string     `json:"out,omitempty"`      // jstr / jarr: hex
	JSONCell [][]string `json:"jsoncell,omitempty"` // col: per batch per cell hex of writeArrowValue
	MsgPack  string     `json:"msgpack,omitempty"`  // col: hex of encodeColumn
	ValueStr [][]string `json:"valuestr,omitempty"` // col: per batch per cell hex of ValueStr (oracle text)
	Nulls    [][]bool   `json:"nulls,omitempty"`    // col: per batch per cell IsNull
	TypeName string     `json:"typename,omitempty"`
	GoType   string     `json:"gotype,omitempty"`

	JSONBody string `json:"jsonbody,omitempty"` // result / e2e (function level): hex
	JSONRC   int    `json:"jsonrc"`
	JSONErr  string `json:"jsonerr,omitempty"`
	MPBody   string `json:"mpbody,omitempty"`
	MPRC     int    `json:"mprc"`
	MPErr    string `json:"mperr,omitempty"`
	Drained  []int  `json:"drained,omitempty"`

	Schema     []string   `json:"schema,omitempty"` // e2e: Arrow types DuckDB returned
	ColNames   []string   `json:"colnames,omitempty"`
	BatchRows  []int      `json:"batchrows,omitempty"`
	SQLVals    [][]string `json:"sqlvals,omitempty"`
	SQLErr     string     `json:"sqlerr,omitempty"`
	HTTPJSON   string     `json:"httpjson,omitempty"`
	HTTPJSONSt int        `json:"httpjsonst,omitempty"`
	HTTPMP     string     `json:"httpmp,omitempty"`
	HTTPMPSt   int        `json:"httpmpst,omitempty"`
	HTTPArrSt  int        `json:"httparrst,omitempty"`
	HTTPArrErr string     `json:"httparrerr,omitempty"`
	ArrSchema  []string   `json:"arrschema,omitempty"`
	ArrNames   []string   `json:"arrnames,omitempty"`
	ArrVals    [][]string `json:"arrvals,omitempty"`
	ArrBatches []int      `json:"arrbatches,omitempty"`
}

var verifMem = memory.NewGoAllocator()

func verifType(name string) (arrow.DataType, error) {
	i32 := arrow.PrimitiveTypes.Int32
	utf8 := arrow.BinaryTypes.String
	switch name {
	case "bool":
		return arrow.FixedWidthTypes.Boolean, nil
	case "int8":
		return arrow.PrimitiveTypes.Int8, nil
	case "int16":
		return arrow.PrimitiveTypes.Int16, nil
	case "int32":
		return i32, nil
	case "int64":
		return arrow.PrimitiveTypes.Int64, nil
	case "uint8":
		return arrow.PrimitiveTypes.Uint8, nil
	case "uint16":
		return arrow.PrimitiveTypes.Uint16, nil
	case "uint32":
		return arrow.PrimitiveTypes.Uint32, nil
	case "uint64":
		return arrow.PrimitiveTypes.Uint64, nil
	case "float32":
		return arrow.PrimitiveTypes.Float32, nil
	case "float64":
		return arrow.PrimitiveTypes.Float64, nil
	case "utf8":
		return utf8, nil
	case "large_utf8":
		return arrow.BinaryTypes.LargeString, nil
	case "binary":
		return arrow.BinaryTypes.Binary, nil
	case "large_binary":
		return arrow.BinaryTypes.LargeBinary, nil
	case "date32":
		return arrow.FixedWidthTypes.Date32, nil
	case "date64":
		return arrow.FixedWidthTypes.Date64, nil
	case "ts_s":
		return &arrow.TimestampType{Unit: arrow.Second}, nil
	case "ts_ms":
		return &arrow.TimestampType{Unit: arrow.Millisecond}, nil
	case "ts_us":
		return &arrow.TimestampType{Unit: arrow.Microsecond}, nil
	case "ts_ns":
		return &arrow.TimestampType{Unit: arrow.Nanosecond}, nil
	case "ts_us_tz":
		return &arrow.TimestampType{Unit: arrow.Microsecond, TimeZone: "Europe/Berlin"}, nil
	case "time32_s":
		return arrow.FixedWidthTypes.Time32s, nil
	case "time32_ms":
		return arrow.FixedWidthTypes.Time32ms, nil
	case "time64_us":
		return arrow.FixedWidthTypes.Time64us, nil
	case "time64_ns":
		return arrow.FixedWidthTypes.Time64ns, nil
	case "duration_s":
		return arrow.FixedWidthTypes.Duration_s, nil
	case "duration_us":
		return arrow.FixedWidthTypes.Duration_us, nil
	case "interval_months":
		return arrow.FixedWidthTypes.MonthInterval, nil
	case "interval_day_time":
		return arrow.FixedWidthTypes.DayTimeInterval, nil
	case "interval_mdn":
		return arrow.FixedWidthTypes.MonthDayNanoInterval, nil
	case "float16":
		return arrow.FixedWidthTypes.Float16, nil
	case "fixed_size_binary_2":
		return &arrow.FixedSizeBinaryType{ByteWidth: 2}, nil
	case "decimal128_10_2":
		return &arrow.Decimal128Type{Precision: 10, Scale: 2}, nil
	case "decimal128_38_0":
		return &arrow.Decimal128Type{Precision: 38, Scale: 0}, nil
	case "decimal256_40_3":
		return &arrow.Decimal256Type{Precision: 40, Scale: 3}, nil
	case "list_int32":
		return arrow.ListOf(i32), nil
	case "large_list_utf8":
		return arrow.LargeListOf(utf8), nil
	case "fixed_size_list_int32_2":
		return arrow.FixedSizeListOf(2, i32), nil
	case "struct_a_int32_b_utf8":
		return arrow.StructOf(arrow.Field{Name: "a", Type: i32, Nullable: true}, arrow.Field{Name: "b", Type: utf8, Nullable: true}), nil
	case "map_utf8_int32":
		return arrow.MapOf(utf8, i32), nil
	case "null":
		return arrow.Null, nil
	case "dictionary_int32_utf8":
		return &arrow.DictionaryType{IndexType: i32, ValueType: utf8}, nil
	}
	return nil, fmt.Errorf("verif: unknown type %q", name)
}

func verifUnhex(s string) []byte {
	b, err := hex.DecodeString(s)
	if err != nil {
		panic(err)
	}
	return b
}

// verifBuild builds one Arrow array of a natively encoded type from generated cells.
func verifBuild(typ string, cells []*string) (arrow.Array, error) {
	dt, err := verifType(typ)
	if err != nil {
		return nil, err
	}
	b := array.NewBuilder(verifMem, dt)
	defer b.Release()
	for _, c := range cells {
		if c == nil {
			b.AppendNull()
			continue
		}
		s := *c
		switch bb := b.(type) {
		case *array.Int8Builder:
			v, _ := strconv.ParseInt(s, 10, 8)
			bb.Append(int8(v))
		case *array.Int16Builder:
			v, _ := strconv.ParseInt(s, 10, 16)
			bb.Append(int16(v))
		case *array.Int32Builder:
			v, _ := strconv.ParseInt(s, 10, 32)
			bb.Append(int32(v))
		case *array.Int64Builder:
			v, _ := strconv.ParseInt(s, 10, 64)
			bb.Append(v)
		case *array.Uint8Builder:
			v, _ := strconv.ParseUint(s, 10, 8)
			bb.Append(uint8(v))
		case *array.Uint16Builder:
			v, _ := strconv.ParseUint(s, 10, 16)
			bb.Append(uint16(v))
		case *array.Uint32Builder:
			v, _ := strconv.ParseUint(s, 10, 32)
			bb.Append(uint32(v))
		case *array.Uint64Builder:
			v, _ := strconv.ParseUint(s, 10, 64)
			bb.Append(v)
		case *array.Float32Builder:
			v, _ := strconv.ParseUint(s, 10, 32)
			bb.Append(math.Float32frombits(uint32(v)))
		case *array.Float64Builder:
			v, _ := strconv.ParseUint(s, 10, 64)
			bb.Append(math.Float64frombits(v))
		case *array.BooleanBuilder:
			bb.Append(s == "1")
		case *array.TimestampBuilder:
			v, _ := strconv.ParseInt(s, 10, 64)
			bb.Append(arrow.Timestamp(v))
		case *array.Date32Builder:
			v, _ := strconv.ParseInt(s, 10, 32)
			bb.Append(arrow.Date32(v))
		case *array.StringBuilder:
			bb.Append(string(verifUnhex(s)))
		case *array.LargeStringBuilder:
			bb.Append(string(verifUnhex(s)))
		case *array.BinaryBuilder:
			bb.Append(verifUnhex(s))
		default:
			return nil, fmt.Errorf("verif: no cell builder for %s (%T)", typ, b)
		}
	}
	return b.NewArray(), nil
}

func verifColArrays(c verifCol) ([]arrow.Array, arrow.DataType, error) {
	dt, err := verifType(c.Type)
	if err != nil {
		return nil, nil, err
	}
	var out []arrow.Array
	if len(c.JSON) > 0 {
		for _, txt := range c.JSON {
			a, _, err := array.FromJSON(verifMem, dt, strings.NewReader(txt))
			if err != nil {
				return nil, nil, fmt.Errorf("FromJSON %s: %w", c.Type, err)
			}
			out = append(out, a)
		}
		return out, dt, nil
	}
	for _, cells := range c.Batches {
		a, err := verifBuild(c.Type, cells)
		if err != nil {
			return nil, nil, err
		}
		out = append(out, a)
	}
	return out, dt, nil
}

func verifWriter() (*bytes.Buffer, *bufio.Writer) {
	var buf bytes.Buffer
	return &buf, bufio.NewWriterSize(&buf, 64)
}

func verifRecords(cols []verifCol) (*arrow.Schema, []arrow.Record, error) {
	fields := make([]arrow.Field, len(cols))
	arrs := make([][]arrow.Array, len(cols))
	nb := -1
	for i, c := range cols {
		as, dt, err := verifColArrays(c)
		if err != nil {
			return nil, nil, err
		}
		fields[i] = arrow.Field{Name: string(verifUnhex(c.Name)), Type: dt, Nullable: true}
		arrs[i] = as
		if nb >= 0 && len(as) != nb {
			return nil, nil, fmt.Errorf("verif: ragged batch count")
		}
		nb = len(as)
	}
	if nb < 0 {
		nb = 0
	}
	schema := arrow.NewSchema(fields, nil)
	recs := make([]arrow.Record, nb)
	for b := 0; b < nb; b++ {
		cs := make([]arrow.Array, len(cols))
		n := int64(0)
		for i := range cols {
			cs[i] = arrs[i][b]
			n = int64(cs[i].Len())
		}
		recs[b] = array.NewRecord(schema, cs, n)
	}
	return schema, recs, nil
}

const verifTS = "2024-01-15T12:00:00Z"

// verifStream runs the two production response writers over a record reader factory.
func verifStream(o *verifOut, mk func() (array.RecordReader, func(), error), limit int) {
	ctx := context.Background()
	// JSON
	if rd, done, err := mk(); err != nil {
		o.JSONErr = err.Error()
	} else {
		buf, w := verifWriter()
		rc, serr := streamArrowJSON(ctx, w, rd, limit, nil, time.Now(), verifTS)
		w.Flush()
		done()
		o.JSONBody, o.JSONRC = hex.EncodeToString(buf.Bytes()), rc
		if serr != nil {
			o.JSONErr = serr.Error()
		}
	}
	// MessagePack: same composition as executeArrowMsgPackQuery
	rd, done, err := mk()
	if err != nil {
		o.MPErr = err.Error()
		return
	}
	schema := rd.Schema()
	castInfo := normalizeDecimalSchema(schema)
	if castInfo != nil {
		schema = castInfo.schema
	}
	batches, rowCount, derr := drainArrowBatches(ctx, rd, limit, castInfo)
	done()
	defer func() {
		for _, b := range batches {
			b.Release()
		}
	}()
	for _, b := range batches {
		o.Drained = append(o.Drained, int(b.NumRows()))
	}
	if derr != nil {
		o.MPErr = "drain: " + derr.Error()
		return
	}
	buf, w := verifWriter()
	rc, serr := streamMsgPackFromBatches(ctx, w, schema, batches, rowCount, nil, time.Now(), verifTS)
	w.Flush()
	o.MPBody, o.MPRC = hex.EncodeToString(buf.Bytes()), rc
	if serr != nil {
		o.MPErr = serr.Error()
	}
}

func verifCell(c *verifCase) (o verifOut) {
	o.ID = c.ID
	defer func() {
		if r := recover(); r != nil {
			o.Err = fmt.Sprintf("panic: %v", r)
		}
	}()
	switch c.Kind {
	case "jstr":
		buf, w := verifWriter()
		writeJSONString(w, nil, string(verifUnhex(c.S)))
		w.Flush()
		o.Out = hex.EncodeToString(buf.Bytes())
	case "jarr":
		ss := make([]string, len(c.Arr))
		for i, s := range c.Arr {
			ss[i] = string(verifUnhex(s))
		}
		buf, w := verifWriter()
		writeJSONStringArray(w, ss)
		w.Flush()
		o.Out = hex.EncodeToString(buf.Bytes())
	case "col":
		col := c.Cols[0]
		arrs, dt, err := verifColArrays(col)
		if err != nil {
			o.Err = err.Error()
			return
		}
		o.TypeName = arrowTypeName(dt)
		schema := arrow.NewSchema([]arrow.Field{{Name: "c", Type: dt, Nullable: true}}, nil)
		var recs []arrow.Record
		scratch := make([]byte, 0, 16)
		for _, a := range arrs {
			o.GoType = fmt.Sprintf("%T", a)
			recs = append(recs, array.NewRecord(schema, []arrow.Array{a}, int64(a.Len())))
			jc := make([]string, a.Len())
			vs := make([]string, a.Len())
			ns := make([]bool, a.Len())
			for i := 0; i < a.Len(); i++ {
				buf, w := verifWriter()
				scratch = writeArrowValue(w, scratch, a, i)
				w.Flush()
				jc[i] = hex.EncodeToString(buf.Bytes())
				vs[i] = hex.EncodeToString([]byte(a.ValueStr(i)))
				ns[i] = a.IsNull(i)
			}
			o.JSONCell = append(o.JSONCell, jc)
			o.ValueStr = append(o.ValueStr, vs)
			o.Nulls = append(o.Nulls, ns)
		}
		buf, w := verifWriter()
		enc := msgpack.GetEncoder()
		enc.Reset(w)
		err = encodeColumn(context.Background(), enc, recs, 0)
		w.Flush()
		enc.Reset(nil)
		msgpack.PutEncoder(enc)
		if err != nil {
			o.Err = err.Error()
		}
		o.MsgPack = hex.EncodeToString(buf.Bytes())
	case "result":
		schema, recs, err := verifRecords(c.Cols)
		if err != nil {
			o.Err = err.Error()
			return
		}
		mk := func() (array.RecordReader, func(), error) {
			rd, err := array.NewRecordReader(schema, recs)
			if err != nil {
				return nil, nil, err
			}
			return rd, func() { rd.Release() }, nil
		}
		verifStream(&o, mk, c.Limit)
	default:
		o.Err = "unknown kind " + c.Kind
	}
	return
}

// ---- part 2: real DuckDB ---------------------------------------------------------------

type verifEnv struct {
	db  *database.DuckDB
	h   *QueryHandler
	app *fiber.App
}

func verifNewEnv(t *testing.T) *verifEnv {
	tmp := t.TempDir()
	logger := zerolog.New(io.Discard).Level(zerolog.Disabled)
	backend, err := storage.NewLocalBackend(tmp, logger)
	if err != nil {
		t.Fatalf("verif: local backend: %v", err)
	}
	db, err := database.New(&database.Config{MemoryLimit: "1GB", ThreadCount: 2, MaxConnections: 4,
		LocalStorageRoot: tmp, TempDirectory: tmp}, logger)
	if err != nil {
		t.Fatalf("verif: duckdb: %v", err)
	}
	t.Cleanup(func() { db.Close() })
	h := NewQueryHandler(db, backend, logger, 0, 0)
	app := fiber.New(fiber.Config{BodyLimit: 64 << 20, StreamRequestBody: false})
	h.RegisterRoutes(app)
	return &verifEnv{db: db, h: h, app: app}
}

func verifSQLCanon(v interface{}) string {
	switch x := v.(type) {
	case nil:
		return "null"
	case bool:
		if x {
			return "b:1"
		}
		return "b:0"
	case int8:
		return "i:" + strconv.FormatInt(int64(x), 10)
	case int16:
		return "i:" + strconv.FormatInt(int64(x), 10)
	case int32:
		return "i:" + strconv.FormatInt(int64(x), 10)
	case int64:
		return "i:" + strconv.FormatInt(x, 10)
	case int:
		return "i:" + strconv.FormatInt(int64(x), 10)
	case uint8:
		return "i:" + strconv.FormatUint(uint64(x), 10)
	case uint16:
		return "i:" + strconv.FormatUint(uint64(x), 10)
	case uint32:
		return "i:" + strconv.FormatUint(uint64(x), 10)
	case uint64:
		return "i:" + strconv.FormatUint(x, 10)
	case *big.Int:
		return "i:" + x.String()
	case float32:
		return "g:" + strconv.FormatUint(uint64(math.Float32bits(x)), 10)
	case float64:
		return "f:" + strconv.FormatUint(math.Float64bits(x), 10)
	case string:
		return "s:" + hex.EncodeToString([]byte(x))
	case []byte:
		return "x:" + hex.EncodeToString(x)
	case time.Time:
		return "t:" + strconv.FormatInt(x.Unix(), 10) + ":" + strconv.Itoa(x.Nanosecond())
	default:
		return fmt.Sprintf("o:%T:%v", v, v)
	}
}

func verifArrowCanon(col arrow.Array, i int) string {
	if col.IsNull(i) {
		return "null"
	}
	switch c := col.(type) {
	case *array.Int8:
		return "i:" + strconv.FormatInt(int64(c.Value(i)), 10)
	case *array.Int16:
		return "i:" + strconv.FormatInt(int64(c.Value(i)), 10)
	case *array.Int32:
		return "i:" + strconv.FormatInt(int64(c.Value(i)), 10)
	case *array.Int64:
		return "i:" + strconv.FormatInt(c.Value(i), 10)
	case *array.Uint8:
		return "i:" + strconv.FormatUint(uint64(c.Value(i)), 10)
	case *array.Uint16:
		return "i:" + strconv.FormatUint(uint64(c.Value(i)), 10)
	case *array.Uint32:
		return "i:" + strconv.FormatUint(uint64(c.Value(i)), 10)
	case *array.Uint64:
		return "i:" + strconv.FormatUint(c.Value(i), 10)
	case *array.Float32:
		return "g:" + strconv.FormatUint(uint64(math.Float32bits(c.Value(i))), 10)
	case *array.Float64:
		return "f:" + strconv.FormatUint(math.Float64bits(c.Value(i)), 10)
	case *array.Boolean:
		if c.Value(i) {
			return "b:1"
		}
		return "b:0"
	case *array.String:
		return "s:" + hex.EncodeToString([]byte(c.Value(i)))
	case *array.LargeString:
		return "s:" + hex.EncodeToString([]byte(c.Value(i)))
	case *array.Binary:
		return "x:" + hex.EncodeToString(c.Value(i))
	case *array.Timestamp:
		return "ts:" + c.DataType().(*arrow.TimestampType).Unit.String() + ":" + strconv.FormatInt(int64(c.Value(i)), 10)
	case *array.Date32:
		return "d:" + strconv.FormatInt(int64(c.Value(i)), 10)
	case array.ExtensionArray:
		return "ext:" + verifArrowCanon(c.Storage(), i)
	default:
		return "o:" + hex.EncodeToString([]byte(col.ValueStr(i)))
	}
}

func (e *verifEnv) post(path, sql string) (int, []byte, error) {
	body, _ := json.Marshal(map[string]string{"sql": sql})
	req := httptest.NewRequest("POST", path, bytes.NewReader(body))
	req.Header.Set("Content-Type", "application/json")
	resp, err := e.app.Test(req, -1)
	if err != nil {
		return 0, nil, err
	}
	defer resp.Body.Close()
	b, err := io.ReadAll(resp.Body)
	return resp.StatusCode, b, err
}

func (e *verifEnv) run(c *verifCase) (o verifOut) {
	o.ID = c.ID
	defer func() {
		if r := recover(); r != nil {
			o.Err = fmt.Sprintf("panic: %v", r)
		}
	}()
	ctx := context.Background()
	// reference: database/sql
	rows, err := e.db.Query(c.SQL)
	if err != nil {
		o.SQLErr = err.Error()
	} else {
		cols, _ := rows.Columns()
		for rows.Next() {
			vals := make([]interface{}, len(cols))
			ptrs := make([]interface{}, len(cols))
			for i := range vals {
				ptrs[i] = &vals[i]
			}
			if err := rows.Scan(ptrs...); err != nil {
				o.SQLErr = err.Error()
				break
			}
			r := make([]string, len(cols))
			for i, v := range vals {
				r[i] = verifSQLCanon(v)
			}
			o.SQLVals = append(o.SQLVals, r)
		}
		if err := rows.Err(); err != nil && o.SQLErr == "" {
			o.SQLErr = err.Error()
		}
		rows.Close()
	}
	// what DuckDB hands to the writers
	if rd, conn, err := e.db.ArrowQueryContext(ctx, c.SQL); err == nil {
		for _, f := range rd.Schema().Fields() {
			o.Schema = append(o.Schema, f.Type.String())
			o.ColNames = append(o.ColNames, hex.EncodeToString([]byte(f.Name)))
		}
		for rd.Next() {
			o.BatchRows = append(o.BatchRows, int(rd.Record().NumRows()))
		}
		rd.Release()
		conn.Close()
	}
	mk := func() (array.RecordReader, func(), error) {
		rd, conn, err := e.db.ArrowQueryContext(ctx, c.SQL)
		if err != nil {
			return nil, nil, err
		}
		return rd, func() { rd.Release(); conn.Close() }, nil
	}
	verifStream(&o, mk, c.Limit)
	if !c.HTTP {
		return
	}
	if st, b, err := e.post("/api/v1/query", c.SQL); err == nil {
		o.HTTPJSONSt, o.HTTPJSON = st, hex.EncodeToString(b)
	} else {
		o.HTTPJSONSt, o.HTTPJSON = -1, hex.EncodeToString([]byte(err.Error()))
	}
	if st, b, err := e.post("/api/v1/query/msgpack", c.SQL); err == nil {
		o.HTTPMPSt, o.HTTPMP = st, hex.EncodeToString(b)
	} else {
		o.HTTPMPSt, o.HTTPMP = -1, hex.EncodeToString([]byte(err.Error()))
	}
	st, b, err := e.post("/api/v1/query/arrow", c.SQL)
	if err != nil {
		o.HTTPArrSt, o.HTTPArrErr = -1, err.Error()
		return
	}
	o.HTTPArrSt = st
	if st != 200 {
		o.HTTPArrErr = string(b)
		return
	}
	rd, err := ipc.NewReader(bytes.NewReader(b), ipc.WithAllocator(verifMem))
	if err != nil {
		o.HTTPArrErr = "ipc reader: " + err.Error()
		return
	}
	defer rd.Release()
	for _, f := range rd.Schema().Fields() {
		o.ArrSchema = append(o.ArrSchema, f.Type.String())
		o.ArrNames = append(o.ArrNames, hex.EncodeToString([]byte(f.Name)))
	}
	for rd.Next() {
		rec := rd.Record()
		o.ArrBatches = append(o.ArrBatches, int(rec.NumRows()))
		for r := 0; r < int(rec.NumRows()); r++ {
			row := make([]string, rec.NumCols())
			for ci := 0; ci < int(rec.NumCols()); ci++ {
				row[ci] = verifArrowCanon(rec.Column(ci), r)
			}
			o.ArrVals = append(o.ArrVals, row)
		}
	}
	if err := rd.Err(); err != nil {
		o.HTTPArrErr = "ipc stream: " + err.Error()
	}
	return
}

func TestVerifCodec(t *testing.T) {
	raw, err := os.ReadFile(os.Getenv("VERIF_CASES"))
	if err != nil {
		t.Fatal(err)
	}
	var cases []verifCase
	if err := json.Unmarshal(raw, &cases); err != nil {
		t.Fatal(err)
	}
	outs := make([]verifOut, 0, len(cases))
	var env *verifEnv
	for i := range cases {
		c := &cases[i]
		if c.Kind == "e2e" {
			if env == nil {
				env = verifNewEnv(t)
			}
			outs = append(outs, env.run(c))
		} else {
			outs = append(outs, verifCell(c))
		}
	}
	b, _ := json.Marshal(outs)
	if err := os.WriteFile(os.Getenv("VERIF_OUT"), b, 0o644); err != nil {
		t.Fatal(err)
	}
}
