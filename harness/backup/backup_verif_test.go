//go:build verif

// C13 correspondence harness: drives the REAL backup.Manager (CreateBackup, RestoreBackup)
// over storage trees from $VERIF_CASES with fault-injecting storage.Backend wrappers around
// real LocalBackends (source data storage, backup storage, restore destination) and writes
// what happened (results, progress, manifest, backup tree, destination tree) to $VERIF_OUT.
package backup

import (
	"context"
	"database/sql"
	"encoding/json"
	"errors"
	"fmt"
	"io"
	"io/fs"
	"os"
	"path/filepath"
	"sort"
	"strings"
	"sync"
	"testing"

	"github.com/rs/zerolog"

	"github.com/basekick-labs/arc/internal/storage"
)

type verifFile struct {
	Path string `json:"path"`
	Data []byte `json:"data"`
}

// verifFault is one injected fault on the streaming call (ReadTo / WriteReader) for a path:
// the call fails after the wrapper has really moved K bytes (K = 0: before touching the stream),
// for the first Times calls on that path (1 = transient: the next call succeeds; large = persistent).
// A failing call never reaches the wrapped backend, so it leaves the store unchanged.
type verifFault struct {
	Path  string `json:"path"`
	K     int    `json:"k"`
	Times int    `json:"times"`
}

type verifFaults struct {
	ListSrc       bool         `json:"list_src"`
	ReadSrc       []verifFault `json:"read_src"`
	WriteBk       []verifFault `json:"write_bk"`
	WriteManifest bool         `json:"write_manifest"`
	ReadManifest  bool         `json:"read_manifest"`
	ListBk        bool         `json:"list_bk"`
	ReadBk        []verifFault `json:"read_bk"`
	WriteDst      []verifFault `json:"write_dst"`
	WriteMeta     bool         `json:"write_meta"`   // backup: writing <id>/metadata/arc.db fails
	WriteCfg      bool         `json:"write_cfg"`    // backup: writing <id>/config/arc.toml fails
	ReadMeta      bool         `json:"read_meta"`    // restore: reading <id>/metadata/arc.db fails
	ReadCfg       bool         `json:"read_cfg"`     // restore: reading <id>/config/arc.toml fails
	WriteSqlite   bool         `json:"write_sqlite"` // restore: the local SQLite path is not writable
	WriteConfig   bool         `json:"write_config"` // restore: the local arc.toml path is not writable
}

type verifOpts struct {
	Data bool `json:"data"`
	Meta bool `json:"meta"`
	Cfg  bool `json:"cfg"`
}

// verifLocal describes the local files next to a server: SqliteRows < 0 = no SQLite database
// configured, otherwise a real SQLite database with that many rows (backup side) or, on the restore
// side, SqliteOld = the bytes of the file currently at the SQLite path (nil = none).
type verifLocal struct {
	SqliteRows int     `json:"sqlite_rows"`
	SqliteOld  *[]byte `json:"sqlite_old"`
	Config     *[]byte `json:"config"` // nil = no arc.toml on disk
}

type verifEnv struct {
	Sqlite     *[]byte `json:"sqlite"`
	Config     *[]byte `json:"config"`
	SqlitePrev *[]byte `json:"sqlite_prev"`
	ConfigPrev *[]byte `json:"config_prev"`
}

type verifBackupCase struct {
	ID          int         `json:"id"`
	Files       []verifFile `json:"files"`
	Faults      verifFaults `json:"faults"`
	BackupOpts  verifOpts   `json:"backup_opts"`  // meta = IncludeMetadata, cfg = IncludeConfig
	Local       verifLocal  `json:"local"`        // the server that is backed up
	RestoreOpts verifOpts   `json:"restore_opts"` // RestoreData / RestoreMetadata / RestoreConfig
	RLocal      verifLocal  `json:"restore_local"`
}

type verifProgress struct {
	Status         string `json:"status"`
	TotalFiles     int64  `json:"total_files"`
	Processed      int64  `json:"processed"`
	Skipped        int64  `json:"skipped"`
	TotalBytes     int64  `json:"total_bytes"`
	ProcessedBytes int64  `json:"processed_bytes"`
}

type verifMeas struct {
	Name  string `json:"name"`
	Files int    `json:"files"`
	Size  int64  `json:"size"`
}

type verifDB struct {
	Name  string      `json:"name"`
	Files int         `json:"files"`
	Size  int64       `json:"size"`
	Meas  []verifMeas `json:"meas"`
}

type verifManifest struct {
	TotalFiles int64     `json:"total_files"`
	TotalSize  int64     `json:"total_size"`
	Skipped    int64     `json:"skipped"`
	DBs        []verifDB `json:"dbs"`
	HasMeta    bool      `json:"has_meta"`
	HasCfg     bool      `json:"has_cfg"`
}

type verifBackupObs struct {
	ID         int            `json:"id"`
	BackupID   string         `json:"backup_id"`
	BackupOK   bool           `json:"backup_ok"`
	BackupErr  string         `json:"backup_err"`
	Manifest   *verifManifest `json:"manifest"`        // returned by CreateBackup
	StoredSame bool           `json:"manifest_stored"` // manifest.json in the backup storage parses to the same numbers
	BProgress  verifProgress  `json:"bprogress"`
	BkFiles    []verifFile    `json:"bk_files"`
	RestoreOK  bool           `json:"restore_ok"`
	RestoreErr string         `json:"restore_err"`
	RProgress  verifProgress  `json:"rprogress"`
	Dst        []verifFile    `json:"dst"`
	SqliteSrc  *[]byte        `json:"sqlite_src"`    // the local SQLite database file that was backed up
	SqliteSame bool           `json:"sqlite_stable"` // ... unchanged by the backup
	Env        verifEnv       `json:"env"`           // local files of the restoring server afterwards
}

var errVerifInjected = errors.New("verif: injected storage fault")

// verifFaultBackend wraps a real backend; every method not overridden is the real one.
type verifFaultBackend struct {
	storage.Backend
	listFail      bool
	readFail      map[string]*verifFault // keyed by ORIGINAL data path
	writeFail     map[string]*verifFault // keyed by ORIGINAL data path
	manifestRead  bool
	manifestWrite bool
	metaWrite     bool
	cfgWrite      bool
	metaRead      bool
	cfgRead       bool
}

func verifIsPart(path, name string) bool {
	p := filepath.ToSlash(path)
	return strings.HasPrefix(p, "backup-") && strings.HasSuffix(p, "/"+name) && strings.Count(p, "/") == 2
}

func verifOrig(p string) string {
	p = filepath.ToSlash(p)
	if i := strings.Index(p, "/data/"); i >= 0 && strings.HasPrefix(p, "backup-") {
		return p[i+len("/data/"):]
	}
	return p
}

func (b *verifFaultBackend) List(ctx context.Context, prefix string) ([]string, error) {
	if b.listFail {
		return nil, errVerifInjected
	}
	return b.Backend.List(ctx, prefix)
}

func (b *verifFaultBackend) ListObjects(ctx context.Context, prefix string) ([]storage.ObjectInfo, error) {
	if b.listFail {
		return nil, errVerifInjected
	}
	return b.Backend.(storage.ObjectLister).ListObjects(ctx, prefix)
}

// verifDue reports whether the next call on this path must fail, and consumes one failure.
func verifDue(m map[string]*verifFault, path string) *verifFault {
	f := m[verifOrig(path)]
	if f == nil || f.Times <= 0 {
		return nil
	}
	f.Times--
	return f
}

func (b *verifFaultBackend) ReadTo(ctx context.Context, path string, w io.Writer) error {
	if f := verifDue(b.readFail, path); f != nil {
		if f.K > 0 { // mid-stream: the caller's writer really receives the first K bytes
			if data, err := b.Backend.Read(ctx, path); err == nil {
				k := f.K
				if k > len(data) {
					k = len(data)
				}
				_, _ = w.Write(data[:k])
			}
		}
		return errVerifInjected
	}
	return b.Backend.ReadTo(ctx, path, w)
}

func (b *verifFaultBackend) Read(ctx context.Context, path string) ([]byte, error) {
	if b.manifestRead && strings.HasSuffix(path, "/manifest.json") {
		return nil, errVerifInjected
	}
	if (b.metaRead && verifIsPart(path, "metadata/arc.db")) || (b.cfgRead && verifIsPart(path, "config/arc.toml")) {
		return nil, errVerifInjected
	}
	if f := verifDue(b.readFail, path); f != nil {
		return nil, errVerifInjected
	}
	return b.Backend.Read(ctx, path)
}

func (b *verifFaultBackend) WriteReader(ctx context.Context, path string, r io.Reader, size int64) error {
	if b.metaWrite && verifIsPart(path, "metadata/arc.db") {
		return errVerifInjected
	}
	if f := verifDue(b.writeFail, path); f != nil {
		if f.K > 0 { // mid-stream: K bytes of the caller's reader are really consumed before the error
			_, _ = io.CopyN(io.Discard, r, int64(f.K))
		}
		return errVerifInjected
	}
	return b.Backend.WriteReader(ctx, path, r, size)
}

func (b *verifFaultBackend) Write(ctx context.Context, path string, data []byte) error {
	if b.manifestWrite && strings.HasSuffix(path, "/manifest.json") {
		return errVerifInjected
	}
	if b.cfgWrite && verifIsPart(path, "config/arc.toml") {
		return errVerifInjected
	}
	if f := verifDue(b.writeFail, path); f != nil {
		return errVerifInjected
	}
	return b.Backend.Write(ctx, path, data)
}

func verifSet(l []verifFault) map[string]*verifFault {
	m := make(map[string]*verifFault, len(l))
	for i := range l {
		f := l[i] // private copy: the failure budget is consumed per wrapper
		m[f.Path] = &f
	}
	return m
}

func verifReadTree(t *testing.T, root string, skip func(rel string) bool) []verifFile {
	out := []verifFile{}
	err := filepath.WalkDir(root, func(p string, d fs.DirEntry, err error) error {
		if err != nil {
			return err
		}
		if d.IsDir() {
			return nil
		}
		rel, err := filepath.Rel(root, p)
		if err != nil {
			return err
		}
		rel = filepath.ToSlash(rel)
		if skip != nil && skip(rel) {
			return nil
		}
		data, err := os.ReadFile(p)
		if err != nil {
			return err
		}
		if data == nil {
			data = []byte{}
		}
		out = append(out, verifFile{Path: rel, Data: data})
		return nil
	})
	if err != nil {
		t.Errorf("walk %s: %v", root, err)
	}
	sort.Slice(out, func(i, j int) bool { return out[i].Path < out[j].Path })
	return out
}

func verifReadOpt(path string) *[]byte {
	data, err := os.ReadFile(path)
	if err != nil {
		return nil
	}
	if data == nil {
		data = []byte{}
	}
	return &data
}

// verifMakeSqlite creates a real SQLite database (CreateBackup checkpoints it before copying).
func verifMakeSqlite(path string, rows int) error {
	db, err := sql.Open("sqlite3", path)
	if err != nil {
		return err
	}
	defer db.Close()
	if _, err := db.Exec("PRAGMA page_size=512; CREATE TABLE verif_t (k INTEGER PRIMARY KEY, v TEXT)"); err != nil {
		return err
	}
	for i := 0; i < rows; i++ {
		if _, err := db.Exec("INSERT INTO verif_t (k, v) VALUES (?, ?)", i, fmt.Sprintf("row-%d", i*7919)); err != nil {
			return err
		}
	}
	return nil
}

func verifProg(p *Progress) verifProgress {
	if p == nil {
		return verifProgress{Status: "none"}
	}
	return verifProgress{Status: p.Status, TotalFiles: p.TotalFiles, Processed: p.ProcessedFiles, Skipped: p.SkippedFiles,
		TotalBytes: p.TotalBytes, ProcessedBytes: p.ProcessedBytes}
}

func verifMan(m *Manifest) *verifManifest {
	vm := &verifManifest{TotalFiles: m.TotalFiles, TotalSize: m.TotalSizeBytes, Skipped: m.SkippedFiles, DBs: []verifDB{},
		HasMeta: m.HasMetadata, HasCfg: m.HasConfig}
	for _, d := range m.Databases {
		vd := verifDB{Name: d.Name, Files: d.FileCount, Size: d.SizeBytes, Meas: []verifMeas{}}
		for _, ms := range d.Measurements {
			vd.Meas = append(vd.Meas, verifMeas{Name: ms.Name, Files: ms.FileCount, Size: ms.SizeBytes})
		}
		vm.DBs = append(vm.DBs, vd)
	}
	sort.Slice(vm.DBs, func(i, j int) bool { return vm.DBs[i].Name < vm.DBs[j].Name })
	return vm
}

func TestVerifBackup(t *testing.T) {
	raw, err := os.ReadFile(os.Getenv("VERIF_CASES"))
	if err != nil {
		t.Fatal(err)
	}
	var cases []verifBackupCase
	if err := json.Unmarshal(raw, &cases); err != nil {
		t.Fatal(err)
	}
	root := t.TempDir()
	t.Setenv("TMPDIR", t.TempDir()) // streamBackupFile/streamRestoreFile stage through os.CreateTemp("")
	ctx := context.Background()
	logger := zerolog.Nop()
	obs := make([]verifBackupObs, 0, len(cases))

	runCase := func(c verifBackupCase) (o verifBackupObs) {
		o = verifBackupObs{ID: c.ID}
		fail := func(err error) verifBackupObs {
			t.Errorf("case %d: %v", c.ID, err) // goroutine-safe; the run then counts as a broken tie
			return o
		}
		caseDir := filepath.Join(root, fmt.Sprintf("case%d", c.ID))
		srcDir, bkDir, dstDir := filepath.Join(caseDir, "src"), filepath.Join(caseDir, "bk"), filepath.Join(caseDir, "dst")
		for _, d := range []string{srcDir, bkDir, dstDir} {
			if err := os.MkdirAll(d, 0o755); err != nil {
				return fail(err)
			}
		}
		for _, f := range c.Files {
			full := filepath.Join(srcDir, filepath.FromSlash(f.Path))
			if err := os.MkdirAll(filepath.Dir(full), 0o755); err != nil {
				return fail(err)
			}
			if err := os.WriteFile(full, f.Data, 0o644); err != nil {
				return fail(err)
			}
		}

		// ---- backup: real Manager, source and backup storage wrapped with the fault sets
		srcLocal, err := storage.NewLocalBackend(srcDir, logger)
		if err != nil {
			return fail(err)
		}
		src := &verifFaultBackend{Backend: srcLocal, listFail: c.Faults.ListSrc, readFail: verifSet(c.Faults.ReadSrc)}
		localDir := filepath.Join(caseDir, "local")
		if err := os.MkdirAll(localDir, 0o755); err != nil {
			return fail(err)
		}
		sqlitePath, configPath := "", filepath.Join(localDir, "arc.toml")
		if c.Local.SqliteRows >= 0 {
			sqlitePath = filepath.Join(localDir, "arc.db")
			if err := verifMakeSqlite(sqlitePath, c.Local.SqliteRows); err != nil {
				return fail(err)
			}
			o.SqliteSrc = verifReadOpt(sqlitePath)
		}
		if c.Local.Config != nil {
			if err := os.WriteFile(configPath, *c.Local.Config, 0o600); err != nil {
				return fail(err)
			}
		}
		m1, err := NewManager(&ManagerConfig{DataStorage: src, BackupPath: bkDir, SQLiteDBPath: sqlitePath, ConfigPath: configPath, Logger: logger})
		if err != nil {
			return fail(err)
		}
		m1.backupStorage = &verifFaultBackend{Backend: m1.backupStorage, writeFail: verifSet(c.Faults.WriteBk), manifestWrite: c.Faults.WriteManifest,
			metaWrite: c.Faults.WriteMeta, cfgWrite: c.Faults.WriteCfg}
		res, berr := m1.CreateBackup(ctx, BackupOptions{IncludeMetadata: c.BackupOpts.Meta, IncludeConfig: c.BackupOpts.Cfg})
		if sqlitePath != "" {
			after := verifReadOpt(sqlitePath)
			o.SqliteSame = after != nil && o.SqliteSrc != nil && string(*after) == string(*o.SqliteSrc)
		}
		o.BProgress = verifProg(m1.GetProgress())
		if p := m1.GetProgress(); p != nil {
			o.BackupID = p.BackupID
		}
		if berr != nil {
			o.BackupErr = berr.Error()
		} else {
			o.BackupOK = true
			o.Manifest = verifMan(res.Manifest)
			// the manifest the restore will read is the stored one
			plain, _ := storage.NewLocalBackend(bkDir, logger)
			if data, rerr := plain.Read(ctx, o.BackupID+"/manifest.json"); rerr == nil {
				if sm, uerr := UnmarshalManifest(data); uerr == nil {
					a, _ := json.Marshal(verifMan(sm))
					b, _ := json.Marshal(o.Manifest)
					o.StoredSame = string(a) == string(b)
				}
			}
		}
		manifestRel := o.BackupID + "/manifest.json"
		o.BkFiles = verifReadTree(t, bkDir, func(rel string) bool { return rel == manifestRel })

		// ---- restore into EMPTY storage: a fresh Manager over the same backup directory
		dstLocal, err := storage.NewLocalBackend(dstDir, logger)
		if err != nil {
			return fail(err)
		}
		dst := &verifFaultBackend{Backend: dstLocal, writeFail: verifSet(c.Faults.WriteDst)}
		rlocal := filepath.Join(caseDir, "rlocal")
		if err := os.MkdirAll(rlocal, 0o755); err != nil {
			return fail(err)
		}
		rSqlite, rConfig := filepath.Join(rlocal, "arc.db"), filepath.Join(rlocal, "arc.toml")
		if c.Faults.WriteSqlite { // a path whose directory does not exist: os.WriteFile fails
			rSqlite = filepath.Join(rlocal, "missing-dir-a", "arc.db")
		} else if c.RLocal.SqliteOld != nil {
			if err := os.WriteFile(rSqlite, *c.RLocal.SqliteOld, 0o600); err != nil {
				return fail(err)
			}
		}
		if c.Faults.WriteConfig {
			rConfig = filepath.Join(rlocal, "missing-dir-b", "arc.toml")
		} else if c.RLocal.Config != nil {
			if err := os.WriteFile(rConfig, *c.RLocal.Config, 0o600); err != nil {
				return fail(err)
			}
		}
		m2, err := NewManager(&ManagerConfig{DataStorage: dst, BackupPath: bkDir, SQLiteDBPath: rSqlite, ConfigPath: rConfig, Logger: logger})
		if err != nil {
			return fail(err)
		}
		m2.backupStorage = &verifFaultBackend{Backend: m2.backupStorage, listFail: c.Faults.ListBk,
			readFail: verifSet(c.Faults.ReadBk), manifestRead: c.Faults.ReadManifest, metaRead: c.Faults.ReadMeta, cfgRead: c.Faults.ReadCfg}
		_, rerr := m2.RestoreBackup(ctx, RestoreOptions{BackupID: o.BackupID, RestoreData: c.RestoreOpts.Data,
			RestoreMetadata: c.RestoreOpts.Meta, RestoreConfig: c.RestoreOpts.Cfg})
		o.Env = verifEnv{Sqlite: verifReadOpt(rSqlite), Config: verifReadOpt(rConfig),
			SqlitePrev: verifReadOpt(rSqlite + ".before-restore"), ConfigPrev: verifReadOpt(rConfig + ".before-restore")}
		o.RProgress = verifProg(m2.GetProgress())
		if rerr != nil {
			o.RestoreErr = rerr.Error()
		} else {
			o.RestoreOK = true
		}
		o.Dst = verifReadTree(t, dstDir, nil)

		if err := os.RemoveAll(caseDir); err != nil {
			return fail(err)
		}
		return o
	}

	// cases are independent (own directories, own Managers): run them on a few workers
	results := make([]verifBackupObs, len(cases))
	var wg sync.WaitGroup
	next := make(chan int)
	for w := 0; w < 4; w++ {
		wg.Add(1)
		go func() {
			defer wg.Done()
			for i := range next {
				results[i] = runCase(cases[i])
			}
		}()
	}
	for i := range cases {
		next <- i
	}
	close(next)
	wg.Wait()
	obs = append(obs, results...)
	out, _ := json.Marshal(obs)
	if err := os.WriteFile(os.Getenv("VERIF_OUT"), out, 0o644); err != nil {
		t.Fatal(err)
	}
}
