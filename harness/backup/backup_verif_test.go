//go:build verif

// C13 correspondence harness: drives the REAL backup.Manager (CreateBackup, RestoreBackup)
// over storage trees from $VERIF_CASES with fault-injecting storage.Backend wrappers around
// real LocalBackends (source data storage, backup storage, restore destination) and writes
// what happened (results, progress, manifest, backup tree, destination tree) to $VERIF_OUT.
package backup

import (
	"context"
	"encoding/json"
	"errors"
	"fmt"
	"io"
	"io/fs"
	"os"
	"path/filepath"
	"sort"
	"strings"
	"sync"
	"testing"

	"github.com/rs/zerolog"

	"github.com/basekick-labs/arc/internal/storage"
)

type verifFile struct {
	Path string `json:"path"`
	Data []byte `json:"data"`
}

// verifFault is one injected fault on the streaming call (ReadTo / WriteReader) for a path:
// the call fails after the wrapper has really moved K bytes (K = 0: before touching the stream),
// for the first Times calls on that path (1 = transient: the next call succeeds; large = persistent).
// A failing call never reaches the wrapped backend, so it leaves the store unchanged.
type verifFault struct {
	Path  string `json:"path"`
	K     int    `json:"k"`
	Times int    `json:"times"`
}

type verifFaults struct {
	ListSrc       bool         `json:"list_src"`
	ReadSrc       []verifFault `json:"read_src"`
	WriteBk       []verifFault `json:"write_bk"`
	WriteManifest bool         `json:"write_manifest"`
	ReadManifest  bool         `json:"read_manifest"`
	ListBk        bool         `json:"list_bk"`
	ReadBk        []verifFault `json:"read_bk"`
	WriteDst      []verifFault `json:"write_dst"`
}

type verifBackupCase struct {
	ID     int         `json:"id"`
	Files  []verifFile `json:"files"`
	Faults verifFaults `json:"faults"`
}

type verifProgress struct {
	Status         string `json:"status"`
	TotalFiles     int64  `json:"total_files"`
	Processed      int64  `json:"processed"`
	Skipped        int64  `json:"skipped"`
	TotalBytes     int64  `json:"total_bytes"`
	ProcessedBytes int64  `json:"processed_bytes"`
}

type verifMeas struct {
	Name  string `json:"name"`
	Files int    `json:"files"`
	Size  int64  `json:"size"`
}

type verifDB struct {
	Name  string      `json:"name"`
	Files int         `json:"files"`
	Size  int64       `json:"size"`
	Meas  []verifMeas `json:"meas"`
}

type verifManifest struct {
	TotalFiles int64     `json:"total_files"`
	TotalSize  int64     `json:"total_size"`
	Skipped    int64     `json:"skipped"`
	DBs        []verifDB `json:"dbs"`
}

type verifBackupObs struct {
	ID         int            `json:"id"`
	BackupID   string         `json:"backup_id"`
	BackupOK   bool           `json:"backup_ok"`
	BackupErr  string         `json:"backup_err"`
	Manifest   *verifManifest `json:"manifest"`        // returned by CreateBackup
	StoredSame bool           `json:"manifest_stored"` // manifest.json in the backup storage parses to the same numbers
	BProgress  verifProgress  `json:"bprogress"`
	BkFiles    []verifFile    `json:"bk_files"`
	RestoreOK  bool           `json:"restore_ok"`
	RestoreErr string         `json:"restore_err"`
	RProgress  verifProgress  `json:"rprogress"`
	Dst        []verifFile    `json:"dst"`
}

var errVerifInjected = errors.New("verif: injected storage fault")

// verifFaultBackend wraps a real backend; every method not overridden is the real one.
type verifFaultBackend struct {
	storage.Backend
	listFail      bool
	readFail      map[string]*verifFault // keyed by ORIGINAL data path
	writeFail     map[string]*verifFault // keyed by ORIGINAL data path
	manifestRead  bool
	manifestWrite bool
}

func verifOrig(p string) string {
	p = filepath.ToSlash(p)
	if i := strings.Index(p, "/data/"); i >= 0 && strings.HasPrefix(p, "backup-") {
		return p[i+len("/data/"):]
	}
	return p
}

func (b *verifFaultBackend) List(ctx context.Context, prefix string) ([]string, error) {
	if b.listFail {
		return nil, errVerifInjected
	}
	return b.Backend.List(ctx, prefix)
}

func (b *verifFaultBackend) ListObjects(ctx context.Context, prefix string) ([]storage.ObjectInfo, error) {
	if b.listFail {
		return nil, errVerifInjected
	}
	return b.Backend.(storage.ObjectLister).ListObjects(ctx, prefix)
}

// verifDue reports whether the next call on this path must fail, and consumes one failure.
func verifDue(m map[string]*verifFault, path string) *verifFault {
	f := m[verifOrig(path)]
	if f == nil || f.Times <= 0 {
		return nil
	}
	f.Times--
	return f
}

func (b *verifFaultBackend) ReadTo(ctx context.Context, path string, w io.Writer) error {
	if f := verifDue(b.readFail, path); f != nil {
		if f.K > 0 { // mid-stream: the caller's writer really receives the first K bytes
			if data, err := b.Backend.Read(ctx, path); err == nil {
				k := f.K
				if k > len(data) {
					k = len(data)
				}
				_, _ = w.Write(data[:k])
			}
		}
		return errVerifInjected
	}
	return b.Backend.ReadTo(ctx, path, w)
}

func (b *verifFaultBackend) Read(ctx context.Context, path string) ([]byte, error) {
	if b.manifestRead && strings.HasSuffix(path, "/manifest.json") {
		return nil, errVerifInjected
	}
	if f := verifDue(b.readFail, path); f != nil {
		return nil, errVerifInjected
	}
	return b.Backend.Read(ctx, path)
}

func (b *verifFaultBackend) WriteReader(ctx context.Context, path string, r io.Reader, size int64) error {
	if f := verifDue(b.writeFail, path); f != nil {
		if f.K > 0 { // mid-stream: K bytes of the caller's reader are really consumed before the error
			_, _ = io.CopyN(io.Discard, r, int64(f.K))
		}
		return errVerifInjected
	}
	return b.Backend.WriteReader(ctx, path, r, size)
}

func (b *verifFaultBackend) Write(ctx context.Context, path string, data []byte) error {
	if b.manifestWrite && strings.HasSuffix(path, "/manifest.json") {
		return errVerifInjected
	}
	if f := verifDue(b.writeFail, path); f != nil {
		return errVerifInjected
	}
	return b.Backend.Write(ctx, path, data)
}

func verifSet(l []verifFault) map[string]*verifFault {
	m := make(map[string]*verifFault, len(l))
	for i := range l {
		f := l[i] // private copy: the failure budget is consumed per wrapper
		m[f.Path] = &f
	}
	return m
}

func verifReadTree(t *testing.T, root string, skip func(rel string) bool) []verifFile {
	out := []verifFile{}
	err := filepath.WalkDir(root, func(p string, d fs.DirEntry, err error) error {
		if err != nil {
			return err
		}
		if d.IsDir() {
			return nil
		}
		rel, err := filepath.Rel(root, p)
		if err != nil {
			return err
		}
		rel = filepath.ToSlash(rel)
		if skip != nil && skip(rel) {
			return nil
		}
		data, err := os.ReadFile(p)
		if err != nil {
			return err
		}
		if data == nil {
			data = []byte{}
		}
		out = append(out, verifFile{Path: rel, Data: data})
		return nil
	})
	if err != nil {
		t.Errorf("walk %s: %v", root, err)
	}
	sort.Slice(out, func(i, j int) bool { return out[i].Path < out[j].Path })
	return out
}

func verifProg(p *Progress) verifProgress {
	if p == nil {
		return verifProgress{Status: "none"}
	}
	return verifProgress{Status: p.Status, TotalFiles: p.TotalFiles, Processed: p.ProcessedFiles, Skipped: p.SkippedFiles,
		TotalBytes: p.TotalBytes, ProcessedBytes: p.ProcessedBytes}
}

func verifMan(m *Manifest) *verifManifest {
	vm := &verifManifest{TotalFiles: m.TotalFiles, TotalSize: m.TotalSizeBytes, Skipped: m.SkippedFiles, DBs: []verifDB{}}
	for _, d := range m.Databases {
		vd := verifDB{Name: d.Name, Files: d.FileCount, Size: d.SizeBytes, Meas: []verifMeas{}}
		for _, ms := range d.Measurements {
			vd.Meas = append(vd.Meas, verifMeas{Name: ms.Name, Files: ms.FileCount, Size: ms.SizeBytes})
		}
		vm.DBs = append(vm.DBs, vd)
	}
	sort.Slice(vm.DBs, func(i, j int) bool { return vm.DBs[i].Name < vm.DBs[j].Name })
	return vm
}

func TestVerifBackup(t *testing.T) {
	raw, err := os.ReadFile(os.Getenv("VERIF_CASES"))
	if err != nil {
		t.Fatal(err)
	}
	var cases []verifBackupCase
	if err := json.Unmarshal(raw, &cases); err != nil {
		t.Fatal(err)
	}
	root := t.TempDir()
	t.Setenv("TMPDIR", t.TempDir()) // streamBackupFile/streamRestoreFile stage through os.CreateTemp("")
	ctx := context.Background()
	logger := zerolog.Nop()
	obs := make([]verifBackupObs, 0, len(cases))

	runCase := func(c verifBackupCase) (o verifBackupObs) {
		o = verifBackupObs{ID: c.ID}
		fail := func(err error) verifBackupObs {
			t.Errorf("case %d: %v", c.ID, err) // goroutine-safe; the run then counts as a broken tie
			return o
		}
		caseDir := filepath.Join(root, fmt.Sprintf("case%d", c.ID))
		srcDir, bkDir, dstDir := filepath.Join(caseDir, "src"), filepath.Join(caseDir, "bk"), filepath.Join(caseDir, "dst")
		for _, d := range []string{srcDir, bkDir, dstDir} {
			if err := os.MkdirAll(d, 0o755); err != nil {
				return fail(err)
			}
		}
		for _, f := range c.Files {
			full := filepath.Join(srcDir, filepath.FromSlash(f.Path))
			if err := os.MkdirAll(filepath.Dir(full), 0o755); err != nil {
				return fail(err)
			}
			if err := os.WriteFile(full, f.Data, 0o644); err != nil {
				return fail(err)
			}
		}

		// ---- backup: real Manager, source and backup storage wrapped with the fault sets
		srcLocal, err := storage.NewLocalBackend(srcDir, logger)
		if err != nil {
			return fail(err)
		}
		src := &verifFaultBackend{Backend: srcLocal, listFail: c.Faults.ListSrc, readFail: verifSet(c.Faults.ReadSrc)}
		m1, err := NewManager(&ManagerConfig{DataStorage: src, BackupPath: bkDir, Logger: logger})
		if err != nil {
			return fail(err)
		}
		m1.backupStorage = &verifFaultBackend{Backend: m1.backupStorage, writeFail: verifSet(c.Faults.WriteBk), manifestWrite: c.Faults.WriteManifest}
		res, berr := m1.CreateBackup(ctx, BackupOptions{})
		o.BProgress = verifProg(m1.GetProgress())
		if p := m1.GetProgress(); p != nil {
			o.BackupID = p.BackupID
		}
		if berr != nil {
			o.BackupErr = berr.Error()
		} else {
			o.BackupOK = true
			o.Manifest = verifMan(res.Manifest)
			// the manifest the restore will read is the stored one
			plain, _ := storage.NewLocalBackend(bkDir, logger)
			if data, rerr := plain.Read(ctx, o.BackupID+"/manifest.json"); rerr == nil {
				if sm, uerr := UnmarshalManifest(data); uerr == nil {
					a, _ := json.Marshal(verifMan(sm))
					b, _ := json.Marshal(o.Manifest)
					o.StoredSame = string(a) == string(b)
				}
			}
		}
		manifestRel := o.BackupID + "/manifest.json"
		o.BkFiles = verifReadTree(t, bkDir, func(rel string) bool { return rel == manifestRel })

		// ---- restore into EMPTY storage: a fresh Manager over the same backup directory
		dstLocal, err := storage.NewLocalBackend(dstDir, logger)
		if err != nil {
			return fail(err)
		}
		dst := &verifFaultBackend{Backend: dstLocal, writeFail: verifSet(c.Faults.WriteDst)}
		m2, err := NewManager(&ManagerConfig{DataStorage: dst, BackupPath: bkDir, Logger: logger})
		if err != nil {
			return fail(err)
		}
		m2.backupStorage = &verifFaultBackend{Backend: m2.backupStorage, listFail: c.Faults.ListBk,
			readFail: verifSet(c.Faults.ReadBk), manifestRead: c.Faults.ReadManifest}
		_, rerr := m2.RestoreBackup(ctx, RestoreOptions{BackupID: o.BackupID, RestoreData: true})
		o.RProgress = verifProg(m2.GetProgress())
		if rerr != nil {
			o.RestoreErr = rerr.Error()
		} else {
			o.RestoreOK = true
		}
		o.Dst = verifReadTree(t, dstDir, nil)

		if err := os.RemoveAll(caseDir); err != nil {
			return fail(err)
		}
		return o
	}

	// cases are independent (own directories, own Managers): run them on a few workers
	results := make([]verifBackupObs, len(cases))
	var wg sync.WaitGroup
	next := make(chan int)
	for w := 0; w < 4; w++ {
		wg.Add(1)
		go func() {
			defer wg.Done()
			for i := range next {
				results[i] = runCase(cases[i])
			}
		}()
	}
	for i := range cases {
		next <- i
	}
	close(next)
	wg.Wait()
	obs = append(obs, results...)
	out, _ := json.Marshal(obs)
	if err := os.WriteFile(os.Getenv("VERIF_OUT"), out, 0o644); err != nil {
		t.Fatal(err)
	}
}
