#!/usr/bin/env python3
"""Regenerate the generated blocks of DESIGN.md (fix-commit list) from /repo's history."""
import os
import re
import subprocess
ROOT = os.path.dirname(os.path.dirname(os.path.abspath(__file__)))
p = os.path.join(ROOT, "DESIGN.md")
s = open(p).read()
lst = subprocess.check_output("git -C /repo log --format='- `%h` %s' --reverse ea64adb..HEAD", shell=True, text=True)
s = re.sub(r"(<!-- FIXLIST-BEGIN[^\n]*-->\n).*?(<!-- FIXLIST-END -->)", lambda m: m.group(1) + lst + m.group(2), s, flags=re.S)
import json
kf = json.load(open(os.path.join(ROOT, "known_findings.json")))["findings"]
lines = []
for e in sorted([e for e in kf if e["status"] == "open"], key=lambda e: (e["property"], e["signature"])):
    w = e["what"].replace("\n", " ")
    lines.append("- **%s** `%s` - %s" % (e["property"], e["signature"], (w[:300] + "…") if len(w) > 300 else w))
s = re.sub(r"(<!-- OPENFINDINGS-BEGIN[^\n]*-->\n).*?(<!-- OPENFINDINGS-END -->)", lambda m: m.group(1) + "\n".join(lines) + "\n" + m.group(2), s, flags=re.S)
open(p, "w").write(s)
print("DESIGN.md: %d fix commits listed" % lst.count("\n"))
