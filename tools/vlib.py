"""vlib: shared machinery of the /verif checks.

Everything a property check needs: building the Coq development and reading back
`Print Assumptions`, the go/ast parameter translator, running a Go harness that is
injected into /repo's own packages with `go test -overlay` (nothing is written under
/repo), evaluating correspondence cases inside Coq, known-findings handling, evidence
and the VIOLATION / KNOWN-FINDING contract.  See tools/README.md.
"""
import fcntl
import hashlib
import json
import os
import re
import shutil
import subprocess
import sys
import time

ROOT = os.path.dirname(os.path.dirname(os.path.abspath(__file__)))
REPO = os.environ.get("VERIF_REPO", "/repo")
WORK = os.path.join(ROOT, ".work")
COQ = os.path.join(ROOT, "coq")
BIN = os.path.join(WORK, "bin")
MODULE = "github.com/basekick-labs/arc"
NCPU = os.cpu_count() or 4

ALLOWED_AXIOMS = {
    # standard-library axioms admissible per DESIGN.md section 5 (each named in evidence when used)
    "functional_extensionality_dep", "FunctionalExtensionality.functional_extensionality_dep",
    "proof_irrelevance", "ProofIrrelevance.proof_irrelevance", "classic", "Classical_Prop.classic",
    "JMeq_eq", "JMeq.JMeq_eq", "Eqdep.Eq_rect_eq.eq_rect_eq", "eq_rect_eq",
}


def log(*a):
    print("[verif]", *a, file=sys.stderr, flush=True)


def sh(cmd, cwd=None, env=None, timeout=None, inp=None):
    """Run a command, return (rc, combined output)."""
    try:
        p = subprocess.run(cmd, cwd=cwd, env=env, timeout=timeout, input=inp,
                           stdout=subprocess.PIPE, stderr=subprocess.STDOUT, text=True,
                           shell=isinstance(cmd, str))
        return p.returncode, p.stdout
    except subprocess.TimeoutExpired as e:
        out = e.stdout.decode() if isinstance(e.stdout, bytes) else (e.stdout or "")
        return 124, out + "\n[timeout after %ss]" % timeout


class Lock:
    def __init__(self, name):
        os.makedirs(WORK, exist_ok=True)
        self.path = os.path.join(WORK, name + ".lock")

    def __enter__(self):
        self.f = open(self.path, "w")
        fcntl.flock(self.f, fcntl.LOCK_EX)
        return self

    def __exit__(self, *a):
        fcntl.flock(self.f, fcntl.LOCK_UN)
        self.f.close()


# ---------------------------------------------------------------------------------------
# Go side
# ---------------------------------------------------------------------------------------

def go_env(extra=None):
    env = dict(os.environ)
    env.pop("GOFLAGS", None)
    env.pop("GOSUMDB", None)          # GOSUMDB=off breaks the cached-toolchain switch
    env["GOTOOLCHAIN"] = "auto"
    env["GOPROXY"] = "off"
    env["GOFLAGS"] = "-modfile=" + os.path.join(modfile_dir(), "go.mod")
    env["VERIF_ROOT"] = ROOT
    if extra:
        env.update(extra)
    return env


def modfile_dir():
    """Copy of /repo/go.mod + go.sum outside the repo (-mod=mod would rewrite /repo/go.mod)."""
    d = os.path.join(WORK, "gomod")
    os.makedirs(d, exist_ok=True)
    for f in ("go.mod", "go.sum"):
        src = os.path.join(REPO, f)
        dst = os.path.join(d, f)
        try:
            same = os.path.exists(dst) and open(src, "rb").read() == open(dst, "rb").read()
        except OSError:
            same = False
        if not same:
            shutil.copyfile(src, dst)
    return d


def build_goast():
    out = os.path.join(BIN, "goast")
    srcdir = os.path.join(ROOT, "tools", "goast")
    os.makedirs(BIN, exist_ok=True)
    with Lock("goast"):
        newest = max(os.path.getmtime(os.path.join(srcdir, f)) for f in os.listdir(srcdir))
        if os.path.exists(out) and os.path.getmtime(out) >= newest:
            return out
        env = dict(os.environ)
        env.pop("GOFLAGS", None)
        env.pop("GOSUMDB", None)
        env["GOTOOLCHAIN"] = "auto"
        env["GOPROXY"] = "off"
        rc, o = sh(["go", "build", "-o", out, "."], cwd=srcdir, env=env, timeout=600)
        if rc != 0:
            raise InfraError("cannot build goast: " + o)
    return out


def goast(mode, *args):
    rc, out = sh([build_goast(), mode, REPO] + list(args), timeout=120)
    if rc != 0:
        raise TieBroken("goast %s %s failed: %s" % (mode, " ".join(args), out.strip()))
    v = json.loads(out)
    if v is None:                      # Go encodes an empty slice as null
        v = {} if mode == "imports" else []
    return v


class InfraError(Exception):
    """The machinery itself is broken (not attributable to /repo)."""


class TieBroken(Exception):
    """The tie between model and current source cannot be established (anchor missing,
    harness no longer compiles against the code, parameter not found...)."""


def overlay_file(entries, name="overlay"):
    """entries: {path-under-REPO (relative): real file path}.  Returns overlay json path."""
    d = os.path.join(WORK, "overlay")
    os.makedirs(d, exist_ok=True)
    rep = {os.path.join(REPO, k): v for k, v in entries.items()}
    p = os.path.join(d, name + ".json")
    with open(p, "w") as f:
        json.dump({"Replace": rep}, f, indent=1)
    return p


def gen_file(relname, content):
    """Write generated content under .work/gen (only when changed); return path."""
    p = os.path.join(WORK, "gen", relname)
    os.makedirs(os.path.dirname(p), exist_ok=True)
    old = None
    if os.path.exists(p):
        old = open(p).read()
    if old != content:
        with open(p, "w") as f:
            f.write(content)
    return p


def rewrite_source(rel, subs, tag, must=True):
    """Copy REPO/rel to .work/gen/<tag>/<rel> applying textual substitutions
    [(old, new, min_count)].  An anchor that is not found breaks the tie."""
    text = open(os.path.join(REPO, rel)).read()
    for old, new, mincount in subs:
        n = text.count(old)
        if n < mincount:
            if must:
                raise TieBroken("overlay anchor %r not found in %s (found %d, need %d)" % (old, rel, n, mincount))
        text = text.replace(old, new)
    return gen_file(os.path.join(tag, rel), text)


def go_test(pkg, run, overlay=None, tags="verif", env=None, timeout=900, count=True, extra_args=None, name=None):
    """Run `go test` for one package of /repo with harness files injected by overlay.
    overlay: {relative path under REPO: real path}.  Returns (rc, output)."""
    cmd = ["go", "test", "-tags", tags, "-vet=off", "-run", run]
    if count:
        cmd += ["-count=1"]
    if overlay:
        cmd += ["-overlay", overlay_file(overlay, name or re.sub(r"\W", "_", pkg + "_" + run))]
    if extra_args:
        cmd += extra_args
    cmd += [pkg]
    t0 = time.time()
    rc, out = sh(cmd, cwd=REPO, env=go_env(env), timeout=timeout)
    log("go test %s -run %s: rc=%d in %.1fs" % (pkg, run, rc, time.time() - t0))
    return rc, out


def go_build_failed(out):
    return bool(re.search(r"\[build failed\]|\[setup failed\]|cannot find package|no required module|undefined:", out))


_IDENT = re.compile(r"(?<![\w.])([A-Za-z_]\w*)(\.[A-Za-z_]\w*)?")
_GO_BUILTIN = {"int64", "int", "uint64", "float64", "int32", "uint32", "true", "false", "nil", "iota", "len", "uint8", "byte"}


def resolve_const_expr(relfile, expr, depth=0):
    """Resolve bare package-level identifiers of `expr` (as written in relfile) to their
    defining source text, recursively, and package selectors to (alias -> import path).
    Returns (expr', {alias: importpath})."""
    if depth > 8:
        raise TieBroken("constant %r in %s: resolution too deep" % (expr, relfile))
    pkgdir = os.path.dirname(relfile)
    imports = goast("imports", relfile)[relfile]
    consts = {c["name"]: c for c in goast("consts", pkgdir) if os.path.dirname(c["file"]) == pkgdir}
    need = {}

    def sub(m):
        a, b = m.group(1), m.group(2)
        if b:                                   # pkg.Name
            if a in imports:
                need[a] = imports[a]
                return m.group(0)
            raise TieBroken("cannot resolve %s in %s (not an imported package)" % (m.group(0), relfile))
        if a in _GO_BUILTIN:
            return a
        if a in consts and consts[a]["value"]:
            e2, n2 = resolve_const_expr(consts[a]["file"], consts[a]["value"], depth + 1)
            need.update(n2)
            return "(" + e2 + ")"
        raise TieBroken("identifier %s in %s is not a package-level constant with a value" % (a, relfile))

    return _IDENT.sub(sub, expr), need


def go_eval_consts(items):
    """items: [(label, relfile, expr)] -> {label: int}.  Each expression is resolved to
    package-qualified constants and evaluated BY THE GO COMPILER in a throw-away virtual
    package overlaid under /repo/internal/zzverifparams."""
    imports, lines = {}, []
    for label, relfile, expr in items:
        e, need = resolve_const_expr(relfile, expr)
        for a, p in need.items():
            if imports.get(a, p) != p:
                raise TieBroken("import alias clash for %s" % a)
            imports[a] = p
        lines.append('\tfmt.Printf("VERIFPARAM %%s %%d\\n", %s, int64(%s))' % (json.dumps(label), e))
    src = "package main\n\nimport (\n\t\"fmt\"\n"
    for a, p in sorted(imports.items()):
        src += "\t%s %s\n" % (a, json.dumps(p))
    src += ")\n\nfunc main() {\n" + "\n".join(lines) + "\n}\n"
    h = hashlib.sha1(src.encode()).hexdigest()[:10]
    p = gen_file("params/params_%s.go" % h, src)
    ov = overlay_file({"internal/zzverifparams/main.go": p}, "params_" + h)
    t0 = time.time()
    rc, out = sh(["go", "run", "-overlay", ov, "./internal/zzverifparams/"], cwd=REPO, env=go_env(), timeout=600)
    log("go run zzverifparams: rc=%d in %.1fs" % (rc, time.time() - t0))
    vals = {}
    for m in re.finditer(r"^VERIFPARAM (\S+) (-?\d+)$", out, re.M):
        vals[m.group(1)] = int(m.group(2))
    if rc != 0 or len(vals) != len(items):
        raise TieBroken("constant evaluation failed:\n" + out[-2000:])
    return vals


# ---------------------------------------------------------------------------------------
# Coq side
# ---------------------------------------------------------------------------------------

def coq_project():
    """(Re)generate _CoqProject and Makefile from the files present."""
    files = []
    for sub in ("theories", "gen"):
        for dp, _, fns in os.walk(os.path.join(COQ, sub)):
            for fn in fns:
                if fn.endswith(".v"):
                    files.append(os.path.relpath(os.path.join(dp, fn), COQ))
    files.sort()
    content = open(os.path.join(COQ, "_CoqProject.in")).read() + "\n".join(files) + "\n"
    p = os.path.join(COQ, "_CoqProject")
    if not os.path.exists(p) or open(p).read() != content or not os.path.exists(os.path.join(COQ, "Makefile")):
        with open(p, "w") as f:
            f.write(content)
        rc, out = sh("coq_makefile -f _CoqProject -o Makefile", cwd=COQ, timeout=120)
        if rc != 0:
            raise InfraError("coq_makefile failed: " + out)


def write_params(name, content):
    """coq/gen/<name>.v, rewritten only when the content changes."""
    p = os.path.join(COQ, "gen", name + ".v")
    os.makedirs(os.path.dirname(p), exist_ok=True)
    if not os.path.exists(p) or open(p).read() != content:
        with open(p, "w") as f:
            f.write(content)
    return p


def coq_make(targets, timeout=1500):
    """Build the given .vo targets (paths relative to coq/).  Returns (ok, log)."""
    with Lock("coq"):
        coq_project()
        rc, out = sh(["timeout", str(timeout), "make", "-j%d" % NCPU] + list(targets), cwd=COQ, timeout=timeout + 30)
    return rc == 0, out


def coqc_file(path, timeout=900, extra_q=None):
    """Compile a stand-alone .v file against the development; returns (rc, output)."""
    cmd = ["timeout", str(timeout), "coqc", "-Q", os.path.join(COQ, "theories"), "Arc",
           "-Q", os.path.join(COQ, "gen"), "ArcGen",
           "-w", "-notation-overridden,-deprecated-hint-without-locality,-deprecated-instance-without-locality"]
    if extra_q:
        cmd += extra_q
    cmd.append(path)
    return sh(cmd, cwd=os.path.dirname(path), timeout=timeout + 30)


def coq_assumptions(pid, modules, theorems):
    """Print Assumptions of each theorem.  `theorems` is a list of names, or of (module, name)
    pairs; a module that no longer loads only takes its own theorems down.
    -> {thm: {"status": closed|axioms|missing, "axioms": [...]}}"""
    d = os.path.join(WORK, "coqrun", pid)
    os.makedirs(d, exist_ok=True)
    groups = {}
    for t in theorems:
        if isinstance(t, (tuple, list)):
            groups.setdefault((t[0],), []).append(t[1])
        else:
            groups.setdefault(tuple(modules), []).append(t)
    res = {}
    for gi, (mods, thms) in enumerate(sorted(groups.items())):
        src = "".join("Require Import %s.\n" % m for m in mods)
        for t in thms:
            src += 'Goal True. idtac "BEGIN-ASSUMPTIONS %s". exact I. Qed.\nPrint Assumptions %s.\n' % (t, t)
        src += 'Goal True. idtac "BEGIN-ASSUMPTIONS END". exact I. Qed.\n'
        p = os.path.join(d, "Assumptions_%s_%d.v" % (pid, gi))
        open(p, "w").write(src)
        rc, out = coqc_file(p, timeout=300)
        chunks = re.split(r"BEGIN-ASSUMPTIONS (\S+)\n", out)
        # chunks: [pre, name1, body1, name2, body2, ...]
        for i in range(1, len(chunks) - 1, 2):
            name, body = chunks[i], chunks[i + 1]
            if name == "END":
                continue
            if "Closed under the global context" in body:
                res[name] = {"status": "closed", "axioms": []}
            elif "Axioms:" in body:
                ax = re.findall(r"^(\S+)\s*:", body.split("Axioms:", 1)[1], re.M)
                res[name] = {"status": "axioms", "axioms": ax}
            else:
                res[name] = {"status": "missing", "axioms": [], "log": body[-500:]}
        for t in thms:
            if t not in res:
                res[t] = {"status": "missing", "axioms": [], "log": out[-800:]}
    return res


FORBIDDEN = re.compile(r"\b(Admitted|admit|Axiom|Axioms|Parameter|Parameters|Conjecture|Admit Obligations|"
                       r"Unset Guard Checking|Unset Positivity Checking|Unset Universe Checking|bypass_check|type-in-type)\b")


def scan_forbidden(files):
    """Textual scan of .v files (comments stripped) for declarations the brief forbids."""
    hits = []
    for f in files:
        try:
            text = open(f).read()
        except OSError:
            continue
        prev = None
        while prev != text:                       # strip (possibly nested) comments
            prev = text
            text = re.sub(r"\(\*(?:(?!\(\*|\*\)).)*?\*\)", " ", text, flags=re.S)
        for m in FORBIDDEN.finditer(text):
            hits.append("%s: %s" % (os.path.relpath(f, ROOT), m.group(0)))
        if re.search(r"^\s*(Variable|Variables|Hypothesis|Hypotheses|Context)\b", text, re.M):
            # allowed only inside a Section
            depth = 0
            for line in text.splitlines():
                if re.match(r"\s*Section\b", line):
                    depth += 1
                elif re.match(r"\s*End\b", line) and depth > 0:
                    depth -= 1
                elif depth == 0 and re.match(r"\s*(Variable|Variables|Hypothesis|Hypotheses)\b", line):
                    hits.append("%s: %s outside Section" % (os.path.relpath(f, ROOT), line.strip()[:60]))
    return hits


def area_files(area):
    d = os.path.join(COQ, "theories", area)
    fs = [os.path.join(d, f) for f in sorted(os.listdir(d)) if f.endswith(".v")]
    d2 = os.path.join(COQ, "theories", "Lib")
    fs += [os.path.join(d2, f) for f in sorted(os.listdir(d2)) if f.endswith(".v")]
    return fs


def coq_eval(pid, name, source, timeout=900):
    """Compile a generated case file; returns (rc, output).  The file should print its
    results with `Eval vm_compute in` / `Print`; use parse_* helpers below."""
    d = os.path.join(WORK, "coqrun", pid)
    os.makedirs(d, exist_ok=True)
    p = os.path.join(d, name + ".v")
    open(p, "w").write(source)
    t0 = time.time()
    rc, out = coqc_file(p, timeout=timeout)
    log("coqc %s: rc=%d in %.1fs" % (name, rc, time.time() - t0))
    return rc, out


def parse_nat_list(out, label):
    """Find `label = [a; b; c]` (Print of a Definition, possibly wrapped) -> list of ints, or None."""
    m = re.search(re.escape(label) + r"\s*=\s*(\[[^\]]*\]|nil)", out)
    if not m:
        return None
    return [int(x) for x in re.findall(r"\d+", m.group(1))]


# Coq term printers ---------------------------------------------------------------------

def cz(n):
    return "(%d)%%Z" % n


def cn(n):
    return "%d%%N" % n


def cbool(b):
    return "true" if b else "false"


def clist(items):
    return "[" + "; ".join(items) + "]"


def cbytes(b):
    """bytes -> list N literal"""
    if isinstance(b, str):
        b = b.encode("utf-8", "surrogateescape")
    return "[" + "; ".join("%d" % x for x in b) + "]%N" if b else "(@nil N)"


# ---------------------------------------------------------------------------------------
# Known findings, evidence, reporting
# ---------------------------------------------------------------------------------------

class Result:
    """Accumulates what a run found; `finish` prints the contract lines, writes the
    evidence and returns the exit code."""

    def __init__(self, pid, tier, seed):
        self.pid, self.tier, self.seed = pid, tier, seed
        self.t0 = time.time()
        self.violations = []          # (replay_path, no_input_found: bool, summary)
        self.known = []               # strings
        self.cov = {"obligations": 0, "discharged": 0, "checker_cmd": "", "trusted_base": [],
                    "evaluations": 0, "distinct_nontrivial": 0, "rule": "", "samples": []}
        self.assumptions = []
        self.stages = {}
        self.notes = []

    # -- proof obligations
    def add_obligations(self, assum, checker_cmd):
        """assum: result of coq_assumptions.  An obligation is discharged when the theorem
        exists and depends only on admissible axioms."""
        bad = []
        used_axioms = set()
        for t, r in sorted(assum.items()):
            self.cov["obligations"] += 1
            if r["status"] == "closed":
                self.cov["discharged"] += 1
            elif r["status"] == "axioms" and all(a in ALLOWED_AXIOMS or a.split(".")[-1] in ALLOWED_AXIOMS for a in r["axioms"]):
                self.cov["discharged"] += 1
                used_axioms.update(r["axioms"])
            else:
                bad.append((t, r))
        self.cov["checker_cmd"] = checker_cmd
        self.cov.setdefault("theorems", []).extend(sorted(assum.keys()))
        if used_axioms:
            self.cov["trusted_base"].append("stdlib axioms used: " + ", ".join(sorted(used_axioms)))
        return bad

    def stage(self, name, t0):
        self.stages[name] = round(time.time() - t0, 2)

    def replay_path(self, suffix="violation"):
        d = os.path.join(WORK, "replay")
        os.makedirs(d, exist_ok=True)
        return os.path.join(d, "%s_%s_%d.json" % (self.pid, suffix, len(self.violations)))

    def violation(self, summary, replay_obj, no_input=False, suffix="violation"):
        p = self.replay_path(suffix)
        replay_obj = dict(replay_obj)
        replay_obj.setdefault("property", self.pid)
        replay_obj.setdefault("summary", summary)
        with open(p, "w") as f:
            json.dump(replay_obj, f, indent=1, default=str)
        self.violations.append((p, no_input, summary))

    def known_finding(self, text):
        self.known.append(text)

    def finish(self, level="proof"):
        for k in self.known:
            print("KNOWN-FINDING: property=%s %s" % (self.pid, k))
        for p, no_input, summary in self.violations:
            log("violation: " + summary)
            print("VIOLATION property=%s replay=%s%s" % (self.pid, p, " no-failing-input-found" if no_input else ""))
        wall = time.time() - self.t0
        cov = dict(self.cov)
        cov["stage_wall_s"] = self.stages
        cov["known_findings_reproduced"] = list(self.known)
        if self.notes:
            cov["notes"] = self.notes
        cov["samples"] = cov["samples"][:8] or [{"note": "no correspondence sample recorded"}]
        ev = {"property_id": self.pid, "tier": self.tier, "seed": self.seed, "level": level,
              "coverage": cov, "assumptions": self.assumptions, "wall_s": round(wall, 2),
              "violations": len(self.violations)}
        # runs against a scratch copy of the repository (VERIF_REPO) must not overwrite the
        # evidence of /repo itself
        evdir = os.path.join(ROOT, "evidence") if os.path.realpath(REPO) == "/repo" else os.path.join(WORK, "evidence_scratch")
        os.makedirs(evdir, exist_ok=True)
        with open(os.path.join(evdir, self.pid + ".json"), "w") as f:
            json.dump(ev, f, indent=1, default=str)
        sys.stdout.flush()
        return 1 if self.violations else 0


GLOBAL_TRUSTED = [
    "Coq 8.16.1 kernel and coqc (vm_compute used in witness examples and case evaluation; native_compute not used)",
    "no Axiom/Parameter/Admitted in the development (textual scan + Print Assumptions on every property theorem each run)",
    "hand-written Gallina model of the Go code: modelled, not verified; tied to the code by the differential correspondence run and the regenerated parameters reported in this file",
    "Go harness injected with go test -overlay (build tag verif), tools/goast (go/ast extraction), tools/vlib.py and tools/props/<id>.py (comparison, shrinking, reporting)",
]


def std_proof_stage(res, pid, area, modules, theorems, extra_targets=()):
    """Build the area's .vo files, check the pinned theorem list with Print Assumptions and
    scan for forbidden declarations.  Returns list of (theorem, reason) that are NOT discharged."""
    t0 = time.time()
    targets = ["theories/%s/%s.vo" % (area, m) for m in ("Model", "Proofs", "Props")
               if os.path.exists(os.path.join(COQ, "theories", area, m + ".v"))]
    targets += list(extra_targets)
    ok, out = coq_make(targets)
    res.stage("coq_make", t0)
    checker = "make -C coq %s && coqc Assumptions_%s.v (Print Assumptions of each listed theorem)" % (" ".join(targets), pid)
    res.cov["trusted_base"] = list(GLOBAL_TRUSTED)
    failed = []
    if not ok:
        res.notes.append("coq build failed: " + out[-1500:])
        # build what can be built target by target so that surviving theorems still count
        for t in targets:
            coq_make([t])
    t1 = time.time()
    assum = coq_assumptions(pid, modules, theorems)
    res.stage("print_assumptions", t1)
    bad = res.add_obligations(assum, checker)
    for t, r in bad:
        failed.append((t, "theorem %s: %s %s" % (t, r["status"], ",".join(r.get("axioms", [])) or r.get("log", "")[-300:])))
    hits = scan_forbidden(area_files(area))
    if hits:
        res.cov["obligations"] += 1
        failed.append(("forbidden-declarations", "; ".join(hits)))
    return failed


# ---------------------------------------------------------------------------------------
# Generic correspondence helpers (used by most props/<ID>.py)
# ---------------------------------------------------------------------------------------

def run_go_harness(pid, pkg, test, harness_files, cases, rewrites=None, tags="verif", env=None, timeout=900, tag="run"):
    """Run the Go harness `test` (regexp) of package `pkg` (e.g. "./internal/wal/") with
      harness_files: {virtual path under REPO: file under /verif}   (injected, never written to /repo)
      rewrites: {rel source path: [(old, new, min_count), ...]}    (generated copies of CURRENT sources)
      cases: any JSON value, written to $VERIF_CASES; the harness writes JSON to $VERIF_OUT.
    Returns the parsed output.  A harness that no longer builds or fails is a broken tie."""
    overlay = {}
    for rel, subs in (rewrites or {}).items():
        overlay[rel] = rewrite_source(rel, subs, pid)
    for virt, real in harness_files.items():
        overlay[virt] = real if os.path.isabs(real) else os.path.join(ROOT, real)
    d = os.path.join(WORK, "cases", pid)
    os.makedirs(d, exist_ok=True)
    cin, cout = os.path.join(d, tag + "_in.json"), os.path.join(d, tag + "_out.json")
    with open(cin, "w") as f:
        json.dump(cases, f)
    if os.path.exists(cout):
        os.remove(cout)
    e = {"VERIF_CASES": cin, "VERIF_OUT": cout}
    e.update(env or {})
    rc, out = go_test(pkg, test, overlay=overlay, tags=tags, env=e, timeout=timeout, name=pid + "_" + tag)
    if rc != 0 or not os.path.exists(cout):
        raise TieBroken("%s harness failed against the current source (rc=%d):\n%s" % (pid, rc, out[-4000:]))
    return json.load(open(cout))


def coq_check_cases(pid, header, case_type, terms, preds, chunk=1000, name="Cases", timeout=900):
    """Evaluate boolean predicates of the model on case terms inside Coq.
      header: Coq source that Requires the model (and defines `failing` if the model does not)
      case_type: Coq type of a case;  terms: list of Coq terms (strings)
      preds: {label: name of a `case -> bool` function}
    Returns {label: [indices of cases where the predicate is false]}."""
    res = {k: [] for k in preds}
    for off in range(0, len(terms), chunk):
        part = terms[off:off + chunk]
        src = header + "\nDefinition verif_cases : list (%s) := [\n%s].\n" % (case_type, ";\n".join(part))
        src += ("Fixpoint verif_failing {A} (f : A -> bool) (n : nat) (l : list A) : list nat :=\n"
                "  match l with nil => nil | cons x r => if f x then verif_failing f (S n) r else cons n (verif_failing f (S n) r) end.\n")
        for label, fn in preds.items():
            src += "Definition verif_%s := Eval vm_compute in verif_failing (%s) 0 verif_cases.\nPrint verif_%s.\n" % (label, fn, label)
        rc, out = coq_eval(pid, "%s_%d" % (name, off), src, timeout=timeout)
        for label in preds:
            lst = parse_nat_list(out, "verif_" + label)
            if rc != 0 or lst is None:
                raise InfraError("case evaluation failed (%s): %s" % (label, out[-2500:]))
            res[label] += [off + x for x in lst]
    return res


def shrink_list(items, still_fails, min_len=1):
    """Greedy one-at-a-time removal from a list while still_fails(list) holds."""
    cur = list(items)
    changed = True
    while changed and len(cur) > min_len:
        changed = False
        for i in range(len(cur)):
            cand = cur[:i] + cur[i + 1:]
            if len(cand) >= min_len and still_fails(cand):
                cur = cand
                changed = True
                break
    return cur


def known_for(pid):
    """Open known findings of a property: known_findings/<pid>.json (list of entries with
    keys signature, what, witness, status)."""
    p = os.path.join(ROOT, "known_findings", pid + ".json")
    if not os.path.exists(p):
        return []
    return [e for e in json.load(open(p)) if e.get("status") == "open"]


def coqchk_stage(res, modules, timeout=3000):
    """Thorough tier: re-check the compiled modules (and everything they depend on) with the
    independent checker and record the axioms it reports.  Returns (ok, axioms)."""
    t0 = time.time()
    with Lock("coq"):
        rc, out = sh(["timeout", str(timeout), "coqchk", "-silent", "-o", "-Q", "theories", "Arc", "-Q", "gen", "ArcGen"] + list(modules),
                     cwd=COQ, timeout=timeout + 30)
    res.stage("coqchk", t0)
    summary = out.split("CONTEXT SUMMARY", 1)[1] if "CONTEXT SUMMARY" in out else out[-1500:]
    m = re.search(r"\* Axioms:\s*(.*?)\n\s*\n\* Constants", summary, re.S)
    axioms = []
    if m and "<none>" not in m.group(1):
        axioms = [l.strip() for l in m.group(1).splitlines() if l.strip()]
    ok = rc == 0 and "type-in-type: <none>" in summary and "unsafe (co)fixpoints: <none>" in summary and "positivity is assumed: <none>" in summary
    res.cov["coqchk"] = {"ok": ok, "axioms": axioms, "modules": list(modules)}
    res.cov["obligations"] += 1
    bad_ax = [a for a in axioms if a.split(".")[-1] not in ALLOWED_AXIOMS and a not in ALLOWED_AXIOMS]
    if ok and not bad_ax:
        res.cov["discharged"] += 1
        return True, axioms
    res.notes.append("coqchk failed or reported inadmissible axioms: " + summary[-1200:])
    return False, axioms
