#!/usr/bin/env python3
"""seed_rerun.py [--jobs N] [names...]

Re-run the property's quick check against every kept seeded change on the CURRENT /repo
HEAD and /verif (checks get strengthened after a seed is first ingested, and /repo moves
with fix commits), and update `confirmation.check` in seeded/<name>/meta.json.  A seed whose
patch no longer applies to HEAD keeps its old record and gets `check.stale = <head>`.
Different properties run in parallel; seeds of one property run one after the other (they
share the property's scratch directories)."""
import json
import os
import re
import shutil
import subprocess
import sys
import time
from concurrent.futures import ThreadPoolExecutor

ROOT = os.path.dirname(os.path.dirname(os.path.abspath(__file__)))


def sh(cmd, cwd=None, env=None, timeout=3600):
    p = subprocess.run(cmd, cwd=cwd, env=env, shell=True, stdout=subprocess.PIPE, stderr=subprocess.STDOUT, text=True, timeout=timeout)
    return p.returncode, p.stdout


def run_property(pid, names):
    head = sh("git -C /repo rev-parse --short HEAD")[1].strip()
    out_lines = []
    for name in names:
        d = os.path.join(ROOT, "seeded", name)
        meta = json.load(open(os.path.join(d, "meta.json")))
        wt = "/tmp/rerun-%s" % name
        sh("git -C /repo worktree remove --force %s" % wt)
        rc, out = sh("git -C /repo worktree add -q %s HEAD" % wt)
        try:
            rc, out = sh("git apply %s" % os.path.join(d, "patch.diff"), cwd=wt)
            conf = meta.setdefault("confirmation", {})
            if rc != 0:
                conf.setdefault("check", {})["stale"] = "patch no longer applies to /repo HEAD %s" % head
                out_lines.append("%s: patch no longer applies to HEAD" % name)
            else:
                env = dict(os.environ, VERIF_REPO=wt)
                t0 = time.time()
                rc, out = sh("python3 tools/check.py %s --tier quick" % pid, cwd=ROOT, env=env)
                vl = [l for l in out.splitlines() if l.startswith("VIOLATION")][:5]
                conf["check"] = {"cmd": "VERIF_REPO=<patched worktree> python3 tools/check.py %s --tier quick" % pid, "exit": rc,
                                 "wall_s": round(time.time() - t0, 1), "violation_lines": vl, "repo_head": head,
                                 "rerun_at": time.strftime("%Y-%m-%d %H:%M:%S")}
                m = re.search(r"replay=(\S+)", "\n".join(vl))
                if m and os.path.exists(m.group(1)):
                    shutil.copy(m.group(1), os.path.join(d, "detected_replay.json"))
                out_lines.append("%s: exit=%d %s" % (name, rc, "; ".join(v.split("replay=")[0] + ("nfi" if "no-failing-input-found" in v else "concrete") for v in vl[:2])))
            json.dump(meta, open(os.path.join(d, "meta.json"), "w"), indent=1)
        finally:
            sh("git -C /repo worktree remove --force %s" % wt)
    return out_lines


def main():
    args = sys.argv[1:]
    jobs = 4
    if "--jobs" in args:
        i = args.index("--jobs")
        jobs = int(args[i + 1])
        del args[i:i + 2]
    names = args or sorted(n for n in os.listdir(os.path.join(ROOT, "seeded")) if os.path.exists(os.path.join(ROOT, "seeded", n, "meta.json")))
    byprop = {}
    for n in names:
        meta = json.load(open(os.path.join(ROOT, "seeded", n, "meta.json")))
        if not (meta.get("confirmation") or {}).get("kept"):
            continue
        byprop.setdefault(meta["property"], []).append(n)
    with ThreadPoolExecutor(max_workers=jobs) as ex:
        for lines in ex.map(lambda kv: run_property(*kv), sorted(byprop.items())):
            for l in lines:
                print(l, flush=True)
    sh("git -C /repo worktree prune")


if __name__ == "__main__":
    main()
