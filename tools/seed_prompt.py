#!/usr/bin/env python3
"""Print the prompt given to an independent sub-agent that seeds a property-breaking change
(only the property text and a scratch worktree - nothing from /verif)."""
import json
import sys

pid, wt = sys.argv[1], sys.argv[2]
n = sys.argv[3] if len(sys.argv) > 3 else "2"
prop = next(json.loads(l) for l in open("/verif/properties.jsonl") if json.loads(l)["id"] == pid)
print(f"""You are testing how well a verification effort detects regressions in the Go time-series database Basekick-Labs/arc. You have your own scratch git worktree of the repository at {wt} (work ONLY there; never touch /repo or /verif, and do not read anything under /verif).

Here is a semantic property the system is supposed to satisfy:

{json.dumps(prop, indent=1)}

Task: produce {n} DIFFERENT, independent code changes to the repository (each a separate patch against the worktree's HEAD) that each BREAK this property while the code still compiles and the existing test-suite of the touched packages still passes. Each change must be realistic (the kind of slip a maintainer could make in a refactor or optimisation: an off-by-one, a reordered step, a dropped or weakened check, a changed constant, a wrong variable, a missed case, two cooperating edits that each look fine alone) and must need something SPECIFIC to manifest - a particular interleaving, a crash or fault at a particular point, a multi-step sequence of operations, an unusual input - not something ordinary use would expose at once. Do not just delete the whole mechanism, and do not touch test files.

For each change i (1..{n}) deliver in {wt}/seed_out/<i>/:
  - patch.diff : `git diff` of the change against HEAD (apply-able with `git apply` at the repository root)
  - a demonstration: a Go test file (demo_test.go, with a comment on its first lines saying which package directory it must be copied into, e.g. `// package dir: internal/wal`) or a small program, that FAILS with the change and PASSES without it
  - meta.json : {{"property": "{pid}", "summary": "...", "needs_to_manifest": "...", "files_touched": [...], "demo_cmd": "the exact go test command", "existing_tests_cmd": "the command you ran to confirm the existing tests of the touched packages still pass"}}

Practicalities: the sandbox has no network. Run Go with `GOPROXY=off GOFLAGS=-modfile=/tmp/gomod-{pid}/go.mod` after `mkdir -p /tmp/gomod-{pid} && cp {wt}/go.mod {wt}/go.sum /tmp/gomod-{pid}/` (never use -mod=mod; do not set GOSUMDB or GOTOOLCHAIN). Packages that link DuckDB (internal/api, internal/database, internal/compaction, cmd/arc ...) take ~3 minutes to compile the first time. Verify yourself, for each change: (a) `go build ./...` of the touched packages succeeds, (b) the existing tests of the touched packages pass with the change, (c) the demonstration fails with the change and passes on a clean HEAD (switch with `git apply patch.diff` and `git apply -R patch.diff` or `git checkout -- .`; NEVER use `git stash`: the stash is shared with other worktrees of this repository that other people are using right now; keep seed_out/ untracked). Reset the worktree to a clean HEAD (except seed_out/) before you finish, and remove /tmp/gomod-{pid}.

Final message: for each change, one paragraph: what it changes, why it breaks the property, what it needs to manifest, and the verification you ran with results.""")
