#!/bin/bash
# apply_fix.sh <patchfile> <pkgs...> : apply a fix patch to /repo, run the packages' tests, commit as "fix:".
set -e
P=$1; shift
cd /repo
MSG=$(awk '/^---$/{exit} {print}' "$P")
sed -n '/^diff --git/,$p' "$P" > /tmp/_fix.diff
git apply --check /tmp/_fix.diff
git apply /tmp/_fix.diff
mkdir -p /verif/.work/gomod && cp go.mod go.sum /verif/.work/gomod/
if ! GOPROXY=off GOFLAGS=-modfile=/verif/.work/gomod/go.mod go test -vet=off -count=1 "$@" > /tmp/_fix_test.log 2>&1; then
  tail -40 /tmp/_fix_test.log; echo "TESTS FAILED - reverting"; git checkout -- .; exit 1
fi
tail -5 /tmp/_fix_test.log
git add -u
# strip lines referring to /verif from the commit message
echo "$MSG" | grep -v -i "/verif\|After applying\|Arc\.\|move the finding\|^Coq:\|_refuted" | git commit -q -F -
git log --oneline | head -1
rm -f /tmp/_fix.diff /tmp/_fix_test.log
