#!/usr/bin/env python3
"""Summarise /verif/seeded/*/meta.json into seeded/README.md (which check caught which change)."""
import json
import os

ROOT = os.path.dirname(os.path.dirname(os.path.abspath(__file__)))
rows = []
for name in sorted(os.listdir(os.path.join(ROOT, "seeded"))):
    p = os.path.join(ROOT, "seeded", name, "meta.json")
    if not os.path.exists(p):
        continue
    m = json.load(open(p))
    c = m.get("confirmation", {})
    chk = c.get("check") or {}
    if chk.get("stale"):
        verdict = "STALE: " + chk["stale"] + " (" + (m.get("note_head") or "see meta.json") [:160] + ")"
    elif not chk:
        verdict = "not run"
    elif chk.get("exit") == 1 and chk.get("violation_lines"):
        weak = all("no-failing-input-found" in l for l in chk["violation_lines"])
        verdict = "DETECTED (no-failing-input-found)" if weak else "DETECTED, concrete failing input"
    else:
        verdict = "MISSED"
    rows.append((name, m.get("property", "?"), (m.get("summary") or "").replace("\n", " ")[:160],
                 (m.get("needs_to_manifest") or "").replace("\n", " ")[:160], "yes" if c.get("kept") else "NO", verdict,
                 c.get("repo_head", "")))
out = ["# Seeded property-breaking changes\n",
       "Each directory holds `patch.diff`, the demonstration and `meta.json` (what it breaks, what it needs to manifest, how it was",
       "confirmed: patch applies, touched packages build, their existing tests pass with the patch, the demonstration fails with it and",
       "passes without it - all in a scratch worktree).  `check` = the property's quick check run against the patched worktree",
       "(`VERIF_REPO=<worktree> python3 tools/check.py <ID>`), as recorded by `tools/seed_ingest.py --check` / later re-runs.\n",
       "| seed | property | change | needs to manifest | confirmed | check result | repo HEAD at confirmation |", "|---|---|---|---|---|---|---|"]
for r in rows:
    out.append("| " + " | ".join(x.replace("|", "\\|") for x in r) + " |")
n = len(rows)
det = sum(1 for r in rows if r[5].startswith("DETECTED"))
out.append("\n%d seeded changes, %d detected by the property's check at last recorded run.\n" % (n, det))
open(os.path.join(ROOT, "seeded", "README.md"), "w").write("\n".join(out))
print("seeded/README.md: %d seeds, %d detected" % (n, det))
