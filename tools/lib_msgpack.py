"""MessagePack AST helpers for C02 (area MsgPack): the width-tagged AST used by the Coq model
(Arc.MsgPack.Model.ast), its byte encoder (independent of the Go library), the Coq printer.

AST (python tuples):
  ("nil",) ("bool", b) ("int", kind, z) ("f32", bits) ("f64", bits) ("str", bytes) ("bin", bytes)
  ("arr", [ast]) ("map", [(ast, ast)]) ("ext", id, bytes)
kind in KINDS: the wire encoding of an integer, which decides how the generic decoder boxes it.
String / array / map / bin / ext header widths do not change what either decoder sees, so they
are not part of the AST; the encoder picks one of the valid headers at random.
"""
import struct

KINDS = ["fix", "i8", "i16", "i32", "i64", "u8", "u16", "u32", "u64"]
KIND_COQ = {"fix": "KFix", "i8": "KI8", "i16": "KI16", "i32": "KI32", "i64": "KI64",
            "u8": "KU8", "u16": "KU16", "u32": "KU32", "u64": "KU64"}
KIND_RANGE = {"fix": (-32, 127), "i8": (-128, 127), "i16": (-2 ** 15, 2 ** 15 - 1), "i32": (-2 ** 31, 2 ** 31 - 1),
              "i64": (-2 ** 63, 2 ** 63 - 1), "u8": (0, 255), "u16": (0, 65535), "u32": (0, 2 ** 32 - 1),
              "u64": (0, 2 ** 64 - 1)}

NIL = ("nil",)


def S(s):
    return ("str", s.encode() if isinstance(s, str) else bytes(s))


def I(z, kind=None):
    if kind is None:
        kind = min_kind(z)
    lo, hi = KIND_RANGE[kind]
    assert lo <= z <= hi, (kind, z)
    return ("int", kind, z)


def min_kind(z):
    if -32 <= z <= 127:
        return "fix"
    if z >= 0:
        for k in ("u8", "u16", "u32", "u64"):
            if z <= KIND_RANGE[k][1]:
                return k
    for k in ("i8", "i16", "i32", "i64"):
        if KIND_RANGE[k][0] <= z:
            return k
    raise ValueError(z)


def kinds_for(z):
    return [k for k in KINDS if KIND_RANGE[k][0] <= z <= KIND_RANGE[k][1]]


def F64(x):
    return ("f64", struct.unpack(">Q", struct.pack(">d", x))[0])


def F32(x):
    return ("f32", struct.unpack(">I", struct.pack(">f", x))[0])


def A(*items):
    return ("arr", list(items))


def M(*pairs):
    return ("map", [(S(k) if isinstance(k, str) else k, v) for k, v in pairs])


class MinRng:
    """rng stand-in that always picks the smallest header"""

    def choice(self, seq):
        return seq[0]


def _hdr(n, rng, opts):
    """opts: [(limit, maker)] ordered from smallest; pick any whose limit admits n"""
    ok = [mk for lim, mk in opts if n <= lim]
    return rng.choice(ok)(n)


def encode(a, rng=None):
    rng = rng or MinRng()
    t = a[0]
    if t == "nil":
        return b"\xc0"
    if t == "bool":
        return b"\xc3" if a[1] else b"\xc2"
    if t == "int":
        k, z = a[1], a[2]
        if k == "fix":
            return struct.pack("b", z)
        code = {"i8": (0xd0, "b"), "i16": (0xd1, ">h"), "i32": (0xd2, ">i"), "i64": (0xd3, ">q"),
                "u8": (0xcc, "B"), "u16": (0xcd, ">H"), "u32": (0xce, ">I"), "u64": (0xcf, ">Q")}[k]
        return bytes([code[0]]) + struct.pack(code[1], z)
    if t == "f32":
        return b"\xca" + struct.pack(">I", a[1])
    if t == "f64":
        return b"\xcb" + struct.pack(">Q", a[1])
    if t == "str":
        s = a[1]
        h = _hdr(len(s), rng, [(31, lambda n: bytes([0xa0 | n])), (255, lambda n: bytes([0xd9, n])),
                                (65535, lambda n: b"\xda" + struct.pack(">H", n)),
                                (2 ** 32 - 1, lambda n: b"\xdb" + struct.pack(">I", n))])
        return h + s
    if t == "bin":
        s = a[1]
        h = _hdr(len(s), rng, [(255, lambda n: bytes([0xc4, n])), (65535, lambda n: b"\xc5" + struct.pack(">H", n)),
                                (2 ** 32 - 1, lambda n: b"\xc6" + struct.pack(">I", n))])
        return h + s
    if t == "arr":
        h = _hdr(len(a[1]), rng, [(15, lambda n: bytes([0x90 | n])), (65535, lambda n: b"\xdc" + struct.pack(">H", n)),
                                   (2 ** 32 - 1, lambda n: b"\xdd" + struct.pack(">I", n))])
        return h + b"".join(encode(x, rng) for x in a[1])
    if t == "map":
        h = _hdr(len(a[1]), rng, [(15, lambda n: bytes([0x80 | n])), (65535, lambda n: b"\xde" + struct.pack(">H", n)),
                                   (2 ** 32 - 1, lambda n: b"\xdf" + struct.pack(">I", n))])
        return h + b"".join(encode(k, rng) + encode(v, rng) for k, v in a[1])
    if t == "ext":
        eid, data = a[1], a[2]
        n = len(data)
        opts = []
        fixed = {1: 0xd4, 2: 0xd5, 4: 0xd6, 8: 0xd7, 16: 0xd8}
        if n in fixed:
            opts.append(bytes([fixed[n]]))
        if n <= 255:
            opts.append(bytes([0xc7, n]))
        if n <= 65535:
            opts.append(b"\xc8" + struct.pack(">H", n))
        opts.append(b"\xc9" + struct.pack(">I", n))
        return rng.choice(opts) + struct.pack("b", eid) + data
    raise ValueError(a)


def strings_of(a, acc=None):
    """every str leaf (the sanitiser's possible inputs)"""
    if acc is None:
        acc = set()
    t = a[0]
    if t == "str":
        acc.add(a[1])
    elif t == "arr":
        for x in a[1]:
            strings_of(x, acc)
    elif t == "map":
        for k, v in a[1]:
            strings_of(k, acc)
            strings_of(v, acc)
    return acc


def size(a):
    t = a[0]
    if t == "arr":
        return 1 + sum(size(x) for x in a[1])
    if t == "map":
        return 1 + sum(size(k) + size(v) for k, v in a[1])
    return 1


# ---- Coq printing ---------------------------------------------------------------------

def cbytes(b):
    return "[" + ";".join("%d" % x for x in b) + "]%N" if b else "[]"


def to_coq(a):
    t = a[0]
    if t == "nil":
        return "MNil"
    if t == "bool":
        return "(MBool %s)" % ("true" if a[1] else "false")
    if t == "int":
        return "(MInt %s (%d))" % (KIND_COQ[a[1]], a[2])
    if t == "f32":
        return "(MF32 %d%%N)" % a[1]
    if t == "f64":
        return "(MF64 %d%%N)" % a[1]
    if t == "str":
        return "(MStr %s)" % cbytes(a[1])
    if t == "bin":
        return "(MBin %s)" % cbytes(a[1])
    if t == "arr":
        return "(MArr [" + ";".join(to_coq(x) for x in a[1]) + "])"
    if t == "map":
        return "(MMap [" + ";".join("(%s,%s)" % (to_coq(k), to_coq(v)) for k, v in a[1]) + "])"
    if t == "ext":
        return "(MExt (%d) %s)" % (a[1], cbytes(a[2]))
    raise ValueError(a)


def to_json(a):
    t = a[0]
    if t in ("str", "bin"):
        return [t, a[1].hex()]
    if t == "arr":
        return [t, [to_json(x) for x in a[1]]]
    if t == "map":
        return [t, [[to_json(k), to_json(v)] for k, v in a[1]]]
    if t == "ext":
        return [t, a[1], a[2].hex()]
    return list(a)


def from_json(j):
    t = j[0]
    if t in ("str", "bin"):
        return (t, bytes.fromhex(j[1]))
    if t == "arr":
        return (t, [from_json(x) for x in j[1]])
    if t == "map":
        return (t, [(from_json(k), from_json(v)) for k, v in j[1]])
    if t == "ext":
        return (t, j[1], bytes.fromhex(j[2]))
    return tuple(j)


# ---- independent byte -> AST parser (first value only; None when the bytes are not a complete value) ----

class _Trunc(Exception):
    pass


def parse(data):
    """Parse the first msgpack value of `data`; returns (ast, consumed) or None when truncated /
    invalid (code 0xc1).  Independent of the Go library; used to classify mutated byte strings."""
    pos = 0

    def need(n):
        nonlocal pos
        if pos + n > len(data):
            raise _Trunc()
        b = data[pos:pos + n]
        pos += n
        return b

    def val(depth=0):
        if depth > 200:
            raise _Trunc()
        c = need(1)[0]
        if c <= 0x7f:
            return ("int", "fix", c)
        if c >= 0xe0:
            return ("int", "fix", c - 256)
        if 0x80 <= c <= 0x8f:
            return mp(c & 0xf, depth)
        if 0x90 <= c <= 0x9f:
            return arr(c & 0xf, depth)
        if 0xa0 <= c <= 0xbf:
            return ("str", bytes(need(c & 0x1f)))
        if c == 0xc0:
            return ("nil",)
        if c == 0xc1:
            raise _Trunc()
        if c == 0xc2:
            return ("bool", False)
        if c == 0xc3:
            return ("bool", True)
        if c in (0xc4, 0xc5, 0xc6):
            n = int.from_bytes(need(1 << (c - 0xc4)), "big")
            return ("bin", bytes(need(n)))
        if c in (0xc7, 0xc8, 0xc9):
            n = int.from_bytes(need(1 << (c - 0xc7)), "big")
            eid = struct.unpack("b", need(1))[0]
            return ("ext", eid, bytes(need(n)))
        if c == 0xca:
            return ("f32", int.from_bytes(need(4), "big"))
        if c == 0xcb:
            return ("f64", int.from_bytes(need(8), "big"))
        if c in (0xcc, 0xcd, 0xce, 0xcf):
            k = ["u8", "u16", "u32", "u64"][c - 0xcc]
            return ("int", k, int.from_bytes(need(1 << (c - 0xcc)), "big"))
        if c in (0xd0, 0xd1, 0xd2, 0xd3):
            k = ["i8", "i16", "i32", "i64"][c - 0xd0]
            return ("int", k, int.from_bytes(need(1 << (c - 0xd0)), "big", signed=True))
        if c in (0xd4, 0xd5, 0xd6, 0xd7, 0xd8):
            n = 1 << (c - 0xd4)
            eid = struct.unpack("b", need(1))[0]
            return ("ext", eid, bytes(need(n)))
        if c in (0xd9, 0xda, 0xdb):
            n = int.from_bytes(need(1 << (c - 0xd9)), "big")
            return ("str", bytes(need(n)))
        if c in (0xdc, 0xdd):
            return arr(int.from_bytes(need(2 if c == 0xdc else 4), "big"), depth)
        if c in (0xde, 0xdf):
            return mp(int.from_bytes(need(2 if c == 0xde else 4), "big"), depth)
        raise _Trunc()

    def arr(n, depth):
        if n > len(data):
            raise _Trunc()
        return ("arr", [val(depth + 1) for _ in range(n)])

    def mp(n, depth):
        if n > len(data):
            raise _Trunc()
        out = []
        for _ in range(n):
            k = val(depth + 1)
            v = val(depth + 1)
            out.append((k, v))
        return ("map", out)

    try:
        a = val()
    except _Trunc:
        return None
    return a, pos
