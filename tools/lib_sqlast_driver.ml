(* Driver of the extracted SqlAst model (C14, C16).  Reads correspondence cases, one per line, from the
   file named on the command line; byte strings are hex text ("-" = empty):

     fixbits sql hdr kind code name exec|! nchecked (db m)* nreads (db m)* nexisting (db m)*

   ("!" = nothing was executed).  Evaluates Arc.SqlAst.Model.read_case_flags (extracted with
   ExtrOcamlBasic only; N/positive stay Coq datatypes) and prints the bit mask as a decimal number, one
   line per case.  Nothing else is computed here. *)
open Sqlast_model

let rec pos_of_int i =
  if i = 1 then XH else if i land 1 = 0 then XO (pos_of_int (i lsr 1)) else XI (pos_of_int (i lsr 1))
let n_of_int i = if i = 0 then N0 else Npos (pos_of_int i)
let rec int_of_pos p = match p with XH -> 1 | XO q -> 2 * int_of_pos q | XI q -> 2 * int_of_pos q + 1
let int_of_n n = match n with N0 -> 0 | Npos p -> int_of_pos p
let table = Array.init 256 n_of_int

let hexv c =
  match c with
  | '0' .. '9' -> Stdlib.Char.code c - 48
  | 'a' .. 'f' -> Stdlib.Char.code c - 87
  | _ -> failwith "bad hex"

let bytes_of_hex (h : Stdlib.String.t) : n list =
  if h = "-" then []
  else begin
    let len = Stdlib.String.length h / 2 in
    let rec go i acc = if i < 0 then acc else go (i - 1) (table.(16 * hexv h.[2 * i] + hexv h.[2 * i + 1]) :: acc) in
    go (len - 1) []
  end

let () =
  let ic = open_in Sys.argv.(1) in
  let out = Buffer.create 65536 in
  (try
     while true do
       let line = input_line ic in
       let f = Array.of_list (Stdlib.String.split_on_char ' ' line) in
       let h i = bytes_of_hex f.(i) in
       let pos = ref 7 in
       let refs () =
         let n = int_of_string f.(!pos) in
         let l = List.init n (fun k -> (h (!pos + 1 + 2 * k), h (!pos + 2 + 2 * k))) in
         pos := !pos + 1 + 2 * n;
         l in
       let checked = refs () in
       let reads = refs () in
       let existing = refs () in
       let g = { g_fix = n_of_int (int_of_string f.(0)); g_sql = h 1; g_hdr = h 2; g_kind = n_of_int (int_of_string f.(3));
                 g_code = n_of_int (int_of_string f.(4)); g_name = h 5; g_checked = checked;
                 g_exec = (if f.(6) = "!" then None else Some (h 6)) } in
       let c = { r_gate = g; r_reads = reads; r_existing = existing } in
       Buffer.add_string out (string_of_int (int_of_n (read_case_flags c)));
       Buffer.add_char out '\n'
     done
   with End_of_file -> ());
  print_string (Buffer.contents out)
