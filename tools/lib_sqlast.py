"""Shared machinery of the SqlAst checks (C14, C16): the planted data set, the call of the
HTTP-level harness (harness/sqlast/query_verif_test.go, tags "verif duckdb_arrow"), the
classification of what the real handler did, and the printing of correspondence cases as terms
of Arc.SqlAst.Model."""
import json
import os
import re

import vlib

HARNESS = {"internal/api/zz_sqlast_verif_test.go": "harness/sqlast/query_verif_test.go"}
PKG = "./internal/api/"
TEST = "^TestVerifSqlAst$"
TAGS = "verif duckdb_arrow"
ROOT_TOKEN = "{ROOT}"
MODEL_ROOT = "/R"

HEADER = ("From Coq Require Import String.\nFrom Coq Require Import List NArith Bool.\n"
          "From Arc Require Import SqlLex.Model SqlAst.Model.\nImport ListNotations.\nOpen Scope N_scope.\nOpen Scope string_scope.\n")

# ---------------------------------------------------------------------------------------
# data set: databases default / db1 / db2; the caller is normally allowed db1 only
# ---------------------------------------------------------------------------------------
MEASUREMENTS = [("default", "cpu"), ("default", "mem"), ("db1", "cpu"), ("db1", "mem"), ("db1", "CPU"), ("db1", "pg_metrics"),
                ("db2", "secret"), ("db2", "cpu"), ("db2", "pg_audit"), ("db2", "2024x")]
# measurements whose names are NOT plain identifiers: the name scanners of the converters and the patterns of the
# permission check must cut such text at the same byte (they live in the caller's own database db1: a statement that
# reads one of them after a check of another name is a leak whichever side moved)
BOUNDARY_NAMES = ["cpu-archive", "cpu$old", "cpu#1", "cpu:1", "cpu\u00e9", "cpu.old", "2024x", "9cpu"]
BOUNDARY_PLANTED = ["cpu-archive", "cpu$old", "cpu\u00e9", "cpu.old", "2024x"]      # the others only as text (model vs implementation)
MEASUREMENTS += [("db1", n) for n in BOUNDARY_PLANTED]
PLAIN = re.compile(r"[A-Za-z_]\w*$", re.A)



def marker_value(db, m):
    return "%s.%s#" % (db, m)


def marker_column(db, m):
    return "k_%s_%s" % (db, re.sub(r"\W", lambda x: "_%x" % ord(x.group(0)), m, flags=re.A))


def dataset_files(rng=None, nfiles=2):
    """Files per measurement in different hour/day partitions; ids overlap between measurements (joins
    produce rows); v is nullable; later files have one more column (w): read_parquet(union_by_name)
    must merge.  With an rng: random row counts, values, NULL positions and file counts.
    Columns: id BIGINT, host VARCHAR, v BIGINT (nullable), tag VARCHAR (canary value),
    k_<db>_<m> BIGINT (canary column name)."""
    files = []
    hours = ["2024/01/01/00", "2024/01/02/05", "2024/02/10/23"]
    for mi, (db, m) in enumerate(MEASUREMENTS):
        nf = nfiles if rng is None else rng.choice([1, 2, 2, 3])
        for fi in range(nf):
            rows = []
            nrows = 3 if rng is None else rng.randint(1, 4)
            for i in range(nrows):
                rid = fi * 10 + i
                host = "h%d" % ((i + fi) % 3)
                if rng is None:
                    v = "NULL" if (i == 1 and fi == 0) else str(((mi * 100 + rid) * 7) % 50)
                else:
                    v = "NULL" if rng.random() < 0.25 else str(rng.randint(-5, 60))
                rows.append("(%d, '%s', %s, '%s%d')" % (rid, host, v, marker_value(db, m), rid))
            extra = ", id * 2 AS w" if fi >= 1 else ""
            sel = ("SELECT id, host, CAST(v AS BIGINT) AS v, tag, id + %d AS %s%s FROM (VALUES %s) t(id, host, v, tag)"
                   % (mi * 100, marker_column(db, m), extra, ", ".join(rows)))
            files.append({"path": "%s/%s/%s/f%d.parquet" % (db, m, hours[fi % len(hours)], fi), "select": sel})
    return files


def measures():
    return ["%s/%s" % x for x in MEASUREMENTS]


def markers():
    return [marker_value(db, m) for db, m in MEASUREMENTS] + [marker_column(db, m) for db, m in MEASUREMENTS]


def reference_views():
    """plain-DuckDB instances for C16: instance "" (no header) resolves bare names in database
    `default`; instance "<db>" resolves them in <db>; every database is also a schema."""
    views = []
    for inst in ["", "db1", "db2"]:
        bare_db = inst or "default"
        for db, m in MEASUREMENTS:
            if m != m.lower() or not PLAIN.match(m):
                continue                      # DuckDB's catalog is case-insensitive: db1.CPU would clash with db1.cpu
            glob = "%s/%s/**/*.parquet" % (db, m)
            views.append({"inst": inst, "schema": db, "name": m, "glob": glob})
            if db == bare_db:
                views.append({"inst": inst, "schema": "", "name": m, "glob": glob})
    return views


# which of the repairs of /verif/fixes/C14_*.patch the current source has: detected on every run from the
# handler's behaviour on these probe statements (bit i of FIXBITS = fx_of_bits in SqlAst/Model.v)
PROBES = [
    ("header-cte-names-same-pattern", "WITH\nvq9 AS (SELECT 1 AS one) SELECT * FROM vq9", "db1"),
    ("dedup-refs-exact-case", "SELECT a.id FROM cpu a JOIN CPU b ON a.id = b.id", "db1"),
    ("table-position-scanner", 'SELECT 1 FROM db1.cpu UNION ALL TABLE "a/b"', ""),
    ("io-denylist-sql-text-functions", "SELECT * FROM query('SELECT 1')", ""),
    ("no-raw-text-fast-paths", "SELECT 1 -- read_parquet", ""),
    ("reject-backslash-before-quote", "SELECT 'a\\' , 'b'", ""),
    ("single-table-fast-path-keywords", "SELECT a.id FROM cpu a WHERE a.id IN (SELECT id\nFROM\nmem b)", "db1"),
    ("quoted-cte-declaration", "WITH \"vq8\" AS (SELECT 1 AS one) SELECT * FROM vq8", ""),
    ("quote-scanning-backtick-estring", "SELECT E'a\\'' AS a", ""),
    ("fast-path-name-seen-by-check", "SELECT * FROM 2024x", "db1"),
    ("reserved-placeholder-text", "SELECT '__STR_9__' AS a", ""),
]
# the repair of GET /api/v1/query/:measurement (fixes/C14_query_measurement_checks_all_references.patch) is outside
# the gate model: detected here, used by the oracle's classification only
MEASUREMENT_PROBE = ("id >= (SELECT min(id) FROM db2.secret)", "db1", "cpu")
MEASUREMENT_FIXED = False
# ... and of its permission check taking the x-arc-database header although the endpoint transforms without one
# (fixes/C14_query_measurement_ignores_header_override.patch): (where, database, measurement, x-arc-database)
MEASUREMENT_HDR_PROBE = ("id >= (SELECT min(id) FROM mem)", "db1", "cpu", "db1")
MEASUREMENT_HDR_FIXED = False
FIXBITS = 0


def detect_fixes(outs):
    o = outs
    bits = 0
    if o[0].get("executed") is not None and "read_parquet" not in o[0]["executed"]:
        bits |= 1
    if len(o[1].get("checked") or []) == 2:
        bits |= 2
    if o[2].get("status") == 400 and "Quoted identifier in table position" in (o[2].get("err") or ""):
        bits |= 4
    if o[3].get("status") == 400 and "File I/O function" in (o[3].get("err") or ""):
        bits |= 8
    if o[4].get("executed") is not None and o[4]["executed"] != PROBES[4][1]:
        bits |= 16
    if o[5].get("status") == 400 and "Backslash before a quote" in (o[5].get("err") or ""):
        bits |= 32
    if o[6].get("executed") is not None and o[6]["executed"].count("read_parquet(") == 2:
        bits |= 64
    if o[7].get("executed") is not None and "read_parquet" not in o[7]["executed"]:
        bits |= 128
    if o[8].get("status") == 400 and "Backslash before a quote" in (o[8].get("err") or ""):
        bits |= 256
    if o[9].get("executed") is not None and "read_parquet" not in o[9]["executed"]:
        bits |= 512
    if o[10].get("status") == 400 and "Reserved placeholder text" in (o[10].get("err") or ""):
        bits |= 1024
    return bits


def fix_names(bits=None):
    bits = FIXBITS if bits is None else bits
    return [PROBES[i][0] for i in range(len(PROBES)) if bits >> i & 1] + (["query-measurement-checks-all-references"] if MEASUREMENT_FIXED else []) + (
        ["query-measurement-ignores-header-override"] if MEASUREMENT_HDR_FIXED else [])


def run_cases(pid, cases, tag, files=None, views=None, timeout=2400):
    """runs the cases (plus the probe statements) through the harness; sets FIXBITS"""
    global FIXBITS, MEASUREMENT_FIXED, MEASUREMENT_HDR_FIXED
    probes = [mk_case(sql, hdr, allow=["*"], reads=False) for _, sql, hdr in PROBES]
    probes.append(dict(mk_case(MEASUREMENT_HDR_PROBE[0], MEASUREMENT_HDR_PROBE[1], allow=["db1"], reads=False), ep="measurement",
                       meas=MEASUREMENT_HDR_PROBE[2], xhdr=MEASUREMENT_HDR_PROBE[3]))
    probes.append(dict(mk_case(MEASUREMENT_PROBE[0], MEASUREMENT_PROBE[1], allow=["db1"], reads=False), ep="measurement", meas=MEASUREMENT_PROBE[2]))
    inp = {"files": files if files is not None else dataset_files(), "measures": measures(), "markers": markers(),
           "views": views or [], "cases": probes + list(cases)}
    outs = vlib.run_go_harness(pid, PKG, TEST, HARNESS, inp, tags=TAGS, timeout=timeout, tag=tag)
    FIXBITS = detect_fixes(outs[:len(probes)])
    MEASUREMENT_FIXED = outs[len(probes) - 1].get("status") == 403
    MEASUREMENT_HDR_FIXED = outs[len(probes) - 2].get("status") == 403
    return outs[len(probes):]


def mk_case(sql, hdr="", ep="query", allow=("db1",), reads=True, ref=False, twice=False, pre=None):
    """sql is text (str); bytes >= 0x80 only through valid UTF-8.  pre: [(sql, hdr, allow)] sent to the same
    handler instance immediately before (request sequences within the transform-cache TTL)."""
    return {"sql": sql, "hdr": hdr, "ep": ep, "allow": list(allow), "reads": reads, "ref": ref, "twice": twice,
            "pre": [{"sql": a, "hdr": b, "allow": list(c)} for a, b, c in (pre or [])]}


# ---------------------------------------------------------------------------------------
# classification of the handler's behaviour
# ---------------------------------------------------------------------------------------
REJECTS = [
    (1, "SQL query is required"), (2, "SQL query exceeds maximum length"), (3, "Multiple SQL statements are not allowed"),
    (4, "Dangerous SQL operation not allowed"), (5, "File I/O function not allowed in user SQL: "),
    (6, "String literal not allowed in table position"), (7, "Quoted identifier in table position is not a valid"),
    (8, "invalid x-arc-database header"), (9, "Cross-database queries"), (10, "invalid database name"),
    (11, "Backslash before a quote is not supported"), (12, "Reserved placeholder text"),
]


def classify(o):
    """-> dict(kind, code, name, checked, executed)  (see gate_case in SqlAst/Model.v);
    kind -1 = the response does not fit any modelled behaviour."""
    checked = [(c[0], c[1]) for c in (o.get("checked") or [])]
    perms = {c[2] for c in (o.get("checked") or [])}
    err = o.get("err") or ""
    res = {"kind": -1, "code": 0, "name": "", "checked": checked, "executed": o.get("executed"), "perms": sorted(perms)}
    if o.get("executed") is not None:
        res["kind"] = 3
        return res
    st = o.get("status")
    if st == 400:
        for code, msg in REJECTS:
            if msg in err:
                res["kind"], res["code"] = 0, code
                if code == 5:
                    res["name"] = err.split(msg, 1)[1].rstrip().rstrip(")").rstrip("(").lower()
                elif code == 7:
                    res["name"] = err.split("(replacement scans are disabled): ", 1)[1] if "(replacement scans are disabled): " in err else ""
                return res
        return res
    if st == 403:
        if "to list databases" in err:
            res["kind"] = 1
        elif "for database '" in err:
            res["kind"] = 2
            res["name"] = err.split("for database '", 1)[1].rsplit("'", 1)[0]
        elif "access denied: no " in err:
            res["kind"] = 3
        return res
    if st == 200 and checked == [("*", "*")]:
        res["kind"] = 1
    elif st == 200 and len(checked) == 1 and checked[0][1] == "*":
        res["kind"], res["name"] = 2, checked[0][0]
    return res


def hx(b):
    if isinstance(b, str):
        b = b.encode("utf-8", "surrogateescape")
    return '(hx "%s")' % b.hex()


def model_sql(sql):
    return sql.replace(ROOT_TOKEN, MODEL_ROOT)


def gate_term(case, cl):
    chk = "[" + "; ".join("(%s, %s)" % (hx(a), hx(b)) for a, b in cl["checked"]) + "]"
    ex = "None" if cl["executed"] is None else "(Some %s)" % hx(cl["executed"])
    return ("{| g_fix := %d; g_sql := %s; g_hdr := %s; g_kind := %d; g_code := %d; g_name := %s; g_checked := %s; g_exec := %s |}"
            % (FIXBITS, hx(model_sql(case["sql"])), hx(case["hdr"]), max(cl["kind"], 0) if cl["kind"] >= 0 else 99, cl["code"],
               hx(cl["name"]), chk, ex))


def eval_gate(pid, cases, outs, name="Gate"):
    """-> (classes, indices where model and implementation disagree)"""
    cls = [classify(o) for o in outs]
    terms = [gate_term(c, cl) for c, cl in zip(cases, cls)]
    r = vlib.coq_check_cases(pid, HEADER, "gate_case", terms, {"agree": "gate_case_agrees"}, chunk=400, name=name)
    return cls, set(r["agree"])


# ---------------------------------------------------------------------------------------
# bulk evaluation of the model: OCaml extraction of read_case_flags (cross-checked by coqc)
# ---------------------------------------------------------------------------------------
FLAG_NAMES = ["agree", "in_grammar", "pathlike_free", "hdr_ctes_ok", "slow_path", "in_domain", "reads_agree", "oracle_ci",
              "oracle_exact", "reads_exact"]
EXTRACT_V = """From Coq Require Import String.
From Coq Require Import List NArith Bool.
From Arc Require Import SqlLex.Model SqlAst.Model.
Require Extraction.
Require Import ExtrOcamlBasic.
Extraction Language OCaml.
Extraction "sqlast_model.ml" read_case_flags.
"""


def build_runner():
    import hashlib
    import shutil
    vo = os.path.join(vlib.COQ, "theories", "SqlAst", "Model.vo")
    drv = os.path.join(vlib.ROOT, "tools", "lib_sqlast_driver.ml")
    if not os.path.exists(vo):
        raise vlib.InfraError("SqlAst/Model.vo missing (Coq build failed?)")
    hsh = hashlib.sha1(open(vo, "rb").read() + open(drv, "rb").read() + EXTRACT_V.encode()).hexdigest()[:12]
    exe = os.path.join(vlib.BIN, "sqlast_run_" + hsh)
    if os.path.exists(exe):
        return exe
    with vlib.Lock("sqlast_run"):
        if os.path.exists(exe):
            return exe
        d = os.path.join(vlib.WORK, "extract", "SqlAst_" + hsh)
        os.makedirs(d, exist_ok=True)
        open(os.path.join(d, "Extract.v"), "w").write(EXTRACT_V)
        rc, out = vlib.sh(["timeout", "600", "coqc", "-noglob", "-Q", os.path.join(vlib.COQ, "theories"), "Arc", "Extract.v"], cwd=d, timeout=630)
        if rc != 0 or not os.path.exists(os.path.join(d, "sqlast_model.ml")):
            raise vlib.InfraError("extraction failed: " + out[-2000:])
        shutil.copyfile(drv, os.path.join(d, "driver.ml"))
        os.makedirs(vlib.BIN, exist_ok=True)
        for opt in (["-O3"], []):
            rc, out = vlib.sh(["timeout", "600", "ocamlfind", "ocamlopt"] + opt + ["-w", "-a", "sqlast_model.mli", "sqlast_model.ml", "driver.ml", "-o", exe + ".tmp"],
                              cwd=d, timeout=630)
            if rc == 0:
                break
        if rc != 0:
            raise vlib.InfraError("cannot build the extracted model runner: " + out[-2000:])
        os.replace(exe + ".tmp", exe)
    return exe


def hexs(b):
    if isinstance(b, str):
        b = b.encode("utf-8", "surrogateescape")
    return b.hex() or "-"


def ref_list(pairs):
    return "[" + "; ".join("(%s, %s)" % (hx(a), hx(b)) for a, b in pairs) + "]"


def read_term(case, cl, reads):
    return "{| r_gate := %s; r_reads := %s; r_existing := %s |}" % (gate_term(case, cl), ref_list(reads), ref_list(MEASUREMENTS))


def case_line(case, cl, reads):
    f = [str(FIXBITS), hexs(model_sql(case["sql"])), hexs(case["hdr"]), str(cl["kind"] if cl["kind"] >= 0 else 99), str(cl["code"]), hexs(cl["name"]),
         "!" if cl["executed"] is None else hexs(cl["executed"])]
    for lst in (cl["checked"], reads, MEASUREMENTS):
        f.append(str(len(lst)))
        for a, b in lst:
            f += [hexs(a), hexs(b)]
    return " ".join(f)


def decode_flags(v):
    return {nm: bool(v >> k & 1) for k, nm in enumerate(FLAG_NAMES)}


def eval_flags(pid, cases, outs, name, cross=24):
    """-> (classes, flags per case).  Bulk values come from the extracted model; the first `cross`
    cases (the witnesses) and a spread sample are re-evaluated by vm_compute inside coqc and must agree."""
    import time
    cls = [classify(o) for o in outs]
    reads = [[tuple(x.split("/", 1)) for x in (o.get("readset") or [])] for o in outs]
    if not cases:
        return cls, []
    d = os.path.join(vlib.WORK, "cases", pid)
    os.makedirs(d, exist_ok=True)
    fn = os.path.join(d, name + ".lines")
    with open(fn, "w") as f:
        for c, cl, r in zip(cases, cls, reads):
            f.write(case_line(c, cl, r) + "\n")
    t0 = time.time()
    rc, out = vlib.sh(["timeout", "900", build_runner(), fn], timeout=930)
    rows = out.split()
    vlib.log("model runner %s (%d cases): rc=%d in %.1fs" % (name, len(cases), rc, time.time() - t0))
    if rc != 0 or len(rows) != len(cases):
        raise vlib.InfraError("extracted model runner failed on %s: %s" % (name, out[-1500:]))
    vals = [int(x) for x in rows]
    idx = list(range(min(cross, len(cases))))
    step = max(1, len(cases) // max(cross // 2, 1))
    idx += [i for i in range(cross, len(cases), step)][:cross // 2]
    idx = [i for i in idx if len(cases[i]["sql"]) < 260] or idx[:5]
    src = HEADER + "Definition verif_cases : list read_case := [\n%s].\n" % ";\n".join(read_term(cases[i], cls[i], reads[i]) for i in idx)
    src += "Definition verif_flags := Eval vm_compute in map read_case_flags verif_cases.\nPrint verif_flags.\n"
    rc, out = vlib.coq_eval(pid, name + "_cross", src, timeout=1500)
    m = re.search(r"verif_flags\s*=\s*(\[[^\]]*\]|nil)", out)
    got = [int(x) for x in re.findall(r"\d+", m.group(1))] if (rc == 0 and m) else None
    if got is None or got != [vals[i] for i in idx]:
        raise vlib.InfraError("extracted runner and coqc vm_compute disagree (or coqc failed): %s vs %s\n%s" % (
            got, [vals[i] for i in idx], out[-800:]))
    return cls, [decode_flags(v) for v in vals], len(idx)


# ---------------------------------------------------------------------------------------
# statement generator: a small tree grammar printed with disguises
# ---------------------------------------------------------------------------------------
EXISTING = {"%s/%s" % x for x in MEASUREMENTS}
CANARY_GLOB = ROOT_TOKEN + "/db2/secret/*/*/*/*/*.parquet"
CANARY_GLOB2 = ROOT_TOKEN + "/db2/secret/**/*.parquet"
JOIN_KINDS = ["JOIN", "INNER JOIN", "LEFT JOIN", "LEFT OUTER JOIN", "RIGHT JOIN", "FULL OUTER JOIN", "CROSS JOIN",
              "NATURAL JOIN", "SEMI JOIN", "ANTI JOIN", "ASOF JOIN", "POSITIONAL JOIN", "NATURAL LEFT JOIN", "JOIN LATERAL",
              "CROSS JOIN LATERAL", "LEFT JOIN LATERAL"]
NEEDS_ON = {"JOIN", "INNER JOIN", "LEFT JOIN", "LEFT OUTER JOIN", "RIGHT JOIN", "FULL OUTER JOIN", "SEMI JOIN", "ANTI JOIN",
            "JOIN LATERAL", "LEFT JOIN LATERAL"}


class Gen:
    """One generated statement.  `dirt` in [0,1]: how adversarial the disguises and shapes are."""

    def __init__(self, rng, hdr, dirt):
        self.rng, self.hdr, self.dirt = rng, hdr, dirt
        self.disguises = set()
        self.labels = set()
        self.items = []            # (kind, db, m, how) of every table-position item, in print order
        self.ctes = []
        self.alias_n = 0

    # -- lexical disguises ------------------------------------------------------------
    def gap(self):
        r = self.rng
        x = r.random()
        if x < 0.55:
            return " "
        self.disguises.add("gap")
        clean = ["  ", "\n", "\t", " \n ", " /* c */ ", " -- c\n", "\n-- from x.y\n", " /* from db2.secret */ ", "/**/", " /* a */ /* b */ "]
        dirty = [" /* ' */ ", " -- it's\n", " /* \" */ ", " -- $$\n", " /* read_parquet */ ", " -- read_parquet\n", " /* /* n */ */ ", "\r\n", "\f"]
        if r.random() < self.dirt * 0.5:
            self.disguises.add("dirty-comment")
            return r.choice(dirty)
        return r.choice(clean)

    def kw(self, w):
        x = self.rng.random()
        if x < 0.6:
            return w
        self.disguises.add("case")
        if x < 0.8:
            return w.lower()
        return "".join(c.upper() if self.rng.random() < 0.5 else c.lower() for c in w)

    def ident(self, w):
        """an identifier, possibly quoted"""
        x = self.rng.random()
        if x < 0.65:
            return w
        self.disguises.add("quoted-name")
        if x < 0.93 or self.dirt < 0.3:
            return '"%s"' % w
        self.disguises.add("backtick")
        return "`%s`" % w

    def value(self):
        r = self.rng
        plain = ["'h1'", "'x'", "'a b'", "1", "42", "'it''s'", "''"]
        tricky = ["'from db2.secret'", "'-- c'", "'/* c */'", "'a;b'", "$$q$$", "$t$ ' $t$", "E'a\\'b'", "'__STR_0__'", "'__IDENT_1__'",
                  "'read_csv(1)'", "'%s'" % CANARY_GLOB, "'join'"]
        nasty = ["'a\\'", "'read_parquet'", "'x\\' OR 1=1 --'"]
        x = r.random()
        if x < 0.6:
            return r.choice(plain)
        self.disguises.add("tricky-literal")
        if x < 0.92 or self.dirt < 0.5:
            return r.choice(tricky)
        self.labels.add("nasty-literal")
        return r.choice(nasty)

    def alias(self):
        self.alias_n += 1
        a = "t%d" % self.alias_n
        x = self.rng.random()
        if x < 0.5:
            return a, " " + a
        if x < 0.8:
            return a, self.gap() + self.kw("AS") + self.gap() + a
        self.disguises.add("quoted-alias")
        return a, " " + '"%s"' % a

    # -- table-position items ----------------------------------------------------------
    def pick_measurement(self, target=None):
        r = self.rng
        dbs = {"own": ["db1"], "foreign": ["db2"], "default": ["default"]}
        target = target or r.choice(["own"] * 5 + ["foreign"] * 2 + ["default"])
        db = dbs[target][0]
        m = r.choice([mm for d, mm in MEASUREMENTS if PLAIN.match(mm) and d == db and not mm.startswith("pg_")] + (["nosuch"] if r.random() < 0.05 else []))
        if r.random() < 0.04:
            m = {"db1": "pg_metrics", "db2": "pg_audit"}.get(db, m)      # a measurement on the skip list
        return db, m

    def name_item(self, target=None):
        r = self.rng
        db, m = self.pick_measurement(target)
        if self.ctes and r.random() < 0.25 and not (self.hdr == "" and r.random() < 0.4):
            c = r.choice(self.ctes)
            self.items.append(("cte", None, c, "from"))
            return self.ident(c) if r.random() < 0.2 else c
        qualify = (self.hdr == "" and db != "default") or (self.hdr != "" and r.random() < 0.08) or (self.hdr == "" and r.random() < 0.1)
        if self.hdr != "" and not qualify:
            db = self.hdr                       # an unqualified name means the header database
            m = r.choice([mm for d, mm in MEASUREMENTS if PLAIN.match(mm) and d == db and not mm.startswith("pg_")] or [m])
        if qualify:
            self.items.append(("name", db, m, "qualified"))
            sep = "." if r.random() < 0.93 else r.choice([" .", ". ", ".\n"])
            if sep != ".":
                self.disguises.add("spaced-dot")
            return self.ident(db) + sep + self.ident(m)
        self.items.append(("name", "default" if self.hdr == "" else self.hdr, m, "unqualified"))
        if r.random() < 0.06:
            self.disguises.add("case-name")
            m2 = m.upper() if m.islower() else m.lower()
            self.items[-1] = ("name", self.items[-1][1], m2, "unqualified")
            return m2
        return self.ident(m)

    def path_item(self):
        r = self.rng
        p = r.choice([CANARY_GLOB, CANARY_GLOB2, ROOT_TOKEN + "/db2/cpu/**/*.parquet"])
        how = r.choice(["dq", "dq", "sq", "sq", "dollar", "estr"])
        m = "secret" if "secret" in p else "cpu"
        self.items.append(("path", "db2", m, how))
        self.labels.add("path-item")
        return {"dq": '"%s"' % p, "sq": "'%s'" % p, "dollar": "$$%s$$" % p, "estr": "E'%s'" % p}[how]

    def func_item(self):
        r = self.rng
        f = r.choice(["read_parquet", "parquet_scan", "read_parquet", "glob", "query", "json_exec", "generate_series", "range", "read_csv_auto"])
        self.labels.add("func-item:" + f)
        spell = self.kw(f) if f not in ("json_exec",) else f
        if r.random() < 0.2 and f not in ("json_exec", "query", "generate_series", "range"):
            self.disguises.add("quoted-function")
            spell = '"%s"' % f
        sp = "" if r.random() < 0.7 else r.choice([" ", "\n", " /* c */ "])
        if f in ("generate_series", "range"):
            self.items.append(("func", None, f, "harmless"))
            return "%s%s(1, 3)" % (spell, sp)
        if f == "query":
            self.items.append(("func", "db2", "secret", "query"))
            return "query%s('SELECT * FROM ''%s''')" % (sp, CANARY_GLOB)
        if f == "json_exec":
            self.items.append(("func", "db2", "secret", "json_exec"))
            return "json_execute_serialized_sql(json_serialize_sql('TABLE \"%s\"'))" % CANARY_GLOB
        self.items.append(("func", "db2", "secret", f))
        return "%s%s('%s')" % (spell, sp, CANARY_GLOB2)

    def item(self, depth, allow_bad=True):
        r = self.rng
        x = r.random()
        bad = self.dirt * 0.35 if allow_bad else 0
        if x < bad * 0.5:
            return self.path_item()
        if x < bad * 0.8:
            return self.func_item()
        if x < bad * 0.8 + 0.15 and depth > 0:
            self.labels.add("subquery")
            return "(" + self.select(depth - 1) + ")"
        return self.name_item()

    # -- statements ------------------------------------------------------------------------
    def pred(self, depth):
        r = self.rng
        parts = []
        for _ in range(r.randint(1, 2)):
            col = r.choice(["id", "host", "v", "tag"])
            x = r.random()
            if x < 0.6:
                parts.append("%s %s %s" % (col, r.choice(["=", "<>", "<", ">="]), self.value()))
            elif x < 0.75:
                parts.append("%s IN (%s, %s)" % (col, self.value(), self.value()))
            elif x < 0.85 and depth > 0:
                self.labels.add("subquery")
                parts.append("id IN (%s)" % self.select(depth - 1, cols="id"))
            elif x < 0.93:
                self.disguises.add("from-function")
                parts.append("%s(%s %s %s) = 'a'" % (self.kw("substring"), col, self.kw("FROM"), "1"))
            else:
                parts.append("%s IS NOT NULL" % col)
        return (" " + r.choice(["AND", "OR"]) + " ").join(parts)

    def select(self, depth, cols=None):
        r = self.rng
        g = self.gap
        sel = cols or r.choice(["*", "*", "*", "count(*)", "id", "id, host", "max(v), %s" % self.value(), "'x' AS " + r.choice(["c", '"c d"', "read_parquet", '"a/*"', '"--"'])])
        if '"a/*"' in sel or '"--"' in sel:
            self.disguises.add("comment-marker-in-identifier")
        if "read_parquet" in sel and "'" not in sel.split("read_parquet")[0][-3:]:
            self.labels.add("read_parquet-word")
        out = self.kw("SELECT") + g() + sel + g() + self.kw("FROM") + g()
        first = self.item(depth)
        out += first
        if first.startswith("("):
            out += self.alias()[1]
        elif r.random() < 0.5:
            out += self.alias()[1]
        njoin = r.choice([0, 0, 1, 1, 2])
        for _ in range(njoin):
            x = r.random()
            if x < 0.15 + 0.2 * self.dirt:
                self.labels.add("comma-join")
                n0 = len(self.items)
                it = self.item(depth)
                for k in range(n0, n0 + 1):
                    if k < len(self.items):
                        self.items[k] = self.items[k][:3] + ("comma:" + self.items[k][3],)
                out += "," + g() + it + self.alias()[1]
                continue
            jk = r.choice(JOIN_KINDS)
            words = jk.split(" ")
            out += g() + g().join(self.kw(w) for w in words) + g()
            it = self.item(depth)
            if "LATERAL" in jk and it.startswith("("):
                self.labels.add("lateral-subquery")
            out += it + self.alias()[1]
            if jk in NEEDS_ON:
                out += g() + self.kw("ON") + " true"
            elif jk == "ASOF JOIN":
                out += g() + self.kw("USING") + " (id)"
        if r.random() < 0.5:
            out += g() + self.kw("WHERE") + g() + self.pred(depth)
        if r.random() < 0.15:
            out += g() + self.kw("LIMIT") + " 5"
        return out

    def with_stmt(self, depth):
        r = self.rng
        g = self.gap
        n = r.randint(1, 2)
        names = []
        out = self.kw("WITH")
        sep = g()
        if sep.strip(" ") != "" or sep == "":
            pass
        out += sep
        if not sep.startswith(" "):
            self.labels.add("with-not-followed-by-blank")
        if r.random() < 0.15:
            out += self.kw("RECURSIVE") + g()
        for i in range(n):
            if r.random() < (0.3 if self.dirt > 0.5 else 0.15):
                nm = r.choice(["secret", "cpu", "mem"])          # a CTE named like a measurement
                self.labels.add("cte-named-like-measurement")
            else:
                nm = "c%d" % (len(self.ctes) + len(names) + 1)
            body = self.select(max(depth - 1, 0))
            cols = " (a, b)" if r.random() < 0.05 else ""
            if i:
                out += "," + g()
            out += nm + cols + g() + self.kw("AS") + r.choice([" ", "", "\n"]) + "(" + body + ")"
            names.append(nm)
        self.ctes += names
        out += g() + self.select(depth)
        return out

    def kind_stmt(self):
        r = self.rng
        k = r.choice(["TABLE", "DESCRIBE", "DESC", "SUMMARIZE", "SHOW", "PIVOT", "UNPIVOT", "EXPLAIN ANALYZE TABLE", "FROM"])
        self.labels.add("kind:" + k)
        x = r.random()
        if x < 0.55:
            it = self.path_item()
        elif x < 0.65:
            it = self.func_item()
        else:
            it = self.name_item()
        self.items[-1] = self.items[-1][:3] + ("kind:" + self.items[-1][3],)
        out = " ".join(self.kw(w) for w in k.split(" ")) + self.gap() + it
        if k == "PIVOT":
            out += " ON host USING count(*)"
        if k == "UNPIVOT":
            out += " ON id, v INTO NAME n VALUE x"
        return out

    def show_stmt(self):
        r = self.rng
        self.labels.add("show")
        x = r.random()
        if x < 0.3:
            return self.kw("SHOW") + self.gap() + self.kw("DATABASES") + r.choice(["", ";", " ;"])
        out = self.kw("SHOW") + self.gap() + self.kw(r.choice(["TABLES", "MEASUREMENTS"]))
        if r.random() < 0.7:
            db = r.choice(["db1", "db2", "default", "db-x", "..", "db2.secret"])
            q = r.choice(["", "", '"', "'", "`"])
            out += self.gap() + self.kw("FROM") + self.gap() + q + db + q
        return out + r.choice(["", ";", " ; "])

    def statement(self):
        r = self.rng
        x = r.random()
        if x < 0.08:
            s = self.show_stmt()
        elif x < 0.08 + 0.22 * self.dirt:
            s = self.kind_stmt()
        elif x < 0.45:
            s = self.with_stmt(2)
        else:
            s = self.select(2)
            if self.dirt > 0.3 and r.random() < 0.12:
                self.labels.add("set-op-kind")
                s += self.gap() + "UNION ALL" + self.gap() + self.kw("TABLE") + " " + self.path_item()
                self.items[-1] = self.items[-1][:3] + ("kind:" + self.items[-1][3],)
        if r.random() < 0.1:
            s += r.choice([";", " ;", "\n;\n"])
        if self.dirt > 0.5 and r.random() < 0.04:
            self.labels.add("second-statement")
            s += "; SELECT 1"
        return s


def generate(rng, dirt=None):
    """-> dict(sql, hdr, labels, disguises, items)"""
    hdr = rng.choice(["", "", "", "db1", "db1", "db2"])
    d = rng.choice([0.0, 0.0, 0.3, 0.6, 1.0]) if dirt is None else dirt
    g = Gen(rng, hdr, d)
    sql = g.statement()
    return {"sql": sql, "hdr": hdr, "labels": sorted(g.labels), "disguises": sorted(g.disguises), "items": g.items, "dirt": d}


# ---------------------------------------------------------------------------------------
# C16: valid statements of the supported shapes (and the known unsupported ones)
# ---------------------------------------------------------------------------------------
class ValidGen:
    def __init__(self, rng, hdr):
        self.rng, self.hdr = rng, hdr
        self.labels, self.disguises = set(), set()
        self.n = 0
        self.ctes = []
        self.total_order = False

    def gap(self):
        r = self.rng
        if r.random() < 0.6:
            return " "
        self.disguises.add("gap")
        return r.choice(["  ", "\n", "\t", " \n ", " /* c */ ", " -- c\n", "\n-- from x.y\n", " /* from db2.secret */ ", " /* a */ /* b */ "])

    def kw(self, w):
        x = self.rng.random()
        if x < 0.6:
            return w
        self.disguises.add("case")
        return w.lower() if x < 0.8 else "".join(c.upper() if self.rng.random() < 0.5 else c.lower() for c in w)

    def q(self, w):
        if self.rng.random() < 0.3:
            self.disguises.add("quoted-name")
            return '"%s"' % w
        return w

    def table(self):
        r = self.rng
        if self.ctes and r.random() < 0.3:
            self.labels.add("cte-ref")
            return r.choice(self.ctes)
        if self.hdr:
            m = r.choice([mm for d, mm in MEASUREMENTS if PLAIN.match(mm) and d == self.hdr and mm == mm.lower() and not mm.startswith("pg_")])
            return self.q(m)
        db = r.choice(["default", "db1", "db1", "db2"])
        m = r.choice([mm for d, mm in MEASUREMENTS if PLAIN.match(mm) and d == db and mm == mm.lower() and not mm.startswith("pg_")])
        if db == "default" and r.random() < 0.8:
            return self.q(m)
        if db == "default":
            db = "db1"
            m = "cpu"
        return self.q(db) + "." + self.q(m)

    def alias(self):
        self.n += 1
        return "a%d" % self.n

    def value(self):
        r = self.rng
        x = r.random()
        if x < 0.6:
            return r.choice(["'h0'", "'h1'", "'h2'", "'h1'", "'x'"])
        self.disguises.add("tricky-literal")
        return r.choice(["'from db2.secret'", "'-- c'", "'/* c */'", "$$h1$$", "'it''s'", "'join x'", "'a;b'"])

    def item(self, depth):
        r = self.rng
        if depth > 0 and r.random() < 0.25:
            self.labels.add("subquery")
            return "(" + self.select(depth - 1, inner=True) + ")"
        return self.table()

    def cond(self, a, depth):
        r = self.rng
        x = r.random()
        if x < 0.45:
            return "%s.host %s %s" % (a, r.choice(["=", "<>"]), self.value())
        if x < 0.6:
            return "%s.v IS NOT NULL" % a
        if x < 0.7:
            return "%s.id IN (0, 1, 10)" % a
        if x < 0.8 and depth > 0:
            self.labels.add("subquery")
            b = self.alias()
            return "%s.id IN (%s%sid%s%s%s%s %s)" % (a, self.kw("SELECT"), self.gap(), self.gap(), self.kw("FROM"), self.gap(), self.table(), b)
        if x < 0.86:
            self.labels.add("from-function")
            return "%s(%s.host %s 2 %s 1) = '1'" % (self.kw("substring"), a, self.kw("FROM"), self.kw("FOR"))
        if x < 0.95:
            # nested parenthesised calls / casts inside the body, before and after its FROM
            self.labels.add("from-function-nested-parens")
            return r.choice([
                "%s(upper(%s.host) %s 2 %s 1) = '1'" % (self.kw("substring"), a, self.kw("FROM"), self.kw("FOR")),
                "%s(%s lower('H') %s %s.host) <> 'x'" % (self.kw("trim"), self.kw("BOTH"), self.kw("FROM"), a),
                "%s(CAST(%s.id AS VARCHAR) %s 1 %s 1) <> 'x'" % (self.kw("substring"), a, self.kw("FROM"), self.kw("FOR")),
                "%s(%s %s CAST('2024-03-01' AS DATE)) = 2024" % (self.kw("extract"), self.kw("year"), self.kw("FROM")),
                "%s(concat(%s.host, 'z') %s 'q' %s (1 + 1) %s 1) <> 'x'" % (self.kw("overlay"), a, self.kw("PLACING"), self.kw("FROM"), self.kw("FOR")),
                "%s(coalesce(%s.tag, 'a') %s length(%s.host)) <> 'x'" % (self.kw("substring"), a, self.kw("FROM"), a),
            ])
        self.labels.add("from-function")
        return "%s(%s %s DATE '2024-03-01') = 2024" % (self.kw("extract"), self.kw("year"), self.kw("FROM"))

    def select(self, depth, inner=False):
        r = self.rng
        g = self.gap
        a = self.alias()
        frm = self.item(depth)
        out_from = self.kw("FROM") + g() + frm + " " + a
        aliases = [a]
        nj = r.choice([0, 0, 1, 1, 2]) if depth > 0 or not inner else r.choice([0, 1])
        for _ in range(nj):
            b = self.alias()
            kind = r.choice(["JOIN", "INNER JOIN", "LEFT JOIN", "LEFT OUTER JOIN", "RIGHT JOIN", "FULL OUTER JOIN", "CROSS JOIN",
                             "SEMI JOIN", "ANTI JOIN", "ASOF JOIN", "JOIN LATERAL", "CROSS JOIN LATERAL"])
            self.labels.add("join:" + kind)
            kws = g().join(self.kw(w) for w in kind.split(" "))
            if "LATERAL" in kind:
                sub = "(%s %s.id %s b_id, %s.v %s b_v %s %s %s0 %s %s0.id = %s.id)" % (
                    self.kw("SELECT"), b + "0", self.kw("AS"), b + "0", self.kw("AS"), self.kw("FROM"), self.table(), b, self.kw("WHERE"), b, aliases[0])
                out_from += g() + kws + " " + sub + " " + b + ("" if kind.startswith("CROSS") else " " + self.kw("ON") + " true")
                aliases.append(None)
                continue
            it = self.item(depth)
            out_from += g() + kws + g() + it + " " + b
            if kind == "CROSS JOIN":
                pass
            elif kind == "ASOF JOIN":
                out_from += " %s %s.id >= %s.id" % (self.kw("ON"), aliases[0], b)
            elif r.random() < 0.5:
                out_from += " %s (id)" % self.kw("USING")
            else:
                out_from += " %s %s.id = %s.id" % (self.kw("ON"), aliases[0], b)
            if kind not in ("SEMI JOIN", "ANTI JOIN"):
                aliases.append(b)
        a0 = aliases[0]
        shape = r.choice(["cols", "cols", "agg", "count", "star"]) if not inner else ("cols" if nj else r.choice(["cols", "star"]))
        where = ""
        if r.random() < 0.6:
            where = g() + self.kw("WHERE") + g() + self.cond(a0, depth)
            if r.random() < 0.3:
                where += " " + self.kw(r.choice(["AND", "OR"])) + " " + self.cond(a0, 0)
        tail = ""
        if shape == "star":
            sel = "*" if nj == 0 or r.random() < 0.5 else a0 + ".*"
        elif shape == "cols":
            sel = "%s.id, %s.host, %s.v, %s.tag" % (a0, a0, a0, a0)
        elif shape == "count":
            sel = "count(*) %s n, count(%s.v) %s nv" % (self.kw("AS"), a0, self.kw("AS"))
        else:
            sel = "%s.host, sum(%s.v) %s s, min(%s.id) %s lo" % (a0, a0, self.kw("AS"), a0, self.kw("AS"))
            tail = g() + self.kw("GROUP") + " " + self.kw("BY") + " " + a0 + ".host"
        if not inner and shape == "cols" and nj == 0 and r.random() < 0.5:
            tail += g() + self.kw("ORDER") + " " + self.kw("BY") + " %s.id, %s.tag" % (a0, a0)
            self.total_order = True
            if r.random() < 0.5:
                tail += " " + self.kw("LIMIT") + " 3"
        return self.kw("SELECT") + g() + sel + g() + out_from + where + tail

    def statement(self):
        r = self.rng
        if r.random() < 0.35:
            self.labels.add("cte")
            n = r.randint(1, 2)
            out = self.kw("WITH") + " "
            if r.random() < 0.15:
                out += self.kw("RECURSIVE") + " "
            names = []
            for i in range(n):
                nm = "c%d" % (i + 1)
                body = self.select(1, inner=True)
                out += ("," + self.gap() if i else "") + nm + self.gap() + self.kw("AS") + " (" + body + ")"
                names.append(nm)
            self.ctes = names
            return out + self.gap() + self.select(1)
        return self.select(2)


UNSUPPORTED = [
    ("comma-join-item-unrewritten", "SELECT a.id, b.id FROM cpu a, mem b WHERE a.id = b.id", ["", "db1"]),
    ("read-parquet-text-disables-rewrite", "SELECT id FROM cpu WHERE tag <> 'read_parquet'", ["", "db1"]),
    ("read-parquet-text-disables-rewrite", "SELECT id /* read_parquet */ FROM cpu", ["db1"]),
    ("header-cte-names-differ-from-permission-check", "WITH\nc1 AS (SELECT 1 AS id) SELECT * FROM c1", ["db1"]),
    ("cte-scope-blind", "SELECT q.id FROM (WITH cpu AS (SELECT 1 AS id) SELECT * FROM cpu) q JOIN cpu USING (id)", ["", "db1"]),
    ("join-lateral-newline-takes-lateral-as-table", "SELECT a.id FROM cpu a CROSS JOIN LATERAL\n(SELECT 1 AS one) b", ["", "db1"]),
    ("skip-prefix-measurement-name", "SELECT * FROM pg_metrics", ["db1"]),
    ("identifier-case", "SELECT id, tag FROM CPU", ["db1"]),
    ("identifier-case", "SELECT id, tag FROM Cpu", ["", "db1"]),
    ("missing-measurement-empty-result", "SELECT * FROM nosuch", ["", "db1"]),
    ("header-fast-path-misses-references", "SELECT * FROM mem a1 WHERE a1.id IN (SELECT id\nFROM\tmem a2)", ["db1"]),
    ("header-fast-path-misses-references", "SELECT a1.id FROM cpu a1 FULL\nOUTER\nJOIN cpu a2 USING (id)", ["db1"]),
    ("table-kind-statement-unrewritten", "TABLE cpu", ["", "db1"]),
    ("table-kind-statement-unrewritten", "DESCRIBE cpu", ["db1"]),
    ("from-first-statement", "FROM cpu", ["", "db1"]),
]


def generate_valid(rng):
    hdr = rng.choice(["", "", "db1", "db1", "db2"])
    g = ValidGen(rng, hdr)
    sql = g.statement()
    return {"sql": sql, "hdr": hdr, "labels": sorted(g.labels), "disguises": sorted(g.disguises), "total_order": g.total_order}


def cte_quoting_matrix():
    """CTE declared quoted/unquoted x referenced quoted/unquoted x FROM/JOIN position x header on/off x a stored
    measurement of the same name existing (cpu) or not (ctq, per-host) -> [(sql, hdr, label)]"""
    out = []
    for name in ["cpu", "ctq", "per-host"]:
        for decl_q in (False, True):
            for ref_q in (False, True):
                if name == "per-host" and not (decl_q and ref_q):
                    continue
                for pos in ("from", "join"):
                    for hdr in ("", "db1"):
                        d = '"%s"' % name if decl_q else name
                        r = '"%s"' % name if ref_q else name
                        if pos == "from":
                            sql = "WITH %s AS (SELECT 1 AS one, 2 AS two) SELECT * FROM %s" % (d, r)
                        else:
                            sql = "WITH %s AS (SELECT 1 AS id, 7 AS seven) SELECT a.id, x.seven FROM mem a JOIN %s x ON a.id = x.id" % (d, r)
                        out.append((sql, hdr, "cte-quoting:decl-%s:ref-%s" % ("quoted" if decl_q else "bare", "quoted" if ref_q else "bare")))
    return out


# database-qualified references whose measurement is a CTE name of the same statement, or on the skip list:
# the CTE / skip-list exclusions of the permission check apply to BARE names only
QUALIFIED_EXCLUSION_PROBES = [
    ("WITH cpu AS (SELECT 1 AS one) SELECT s.host FROM db2.cpu s", ""),
    ("WITH cpu AS (SELECT 1 AS one) SELECT a.host FROM db1.cpu a JOIN db2.cpu s ON 1=1", ""),
    ("WITH secret AS (SELECT 1 AS one), c2 AS (SELECT 2 AS two) SELECT s.tag FROM c2 JOIN db2.secret s ON 1=1", ""),
    ("WITH \"cpu\" AS (SELECT 1 AS one) SELECT s.host FROM \"db2\".\"cpu\" s", ""),
    ("SELECT s.host FROM db2.pg_audit s", ""),
    ("SELECT a.host FROM db1.cpu a JOIN db2.pg_audit s ON 1=1", ""),
    ("SELECT a.host FROM db1.cpu a LEFT OUTER JOIN db2.pg_audit s ON a.id = s.id", ""),
    ("SELECT a.host FROM db1.pg_metrics a", ""),
]


def cache_pairs():
    """request PAIRS on one handler instance within the transform-cache TTL -> [(label, pre, sql, hdr, allow)];
    every text carries its own alias so that no other case of the run shares a cache entry with it"""
    out = []
    t = "SELECT pa1.id, pa1.tag FROM cpu pa1"
    out.append(("same-text-then-header", [(t, "", ["*"])], t, "db1", ["db1"]))
    t = "SELECT pa2.id, pa2.tag FROM cpu pa2 JOIN mem pa3 USING (id)"
    out.append(("same-text-header-then-none", [(t, "db1", ["db1"])], t, "", ["*"]))
    t = "SELECT pa4.id, pa4.tag FROM cpu pa4 WHERE pa4.host <> 'x'"
    out.append(("same-text-other-header", [(t, "db1", ["*"])], t, "db2", ["*"]))
    t = "WITH c1 AS (SELECT * FROM cpu pa5) SELECT count(*) AS n FROM c1"
    out.append(("same-text-then-header", [(t, "", ["*"])], t, "db2", ["*"]))
    a, b = "SELECT pb1.id FROM cpu pb1 WHERE pb1.host = 'h1'", "SELECT pb1.id FROM cpu pb1 WHERE pb1.host = 'H1'"
    out.append(("literal-case", [(a, "db1", ["*"])], b, "db1", ["*"]))
    a, b = "SELECT pb2.id FROM db1.cpu pb2 WHERE pb2.tag <> 'DB1.CPU#0'", "SELECT pb2.id FROM db1.cpu pb2 WHERE pb2.tag <> 'db1.cpu#0'"
    out.append(("literal-case", [(a, "", ["*"])], b, "", ["*"]))
    a, b = "SELECT pc1.id, pc1.tag FROM \"cpu\" pc1", "SELECT pc1.id, pc1.tag FROM \"CPU\" pc1"
    out.append(("quoted-identifier-case", [(a, "db1", ["*"])], b, "db1", ["*"]))
    a, b = "SELECT pc2.id, pc2.tag FROM \"CPU\" pc2", "SELECT pc2.id, pc2.tag FROM \"cpu\" pc2"
    out.append(("quoted-identifier-case", [(a, "db1", ["*"])], b, "db1", ["*"]))
    a, b = "SELECT pd1.id AS \"Ab\" FROM cpu pd1", "SELECT pd1.id AS \"ab\" FROM cpu pd1"
    out.append(("quoted-alias-case", [(a, "db1", ["*"])], b, "db1", ["*"]))
    return out


def boundary_probes():
    """[(sql, hdr, also through /api/v1/query/arrow)]: unquoted names with a non-identifier byte next to identifier bytes, in the positions the
    single-table fast paths and the regexp paths scan"""
    out = []
    for n in BOUNDARY_NAMES + ["cpu-", "-cpu", "cpu--x", "cpu$", "\u00e9cpu", "1e5"]:
        out.append(("SELECT * FROM %s LIMIT 5" % n, "db1", True))
        out.append(("select id, tag from\t%s t where id >= 0" % n, "db1", True))
        out.append(("SELECT a.id FROM cpu a JOIN %s b ON a.id = b.id" % n, "db1", False))
        out.append(("SELECT * FROM %s" % n, "", False))
        out.append(("SELECT * FROM db1.%s" % n, "", False))
    return out
