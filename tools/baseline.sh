#!/bin/bash
# baseline.sh: run arc's own test suite (the command of /root/.vp/BASELINE.json, guard `verif` OFF) on /repo and
# compare with BASELINE.json's stable_pass list.  Output under .work/baseline/.
mkdir -p /verif/.work/baseline /verif/.work/gomod
cd /repo && cp go.mod go.sum /verif/.work/gomod/
GOPROXY=off GOFLAGS=-modfile=/verif/.work/gomod/go.mod go test -json -vet=off -count=1 -timeout 25m ./... > /verif/.work/baseline/gotest.json 2> /verif/.work/baseline/gotest.err
python3 - <<'PY'
import json
base=set(json.load(open("/root/.vp/BASELINE.json"))["stable_pass"])
st={}
for l in open("/verif/.work/baseline/gotest.json"):
    try: e=json.loads(l)
    except Exception: continue
    if e.get("Test") and e.get("Action") in ("pass","fail","skip"):
        st[e["Package"]+"::"+e["Test"]]=e["Action"]
bad=sorted(t for t in base if st.get(t)!="pass")
print("stable_pass %d, passing now %d, not passing %d" % (len(base), len(base)-len(bad), len(bad)))
for t in bad[:40]: print("  ", t, st.get(t))
PY
