"""Helpers shared by tools/props/C08.py and tools/props/C25.py (areas Storage / FileRepl)."""
import os
import time

import vlib


def hx(b):
    return bytes(b).hex()


def ch(b):
    """Coq term for a byte string: hex literal decoded inside Coq (fast to parse)."""
    return '(unhex "%s")' % bytes(b).hex()


def chopt(b):
    """Coq term for an optional byte string."""
    return '(unhex_opt "-")' if b is None else '(unhex_opt "%s")' % bytes(b).hex()


def unh(s):
    return None if s is None else bytes.fromhex(s)


def coq_check(pid, header, case_type, terms, preds, name="Cases", chunk=1000, timeout=900, jobs=6):
    """Like vlib.coq_check_cases, but compiles with -noglob (case files are large) and runs the
    chunks in parallel."""
    from concurrent.futures import ThreadPoolExecutor
    res = {k: [] for k in preds}
    d = os.path.join(vlib.WORK, "coqrun", pid)
    os.makedirs(d, exist_ok=True)

    def one(off):
        part = terms[off:off + chunk]
        src = header + "\nDefinition verif_cases : list (%s) := [\n%s].\n" % (case_type, ";\n".join(part))
        src += ("Fixpoint verif_failing {A} (f : A -> bool) (n : nat) (l : list A) : list nat :=\n"
                "  match l with nil => nil | cons x r => if f x then verif_failing f (S n) r else cons n (verif_failing f (S n) r) end.\n")
        for label, fn in preds.items():
            src += "Definition verif_%s := Eval vm_compute in verif_failing (%s) 0 verif_cases.\nPrint verif_%s.\n" % (label, fn, label)
        p = os.path.join(d, "%s_%d.v" % (name, off))
        with open(p, "w") as f:
            f.write(src)
        t0 = time.time()
        rc, out = vlib.sh(["timeout", str(timeout), "coqc", "-noglob", "-Q", os.path.join(vlib.COQ, "theories"), "Arc",
                           "-Q", os.path.join(vlib.COQ, "gen"), "ArcGen", "-w", "-notation-overridden", p], cwd=d, timeout=timeout + 30)
        vlib.log("coqc %s_%d (%d cases): rc=%d in %.1fs" % (name, off, len(part), rc, time.time() - t0))
        r = {}
        for label in preds:
            lst = vlib.parse_nat_list(out, "verif_" + label)
            if rc != 0 or lst is None:
                raise vlib.InfraError("case evaluation failed (%s): %s" % (label, out[-2500:]))
            r[label] = [off + x for x in lst]
        return r

    offs = list(range(0, len(terms), chunk))
    with ThreadPoolExecutor(max_workers=jobs) as ex:
        for r in ex.map(one, offs):
            for label in preds:
                res[label] += r[label]
    for label in preds:
        res[label].sort()
    return res
