module verif/goast

go 1.26

toolchain go1.26.4
