// goast: small go/ast query tool used by the parameter translator (tools/vlib.py).
// It reads the CURRENT sources under a repository root and prints JSON; nothing is cached.
//
//	goast calls <root> <nameRegex> <relpath>...   call sites whose callee name matches
//	goast consts <root> <relpath>...              const/var declarations with their source text
//	goast funcs <root> <relpath>...               function declarations with the names they call
package main

import (
	"bytes"
	"encoding/json"
	"fmt"
	"go/ast"
	"go/parser"
	"go/printer"
	"go/token"
	"os"
	"path/filepath"
	"regexp"
	"sort"
	"strings"
)

type callSite struct {
	File      string   `json:"file"`
	Line      int      `json:"line"`
	Pkg       string   `json:"pkg"`
	Func      string   `json:"func"`
	Callee    string   `json:"callee"`
	Args      []string `json:"args"`
	ConstLike []bool   `json:"constlike"`
}

type constDecl struct {
	File  string `json:"file"`
	Line  int    `json:"line"`
	Pkg   string `json:"pkg"`
	Kind  string `json:"kind"`
	Name  string `json:"name"`
	Value string `json:"value"`
}

type funcDecl struct {
	File  string   `json:"file"`
	Line  int      `json:"line"`
	Pkg   string   `json:"pkg"`
	Recv  string   `json:"recv"`
	Name  string   `json:"name"`
	Calls []string `json:"calls"`
}

func src(fset *token.FileSet, n ast.Node) string {
	var b bytes.Buffer
	printer.Fprint(&b, fset, n)
	return b.String()
}

// constLike: only identifiers, selectors, literals, unary/binary operators, parens and
// conversions/calls of identifiers on const-like arguments (time.Duration(5) etc.).
func constLike(e ast.Expr) bool {
	switch x := e.(type) {
	case *ast.BasicLit:
		return true
	case *ast.Ident:
		return true
	case *ast.SelectorExpr:
		_, ok := x.X.(*ast.Ident)
		return ok
	case *ast.ParenExpr:
		return constLike(x.X)
	case *ast.UnaryExpr:
		return x.Op != token.AND && x.Op != token.ARROW && constLike(x.X)
	case *ast.BinaryExpr:
		return constLike(x.X) && constLike(x.Y)
	case *ast.CallExpr:
		if !constLike(x.Fun) || len(x.Args) != 1 {
			return false
		}
		return constLike(x.Args[0])
	}
	return false
}

func calleeName(e ast.Expr) string {
	switch x := e.(type) {
	case *ast.Ident:
		return x.Name
	case *ast.SelectorExpr:
		return x.Sel.Name
	case *ast.IndexExpr:
		return calleeName(x.X)
	case *ast.ParenExpr:
		return calleeName(x.X)
	}
	return ""
}

func goFiles(root string, rels []string) []string {
	var out []string
	for _, r := range rels {
		p := filepath.Join(root, r)
		st, err := os.Stat(p)
		if err != nil {
			fmt.Fprintf(os.Stderr, "goast: %v\n", err)
			os.Exit(2)
		}
		if !st.IsDir() {
			out = append(out, p)
			continue
		}
		filepath.Walk(p, func(path string, info os.FileInfo, err error) error {
			if err != nil {
				return nil
			}
			if info.IsDir() {
				return nil
			}
			if strings.HasSuffix(path, ".go") && !strings.HasSuffix(path, "_test.go") {
				out = append(out, path)
			}
			return nil
		})
	}
	sort.Strings(out)
	return out
}

func main() {
	if len(os.Args) < 3 {
		fmt.Fprintln(os.Stderr, "usage: goast calls|consts|funcs <root> ...")
		os.Exit(2)
	}
	mode, root := os.Args[1], os.Args[2]
	fset := token.NewFileSet()
	enc := json.NewEncoder(os.Stdout)
	switch mode {
	case "calls":
		re := regexp.MustCompile(os.Args[3])
		var sites []callSite
		for _, f := range goFiles(root, os.Args[4:]) {
			file, err := parser.ParseFile(fset, f, nil, parser.ParseComments)
			if err != nil {
				fmt.Fprintf(os.Stderr, "goast: %v\n", err)
				os.Exit(2)
			}
			rel, _ := filepath.Rel(root, f)
			for _, d := range file.Decls {
				fname := ""
				if fd, ok := d.(*ast.FuncDecl); ok {
					fname = fd.Name.Name
				}
				ast.Inspect(d, func(n ast.Node) bool {
					ce, ok := n.(*ast.CallExpr)
					if !ok {
						return true
					}
					name := calleeName(ce.Fun)
					if name == "" || !re.MatchString(name) {
						return true
					}
					cs := callSite{File: rel, Line: fset.Position(ce.Pos()).Line, Pkg: file.Name.Name,
						Func: fname, Callee: src(fset, ce.Fun)}
					for _, a := range ce.Args {
						cs.Args = append(cs.Args, src(fset, a))
						cs.ConstLike = append(cs.ConstLike, constLike(a))
					}
					sites = append(sites, cs)
					return true
				})
			}
		}
		enc.Encode(sites)
	case "consts":
		var out []constDecl
		for _, f := range goFiles(root, os.Args[3:]) {
			file, err := parser.ParseFile(fset, f, nil, 0)
			if err != nil {
				fmt.Fprintf(os.Stderr, "goast: %v\n", err)
				os.Exit(2)
			}
			rel, _ := filepath.Rel(root, f)
			for _, d := range file.Decls {
				gd, ok := d.(*ast.GenDecl)
				if !ok || (gd.Tok != token.CONST && gd.Tok != token.VAR) {
					continue
				}
				for _, s := range gd.Specs {
					vs := s.(*ast.ValueSpec)
					for i, n := range vs.Names {
						v := ""
						if i < len(vs.Values) {
							v = src(fset, vs.Values[i])
						}
						out = append(out, constDecl{File: rel, Line: fset.Position(n.Pos()).Line,
							Pkg: file.Name.Name, Kind: gd.Tok.String(), Name: n.Name, Value: v})
					}
				}
			}
		}
		enc.Encode(out)
	case "funcs":
		var out []funcDecl
		for _, f := range goFiles(root, os.Args[3:]) {
			file, err := parser.ParseFile(fset, f, nil, 0)
			if err != nil {
				fmt.Fprintf(os.Stderr, "goast: %v\n", err)
				os.Exit(2)
			}
			rel, _ := filepath.Rel(root, f)
			for _, d := range file.Decls {
				fd, ok := d.(*ast.FuncDecl)
				if !ok {
					continue
				}
				fdd := funcDecl{File: rel, Line: fset.Position(fd.Pos()).Line, Pkg: file.Name.Name, Name: fd.Name.Name}
				if fd.Recv != nil && len(fd.Recv.List) > 0 {
					fdd.Recv = src(fset, fd.Recv.List[0].Type)
				}
				seen := map[string]bool{}
				ast.Inspect(fd, func(n ast.Node) bool {
					if ce, ok := n.(*ast.CallExpr); ok {
						if nm := calleeName(ce.Fun); nm != "" && !seen[nm] {
							seen[nm] = true
							fdd.Calls = append(fdd.Calls, nm)
						}
					}
					return true
				})
				out = append(out, fdd)
			}
		}
		enc.Encode(out)
	case "imports":
		out := map[string]map[string]string{}
		for _, f := range goFiles(root, os.Args[3:]) {
			file, err := parser.ParseFile(fset, f, nil, parser.ImportsOnly)
			if err != nil {
				fmt.Fprintf(os.Stderr, "goast: %v\n", err)
				os.Exit(2)
			}
			rel, _ := filepath.Rel(root, f)
			m := map[string]string{}
			for _, im := range file.Imports {
				p := strings.Trim(im.Path.Value, "\"")
				name := p[strings.LastIndex(p, "/")+1:]
				if im.Name != nil {
					name = im.Name.Name
				}
				m[name] = p
			}
			out[rel] = m
		}
		enc.Encode(out)
	default:
		fmt.Fprintln(os.Stderr, "goast: unknown mode")
		os.Exit(2)
	}
}
