#!/usr/bin/env python3
"""seed_ingest.py <PID> <seed_out_dir> <name>

Confirm an independently produced property-breaking change and keep it as
/verif/seeded/<name>/ (patch.diff, demonstration, meta.json).  Confirmation, all in a fresh
scratch worktree of /repo HEAD (removed afterwards):
  1. patch applies; touched packages build
  2. existing tests of the touched packages pass WITH the patch
  3. the demonstration FAILS with the patch and PASSES without it
Then (option --check) run the property's quick check against the patched worktree
(VERIF_REPO) and record whether it raised the alarm."""
import json
import os
import re
import shutil
import subprocess
import sys
import time

sys.path.insert(0, os.path.dirname(os.path.abspath(__file__)))
import vlib  # noqa: E402


def sh(cmd, cwd=None, env=None, timeout=3600):
    p = subprocess.run(cmd, cwd=cwd, env=env, shell=True, stdout=subprocess.PIPE, stderr=subprocess.STDOUT, text=True, timeout=timeout)
    return p.returncode, p.stdout


def touched_pkgs(patch):
    pk = set()
    for m in re.finditer(r"^\+\+\+ b/(\S+)", patch, re.M):
        f = m.group(1)
        if f.endswith(".go"):
            pk.add("./" + os.path.dirname(f) + "/")
    return sorted(pk)


def main():
    pid, src, name = sys.argv[1], sys.argv[2], sys.argv[3]
    do_check = "--check" in sys.argv
    dst = os.path.join(vlib.ROOT, "seeded", name)
    os.makedirs(dst, exist_ok=True)
    for f in os.listdir(src):
        if os.path.isfile(os.path.join(src, f)):
            shutil.copy(os.path.join(src, f), os.path.join(dst, f))
    patch = open(os.path.join(dst, "patch.diff")).read()
    meta = json.load(open(os.path.join(dst, "meta.json"))) if os.path.exists(os.path.join(dst, "meta.json")) else {}
    demos = [f for f in os.listdir(dst) if f.endswith("_test.go")]
    wt = "/tmp/confirm-%s" % name
    sh("git -C /repo worktree remove --force %s" % wt)
    rc, out = sh("git -C /repo worktree add -q %s HEAD" % wt)
    if rc != 0:
        print(out)
        sys.exit(2)
    gm = "/tmp/gomod-confirm-%s" % name
    os.makedirs(gm, exist_ok=True)
    shutil.copy(os.path.join(wt, "go.mod"), gm)
    shutil.copy(os.path.join(wt, "go.sum"), gm)
    env = dict(os.environ, GOPROXY="off", GOFLAGS="-modfile=%s/go.mod" % gm)
    env.pop("GOSUMDB", None)
    conf = {"confirmed_at": time.strftime("%Y-%m-%d %H:%M:%S"), "repo_head": sh("git -C /repo rev-parse --short HEAD")[1].strip()}
    try:
        pkgs = touched_pkgs(patch)
        conf["touched_packages"] = pkgs
        # demo placement
        demo_pkgs = []
        for d in demos:
            head = open(os.path.join(dst, d)).read(600)
            m = re.search(r"package dir:\s*(\S+)", head)
            pdir = m.group(1).strip("/") if m else (pkgs[0].strip("./") if pkgs else "")
            demo_pkgs.append((d, pdir))
        tests = sorted(set(re.findall(r"^func (Test\w+)\(", "\n".join(open(os.path.join(dst, d)).read() for d in demos), re.M)))
        run_re = "^(%s)$" % "|".join(tests) if tests else "^$"

        alltext = "\n".join(open(os.path.join(dst, d)).read() for d in demos) + json.dumps(meta)
        tags = "-tags duckdb_arrow " if "duckdb_arrow" in alltext else ""

        def run_demo():
            for d, pdir in demo_pkgs:
                shutil.copy(os.path.join(dst, d), os.path.join(wt, pdir, "zz_seed_" + d))
            res = []
            for pdir in sorted({p for _, p in demo_pkgs}):
                res.append(sh("go test %s-vet=off -count=1 -run '%s' ./%s/" % (tags, run_re, pdir), cwd=wt, env=env))
            for d, pdir in demo_pkgs:
                os.remove(os.path.join(wt, pdir, "zz_seed_" + d))
            return res

        # without the patch: demo passes
        r0 = run_demo()
        conf["demo_passes_without_patch"] = all(rc == 0 for rc, _ in r0)
        rc, out = sh("git apply %s" % os.path.join(dst, "patch.diff"), cwd=wt)
        conf["patch_applies"] = rc == 0
        if rc != 0:
            conf["apply_error"] = out[-500:]
        else:
            rc, out = sh("go build %s" % " ".join(pkgs), cwd=wt, env=env)
            conf["builds"] = rc == 0
            rc, out = sh("go test %s-vet=off -count=1 %s" % (tags, " ".join(pkgs)), cwd=wt, env=env)
            conf["existing_tests_pass_with_patch"] = rc == 0
            if rc != 0:
                conf["existing_tests_output"] = out[-1500:]
            r1 = run_demo()
            conf["demo_fails_with_patch"] = any(rc != 0 for rc, _ in r1)
            conf["demo_output_with_patch"] = "\n".join(o[-600:] for _, o in r1)
            if do_check:
                e2 = dict(os.environ, VERIF_REPO=wt)
                t0 = time.time()
                rc, out = sh("python3 tools/check.py %s --tier quick" % pid, cwd=vlib.ROOT, env=e2, timeout=3600)
                conf["check"] = {"cmd": "VERIF_REPO=<patched worktree> python3 tools/check.py %s --tier quick" % pid, "exit": rc,
                                 "wall_s": round(time.time() - t0, 1),
                                 "violation_lines": [l for l in out.splitlines() if l.startswith("VIOLATION")][:5]}
                # keep the replay of the first violation next to the seed
                m = re.search(r"replay=(\S+)", out)
                if m and os.path.exists(m.group(1)):
                    shutil.copy(m.group(1), os.path.join(dst, "detected_replay.json"))
        conf["kept"] = bool(conf.get("patch_applies") and conf.get("builds") and conf.get("existing_tests_pass_with_patch")
                            and conf.get("demo_passes_without_patch") and conf.get("demo_fails_with_patch"))
    finally:
        sh("git -C /repo worktree remove --force %s" % wt)
        shutil.rmtree(gm, ignore_errors=True)
    meta["property"] = pid
    meta["confirmation"] = conf
    json.dump(meta, open(os.path.join(dst, "meta.json"), "w"), indent=1)
    print(json.dumps(conf, indent=1))
    if not conf["kept"]:
        print("NOT CONFIRMED - remove seeded/%s or investigate" % name)


if __name__ == "__main__":
    main()
