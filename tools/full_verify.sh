#!/bin/bash
# Clean rebuild of the whole Coq development (full .vo, no -vos) and an independent re-check with coqchk.
cd "$(dirname "$0")/../coq" || exit 2
python3 -c "import sys;sys.path.insert(0,'../tools');import vlib;vlib.coq_project()"
find theories gen -name '*.vo' -o -name '*.vok' -o -name '*.vos' -o -name '*.glob' | xargs rm -f
s=$(date +%s)
timeout 3600 make -j16 > ../.work/full_make.log 2>&1; rc=$?
echo "make rc=$rc in $(( $(date +%s)-s ))s; errors: $(grep -c '^Error' ../.work/full_make.log)"
grep -rn --include=*.v -E '\b(Admitted|admit|Axiom|Parameter|Conjecture)\b|Unset Guard|bypass_check' theories gen | grep -v '(\*' | head
mods=$(find theories -name 'Props*.v' -o -name 'Obligations*.v' | sed 's#^theories/#Arc.#; s#/#.#g; s#\.v$##' | sort | tr '\n' ' ')
s=$(date +%s)
timeout 7200 coqchk -silent -o -Q theories Arc -Q gen ArcGen $mods > ../.work/coqchk_all.log 2>&1; rc=$?
echo "coqchk rc=$rc in $(( $(date +%s)-s ))s"
sed -n '/CONTEXT SUMMARY/,$p' ../.work/coqchk_all.log
