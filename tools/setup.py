#!/usr/bin/env python3
"""setup: build everything the checks need from files on disk (offline).
 1. tools/goast (go/ast translator)
 2. every property's regenerated parameter files (props/<ID>.py: setup())
 3. the whole Coq development (full .vo build, make -j)
 4. warm the Go build cache for every harness package (props/<ID>.py: warm())
Failures of an individual property's setup are reported but do not abort the others."""
import importlib
import os
import sys
import time
import traceback
from concurrent.futures import ThreadPoolExecutor

sys.path.insert(0, os.path.dirname(os.path.abspath(__file__)))
import vlib  # noqa: E402


def main():
    t0 = time.time()
    os.chdir(vlib.ROOT)
    vlib.build_goast()
    vlib.modfile_dir()
    ids = sorted(f[:-3] for f in os.listdir(os.path.join(vlib.ROOT, "tools", "props")) if f.startswith("C") and f.endswith(".py"))
    mods = {}
    for pid in ids:
        try:
            mods[pid] = importlib.import_module("props." + pid)
        except Exception:
            traceback.print_exc()
    for pid, m in mods.items():
        if hasattr(m, "setup"):
            try:
                m.setup()
            except Exception as e:
                vlib.log("setup(%s) failed: %s" % (pid, e))
    vlib.coq_project()
    ok, out = vlib.coq_make([], timeout=3000)          # everything
    if not ok:
        vlib.log("full coq build reported errors (individual checks rebuild their own targets):\n" + out[-3000:])
    vlib.log("coq build done in %.0fs" % (time.time() - t0))

    def warm(item):
        pid, m = item
        if hasattr(m, "warm"):
            try:
                m.warm()
            except Exception as e:
                vlib.log("warm(%s) failed: %s" % (pid, e))
    with ThreadPoolExecutor(max_workers=3) as ex:
        list(ex.map(warm, mods.items()))
    vlib.log("setup finished in %.0fs" % (time.time() - t0))


if __name__ == "__main__":
    main()
