(* Driver of the extracted SqlLex model (C15).  Reads correspondence cases, one per line, from
   the file named on the command line; byte strings are hex text ("-" = empty).  Evaluates the
   boolean predicates of Arc.SqlLex.Model (extracted with ExtrOcamlBasic only; N/positive stay
   Coq datatypes) and prints one line per case: the predicate values as 0/1 in the fixed order
   documented below.  Nothing else is computed here.

   M s masked unmasked fast hasq nmasks (ph orig ident)* nnames name*
       -> agree o_rt o_bd o_gate g_ph g_lex g_nul g_bsq g_com g_ctx
   S s fixed stripped gated fast q dash block
       -> agree o g g_nested g_cr g_tail
   P s fixed masked stripped out out2 show
       -> agree o o2 g g2
   F s masked unmasked contains nmasks (ph orig)*
       -> agree o g
   D s strict ok nvals val* ncols col*
       -> agree *)
open Sqllex_model

let rec pos_of_int i =
  if i = 1 then XH else if i land 1 = 0 then XO (pos_of_int (i lsr 1)) else XI (pos_of_int (i lsr 1))
let n_of_int i = if i = 0 then N0 else Npos (pos_of_int i)
let table = Array.init 256 n_of_int

let hexv c =
  match c with
  | '0' .. '9' -> Char.code c - 48
  | 'a' .. 'f' -> Char.code c - 87
  | _ -> failwith "bad hex"

let bytes_of_hex (h : string) : n list =
  if h = "-" then []
  else begin
    let len = String.length h / 2 in
    let rec go i acc = if i < 0 then acc else go (i - 1) (table.(16 * hexv h.[2 * i] + hexv h.[2 * i + 1]) :: acc) in
    go (len - 1) []
  end

let b s = s = "1"
let bit x = if x then '1' else '0'

let () =
  let ic = open_in Sys.argv.(1) in
  let out = Buffer.create 65536 in
  (try
     while true do
       let line = input_line ic in
       let f = Array.of_list (String.split_on_char ' ' line) in
       let h i = bytes_of_hex f.(i) in
       let res =
         match f.(0) with
         | "M" ->
             let nm = int_of_string f.(6) in
             let masks = List.init nm (fun k -> ((h (7 + 3 * k), h (8 + 3 * k)), b f.(9 + 3 * k))) in
             let p = 7 + 3 * nm in
             let nn = int_of_string f.(p) in
             let names = List.init nn (fun k -> h (p + 1 + k)) in
             let c = { mc_s = h 1; mc_masked = h 2; mc_masks = masks; mc_unmasked = h 3; mc_fast = h 4;
                       mc_hasq = b f.(5); mc_names = names } in
             [ mask_case_agrees c; mask_oracle_roundtrip c; mask_oracle_bounds c; mask_oracle_gate c;
               mask_guard_ph c; mask_guard_lex c; mask_guard_nul c; mask_guard_bsq c; mask_guard_com c;
               mask_guard_ctx c ]
         | "S" ->
             let c = { sc_s = h 1; sc_fixed = b f.(2); sc_stripped = h 3; sc_gated = h 4; sc_fast = h 5;
                       sc_q = b f.(6); sc_dash = b f.(7); sc_block = b f.(8) } in
             [ strip_case_agrees c; strip_oracle c; strip_guard_all c; strip_guard_nested c; strip_guard_cr c;
               strip_guard_tail c ]
         | "P" ->
             let c = { pc_s = h 1; pc_fixed = b f.(2); pc_masked = h 3; pc_stripped = h 4; pc_out = h 5;
                       pc_out2 = h 6; pc_show = h 7 } in
             [ pipe_case_agrees c; pipe_oracle c; pipe_oracle2 c; pipe_guard c; pipe_guard2 c ]
         | "F" ->
             let nm = int_of_string f.(5) in
             let masks = List.init nm (fun k -> (h (6 + 2 * k), h (7 + 2 * k))) in
             let c = { fc_s = h 1; fc_masked = h 2; fc_masks = masks; fc_unmasked = h 3; fc_contains = b f.(4) } in
             [ from_case_agrees c; from_oracle c; from_case_guard c ]
         | "D" ->
             let nv = int_of_string f.(4) in
             let vals = List.init nv (fun k -> h (5 + k)) in
             let p = 5 + nv in
             let nc = int_of_string f.(p) in
             let cols = List.init nc (fun k -> h (p + 1 + k)) in
             let c = { dc_s = h 1; dc_strict = b f.(2); dc_ok = b f.(3); dc_vals = vals; dc_cols = cols } in
             [ duck_case_agrees c ]
         | k -> failwith ("unknown case kind " ^ k)
       in
       List.iter (fun x -> Buffer.add_char out (bit x)) res;
       Buffer.add_char out '\n'
     done
   with End_of_file -> ());
  close_in ic;
  print_string (Buffer.contents out)
