#!/usr/bin/env python3
"""Assemble MANIFEST.json from checks/<ID>.json fragments (one per claimed property) and
checks/not_applicable.json.  Every property of properties.jsonl ends up either in `checks`
or in `not_applicable`."""
import json
import os

ROOT = os.path.dirname(os.path.dirname(os.path.abspath(__file__)))
BASELINE = json.load(open("/root/.vp/BASELINE.json"))["cmd"] if os.path.exists("/root/.vp/BASELINE.json") else ""


def main():
    props = [json.loads(l)["id"] for l in open(os.path.join(ROOT, "properties.jsonl")) if l.strip()]
    checks = []
    for pid in props:
        p = os.path.join(ROOT, "checks", pid + ".json")
        if os.path.exists(p):
            c = json.load(open(p))
            c["property_id"] = pid
            c.setdefault("quick_cmd", "python3 tools/check.py %s --tier quick" % pid)
            c.setdefault("thorough_cmd", "python3 tools/check.py %s --tier thorough" % pid)
            c.setdefault("evidence_file", "evidence/%s.json" % pid)
            c.setdefault("replay_cmd_template", "python3 tools/check.py %s --replay {path}" % pid)
            c.setdefault("engine", "rocq-model-proof+correspondence")
            checks.append(c)
    na_file = os.path.join(ROOT, "checks", "not_applicable.json")
    na_reasons = json.load(open(na_file)) if os.path.exists(na_file) else {}
    claimed = {c["property_id"] for c in checks}
    na = [{"property_id": pid, "reason": na_reasons.get(pid, "not claimed yet: model and correspondence harness for this property are not built in this revision")}
          for pid in props if pid not in claimed]
    man = {
        "version": 1,
        "setup_cmd": "python3 tools/setup.py",
        "hooks": {
            "guard": "verif",
            "enable": "go test -tags verif -modfile=<copy of go.mod> -overlay=<generated json>: harness _test.go files and generated rewrites of source files (controlled clock, schedule/crash points) are injected from /verif at build time; nothing is committed to /repo for hooks",
            "baseline_off_cmd": BASELINE,
            "source_commits": [],
            "add_only": True,
        },
        "engines": [{
            "name": "rocq-model-proof+correspondence",
            "path": "tools/check.py",
            "serves_properties": sorted(claimed),
            "kind_free_text": "Coq 8.16.1 theorems about hand-written executable Gallina models (coq/theories/<Area>), tied to /repo on every run by (a) parameters regenerated from the Go source with go/ast and re-checked by coqc and (b) a differential correspondence run: the real Go functions, injected harness via go test -overlay, against the model evaluated with vm_compute inside coqc",
        }],
        "checks": checks,
        "not_applicable": na,
        "notes": "See DESIGN.md. Genuine defects repaired in /repo are 'fix:' commits listed in known_findings.json as fixed; open findings are printed as KNOWN-FINDING lines.",
    }
    merged = []
    kd = os.path.join(ROOT, "known_findings")
    for fn in sorted(os.listdir(kd)) if os.path.isdir(kd) else []:
        if fn.endswith(".json"):
            for e in json.load(open(os.path.join(kd, fn))):
                merged.append(dict(e, property=fn[:-5]))
    with open(os.path.join(ROOT, "known_findings.json"), "w") as f:
        json.dump({"_comment": "MERGED from known_findings/<ID>.json by tools/gen_manifest.py (the checks read the per-property files). "
                   "status=open entries are printed as KNOWN-FINDING lines and suppress only the exact signature they name; "
                   "status=fixed entries (with the fix: commit) suppress nothing.", "findings": merged}, f, indent=1)
    with open(os.path.join(ROOT, "MANIFEST.json"), "w") as f:
        json.dump(man, f, indent=1)
    print("MANIFEST.json: %d checks, %d not_applicable" % (len(checks), len(na)))


if __name__ == "__main__":
    main()
