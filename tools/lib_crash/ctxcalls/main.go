// ctxcalls: go/ast helper of the crash-protocol checks (C09, C12).  For one function of
// one source file it lists, in source order, every call whose callee name matches a regexp
// together with the control context it sits in: the chain of enclosing if-statements (with
// the call made in the if's init statement, the condition text and which branch), range /
// for loops and function literals.  It also lists the function's local constants.
//
//	ctxcalls <root> <relfile> <func> <calleeRegex>
//
// Nothing is cached: the CURRENT source is parsed on every run.
package main

import (
	"bytes"
	"encoding/json"
	"fmt"
	"go/ast"
	"go/parser"
	"go/printer"
	"go/token"
	"os"
	"path/filepath"
	"regexp"
)

type ctx struct {
	Kind   string `json:"kind"`             // if | for | range | funclit | switch
	Init   string `json:"init,omitempty"`   // callee of the call in the if's init statement
	Cond   string `json:"cond,omitempty"`   // condition source text
	Branch string `json:"branch,omitempty"` // then | else
}

type event struct {
	Callee string   `json:"callee"`
	Recv   string   `json:"recv"`
	Line   int      `json:"line"`
	Args   []string `json:"args"`
	Path   []ctx    `json:"path"`
	InInit bool     `json:"in_if_init"` // the call is the init statement / condition of an if
}

type out struct {
	Func   string            `json:"func"`
	Line   int               `json:"line"`
	Events []event           `json:"events"`
	Consts map[string]string `json:"consts"`
}

var fset = token.NewFileSet()

func src(n ast.Node) string {
	var b bytes.Buffer
	printer.Fprint(&b, fset, n)
	return b.String()
}

func calleeName(e ast.Expr) (string, string) {
	switch x := e.(type) {
	case *ast.Ident:
		return x.Name, ""
	case *ast.SelectorExpr:
		return x.Sel.Name, src(x.X)
	case *ast.ParenExpr:
		return calleeName(x.X)
	case *ast.IndexExpr:
		return calleeName(x.X)
	}
	return "", ""
}

func firstCall(n ast.Node) string {
	name := ""
	if n == nil {
		return ""
	}
	ast.Inspect(n, func(m ast.Node) bool {
		if name != "" {
			return false
		}
		if ce, ok := m.(*ast.CallExpr); ok {
			name, _ = calleeName(ce.Fun)
			return false
		}
		return true
	})
	return name
}

type walker struct {
	re  *regexp.Regexp
	res *out
}

func (w *walker) calls(n ast.Node, path []ctx, inInit bool) {
	if n == nil {
		return
	}
	ast.Inspect(n, func(m ast.Node) bool {
		switch x := m.(type) {
		case *ast.FuncLit:
			w.stmt(x.Body, append(append([]ctx{}, path...), ctx{Kind: "funclit"}))
			return false
		case *ast.CallExpr:
			name, recv := calleeName(x.Fun)
			if name != "" && w.re.MatchString(name) {
				ev := event{Callee: name, Recv: recv, Line: fset.Position(x.Pos()).Line, Path: append([]ctx{}, path...), InInit: inInit}
				for _, a := range x.Args {
					ev.Args = append(ev.Args, src(a))
				}
				w.res.Events = append(w.res.Events, ev)
			}
		}
		return true
	})
}

func (w *walker) stmt(s ast.Stmt, path []ctx) {
	switch x := s.(type) {
	case nil:
		return
	case *ast.BlockStmt:
		if x == nil {
			return
		}
		for _, st := range x.List {
			w.stmt(st, path)
		}
	case *ast.IfStmt:
		w.calls(x.Init, path, true)
		w.calls(x.Cond, path, true)
		c := ctx{Kind: "if", Init: firstCall(x.Init), Cond: src(x.Cond)}
		c.Branch = "then"
		w.stmt(x.Body, append(append([]ctx{}, path...), c))
		if x.Else != nil {
			c.Branch = "else"
			w.stmt(x.Else, append(append([]ctx{}, path...), c))
		}
	case *ast.ForStmt:
		w.calls(x.Init, path, false)
		w.calls(x.Cond, path, false)
		w.stmt(x.Body, append(append([]ctx{}, path...), ctx{Kind: "for"}))
	case *ast.RangeStmt:
		w.calls(x.X, path, false)
		w.stmt(x.Body, append(append([]ctx{}, path...), ctx{Kind: "range", Cond: src(x.X)}))
	case *ast.SwitchStmt:
		w.calls(x.Init, path, false)
		w.calls(x.Tag, path, false)
		w.stmt(x.Body, append(append([]ctx{}, path...), ctx{Kind: "switch"}))
	case *ast.TypeSwitchStmt:
		w.stmt(x.Body, append(append([]ctx{}, path...), ctx{Kind: "switch"}))
	case *ast.SelectStmt:
		w.stmt(x.Body, append(append([]ctx{}, path...), ctx{Kind: "switch"}))
	case *ast.CaseClause:
		for _, e := range x.List {
			w.calls(e, path, false)
		}
		for _, st := range x.Body {
			w.stmt(st, path)
		}
	case *ast.CommClause:
		w.stmt(x.Comm, path)
		for _, st := range x.Body {
			w.stmt(st, path)
		}
	case *ast.LabeledStmt:
		w.stmt(x.Stmt, path)
	case *ast.DeferStmt:
		w.calls(x.Call, append(append([]ctx{}, path...), ctx{Kind: "defer"}), false)
	case *ast.DeclStmt:
		if gd, ok := x.Decl.(*ast.GenDecl); ok && gd.Tok == token.CONST {
			for _, sp := range gd.Specs {
				vs := sp.(*ast.ValueSpec)
				for i, n := range vs.Names {
					if i < len(vs.Values) {
						w.res.Consts[n.Name] = src(vs.Values[i])
					}
				}
			}
		}
		w.calls(x, path, false)
	default:
		w.calls(s, path, false)
	}
}

func main() {
	if len(os.Args) != 5 {
		fmt.Fprintln(os.Stderr, "usage: ctxcalls <root> <relfile> <func> <calleeRegex>")
		os.Exit(2)
	}
	root, rel, fn := os.Args[1], os.Args[2], os.Args[3]
	re := regexp.MustCompile(os.Args[4])
	file, err := parser.ParseFile(fset, filepath.Join(root, rel), nil, 0)
	if err != nil {
		fmt.Fprintln(os.Stderr, "ctxcalls:", err)
		os.Exit(2)
	}
	for _, d := range file.Decls {
		fd, ok := d.(*ast.FuncDecl)
		if !ok || fd.Name.Name != fn || fd.Body == nil {
			continue
		}
		res := &out{Func: fn, Line: fset.Position(fd.Pos()).Line, Events: []event{}, Consts: map[string]string{}}
		w := &walker{re: re, res: res}
		w.stmt(fd.Body, nil)
		json.NewEncoder(os.Stdout).Encode(res)
		return
	}
	fmt.Fprintf(os.Stderr, "ctxcalls: function %s not found in %s\n", fn, rel)
	os.Exit(3)
}
