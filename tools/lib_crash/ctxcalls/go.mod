module verif/ctxcalls

go 1.21
