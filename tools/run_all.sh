#!/bin/bash
# run_all.sh [tier]: run every claimed check once, print one summary line each.
cd "$(dirname "$0")/.."
TIER=${1:-quick}
mkdir -p .work/runall
for id in $(python3 -c "import json;print(' '.join(c['property_id'] for c in json.load(open('MANIFEST.json'))['checks']))"); do
  s=$(date +%s)
  python3 tools/check.py $id --tier $TIER > .work/runall/$id.out 2> .work/runall/$id.err; rc=$?
  e=$(date +%s)
  echo "$id rc=$rc $((e-s))s known=$(grep -c '^KNOWN-FINDING' .work/runall/$id.out) viol=$(grep -c '^VIOLATION' .work/runall/$id.out)"
done
