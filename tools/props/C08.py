"""C08 - Storage keys stay inside the root and files appear atomically.

Proof: coq/theories/Storage (C08_confined for EVERY byte-string key, C08_*_atomic for EVERY
crash point / chunking / reader behaviour of Write, WriteReader, AppendReader).
Tie 1 (translator): the order of the three sanitising steps of sanitizePath, the `.part`
suffix and the temp-file pattern are re-extracted from internal/storage/local.go into
coq/gen/Params_Storage.v; Obligations.v re-proves that the model uses exactly those.
Tie 2 (correspondence): the real LocalBackend.validatePath / sanitizePath, filepath.Clean /
Rel, raft.ValidateManifestPath, edgesync.validateSyncPath / validateSpokeID / NamespacedPath on
generated keys; the real Write / WriteReader / AppendReader stopped at every crash point
(overlay copy of the CURRENT local.go with a verifPoint call inserted before every file-system call of the writers),
directory contents compared with the model inside Coq.
"""
import json
import os
import random
import re
import time

import vlib
from vlib import cz, cbool, clist
from lib_storage import hx, ch, chopt, unh, coq_check

AREA = "Storage"
MODULES = ["Arc.Storage.Props", "Arc.Storage.Obligations"]
THEOREMS = [("Arc.Storage.Props", t) for t in (
    "C08_confined", "C08_manifest_confined", "C08_sync_confined", "C08_nul_free_key_resolves",
    "C08_write_atomic", "C08_write_reader_atomic", "C08_append_reader_atomic",
    "C08_write_reader_ignores_size")] + [("Arc.Storage.Obligations", "C08_params_match")]
TIE_NAME = ("C08 correspondence (storage.LocalBackend.validatePath/sanitizePath/Write/WriteReader/AppendReader, "
            "raft.ValidateManifestPath, edgesync.validateSyncPath/validateSpokeID/NamespacedPath vs Arc.Storage.Model) / Params_Storage")
LOCAL_GO = "internal/storage/local.go"
LAST_METHODS = []
MAX_POINTS = 14          # crash targets tried per operation beyond its chunk count (the last one must complete)
FULL_OBS = 1000          # keys for which sanitizePath / validators / NamespacedPath are observed as well

# ---------------------------------------------------------------------------------------
# crash points: instrumentation of the CURRENT local.go, generated on every run.
# Inside the bodies of Write / WriteReader / AppendReader a `verifPoint("<Fn>:<call>")` line
# is inserted before every line that performs one of the file-system calls below, at function
# entry and before the final `return nil`.  Anchoring on the calls themselves (not on the
# surrounding text) keeps the instrumentation alive when branches are added or conditions
# rewritten; it breaks (TieBroken) only when a writer no longer creates/opens or renames at all.
# ---------------------------------------------------------------------------------------
WRITERS = ("Write", "WriteReader", "AppendReader")
CALLS = ("os.CreateTemp", "os.OpenFile", "os.Rename", "os.Remove", "io.Copy")


def instrument_local_go():
    """Every function of local.go (helpers included, so a call moved into a helper such as an
    `openStaging` wrapper is still seen): a verifPoint("<func>:<call>") line before each line that
    performs one of CALLS or a Close; the three writers also get an entry point and a point before
    their final `return nil`.  Points only fire when a crash target is armed."""
    src = open(os.path.join(vlib.REPO, LOCAL_GO)).read()
    heads = list(re.finditer(r"^func (?:\([^)]*\) )?(\w+)\(.*\{\n", src, re.M))
    if not heads:
        raise vlib.TieBroken("no function found in " + LOCAL_GO)
    pieces, pos = [], 0
    seen_all, writers_seen = {}, {}
    for i, m in enumerate(heads):
        fn = m.group(1)
        end = heads[i + 1].start() if i + 1 < len(heads) else len(src)
        body = src[m.end():end]
        out, seen = [], {}
        if fn in WRITERS:
            out.append('\tverifPoint("%s:enter")' % fn)
        for line in body.split("\n"):
            st = line.strip()
            indent = line[:len(line) - len(line.lstrip("\t"))]
            call = None
            if st and not st.startswith("//") and not st.startswith("defer ") and not st.startswith("}"):
                for c in CALLS:
                    if c + "(" in st:
                        call = c.split(".")[1]
                        break
                if call is None and re.search(r"\b\w+\.Close\(\)", st):
                    call = "Close"
            if fn in WRITERS and line == "\treturn nil":
                call = "return"
            if call:
                seen[call] = seen.get(call, 0) + 1
                seen_all[call] = seen_all.get(call, 0) + 1
                out.append('%sverifPoint("%s:%s")' % (indent, fn, call))
            out.append(line)
        body2 = "\n".join(out)
        if fn == "Write":
            body2, n = re.subn(r"(\w+)\.Write\(data\)", r"verifChunkedWrite(\1, data)", body2)
            if n != 1:
                raise vlib.TieBroken("Write: the single `<file>.Write(data)` call was not found in %s (found %d)" % (LOCAL_GO, n))
        if fn in WRITERS:
            writers_seen[fn] = seen
            if not seen.get("Rename") or not seen.get("return"):
                raise vlib.TieBroken("%s in %s no longer renames a staging file and returns nil (calls found: %s)" % (fn, LOCAL_GO, seen))
        pieces.append(src[pos:m.end()] + body2)
        pos = end
    for fn in WRITERS:
        if fn not in writers_seen:
            raise vlib.TieBroken("func (b *LocalBackend) %s not found in %s" % (fn, LOCAL_GO))
    if not (seen_all.get("CreateTemp") and seen_all.get("OpenFile")):
        raise vlib.TieBroken("%s no longer calls os.CreateTemp and os.OpenFile anywhere (calls found: %s)" % (LOCAL_GO, seen_all))
    return vlib.gen_file(os.path.join("C08", LOCAL_GO), "".join(pieces) + src[pos:])


def cby(b):
    b = bytes(b)
    return "[" + "; ".join("%d" % x for x in b) + "]%N" if b else "(@nil N)"


# ---------------------------------------------------------------------------------------
# translator: facts of local.go that are data
# ---------------------------------------------------------------------------------------

def translate_params():
    src = open(os.path.join(vlib.REPO, LOCAL_GO)).read()
    m = re.search(r"func sanitizePath\(path string\) string \{(.*?)\n\}", src, re.S)
    if not m:
        raise vlib.TieBroken("func sanitizePath(path string) string not found in " + LOCAL_GO)
    body = re.sub(r"//[^\n]*", "", m.group(1))
    stmts = [s.strip() for s in body.split("\n") if s.strip()]
    known = {'path = strings.TrimPrefix(path, "/")': "STrim",
             'path = strings.ReplaceAll(path, "..", "_")': "SDotDot",
             'path = strings.ReplaceAll(path, "\\x00", "")': "SNul"}
    order = []
    for s in stmts:
        if s == "return path":
            continue
        if s not in known:
            raise vlib.TieBroken("sanitizePath contains a statement the model does not know: %r" % s)
        order.append(known[s])
    m = re.search(r"func partPath\(fullPath string\) string \{\s*return fullPath \+ \"([^\"]*)\"\s*\}", src)
    if not m:
        raise vlib.TieBroken("func partPath(fullPath string) string { return fullPath + \"...\" } not found in " + LOCAL_GO)
    suffix = m.group(1)
    pats = sorted(set(re.findall(r"os\.CreateTemp\(dir, \"([^\"]*)\"\)", src)))
    if not pats:
        raise vlib.TieBroken("os.CreateTemp(dir, \"...\") not found in " + LOCAL_GO)
    body = "(* GENERATED by tools/props/C08.py from the current %s - do not edit *)\n" % LOCAL_GO
    body += "From Coq Require Import List NArith.\nFrom Arc Require Import Storage.Model.\nImport ListNotations.\nOpen Scope N_scope.\n"
    body += "Definition src_sanitize_order : list sstep := [%s].\n" % "; ".join(order)
    body += "Definition src_part_suffix : list N := %s.\n" % cby(suffix.encode())
    body += "(* temp-file patterns of Write: %s *)\n" % pats
    body += "Definition src_temp_patterns : list (list N) := [%s].\n" % "; ".join(cby(p.encode()) for p in pats)
    vlib.write_params("Params_Storage", body)
    return {"sanitize_order": order, "part_suffix": suffix, "temp_patterns": pats}


# ---------------------------------------------------------------------------------------
# case generation
# ---------------------------------------------------------------------------------------

ATOMS = [b"..", b".", b"/", b"\x00", b"\\", b"a", b"b", b"db", b"..", b"/", b"...", b"_", b":", b"C:", b"\xc3\xa9", b"\xe2\x80\xa6",
         b"\xff", b".parquet", b"x.parquet", b".part", b" ", b"//", b"./", b"../", b"/..", b".\x00.", b"\x00/", b"r", b"tmp", b"etc", b"%2e"]
SEGS = [b"db", b"cpu", b"2026", b"05", b"f.parquet", b"a..b", b"...", b"..", b".", b"", b".hidden", b"\xc3\xa9t\xc3\xa9", b"x y", b"a\\b",
        b".\x00.", b"\x00", b"a\x00b", b"_", b"..x", b"x..", b".\x00.\x00.", b"C:", b"s3:", b".sync-staging", b"m.parquet", b"r", b"tmp"]


def gen_key(rng):
    k = rng.random()
    if k < 0.35:       # mostly valid hierarchical key with a few odd segments
        n = rng.randint(1, 6)
        segs = [rng.choice(SEGS[:5]) if rng.random() < 0.6 else rng.choice(SEGS) for _ in range(n)]
        s = b"/".join(segs)
        if rng.random() < 0.15:
            s = b"/" + s
        if rng.random() < 0.15:
            s += b"/"
        return s
    if k < 0.45:       # edge-sync style keys: mostly valid parquet paths with one oddity
        n = rng.randint(1, 4)
        segs = [rng.choice([b"db", b"cpu", b"2026", b"h", b"a_b", b"x.y"]) for _ in range(n)] + [rng.choice([b"f.parquet", b"f.parquet", b".parquet", b"f.parq", b"f..parquet", b"f.parquet\x00"])]
        if rng.random() < 0.4:
            segs[rng.randrange(len(segs))] = rng.choice([b".", b"", b"..", b".h", b"a\\b", b"a:b", b"\xc3\xa9"])
        return b"/".join(segs)
    if k < 0.75:       # traversal attempts
        n = rng.randint(1, 7)
        segs = [rng.choice([b"..", b".\x00.", b".", b"", b"r", b"tmp", b"etc", b"...", b"..\x00", b"\x00..", b".\x00.\x00.", b"a", b"\x00"]) for _ in range(n)]
        s = b"/".join(segs)
        if rng.random() < 0.3:
            s = b"/" + s
        return s
    if k < 0.92:       # malformed stream of atoms
        return b"".join(rng.choice(ATOMS) for _ in range(rng.randint(0, 8)))
    return bytes(rng.choice([0, 46, 46, 47, 92, 95, 97, 0xC3, 0xA9, 58]) for _ in range(rng.randint(0, 10)))


EDGE_KEYS = [b"", b"/", b"//", b".", b"..", b"...", b"....", b".\x00.", b".\x00./x", b".\x00./.\x00./etc/passwd", b"/..", b"/../x", b"a/../../b",
             b"..\\..\\x", b"a/..\\b", b"C:\\x", b"C:/x", b"c:", b"s3://b/k", b"a:b", b"x/y.parquet", b"x/./y.parquet", b"x//y.parquet",
             b".x/y.parquet", b"x/y.parquet/", b"\x00", b"a\x00", b"sp0ke", b".sp0ke", b"sp/ke", b"a..b", b"a..b/c.parquet", b"\xc3\xa9/\xe2\x80\xa6.parquet",
             b".\x00.\x00.", b".\x00.\x00./x", b"a/.\x00.", b"a/b/.\x00./.\x00./.\x00./c", b"/.\x00./r", b"x" * 4096, b"x" * 4097, b"../" * 20 + b"etc",
             b".\x00./" * 12 + b"etc/passwd", b"a/./b", b"a/b/", b"a/b//", b"./a", b"a/..", b"a/.\x00./b", b"_", b".._", b"._.", b".\x00", b"\x00."]


# keys aimed at the SIBLINGS of the root: 0x01 B 0x01 / 0x01 P 0x01 are replaced by the harness with the
# base name of the root / of its parent directory (".\0." re-forms ".." after sanitising)
B_, P_, DD = b"\x01B\x01", b"\x01P\x01", b".\x00."
ROOT_AWARE_KEYS = [DD + b"/" + B_ + b"X/f", DD + b"/" + B_ + b"-backup/owned.parquet", DD + b"/" + B_ + b"2", DD + b"/" + B_ + b".old/x/y",
                   DD + b"/" + B_ + b"/" + DD + b"/" + B_ + b"2/f", DD + b"/" + B_ + b"/f", DD + b"/" + B_, DD + b"/" + B_ + b"/",
                   DD + b"/" + DD + b"/" + P_ + b"/" + B_ + b"X/f", DD + b"/" + DD + b"/" + P_ + b"X/" + B_ + b"/f", b"/" + DD + b"/" + B_ + b"_/f",
                   DD + b"/" + B_ + b"\x00X/f", b"../" + B_ + b"X/f", B_ + b"X/f", DD + b"/" + B_[:-1]]


def gen_root_aware_key(rng):
    segs = [rng.choice([DD, DD, B_, B_ + b"X", B_ + b"-backup", B_ + b"2", B_ + b" ", P_, b"..", b".", b"f.parquet", b"m", b""]) for _ in range(rng.randint(2, 6))]
    if rng.random() < 0.6:
        segs[0] = DD
    return b"/".join(segs)


# ---- method cases: which file does every key-taking method touch? -------------------------------
O_ = b"\x01O\x01"            # replaced by the harness with the absolute path of a directory OUTSIDE the root
METHOD_KEYS = [O_ + b"/victim", O_ + b"/victim/", O_ + b"/x/y.parquet", O_, b"victim", b"./victim", b"../victim", b"../../out/victim",
               b"sub/victim", b"d/f", b"/d/f", b"db/m/2026/f.parquet", DD + b"/victim", DD + b"/out/victim", DD + b"/" + DD + b"/victim",
               DD + b"/root/f", DD + b"/rootX/f", b"victim\x00", b"vic\x00tim", b"", b"/", b"..", b".", b"a..b", b"//victim", b"/" + O_[0:0] + b"victim",
               b"../cwd/sub/victim", b"cwd/sub/victim", b"out/victim"]


def gen_method_cases(rng, n):
    cases = []
    keys = list(METHOD_KEYS)
    while len(keys) < n:
        r = rng.random()
        if r < 0.3:
            keys.append(rng.choice(METHOD_KEYS))
        elif r < 0.5:
            keys.append(rng.choice([O_, b"", b"..", DD, b"."]) + b"/" + b"/".join(rng.choice([b"victim", b"out", b"cwd", b"sub", b"root", b"..", DD, b"f"]) for _ in range(rng.randint(1, 3))))
        else:
            keys.append(gen_key(rng))
    for i, k in enumerate(keys[:n]):
        fin = rng.choice([None, None, b"F1", b"", b"final-content"])
        part = rng.choice([None, None, b"P0", b"part-content"])
        if i < len(METHOD_KEYS):            # every fixed key once with the final file absent (the .part fallbacks run) ...
            fin, part = None, rng.choice([None, b"P0"])
        cases.append({"key": hx(k), "in_final": None if fin is None else hx(fin), "in_part": None if part is None else hx(part)})
    return cases


def mcase_to_coq(c):
    root = bytes.fromhex(c["root"])
    def ob(x):
        return chopt(unh(x))
    return ("(Build_mcase %s %s %s %s %s %s %s %s %s %s %s %s %s %s %s %s %s %s %s %s %s %s)" % (
        clist([ch(x) for x in root.split(b"/") if x]), ch(bytes.fromhex(c["key"])),
        ob(c["in_final"] if c["plantable"] else None), ob(c["in_part"] if c["plantable"] else None),
        ob(c["read"]), ob(c["read_to"]), ob(c["read_at"]),
        "None" if c["stat"] is None else "(Some %s)" % cz(c["stat"]), "None" if c["exists"] is None else "(Some %s)" % cbool(c["exists"]),
        cbool(c["del_ok"]), ob(c["del_final"]), ob(c["del_part"]), cbool(c["write_ok"]), ob(c["after_write"]),
        cbool(c["wr_ok"]), ob(c["after_wr"]), cbool(c["app_ok"]), ob(c["after_app"]), ob(c["after_app_part"]),
        cbool(c["list_ok"]), cbool(bool(c["leaked"])), cbool(bool(c["outside_changed"]))))


def key_nontrivial(k):
    try:
        k.decode("ascii")
        uni = False
    except UnicodeDecodeError:
        uni = True
    return b".." in k or b"\x00" in k or b"\\" in k or k.startswith(b"/") or uni


def gen_lib(rng, roots):
    out = []
    for _ in range(1):
        pass
    segs = [b"a", b"b", b"..", b".", b"", b"...", b"..a", b"r", b"tmp", b"\xc3\xa9"]
    a = b"/" + b"/".join(rng.choice(segs) for _ in range(rng.randint(0, 5)))
    if rng.random() < 0.5:
        b = a + b"/" + b"/".join(rng.choice(segs) for _ in range(rng.randint(0, 4)))
    else:
        b = b"/" + b"/".join(rng.choice(segs) for _ in range(rng.randint(0, 5)))
    if rng.random() < 0.25:      # relative operand: only Clean is compared
        a = a[1:]
    return a, b


def gen_crash_ops(rng, n):
    ops = []
    for i in range(n):
        op = ["write", "write_reader", "append_reader"][i % 3]
        nch = rng.choice([0, 1, 1, 2, 3, 4])
        chunks = [bytes(rng.randrange(256) for _ in range(rng.choice([0, 1, 2, 5, 9]))) for _ in range(nch)]
        total = sum(len(c) for c in chunks)
        old_final = rng.choice([None, None, b"OLD-FINAL", b""])
        old_part = rng.choice([None, b"", b"PREFIX", b"stale-part-longer-than-the-data"]) if op != "write" or rng.random() < 0.3 else None
        if op == "append_reader" and rng.random() < 0.7 and old_part is None:
            old_part = b"PRE"
        if op == "append_reader" and old_part is None and rng.random() < 0.7:
            old_final = b"OLD-FINAL"
        clean = True if op == "write" else rng.random() < 0.7
        size = total if rng.random() < 0.7 else rng.choice([total + 1, max(0, total - 1), 0, 10])
        ops.append({"op": op, "old_final": old_final, "old_part": old_part, "chunks": chunks, "clean": clean, "size": size,
                    "dir_removed": rng.random() < 0.2})
    return ops


def crash_json(o, target):
    return {"op": o["op"], "old_final": None if o["old_final"] is None else hx(o["old_final"]),
            "old_part": None if o["old_part"] is None else hx(o["old_part"]),
            "chunks": [hx(c) for c in o["chunks"]], "clean": o["clean"], "size": o["size"], "target": target,
            "dir_removed": bool(o.get("dir_removed"))}


def model_k(c):
    """Number of model steps (Model.write_steps / write_reader_steps / append_reader_steps)
    completed when the real run stopped, from the points it passed: a file-system call has
    completed when a LATER point was reached (the crash point itself sits before its call);
    `chunk` points fire after each chunk has been written."""
    if not c["crashed"]:
        return 10 ** 6                          # all steps
    done = [p.split(":")[-1] for p in c["passed"][:-1]]
    chunks = c["chunks_done"]
    renamed = 1 if "Rename" in done else 0
    if c["op"] == "append_reader":
        return chunks + renamed                 # opening the staging file is not a durable step
    # a create point reached again (or first) as the crash point means no create has succeeded yet: the retry after
    # ENOENT (directory removed behind the backend's back) re-opens only because the first open failed
    last = c["passed"][-1].split(":")[-1]
    created = 1 if (("CreateTemp" in done or "OpenFile" in done) and last not in ("CreateTemp", "OpenFile")) else 0
    if not created:
        return 0
    return 1 + created + chunks + renamed       # SMkdir :: SCreateTrunc :: appends ++ [SRename]


def wcase_to_coq(c):
    op = {"write": "OpWrite", "write_reader": "OpWriteReader", "append_reader": "OpAppendReader"}[c["op"]]
    return ("{| w_op := %s; w_old_final := %s; w_old_part := %s; w_dir_removed := %s; w_chunks := %s; w_clean := %s; w_size := %s; w_k := %d; "
            "w_obs_final := %s; w_obs_part := %s; w_obs_tmp := %s |}") % (
        op, chopt(unh(c["old_final"])), chopt(unh(c["old_part"])), cbool(bool(c.get("dir_removed"))), clist([ch(unh(x)) for x in c["chunks"]]),
        cbool(c["clean"]), cz(c["size"]), min(model_k(c), 1000), chopt(unh(c["obs_final"])), chopt(unh(c["obs_part"])), chopt(unh(c["obs_tmp"])))


def kcase_to_coq(c):
    vals = "None"
    if c.get("manifest") is not None:
        vals = "(Some (Build_kvals %s %s %s %s %s))" % (ch(c["san"]), cbool(c["manifest"]), cbool(c["sync"]), cbool(c["spoke"]), ch(c["ns"]))
    return "(Build_kcase verif_root%d %s %s %s)" % (c["root"], ch(c["key"]), obs_term(c), vals)


def obs_term(c):
    """observed path written relative to the root bytes when it starts with them (shorter case files)"""
    o, rb = c["obs"], c["root_bytes"]
    if o is not None and o.startswith(rb):
        return "(Some (app verif_rootb%d %s))" % (c["root"], ch(o[len(rb):]))
    return chopt(o)


def lcase_to_coq(c):
    return "{| l_a := %s; l_b := %s; l_clean := %s; l_rel := %s |}" % (ch(c["a"]), ch(c["b"]), ch(c["clean"]), chopt(c["rel"]))


HEADER = "From Coq Require Import List NArith ZArith Bool String.\nFrom Arc Require Import Storage.Model Storage.Hex.\nImport ListNotations.\nOpen Scope string_scope.\n"


def run_impl(keys, libs, crash, tag, methods=None):
    """keys: [(root_idx, bytes)], libs: [(a, b)], crash: [json dict], methods: [json dict] -> observations
    (the method observations are left in LAST_METHODS)"""
    global LAST_METHODS
    cases = {"keys": [{"root": r, "key": hx(k)} for r, k in keys], "lib": [{"a": hx(a), "b": hx(b)} for a, b in libs], "crash": crash,
             "methods": methods or []}
    out = vlib.run_go_harness("C08", "./internal/storage/", "^TestVerifStorage$",
                              {"internal/storage/zz_storage_verif_test.go": "harness/storage/storage_verif_test.go",
                               LOCAL_GO: instrument_local_go()},
                              cases, tag=tag)
    if len(out["keys"]) != len(keys) or len(out.get("methods") or []) != len(methods or []):
        raise vlib.TieBroken("C08 harness returned a different number of results")
    LAST_METHODS = out.get("methods") or []
    for o, m in zip(LAST_METHODS, methods or []):
        o["key_template"] = m["key"]                 # with the 0x01 O 0x01 placeholder, for replays
    keys = [(r, bytes.fromhex(o["key"])) for (r, _), o in zip(keys, out["keys"])]      # placeholders resolved by the harness
    vals = []
    nval = min(len(keys), FULL_OBS)
    if keys:
        vals = vlib.run_go_harness("C08", "./internal/edgesync/", "^TestVerifKeyValidators$",
                                   {"internal/edgesync/zz_keys_verif_test.go": "harness/storage/edgesync_keys_verif_test.go"},
                                   [{"key": hx(k)} for _, k in keys[:nval]], tag=tag + "_val")
    if len(out["keys"]) != len(keys) or len(vals) != nval or len(out["crash"]) != len(crash) or len(out["lib"]) != len(libs):
        raise vlib.TieBroken("C08 harness returned a different number of results")
    vals = vals + [{"manifest": None, "sync": None, "spoke": None, "ns": ""}] * (len(keys) - nval)
    roots = [bytes.fromhex(r) for r in out["roots"]]
    kc = []
    for (r, k), o, v in zip(keys, out["keys"], vals):
        kc.append({"root": r, "root_bytes": roots[r], "key": k, "obs": unh(o["obs"]), "san": bytes.fromhex(o["san"]),
                   "manifest": v["manifest"], "sync": v["sync"], "spoke": v["spoke"], "ns": bytes.fromhex(v["ns"])})
    lc = [{"a": a, "b": b, "clean": bytes.fromhex(o["clean"]), "rel": unh(o["rel"])} for (a, b), o in zip(libs, out["lib"])]
    return kc, lc, out["crash"], roots


def crash_batch(ops):
    """Every op at every crash point: targets 1..(#chunks + 8); the last target must complete."""
    batch, idx = [], []
    for i, o in enumerate(ops):
        for t in range(1, len(o["chunks"]) + MAX_POINTS + 1):
            batch.append(crash_json(o, t))
            idx.append(i)
    return batch, idx


def crash_collect(ops, idx, out):
    seen_complete = set()
    results = []
    for i, o in zip(idx, out):
        o["op_index"] = i
        if not o["crashed"]:
            if i in seen_complete:
                continue                      # the op already ran to completion for a smaller target
            seen_complete.add(i)
        results.append(o)
    missing = [i for i in range(len(ops)) if i not in seen_complete]
    if missing:
        raise vlib.TieBroken("operation %r still crashes at target %d: more crash points than expected" % (
            ops[missing[0]]["op"], len(ops[missing[0]]["chunks"]) + MAX_POINTS))
    return results


def root_header(roots):
    h = HEADER
    for i, r in enumerate(roots):
        h += "Definition verif_root%d : list bytes := %s.\n" % (i, clist([ch(x) for x in r.split(b"/") if x]) if r != b"/" else "(@nil bytes)")
        h += "Definition verif_rootb%d : bytes := %s.\n" % (i, ch(r))
    return h


def evaluate(kc, lc, wc, roots, name, mc=None):
    """Evaluate the four case families inside Coq (in parallel)."""
    from concurrent.futures import ThreadPoolExecutor
    jobs = []
    if mc:
        jobs.append(lambda: coq_check("C08", HEADER, "mcase", [mcase_to_coq(c) for c in mc], {"magree": "mcase_agrees", "moracle": "mcase_oracle"}, name=name + "_m"))
    if kc:
        jobs.append(lambda: coq_check("C08", root_header(roots), "kcase", [kcase_to_coq(c) for c in kc], {"kagree": "kcase_agrees", "koracle": "kcase_oracle"}, name=name + "_k"))
    if lc:
        jobs.append(lambda: coq_check("C08", HEADER, "lcase", [lcase_to_coq(c) for c in lc], {"lagree": "lcase_agrees"}, name=name + "_l"))
    if wc:
        jobs.append(lambda: coq_check("C08", HEADER, "wcase", [wcase_to_coq(c) for c in wc], {"wagree": "wcase_agrees", "woracle": "wcase_oracle"}, name=name + "_w"))
    r = {}
    with ThreadPoolExecutor(max_workers=4) as ex:
        for x in [f.result() for f in [ex.submit(j) for j in jobs]]:
            r.update(x)
    if mc:
        # the model comparison needs the planted files: skip it for accepted keys that resolve to a directory (e.g. the root itself)
        r["magree"] = [i for i in r["magree"] if mc[i]["plantable"] or mc[i]["resolved"] is None]
    for k in ("kagree", "koracle", "lagree", "wagree", "woracle", "magree", "moracle"):
        r.setdefault(k, [])
    return r


def setup():
    translate_params()


def warm():
    run_impl([(0, b"a")], [], [], "warm")


def shrink_key(root, key, pred):
    cur = key
    changed = True
    while changed and len(cur) > 0:
        changed = False
        for i in range(len(cur)):
            cand = cur[:i] + cur[i + 1:]
            if pred(root, cand):
                cur, changed = cand, True
                break
    return cur


def run(res, tier, seed):
    rng = random.Random(seed * 7919 + 8)
    t0 = time.time()
    try:
        params = translate_params()
    finally:
        res.stage("translate_params", t0)
    res.cov["params"] = params
    failed = vlib.std_proof_stage(res, "C08", AREA, MODULES, THEOREMS, extra_targets=["theories/Storage/Obligations.vo"])
    res.cov["trusted_base"] += [
        "file system oracle: process-crash model (a completed syscall is durable, rename(2) is atomic, a crash stops the operation between or inside write calls); power-loss reordering and fsync are NOT modelled",
        "os.CreateTemp returns a path different from the final path (hypothesis tmp <> final of C08_write_atomic)",
        "crash = panic at an overlay-inserted verifPoint, recovered by the harness (deferred file.Close of AppendReader runs); symlinks inside the root, Windows path rules and relative roots are not modelled",
        "Go's filepath.Clean/Join/Abs/Rel are modelled lexically (segment stack) and differential-tested against the real functions on every run",
        "C08_*_atomic assume the reader hands over exactly the intended bytes before a clean EOF (WriteReader ignores `size`: C08_write_reader_ignores_size); the callers' guards are part of C25/C27",
    ]

    scale = float(os.environ.get("VERIF_SCALE") or "1")          # for development runs on a busy machine
    nkeys = int((2500 if tier == "quick" else 60000) * scale)
    nlib = int((400 if tier == "quick" else 8000) * scale)
    nops = int((110 if tier == "quick" else 1500) * scale)
    t1 = time.time()
    keys = []
    for i, k in enumerate(EDGE_KEYS):
        for r in range(3):
            if r == 0 or len(k) < 1000:
                keys.append((r, k))
    for k in ROOT_AWARE_KEYS:
        for r in range(3):
            keys.append((r, k))
    while len(keys) < nkeys:
        keys.append((rng.choice([0, 0, 1, 2]), gen_root_aware_key(rng) if rng.random() < 0.12 else gen_key(rng)))
    libs = [gen_lib(rng, None) for _ in range(nlib)]
    ops = gen_crash_ops(rng, nops)
    # history "directory cached by an earlier write, then removed behind the backend's back", followed by every write
    # entry point with a reader that is complete / fails at the start, after the first byte, after all bytes
    for op in ("write", "write_reader", "append_reader"):
        for chunks, clean in (([b"a", b"bc", b"d"], True), ([b"a", b"bc", b"d"], False), ([b"x"], False), ([], False), ([], True), ([b"whole"], True)):
            if op == "write" and not clean:
                continue
            ops.insert(0, {"op": op, "old_final": rng.choice([None, b"OLD"]), "old_part": rng.choice([None, b"PRE"]), "chunks": chunks, "clean": clean,
                           "size": sum(len(x) for x in chunks), "dir_removed": True})
    # resumed append against a COMMITTED final file with no staging file (interrupted / short / exact reader):
    # AppendReader must fail to open the staging file and leave the final path alone
    for clean, size in ((False, 9), (True, 9), (True, 5), (False, 5)):
        ops.insert(0, {"op": "append_reader", "old_final": b"COMMITTED", "old_part": None, "chunks": [b"ta", b"il!"], "clean": clean, "size": size})
    # every branch of AppendReader's promotion test with a staging file present: exact, one short, one long,
    # and a reader that fails after exactly appendSize bytes
    for clean, size in ((True, 5), (True, 6), (True, 4), (False, 5), (True, 0)):
        ops.insert(0, {"op": "append_reader", "old_final": None, "old_part": b"PREFIX", "chunks": [b"ta", b"il!"], "clean": clean, "size": size})
    # an interrupted WriteReader left N bytes in the staging file; a fresh complete WriteReader of FEWER bytes
    # must truncate it: the promoted file is exactly the new bytes
    ops.insert(0, {"op": "write_reader", "old_final": None, "old_part": b"LEFTOVER-FROM-AN-INTERRUPTED-LONGER-TRANSFER", "chunks": [b"short", b"er"], "clean": True, "size": 7})
    ops.insert(0, {"op": "write_reader", "old_final": b"OLD", "old_part": b"0123456789", "chunks": [b"abc"], "clean": True, "size": 3})
    # WriteReader / Write replacing an existing file, reader failing after all bytes
    ops.insert(0, {"op": "write_reader", "old_final": b"OLD", "old_part": b"stale", "chunks": [b"new", b"data"], "clean": False, "size": 7})
    ops.insert(0, {"op": "write_reader", "old_final": b"OLD", "old_part": None, "chunks": [b"new", b"data"], "clean": True, "size": 7})
    ops.insert(0, {"op": "write", "old_final": b"OLD", "old_part": None, "chunks": [b"new", b"", b"data"], "clean": True, "size": 7})
    # witness of C08_write_reader_ignores_size: clean EOF after 4 of 10 announced bytes
    ops.insert(0, {"op": "write_reader", "old_final": None, "old_part": None, "chunks": [b"\x01\x02\x03\x04"], "clean": True, "size": 10})
    batch, bidx = crash_batch(ops)
    mcases = gen_method_cases(rng, int((250 if tier == "quick" else 4000) * scale))
    kc, lc, cout, roots = run_impl(keys, libs, batch, tier, methods=mcases)
    mc = LAST_METHODS
    wc = crash_collect(ops, bidx, cout)
    res.stage("impl_harness", t1)

    t2 = time.time()
    r = evaluate(kc, lc, wc, roots, "Cases_" + tier, mc=mc)
    res.stage("coq_eval", t2)

    nt_keys = {(c["root"], c["key"]) for c in kc if key_nontrivial(c["key"])}
    nt_crash = {json.dumps([c[k] for k in ("op", "old_final", "old_part", "dir_removed", "chunks", "clean", "size", "passed")]) for c in wc
                if c["crashed"] and not c["point"].endswith((":enter", ":return"))}
    nt_methods = {(c["key"], c["in_final"], c["in_part"]) for c in mc if c["canaries"] > 0 and key_nontrivial(bytes.fromhex(c["key"]))}
    res.cov["evaluations"] = len(kc) + len(lc) + len(wc) + len(mc)
    res.cov["distinct_nontrivial"] = len(nt_keys) + len(nt_crash) + len(nt_methods)
    res.cov["rule"] = ("keys: fixed edge list x 3 roots (one is '/') + generated hierarchical / traversal / malformed / raw-byte keys; non-trivial = key contains "
                       "'..', NUL, backslash, a leading '/' or a non-ASCII byte, distinct by (root, key).  crash: generated Write/WriteReader/AppendReader operations "
                       "(old final / old .part present or not, 0-4 chunks, clean or failing reader, matching or wrong size) run at EVERY crash point; non-trivial = stopped "
                       "strictly inside the operation, distinct by (operation, crash point).  lib: filepath.Clean/Rel operands (counted in evaluations only)")
    res.cov["model_vs_impl_disagreements"] = len(r["kagree"]) + len(r["lagree"]) + len(r["wagree"]) + len(r["magree"])
    res.cov["oracle_failures"] = len(r["koracle"]) + len(r["woracle"]) + len(r["moracle"])
    acc = sum(1 for c in kc if c["obs"] is not None)
    res.cov["histogram"] = {
        "keys": len(kc), "keys_nontrivial": len(nt_keys), "keys_accepted": acc, "keys_rejected": len(kc) - acc,
        "keys_with_nul": sum(1 for c in kc if b"\x00" in c["key"]), "keys_recreating_dotdot": sum(1 for c in kc if b".." in c["san"]),
        "keys_with_validators_observed": sum(1 for c in kc if c["manifest"] is not None),
        "keys_manifest_ok": sum(1 for c in kc if c["manifest"]), "keys_sync_ok": sum(1 for c in kc if c["sync"]), "keys_spoke_ok": sum(1 for c in kc if c["spoke"]),
        "per_root": {roots[i].decode("utf-8", "replace"): sum(1 for c in kc if c["root"] == i) for i in range(len(roots))},
        "method_cases": len(mc), "method_cases_with_canaries": sum(1 for c in mc if c["canaries"] > 0), "method_cases_rejected_key": sum(1 for c in mc if c["resolved"] is None),
        "canaries_planted": sum(c["canaries"] for c in mc),
        "lib_cases": len(lc), "crash_runs": len(wc), "crash_inside": len(nt_crash),
        "crash_by_op": {o: sum(1 for c in wc if c["op"] == o) for o in ("write", "write_reader", "append_reader")},
        "crash_points": {p: sum(1 for c in wc if c.get("point") == p) for p in sorted({c.get("point", "") for c in wc})},
    }

    def show_k(c):
        return {"root": roots[c["root"]].decode("utf-8", "replace"), "key_hex": hx(c["key"]), "key": c["key"].decode("utf-8", "backslashreplace"),
                "resolved": None if c["obs"] is None else c["obs"].decode("utf-8", "backslashreplace"), "manifest_ok": c["manifest"], "sync_ok": c["sync"]}
    res.cov["samples"] = [show_k(kc[7 * 3 + 0]), show_k(kc[len(kc) // 2]), {k: wc[len(wc) // 3][k] for k in ("op", "old_final", "old_part", "chunks", "clean", "size", "target", "point", "obs_final", "obs_part", "obs_tmp")}]

    # ---- verdicts ----
    reported = False
    for idx in r["koracle"]:
        c = kc[idx]

        def esc(root, key):
            k2, _, _, rr = run_impl([(root, key)], [], [], "shrink")
            return bool(evaluate(k2, [], [], rr, "Shrink")["koracle"])
        small = shrink_key(c["root"], c["key"], esc) if len(r["koracle"]) < 20 else c["key"]
        k2, _, _, rr = run_impl([(c["root"], small)], [], [], "shrink")
        shown = dict(show_k(k2[0]), root=rr[c["root"]].decode("utf-8", "replace"))
        res.violation("the real validatePath returned a path outside the root",
                      {"kind": "escape", "case": {"root": c["root"], "key_hex": hx(small)}, "resolved": shown})
        reported = True
        break
    for idx in r["moracle"]:
        c = mc[idx]
        res.violation("a LocalBackend method touched a file outside the storage root (%s)" % ", ".join((c["leaked"] or []) + ["changed " + x for x in (c["outside_changed"] or [])][:3] + ([] if c["list_ok"] else ["List"])),
                      {"kind": "method-escape", "method_case": {"key": c["key_template"], "in_final": c["in_final"], "in_part": c["in_part"]},
                       "key_text": bytes.fromhex(c["key"]).decode("utf-8", "backslashreplace"), "observed": c})
        reported = True
        break
    for idx in r["woracle"]:
        c = wc[idx]
        res.violation("a crash inside %s left neither the old nor the complete intended content at the final path" % c["op"],
                      {"kind": "torn-final", "case": {k: c[k] for k in ("op", "old_final", "old_part", "chunks", "clean", "size", "target", "dir_removed")}, "observed": c})
        reported = True
        break
    if failed and not reported:
        res.violation("proof obligation(s) no longer check: " + "; ".join(x for _, x in failed),
                      {"kind": "obligation-failed", "theorems": [t for t, _ in failed], "detail": [x for _, x in failed]}, no_input=True, suffix="obligation")
    if (r["kagree"] or r["lagree"] or r["wagree"] or r["magree"]) and not reported:
        if r["magree"]:
            c = mc[r["magree"][0]]
            res.violation("model and implementation disagree on what a LocalBackend method does with a key", {"kind": "correspondence", "correspondence": TIE_NAME,
                          "method_case": {"key": c["key_template"], "in_final": c["in_final"], "in_part": c["in_part"]}, "observed": c,
                          "disagreeing_cases": len(r["magree"]), "oracle_fails_on_impl": False}, no_input=True, suffix="corr")
        elif r["kagree"]:
            c = kc[r["kagree"][0]]

            def dis(root, key):
                k2, _, _, rr = run_impl([(root, key)], [], [], "shrink")
                return bool(evaluate(k2, [], [], rr, "Shrink")["kagree"])
            small = shrink_key(c["root"], c["key"], dis) if len(r["kagree"]) < 50 else c["key"]
            k2, _, _, _ = run_impl([(c["root"], small)], [], [], "shrink")
            o = evaluate(k2, [], [], roots, "Shrink")["koracle"]
            res.violation("model and implementation disagree on a key", {"kind": "correspondence", "correspondence": TIE_NAME,
                          "case": {"root": c["root"], "key_hex": hx(small)}, "observed": show_k(k2[0]), "disagreeing_cases": len(r["kagree"]),
                          "oracle_fails_on_impl": bool(o)}, no_input=not o, suffix="corr")
        elif r["wagree"]:
            c = wc[r["wagree"][0]]
            res.violation("model and implementation disagree on the directory contents after a crash", {"kind": "correspondence", "correspondence": TIE_NAME,
                          "case": {k: c[k] for k in ("op", "old_final", "old_part", "chunks", "clean", "size", "target", "dir_removed")}, "observed": c,
                          "model_steps_done": model_k(c), "disagreeing_cases": len(r["wagree"]), "oracle_fails_on_impl": False}, no_input=True, suffix="corr")
        else:
            c = lc[r["lagree"][0]]
            res.violation("model of filepath.Clean/Rel disagrees with the Go library", {"kind": "correspondence", "correspondence": TIE_NAME,
                          "lib_case": {"a_hex": hx(c["a"]), "b_hex": hx(c["b"])}, "disagreeing_cases": len(r["lagree"])}, no_input=True, suffix="corr")
    # the short-reader witness must behave as the model's necessity theorem says
    w0 = [c for c in wc if c["op"] == "write_reader" and c["size"] == 10 and c["chunks"] == ["01020304"] and not c["crashed"]]
    res.cov["write_reader_short_promoted"] = bool(w0 and w0[0]["obs_final"] == "01020304")


def replay(res, path):
    obj = json.load(open(path))
    if obj.get("method_case"):
        run_impl([], [], [], "replay", methods=[obj["method_case"]])
        mc = LAST_METHODS
        r = evaluate([], [], [], [], "Replay", mc=mc)
        print("observed:", mc[0], "| model disagrees:", bool(r["magree"]), "| touches outside the root:", bool(r["moracle"]))
        return 1 if (r["magree"] or r["moracle"]) else 0
    c = obj.get("case")
    if not c:
        print("replay file names no concrete case:", obj.get("summary"))
        return 1
    if "key_hex" in c:
        kc, _, _, roots = run_impl([(c["root"], bytes.fromhex(c["key_hex"]))], [], [], "replay")
        r = evaluate(kc, [], [], roots, "Replay")
        print("root:", roots[c["root"]], "key:", kc[0]["key"], "resolved:", kc[0]["obs"], "| model disagrees:", bool(r["kagree"]), "| escapes root:", bool(r["koracle"]))
        return 1 if (r["kagree"] or r["koracle"]) else 0
    _, _, out, _ = run_impl([], [], [c], "replay")
    r = evaluate([], [], out, [], "Replay")
    print("observed:", {k: out[0][k] for k in ("crashed", "point", "obs_final", "obs_part", "obs_tmp")}, "| model disagrees:", bool(r["wagree"]), "| torn final:", bool(r["woracle"]))
    return 1 if (r["wagree"] or r["woracle"]) else 0
